import WfProofs.EngineTelemetry
import WfProofs.RunnerInputRequired
import WfProofs.SerialLemmas
/-!
# C35 — step lifecycle telemetry on the stream is balanced and ordered

`Valid o cmds o'` (WfProofs/EngineTelemetry.lean) reads the `StepStateChanged`
publishes of a command list in order: `RUNNING(step, worker)` is legal only on a
closed slot and opens it, `NOT_RUNNING(step, worker)` only on an open slot and
closes it.  The runner writes a tick's publish commands to the stream in list
order and ticks one after the other, so validity of the concatenated command
lists *is* the ordering/balance property of the stream.
-/
open Engine

/-- all commands emitted by a run: the rewind at start-up, then one reduce per tick -/
def C35.cmds (cfg : Cfg) (pol : Policy) (st0 : State) (now0 : Int) (ticks : List (Tick × Int)) :
    State × List Cmd :=
  ticks.foldl (fun acc tn => let r := reduce cfg pol tn.1 acc.1 tn.2; (r.1, acc.2 ++ r.2))
    (rewind cfg st0 now0)

/-- **C35**: for every tick history that the reducer does not reject (no `crash`,
i.e. step results refer to invocations that are in progress), the whole sequence
of lifecycle publishes is well-ordered starting from "no slot open", and the
slots left open are exactly the invocations still in progress: every `RUNNING`
has been matched by exactly one later `NOT_RUNNING` on the same worker, except
for invocations that are still running. -/
theorem C35_stream_ordered (cfg : Cfg) (hwf : cfg.WF) (pol : Policy) (st0 : State) (now0 : Int)
    (ticks : List (Tick × Int)) (hnc : Cmd.crash ∉ (C35.cmds cfg pol st0 now0 ticks).2) :
    ∃ o', Valid (fun _ _ => false) (C35.cmds cfg pol st0 now0 ticks).2 o' ∧
      Agree cfg o' (C35.cmds cfg pol st0 now0 ticks).1 ∧ IdsInv cfg (C35.cmds cfg pol st0 now0 ticks).1 := by
  unfold C35.cmds at hnc ⊢
  obtain ⟨o0, hv0, ha0⟩ := rewind_valid cfg hwf st0 now0
  have hinv0 : IdsInv cfg (rewind cfg st0 now0).1 := rewind_idsInv_fresh cfg hwf st0 now0
  generalize rewind cfg st0 now0 = acc at hnc hv0 ha0 hinv0
  induction ticks generalizing acc o0 with
  | nil => exact ⟨o0, hv0, ha0, hinv0⟩
  | cons tn rest ih =>
    simp only [List.foldl_cons] at hnc ⊢
    have hnc1 : Cmd.crash ∉ (reduce cfg pol tn.1 acc.1 tn.2).2 := by
      intro hcr
      apply hnc
      exact foldl_cmds_mono cfg pol rest _ _ (by simp [hcr])
    obtain ⟨o1, hv1, ha1⟩ := reduce_valid cfg hwf pol tn.1 acc.1 tn.2 o0 hinv0 ha0 hnc1
    exact ih o1 _ hnc (hv0.append hv1) ha1 (reduce_idsInv cfg hwf pol tn.1 acc.1 tn.2 hinv0)

/-- one tick at a time (the form used above) -/
theorem C35_tick_ordered (cfg : Cfg) (hwf : cfg.WF) (pol : Policy) (tick : Tick) (st : State) (now : Int)
    (o : Open) (hinv : IdsInv cfg st) (hag : Agree cfg o st)
    (hnc : Cmd.crash ∉ (reduce cfg pol tick st now).2) :
    ∃ o', Valid o (reduce cfg pol tick st now).2 o' ∧ Agree cfg o' (reduce cfg pol tick st now).1 :=
  reduce_valid cfg hwf pol tick st now o hinv hag hnc

/-- An attempt that has to wait for capacity gets `PREPARING` (and no worker id) when it
is queued; `RUNNING` comes only when `addOrEnqueue` later starts it from the queue. -/
theorem C35_preparing_when_queued (att : Attempt) (step : Nat) (ss : StepState) (nw : Nat) (now : Int)
    (hfull : ¬ ss.inProg.length < nw) :
    addOrEnqueue att step ss nw now =
      ({ ss with queue := ss.queue ++ [att] },
        [.publish (.stepState .preparing step att.ev.ty .unset none)]) := by
  simp [addOrEnqueue, hfull]

/-- An `InputRequiredEvent` returned by a step is published exactly once by the tick that
carries it (and queued once). -/
theorem C35_input_required_once (cfg : Cfg) (pol : Policy) (step : Nat) (tickEv : Ev) (dc : Bool)
    (acc : ResAcc) (ev : Ev) (hk : ev.kind = .inputRequired) :
    (applyRes cfg pol step tickEv dc acc (.result (some ev))).cmds =
      acc.cmds ++ [.publish (.event ev)] ++ [.queueEvent { ev := ev, rc := acc.exec.rc } none none] := by
  simp [applyRes, hk]

/-! Non-vacuity: two workers, out-of-order completion, the freed lower slot is reused. -/
def C35.exCfg : Cfg := { steps := [{ name := 1, accepted := [5], numWorkers := 2, hasRetry := false }] }
def C35.exEv (u : Nat) : Ev := { ty := 5, kind := .plain, uid := u }
example :
    let r := C35.cmds C35.exCfg (fun _ _ _ _ => .stop) initState 0
      [(.addEvent { ev := C35.exEv 1 } none, 0), (.addEvent { ev := C35.exEv 2 } none, 0),
       (.stepResult 1 0 (C35.exEv 1) [.result none], 1), (.addEvent { ev := C35.exEv 3 } none, 2)]
    (r.2.contains .crash, (r.1.workers 1).inProg.map (·.wid)) = (false, [1, 0]) := by decide

/-! ## The published stream of a run (runner LTS)

The theorems above speak about command lists and assume that the reducer rejects no tick (`hnc`).  On the
runner LTS (`WfModel/Runner.lean`: `Runner.init` — which performs the rewind of in-progress work of a fresh
**or restored** state and executes its commands — followed by an arbitrary action list) the assumption is a
theorem (`C04_crash_unreachable`, `WfProofs/RunnerNoCrash.lean`), and what is published is the stream
itself: `Runner.stream`, written by `execCmds` in command order and cut at an exit command. -/

/-- the run: start-up (rewind + its commands) and then the schedule `acts` -/
abbrev C35.runOf (cfg : Cfg) (pol : Policy) (st0 : State) (now : Int) (start : Option Ev) (timeout : Option Nat)
    (acts : List Act) : Runner :=
  Runner.run cfg pol (Runner.init cfg st0 now start timeout) acts

/-- **C35 on the stream, no `hnc`**: for every configuration, policy oracle, initial state satisfying the
worker-slot invariant (every fresh state and every restored one: `C35_resumed_stream_ordered`), start event,
timeout and **every** schedule whose step bodies do not forge lifecycle events, the run never crashes, the
`StepStateChanged` sequence of the published stream — from its first event, i.e. including what the rewind
at start-up re-initiates — is a valid run of the open-slot automaton from "no slot open", and while the run
is live the open slots are exactly the invocations in progress. -/
theorem C35_run_stream_ordered (cfg : Cfg) (hwf : cfg.WF) (pol : Policy) (st0 : State) (h0 : IdsInv cfg st0)
    (now : Int) (start : Option Ev) (timeout : Option Nat) (acts : List Act)
    (hnf : ∀ a ∈ acts, a.noForge = true) :
    (C35.runOf cfg pol st0 now start timeout acts).outcome ≠ some .crashed ∧
    ∃ o', Valid (fun _ _ => false) (pubs (C35.runOf cfg pol st0 now start timeout acts).stream) o' ∧
      ((C35.runOf cfg pol st0 now start timeout acts).outcome = none →
        Agree cfg o' (C35.runOf cfg pol st0 now start timeout acts).st ∧
        IdsInv cfg (C35.runOf cfg pol st0 now start timeout acts).st) := by
  have hinv := run_telInv cfg hwf pol acts _ hnf (init_telInv cfg hwf st0 h0 now start timeout)
  refine ⟨?_, ?_⟩
  · exact run_not_crashed cfg hwf pol acts _ (init_runInv cfg hwf False st0 h0 now start timeout)
      (init_not_crashed cfg st0 now start timeout)
  · obtain ⟨o', hv, hag⟩ := hinv.tel
    exact ⟨o', hv, fun hn => ⟨hag hn, hinv.run.ids⟩⟩

/-- a restored context (`to_serialized` → JSON → `from_serialized`, model `roundtrip`) has nothing in progress,
so the theorem applies to **every resumed run**, whatever state `st` was serialised -/
theorem C35_resumed_stream_ordered (cfg : Cfg) (hwf : cfg.WF) (pol : Policy) (st : State)
    (now : Int) (start : Option Ev) (timeout : Option Nat) (acts : List Act)
    (hnf : ∀ a ∈ acts, a.noForge = true) :
    ∃ o', Valid (fun _ _ => false) (pubs (C35.runOf cfg pol (roundtrip cfg st) now start timeout acts).stream) o' ∧
      ((C35.runOf cfg pol (roundtrip cfg st) now start timeout acts).outcome = none →
        Agree cfg o' (C35.runOf cfg pol (roundtrip cfg st) now start timeout acts).st) := by
  have h0 : IdsInv cfg (roundtrip cfg st) := by
    intro c _
    rw [roundtrip_workers]
    split
    · simp [deserStep, IdsOk, usedIds]
    · exact idsOk_empty _
  obtain ⟨_, o', hv, hag⟩ := C35_run_stream_ordered cfg hwf pol _ h0 now start timeout acts hnf
  exact ⟨o', hv, fun hn => (hag hn).1⟩

/-- **counting form**: in every prefix of the published stream, for every (step, worker),
`#RUNNING − #NOT_RUNNING` is 0 or 1 (each `RUNNING` is matched by at most one `NOT_RUNNING`, never the
other way round, never two `RUNNING` in a row); and while the run is live the difference over the whole
stream is 1 exactly for the slots in progress (so every `RUNNING` of a finished invocation has been matched
by exactly one `NOT_RUNNING`). -/
theorem C35_running_minus_not_running (cfg : Cfg) (hwf : cfg.WF) (pol : Policy) (st0 : State) (h0 : IdsInv cfg st0)
    (now : Int) (start : Option Ev) (timeout : Option Nat) (acts : List Act)
    (hnf : ∀ a ∈ acts, a.noForge = true) :
    (∀ (pre : List Pub), pre <+: (C35.runOf cfg pol st0 now start timeout acts).stream → ∀ step wid,
      runCount step wid pre = notRunCount step wid pre ∨ runCount step wid pre = notRunCount step wid pre + 1) ∧
    ((C35.runOf cfg pol st0 now start timeout acts).outcome = none → ∀ c ∈ cfg.steps, ∀ wid,
      (runCount c.name wid (C35.runOf cfg pol st0 now start timeout acts).stream =
          notRunCount c.name wid (C35.runOf cfg pol st0 now start timeout acts).stream + 1 ↔
        wid ∈ usedIds ((C35.runOf cfg pol st0 now start timeout acts).st.workers c.name)) ∧
      (runCount c.name wid (C35.runOf cfg pol st0 now start timeout acts).stream =
          notRunCount c.name wid (C35.runOf cfg pol st0 now start timeout acts).stream ↔
        wid ∉ usedIds ((C35.runOf cfg pol st0 now start timeout acts).st.workers c.name))) := by
  obtain ⟨_, o', hv, hag⟩ := C35_run_stream_ordered cfg hwf pol st0 h0 now start timeout acts hnf
  refine ⟨?_, ?_⟩
  · intro pre ⟨suf, hs⟩ step wid
    rw [← hs, pubs_append] at hv
    obtain ⟨om, hm⟩ := Valid.prefix _ _ _ _ hv
    have hc := valid_count step wid pre _ _ hm
    cases hom : om step wid <;> simp only [hom, b2n, Bool.false_eq_true, ↓reduceIte] at hc <;> omega
  · intro hn c hc wid
    have hcnt := valid_count c.name wid _ _ _ hv
    have hiff := (hag hn).1 c hc wid
    cases ho : o' c.name wid
    · have hnot : wid ∉ usedIds ((C35.runOf cfg pol st0 now start timeout acts).st.workers c.name) := by
        intro hm; rw [hiff.mpr hm] at ho; cases ho
      simp only [ho, b2n, Bool.false_eq_true, ↓reduceIte] at hcnt
      exact ⟨⟨fun h => by omega, fun h => absurd h hnot⟩, ⟨fun _ => hnot, fun _ => by omega⟩⟩
    · have hin := hiff.mp ho
      simp only [ho, b2n, Bool.false_eq_true, ↓reduceIte] at hcnt
      exact ⟨⟨fun _ => hin, fun _ => by omega⟩, ⟨fun h => by omega, fun h => absurd hin h⟩⟩

/-- **`InputRequiredEvent` exactly once over a whole run**: for an event `e` of kind `inputRequired`, the
number of copies of `e` on the published stream equals, while the run is live, the number of times a step
*returned* `e` in the ticks the loop processed (its log) — each return is published exactly once, and no
later tick (re-queue for a retry of its consumer, routing, waiter wake-up, collect re-run, queue drain) nor
the rewind at start-up publishes it again; once an exit command has ended the run it is at most that number.
With the id discipline of the model (an event value, identified by its `uid`, is returned by one step
result: `logReturned e log = 1`) that is: exactly once.  Excluded by hypothesis are the three ways an event
reaches the stream by design without being returned: a step writing it itself, a publish-request tick, and
`wait_for_event(waiter_event = e)`. -/
theorem C35_input_required_once_per_run (cfg : Cfg) (pol : Policy) (st0 : State) (now : Int) (start : Option Ev)
    (timeout : Option Nat) (acts : List Act) (e : Ev) (hk : e.kind = .inputRequired)
    (hw : ∀ a ∈ acts, a.writes e = false)
    (hlog : ∀ tn ∈ (C35.runOf cfg pol st0 now start timeout acts).log, tn.1.foreign e = false) :
    streamCount e (C35.runOf cfg pol st0 now start timeout acts).stream ≤
        logReturned e (C35.runOf cfg pol st0 now start timeout acts).log ∧
      ((C35.runOf cfg pol st0 now start timeout acts).outcome = none →
        streamCount e (C35.runOf cfg pol st0 now start timeout acts).stream =
          logReturned e (C35.runOf cfg pol st0 now start timeout acts).log) :=
  run_ireInv cfg pol e hk acts _ hw hlog (init_ireInv cfg st0 now start timeout e)

/-! Non-vacuity.  (1) A **resumed** run: the restored context holds three queued invocations of a step with
two workers (nothing is in progress in a restored context); start-up re-initiates two of them
(`RUNNING` on workers 0 and 1 are the first two events of the stream), worker 1 finishes, the third
invocation takes its slot.  (2) A step returns an `InputRequiredEvent`, its consumer fails once and is
retried with delay 0 (the event travels through a re-queue command): one copy on the stream. -/
def C35.exResumed : State :=
  { isRunning := true,
    workers := fun s => if s = 1 then { queue := [{ ev := C35.exEv 1 }, { ev := C35.exEv 2 }, { ev := C35.exEv 3 }] } else {} }
def C35.exActs : List Act := [.workerDone 1 1 [.result none], .stepWrite (.event (C35.exEv 77)), .drain]
example : C35.exCfg.WF ∧ IdsInv C35.exCfg C35.exResumed ∧ (∀ a ∈ C35.exActs, a.noForge = true) :=
  ⟨by simp [Cfg.WF, Cfg.names, C35.exCfg],
   by intro c _; simp [C35.exResumed, IdsOk, usedIds]; split <;> simp,
   by decide⟩
example :
    let r := C35.runOf C35.exCfg (fun _ _ _ _ => .stop) C35.exResumed 0 none none C35.exActs
    (r.stream.filter Pub.isSlotChange, r.outcome, usedIds (r.st.workers 1),
      runCount 1 1 r.stream, notRunCount 1 1 r.stream, runCount 1 0 r.stream, notRunCount 1 0 r.stream) =
    ([.stepState .running 1 5 .unset (some 0), .stepState .running 1 5 .unset (some 1),
      .stepState .notRunning 1 5 .noneType (some 1), .stepState .running 1 5 .unset (some 1)],
     none, [0, 1], 2, 1, 1, 0) := by decide

def C35.ireCfg : Cfg :=
  { steps := [{ name := 1, accepted := [5], numWorkers := 1, hasRetry := false },
              { name := 2, accepted := [2], numWorkers := 1, hasRetry := true }] }
def C35.ire : Ev := { ty := 2, kind := .inputRequired, uid := 9 }
def C35.ireActs : List Act :=
  [.drain, .workerDone 1 0 [.result (some C35.ire)], .drain, .drain, .workerDone 2 0 [.failed 7 0], .drain, .drain,
   .workerDone 2 0 [.result none], .drain]
example :
    let r := C35.runOf C35.ireCfg (fun _ _ _ _ => .retry 0) initState 0 (some (C35.exEv 1)) none C35.ireActs
    (C35.ireActs.all (fun a => !a.writes C35.ire), r.log.all (fun tn => !tn.1.foreign C35.ire),
      r.log.length, streamCount C35.ire r.stream, logReturned C35.ire r.log, r.outcome) =
    (true, true, 6, 1, 1, none) := by decide
example : C35.ire.kind = .inputRequired := rfl
