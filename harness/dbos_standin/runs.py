"""Real `DBOSRuntime` (+ real control loop, real `InternalDBOSAdapter`, real `TaskJournal`,
real `SqliteJournalCrud`, real `SqliteStateStore`) on the stand-in `dbos`, under the virtual-time
loop, with crash snapshots and recovery.

A *process* here is: one fresh `VLoop`, one `DBOS` instance, one `DBOSRuntime`, one freshly
built `Workflow` object.  A *crash* is modelled by its only observable effect: the durable
state (SQLite file + stand-in system database) as it was at some instant.  The fresh run takes
a snapshot of the durable state after every durable write (and immediately before / after the
journal INSERT commits), keeps running to its end (= the uninterrupted run), and every snapshot
can then be *recovered* in a new process: `DBOS.launch()` re-executes the PENDING workflow from
its recorded inputs, exactly like DBOS's startup recovery.
"""
from __future__ import annotations

import asyncio
import concurrent.futures
import contextvars
import json
import os
import random
import shutil
import sqlite3
import tempfile
from dataclasses import dataclass, field
from typing import Any

from ..vloop import VLoop, run_virtual
from . import install

install()

import llama_agents.dbos.runtime as RT  # noqa: E402
import llama_agents.dbos.journal.crud as CRUD  # noqa: E402
import llama_agents.dbos.journal.task_journal as TJ  # noqa: E402
from dbos import DBOS  # noqa: E402
from dbos._store import SysDB  # noqa: E402
from workflows.runtime import control_loop as CL  # noqa: E402

from ..engine import live as LIVE  # noqa: E402

RUN_ID = "run-c27"
TIME_HORIZON = 20000.0  # virtual seconds; the pull task's recv deadline (1 day) lies beyond it


class InlineExecutor(concurrent.futures.ThreadPoolExecutor):
    """`run_in_executor` runs the callable at once, in an *empty* contextvars context (an
    executor thread has no DBOS context - that is why the adapter uses it), so runs are
    deterministic."""

    def submit(self, fn, /, *a, **k):  # type: ignore[override]
        from dbos._context import get_local_dbos_context

        c = get_local_dbos_context()
        if c is not None and c.is_step():
            _Obs.effect_fids.add(c.step_fid)  # a step body performed a non-memoised effect (ctx.send_event)
        f: concurrent.futures.Future = concurrent.futures.Future()
        try:
            f.set_result(contextvars.Context().run(fn, *a, **k))
        except BaseException as e:  # noqa: BLE001
            f.set_exception(e)
        return f


def patch_clocks() -> None:
    LIVE.patch_clocks()
    if getattr(RT, "time", None) is not LIVE._VCLOCK:
        RT.time = LIVE._VCLOCK  # type: ignore[attr-defined]


# --------------------------------------------------------------------------
# canonical forms


def canon_tick(t: Any) -> str:
    try:
        d = json.loads(t.model_dump_json())
    except Exception:  # noqa: BLE001
        return repr(t)
    return json.dumps(_strip(d), sort_keys=True)


def _strip(d: Any) -> Any:
    if isinstance(d, dict):
        return {k: _strip(v) for k, v in d.items() if k not in ("traceback",)}
    if isinstance(d, list):
        return [_strip(x) for x in d]
    return d


def canon_event(e: Any) -> str:
    try:
        return type(e).__name__ + ":" + json.dumps(json.loads(e.model_dump_json()), sort_keys=True)
    except Exception:  # noqa: BLE001
        return repr(e)


def canon_envelope(env: Any) -> str:
    """an event as the workflow store holds it (EventEnvelopeWithMetadata / its JSON)"""
    try:
        d = env if isinstance(env, dict) else json.loads(env.model_dump_json())
        return str(d.get("type")) + ":" + json.dumps(d.get("value"), sort_keys=True)
    except Exception:  # noqa: BLE001
        return repr(env)


def canon_result(outcome: tuple) -> str:
    kind, v = outcome
    if kind == "result":
        return "result:" + json.dumps(v, sort_keys=True, default=repr)
    if kind == "error":
        return f"error:{type(v).__name__}:{v}"
    return f"{kind}:{v}"


# --------------------------------------------------------------------------
# observation (this process only; nothing in /repo is touched)


@dataclass
class WaitCall:
    mode: str  # "replay" | "fresh"  (journal.next_expected_key() at entry is / is not None)
    expected: str | None
    inflight: list[str]  # keys of running + pending, in list order
    timeout: float | None
    returned: str | None  # key of the completed task, None = timeout / nothing to wait for
    recorded: bool  # a journal INSERT happened during this call
    fallback: bool  # replay mode but the expected key was not among the tasks
    done_at_return: list[str]  # keys of all tasks that were done when the call returned
    ticks_before: int  # number of ticks reduced before this call
    stream_before: int
    journal_after: list = field(default_factory=list)  # (seq_num, key) rows of the run after the call, in id order
    fid_at_entry: int = -1  # ctx.function_id when the call was entered
    purged: bool = False  # purge_operations_from ran during this call
    entries_after: list | None = None  # TaskJournal._entries after the call
    idx_after: int = 0  # TaskJournal._replay_index after the call
    insert_seq: int | None = None  # seq_num of the INSERT made during the call
    replaying_after: bool = False  # adapter.is_replaying() right after the call (what the tick of this completion is published under)
    table_after: list | None = None  # C27 history monitors: (seq_num, key) rows of the run READ BACK from the table after the call, in id order


@dataclass
class Trace:
    ticks: list[str] = field(default_factory=list)
    waits: list[WaitCall] = field(default_factory=list)
    journal_rows: list[tuple] = field(default_factory=list)  # final (seq_num, task_key) ordered by id
    stream: list[str] = field(default_factory=list)
    outcome: tuple = ("pending", None)
    store: Any = None
    snapshots: list[dict] = field(default_factory=list)
    step_entries: list[tuple] = field(default_factory=list)
    notes: list[str] = field(default_factory=list)
    actions: list[int] = field(default_factory=list)
    purges: list[tuple] = field(default_factory=list)  # (current_fid, deleted function ids)
    ops: list[tuple] = field(default_factory=list)  # operation_outputs at the end
    inserts: list[tuple] = field(default_factory=list)  # (seq_num, key, ticks reduced so far, stream length so far)
    final_stream: list[str] = field(default_factory=list)
    final_wf_stream: list[str] = field(default_factory=list)  # only the events published by the control loop (memoised writes)
    journal_now: list = field(default_factory=list)  # (seq_num, key) rows so far (initial rows + INSERTs seen)
    # server mode (the control loop talks to _ServerInternalRunAdapter over the DBOS adapter; real SqliteWorkflowStore)
    store_appends: list[tuple] = field(default_factory=list)  # (ticks reduced so far, event) appended to the store by THIS process
    store_events: list[str] = field(default_factory=list)  # the run's rows of the store's events table at the end, in sequence order
    handler: tuple | None = None  # (status, result or None) of the handler row at the end
    store_base: int = 0  # rows of the events table this process started with
    published: list[tuple] = field(default_factory=list)  # (ticks reduced so far, event) the control loop handed to the server adapter


class _Obs:
    trace: Trace | None = None
    db: SysDB | None = None
    snap_filter: Any = None  # callable(kind, info) -> bool, or None = no snapshots
    installed = False
    effect_fids: set = set()


def _take_snapshot(kind: str, **info: Any) -> None:
    tr, db = _Obs.trace, _Obs.db
    if tr is None or db is None or _Obs.snap_filter is None:
        return
    meta = {"kind": kind, "index": len(tr.snapshots), "ticks": len(tr.ticks), "journal": _journal_rows(db.db_path),
            "stream": len([o for o in db.stream_origin.get((RUN_ID, "published_events"), []) if o == "wf"]), "writes": db.writes, "waits": len(tr.waits),
            # a step body that already performed a non-memoised effect is still executing: on recovery it is
            # re-executed (steps are at-least-once) and the effect happens twice
            "dirty": bool(_Obs.effect_fids & set(RT._get_dbos_instance().inflight_steps)),
            "stored": tr.store_base + len(tr.store_appends), **info}
    if not _Obs.snap_filter(kind, meta):
        return
    meta["state"] = db.snapshot()
    tr.snapshots.append(meta)


def _journal_rows(path: str, run_id: str = RUN_ID) -> list[tuple]:
    conn = sqlite3.connect(path)
    try:
        try:
            return [tuple(r) for r in conn.execute(
                "SELECT seq_num, task_key FROM workflow_journal WHERE run_id=? ORDER BY id", (run_id,))]
        except sqlite3.OperationalError:
            return []
    finally:
        conn.close()


def _store_rows(path: str, run_id: str = RUN_ID) -> tuple[list[str], tuple | None]:
    """the run's rows of the server workflow store: published events in sequence order, handler (status, result)"""
    conn = sqlite3.connect(path)
    try:
        try:
            evs = [canon_envelope(json.loads(r[0])) for r in conn.execute(
                "SELECT event_json FROM events WHERE run_id=? ORDER BY sequence", (run_id,))]
            hs = list(conn.execute("SELECT status, result FROM handlers WHERE run_id=?", (run_id,)))
        except sqlite3.OperationalError:
            return [], None
    finally:
        conn.close()
    handler = None
    if hs:
        status, result = hs[0]
        try:
            rj = json.loads(result) if result else None
            result = None if rj is None else json.dumps(rj.get("value", rj) if isinstance(rj, dict) else rj, sort_keys=True)
        except Exception:  # noqa: BLE001
            pass
        handler = (status, result)
    return evs, handler


def build_stack(rt: Any, wf: Any, server: dict | None) -> Any:
    """`server` = None: the workflow runs on the bare DBOSRuntime.  Otherwise the runtime chain a WorkflowServer builds
    around it: ServerRuntimeDecorator([EventInterceptorDecorator](DBOSRuntime)) with the runtime's own workflow store
    (DBOSRuntime.create_workflow_store(): the real SqliteWorkflowStore on the system database file), so that the control
    loop publishes through the real _ServerInternalRunAdapter."""
    if not server:
        return rt
    from llama_agents.server._runtime.server_runtime import ServerRuntimeDecorator

    inner = rt
    if server.get("intercept"):
        from llama_agents.server._runtime.event_interceptor import EventInterceptorDecorator

        inner = EventInterceptorDecorator(rt)
    srt = ServerRuntimeDecorator(inner, store=rt.create_workflow_store(), persistence_backoff=[])
    wf._switch_runtime(srt)
    return srt


HANDLER_ID = "h-c27"


def install_observers() -> None:
    if _Obs.installed:
        return
    _Obs.installed = True
    patch_clocks()
    orig_reduce = CL._reduce_tick

    def reduce_wrapper(tick: Any, init: Any, now_seconds: float, run_id: str | None = None) -> Any:
        import sys

        res = orig_reduce(tick, init, now_seconds, run_id=run_id)
        if _Obs.trace is not None and sys._getframe(1).f_code.co_name == "_process_tick":
            _Obs.trace.ticks.append(canon_tick(tick) + f"@{now_seconds!r}")
            if len(_Obs.trace.ticks) > 3000:
                raise LIVE.RunawayRun()
        return res

    CL._reduce_tick = reduce_wrapper  # type: ignore[assignment]

    orig_insert = CRUD.SqliteJournalCrud.insert

    async def insert_wrapper(self: Any, run_id: str, seq_num: int, task_key: str) -> None:
        tr = _Obs.trace
        _take_snapshot("journal_pre_insert", seq=seq_num, key=task_key)
        await orig_insert(self, run_id, seq_num, task_key)
        if tr is not None:
            tr.inserts.append((seq_num, task_key, len(tr.ticks), len(tr.stream)))
            tr.journal_now.append((seq_num, task_key))
            tr._recorded_flag = True  # type: ignore[attr-defined]
        _take_snapshot("journal_post_insert", seq=seq_num, key=task_key)

    CRUD.SqliteJournalCrud.insert = insert_wrapper  # type: ignore[method-assign]

    orig_purge = CRUD.SqliteJournalCrud.purge_operations_from

    async def purge_wrapper(self: Any, run_id: str, function_id: int) -> None:
        db = _Obs.db
        before = db.recorded_fids(run_id) if db is not None else []
        await orig_purge(self, run_id, function_id)
        after = db.recorded_fids(run_id) if db is not None else []
        if _Obs.trace is not None:
            gone = [f for f in before if f not in after]
            _Obs.trace.purges.append((function_id, gone))
            _Obs.trace._purged_flag = True  # type: ignore[attr-defined]

    CRUD.SqliteJournalCrud.purge_operations_from = purge_wrapper  # type: ignore[method-assign]

    # the server's workflow store (server mode): every committed row is a stop point
    import llama_agents.server._store.sqlite.sqlite_workflow_store as SWS

    orig_append = SWS.SqliteWorkflowStore.append_event

    async def append_wrapper(self: Any, run_id: str, event: Any) -> None:
        await orig_append(self, run_id, event)
        tr = _Obs.trace
        if tr is not None and run_id == RUN_ID:
            tr.store_appends.append((len(tr.ticks), canon_envelope(event)))
            _take_snapshot("store_post_event", nth=len(tr.store_appends), event=canon_envelope(event).split(":", 1)[0])

    SWS.SqliteWorkflowStore.append_event = append_wrapper  # type: ignore[method-assign]

    orig_update = SWS.SqliteWorkflowStore.update

    async def update_wrapper(self: Any, handler: Any) -> None:
        await orig_update(self, handler)
        if _Obs.trace is not None and getattr(handler, "run_id", None) == RUN_ID:
            _take_snapshot("store_post_status", status=str(getattr(handler, "status", None)))

    SWS.SqliteWorkflowStore.update = update_wrapper  # type: ignore[method-assign]

    import llama_agents.server._runtime.server_runtime as SRT

    orig_publish = SRT._ServerInternalRunAdapter.write_to_event_stream

    async def publish_wrapper(self: Any, event: Any) -> None:
        tr = _Obs.trace
        if tr is not None and self.run_id == RUN_ID:
            try:
                from llama_agents.client.protocol.serializable_events import EventEnvelopeWithMetadata as _Env

                tr.published.append((len(tr.ticks), canon_envelope(_Env.from_event(event))))
            except Exception as e:  # noqa: BLE001
                tr.notes.append(f"publication not observed: {e!r}")
        await orig_publish(self, event)

    SRT._ServerInternalRunAdapter.write_to_event_stream = publish_wrapper  # type: ignore[method-assign]

    orig_wait = RT.InternalDBOSAdapter.wait_for_next_task

    async def wait_wrapper(self: Any, running: list, pending: list, timeout: float | None = None) -> Any:
        tr = _Obs.trace
        if tr is None:
            return await orig_wait(self, running, pending, timeout)
        # what the journal will answer at entry (load is idempotent; the adapter loads again)
        journal = self._get_or_create_journal()
        await journal.load()
        expected = journal.next_expected_key()
        keys = [nt.key for nt in running] + [p.key for p in pending]
        ticks0, stream0 = len(tr.ticks), len(tr.stream)
        tr._recorded_flag = False  # type: ignore[attr-defined]
        tr._purged_flag = False  # type: ignore[attr-defined]
        from dbos._context import get_local_dbos_context

        c = get_local_dbos_context()
        fid0 = c.function_id if c is not None else -1
        res = await orig_wait(self, running, pending, timeout)
        named = list(running) + list(res.started)
        ret = None
        if res.completed is not None:
            for nt in named:
                if nt.task is res.completed:
                    ret = nt.key
        tr.waits.append(WaitCall(
            mode="replay" if expected is not None else "fresh", expected=expected, inflight=keys, timeout=timeout,
            returned=ret, recorded=bool(getattr(tr, "_recorded_flag", False)),
            fallback=expected is not None and bool(keys) and expected not in keys,
            done_at_return=[nt.key for nt in named if nt.task.done()],
            ticks_before=ticks0, stream_before=stream0, journal_after=list(tr.journal_now), fid_at_entry=fid0,
            purged=bool(getattr(tr, "_purged_flag", False)),
            entries_after=None if journal._entries is None else list(journal._entries), idx_after=journal._replay_index,
            insert_seq=tr.inserts[-1][0] if getattr(tr, "_recorded_flag", False) and tr.inserts else None,
            replaying_after=bool(self.is_replaying()),
            table_after=_journal_rows(self._db_path, self._run_id) if getattr(self, "_db_path", None) else None))
        return res

    RT.InternalDBOSAdapter.wait_for_next_task = wait_wrapper  # type: ignore[method-assign]


# --------------------------------------------------------------------------
# one process


class _Proc:
    def __init__(self, spec: dict, rng: random.Random, replay_actions: list[int] | None, workdir: str):
        self.spec = spec
        self.run = LIVE.Run(spec, rng, replay_actions)
        self.trace = Trace()
        self.workdir = workdir
        self.finished = False
        self.db: SysDB | None = None

    def hook(self, loop: VLoop) -> bool:
        """scheduler at quiescence: open one waiting gate, or let (near) virtual time pass"""
        run = self.run
        options: list[tuple[str, Any]] = [("gate", k) for k in list(run.waiting)]
        near = [h for h in loop._scheduled if not h._cancelled and h._when <= loop.time() + TIME_HORIZON / 2]  # type: ignore[attr-defined]
        if near and options:
            options.append(("time", None))
        if not options:
            return False
        kind, arg = options[run.choose(len(options))]
        if kind == "time":
            return False
        run.waiting.remove(arg)
        run.gates[arg].set()
        return True


def _observe_db(proc: _Proc, db: SysDB, snap_filter: Any) -> None:
    proc.db = db
    proc.trace.journal_now = _journal_rows(db.db_path)
    proc.trace.store_base = len(_store_rows(db.db_path)[0])
    _Obs.trace = proc.trace
    _Obs.db = db
    _Obs.snap_filter = snap_filter
    _Obs.effect_fids = set()

    def ob(kind: str, info: dict) -> None:
        if kind == "op_output" and info.get("stream") == "published_events":
            items = db.streams.get((RUN_ID, "published_events"), [])
            proc.trace.stream.append(canon_event(items[-1]))
        if kind == "stream" and info.get("step_fid") is not None:
            _Obs.effect_fids.add(info["step_fid"])  # a step body wrote to the stream directly (not memoised)
        _take_snapshot(kind, **{k: v for k, v in info.items() if k in ("fid", "name", "status")})

    db.observers.append(ob)


async def _finish(proc: _Proc, db: SysDB, ext: Any, rt: Any) -> None:
    tr = proc.trace
    try:
        res = await ext.get_result()
        tr.outcome = ("result", getattr(res, "result", None))
    except LIVE.RunawayRun:
        tr.outcome = ("runaway", None)
    except asyncio.CancelledError:
        tr.outcome = ("aborted", None)
        raise
    except BaseException as e:  # noqa: BLE001
        tr.outcome = ("error", e)
    proc.finished = True


def _collect(proc: "_Proc") -> None:
    """durable facts at the end of the process (also when it never finished)"""
    db, tr = proc.db, proc.trace
    if db is None:
        return
    tr.journal_rows = _journal_rows(db.db_path)
    tr.ops = db.recorded_fids(RUN_ID)
    items = db.streams.get((RUN_ID, "published_events"), [])
    origin = db.stream_origin.get((RUN_ID, "published_events"), [])
    tr.final_stream = [canon_event(e) for e in items]
    tr.final_wf_stream = [canon_event(e) for e, o in zip(items, origin) if o == "wf"]
    try:
        conn = sqlite3.connect(db.db_path)
        try:
            rows = list(conn.execute("SELECT state_json FROM workflow_state WHERE run_id=?", (RUN_ID,)))
        finally:
            conn.close()
        tr.store = json.loads(rows[0][0]) if rows else None
    except Exception as e:  # noqa: BLE001
        tr.store = f"<unavailable {type(e).__name__}: {e}>"
    tr.store_events, tr.handler = _store_rows(db.db_path)
    db.close()


def _quiet_unraisable(unraisable: Any) -> None:
    """coroutines of an abandoned process are closed by the garbage collector outside their asyncio
    context; the engine's `run_context` then fails to reset its ContextVar token.  Teardown noise of
    the harness (a real process would simply be gone), not a fact about the run."""
    import sys

    if isinstance(unraisable.exc_value, ValueError) and "was created in a different Context" in str(unraisable.exc_value):
        return
    sys.__unraisablehook__(unraisable)


def _run_process(proc: _Proc, main_body: Any) -> None:
    import sys

    install_observers()
    sys.unraisablehook = _quiet_unraisable  # stays: abandoned coroutines are collected whenever the GC gets to them
    try:
        def hook_factory(loop: VLoop):
            return lambda: proc.hook(loop)

        async def main(loop: VLoop) -> None:
            loop.set_default_executor(InlineExecutor())
            await main_body(loop)

        try:
            run_virtual(main, max_time=1000.0 + TIME_HORIZON, hook_factory=hook_factory)
        except TimeoutError:
            if proc.trace.outcome[0] in ("pending", "aborted"):
                proc.trace.outcome = ("deadlock", None)
    finally:
        _Obs.trace = None
        _Obs.db = None
        _Obs.snap_filter = None
        _collect(proc)
        try:
            DBOS.destroy()
        except Exception:  # noqa: BLE001
            pass
    proc.trace.actions = list(proc.run.trace.actions)
    proc.trace.step_entries = [s for s in proc.run.trace.steps if s[0] in ("enter", "exit")]


def fresh_run(spec: dict, seed: int, *, snap_filter: Any = None, replay_actions: list[int] | None = None,
              workdir: str | None = None, server: dict | None = None) -> Trace:
    """the uninterrupted run; `snap_filter(kind, meta) -> bool` selects crash snapshots"""
    own = workdir is None
    workdir = workdir or tempfile.mkdtemp(prefix="c27_", dir="/dev/shm" if os.path.isdir("/dev/shm") else None)
    proc = _Proc(spec, random.Random(seed), replay_actions, workdir)
    try:
        async def body(loop: VLoop) -> None:
            db = SysDB(os.path.join(workdir, "sys.db"))
            _observe_db(proc, db, snap_filter)
            DBOS(config={"name": "c27", "_standin_sysdb": db})
            rt = RT.DBOSRuntime()
            with rt.registering():
                wf = LIVE.build_workflow(spec, proc.run)
            top = build_stack(rt, wf, server)
            await top.launch()
            if server:
                await top.run_workflow_handler(HANDLER_ID, wf.workflow_name, RUN_ID)  # what _WorkflowService does before the start
            from ..engine import evtypes as ET

            handler = wf.run(start_event=ET.T0(uid=1, k=spec.get("start_k")), run_id=RUN_ID)
            await _finish(proc, db, handler._external_adapter if hasattr(handler, "_external_adapter") else rt.get_external_adapter(RUN_ID), rt)

        _run_process(proc, body)
    finally:
        if own:
            shutil.rmtree(workdir, ignore_errors=True)
    return proc.trace


def recover_run(spec: dict, snapshot: dict, seed: int, *, replay_actions: list[int] | None = None,
                snap_filter: Any = None, server: dict | None = None) -> Trace:
    """a new process started on the durable state `snapshot["state"]`"""
    workdir = tempfile.mkdtemp(prefix="c27r_", dir="/dev/shm" if os.path.isdir("/dev/shm") else None)
    proc = _Proc(spec, random.Random(seed), replay_actions, workdir)
    try:
        async def body(loop: VLoop) -> None:
            db = SysDB.from_snapshot(snapshot["state"], os.path.join(workdir, "sys.db"))
            _observe_db(proc, db, snap_filter)
            proc.trace.stream = [canon_event(e) for e, o in zip(db.streams.get((RUN_ID, "published_events"), []),
                                                                db.stream_origin.get((RUN_ID, "published_events"), [])) if o == "wf"]
            DBOS(config={"name": "c27", "_standin_sysdb": db})
            rt = RT.DBOSRuntime()
            with rt.registering():
                wf = LIVE.build_workflow(spec, proc.run)
            top = build_stack(rt, wf, server)
            await top.launch()  # DBOS.launch() inside re-executes the PENDING workflow
            await _finish(proc, db, rt.get_external_adapter(RUN_ID), rt)

        _run_process(proc, body)
    finally:
        shutil.rmtree(workdir, ignore_errors=True)
    return proc.trace
