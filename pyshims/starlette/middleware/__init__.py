class Middleware:
    def __init__(self, cls, *args, **kwargs):
        self.cls = cls
        self.args = args
        self.kwargs = kwargs
