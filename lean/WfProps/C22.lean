import WfModel.GenResource
import WfProofs.ResourceProps
import WfProofs.ResourceProgress
import WfProofs.ResourceVal
import WfProofs.ResourceLock
/-!
# C22 — resource injection honors caching and cycle detection under concurrency

Property theorems only (helper lemmas: `WfProofs/Resource*.lean`; model:
`WfModel/Resource.lean`).  Quantification: every dependency graph `g` of cached /
non-cached, sync / async, possibly raising factories (any size, any shape, cycles
and self-cycles included); every schedule `acts` -- an arbitrary list of `spawn`
(a step invocation declaring any list of resources, or a bare `manager.get`),
`tick` (one await-free micro-step of the running task), `resume` (open the gate
of a suspended factory / run a waiter that was handed the lock) and `cancel` (throw
`CancelledError` into an invocation suspended in an async factory or queued on the scope
lock), so any number of invocations interleaved -- and cancelled -- at every point where
Python can switch tasks.

Observables: `Injected g s t x v` -- object `v` was handed to invocation `t` for
resource `x`, as an argument of a factory it called or as an argument of the step;
`countMade` -- how often a factory returned; the `Outcome` of a finished invocation;
`Acyc g x` -- no dependency cycle is reachable from `x`.
-/
open Resource

/-- the configuration the current tree implements (regenerated from the sources) -/
def C22_treeCfg : Cfg :=
  { excl := Gen.Resource.scopesExclusive, skipEmpty := Gen.Resource.partialSkipsEmpty }

/-- The sources still have the statement shapes the model transcribes: `_get` (cycle
check, cached value, scoped value, mark, resolve, store, un-mark in `finally`),
`_Resource.call` (dependencies in signature order through `manager.get`, then the
factory), `get` always inside a scope, `resolution_scope` holding the per-loop lock,
re-entrant through the task-local `_held_scopes`, and `partial` resolving the declared
resources in order inside one scope (entered for every step, or only for steps that
declare resources -- both are modelled, `Cfg.skipEmpty`). -/
theorem C22_source_shape :
    Gen.Resource.getShape = ["cycle-check", "cached-hit", "scoped-hit", "mark", "try:resolve", "try:store-cached",
      "try:store-scoped", "try:return", "finally:unmark"] ∧
    Gen.Resource.callShape = ["deps:args={}", "deps:for-dep-in-order:await-manager.get", "deps:return-args",
      "call:resolve-deps-first", "call:factory(**args)-await-if-async", "call:return-result", "resolve=call"] ∧
    Gen.Resource.scopeShape = ["async @asynccontextmanager", "held-read", "if-held{", "held:yield", "held:return",
      "lock{", "lock:held-add", "lock:depth+=1", "lock:try:yield", "lock:finally:depth-=1",
      "lock:finally:clear-if-zero", "lock:finally:held-reset"] ∧
    Gen.Resource.lockShape = ["loop", "lock-per-loop", "return-lock"] ∧
    Gen.Resource.managerGetShape = ["async-scope{_get}"] ∧
    (Gen.Resource.partialShape = ["if-resources:async-scope{for-resource-in-order:await-manager.get}"] ∨
     Gen.Resource.partialShape = ["async-scope{for-resource-in-order:await-manager.get}"]) ∧
    Gen.Resource.cycleMessage = "Circular resource dependency detected: " ∧
    C22_treeCfg.excl = true :=
  ⟨rfl, rfl, rfl, rfl, rfl, by decide, rfl, rfl⟩

/-! ## the clauses of the property, for a configuration `c` -/

/-- a cached resource is created once per manager -/
def C22_statement_cached_once (c : Cfg) : Prop :=
  ∀ (g : Graph) (acts : List Act) (x : Nat), isCached g x = true → countMade (run c g acts).log x ≤ 1

/-- ... and the same object is injected everywhere -/
def C22_statement_cached_same (c : Cfg) : Prop :=
  ∀ (g : Graph) (acts : List Act) (x t v t' v' : Nat), isCached g x = true →
    Injected g (run c g acts) t x v → Injected g (run c g acts) t' x v' → v = v'

/-- a non-cached resource is shared inside one invocation and fresh for each -/
def C22_statement_scope_isolation (c : Cfg) : Prop :=
  ∀ (g : Graph) (acts : List Act) (x t v t' v' : Nat), isCached g x = false →
    Injected g (run c g acts) t x v → Injected g (run c g acts) t' x v' → (t = t' ↔ v = v')

/-- what is injected for `x` was returned by the factory of `x` (for a non-cached
resource: to that very invocation) -/
def C22_statement_injected_by_factory (c : Cfg) : Prop :=
  ∀ (g : Graph) (acts : List Act) (x t v : Nat), Injected g (run c g acts) t x v →
    ∃ t0, Ev.made t0 x v ∈ (run c g acts).log ∧ (isCached g x = false → t0 = t)

/-- no false cycle error: a reported chain is a dependency path that returns to one
of its members, and some requested resource is not well-founded -/
def C22_statement_no_false_cycle (c : Cfg) : Prop :=
  ∀ (g : Graph) (acts : List Act) (t : Nat) (k : Task) (chain : List Nat),
    (run c g acts).tasks[t]? = some k → k.phase = .done (.cycle chain) →
    (∃ r, r ∈ k.reqs ∧ ¬ Acyc g r) ∧ CycleChain g chain

/-- a genuine cycle is never missed: an invocation that completes got one object per
declared resource and none of them reaches a cycle -/
def C22_statement_cycle_reported (c : Cfg) : Prop :=
  ∀ (g : Graph) (acts : List Act) (t : Nat) (k : Task) (objs : List Nat),
    (run c g acts).tasks[t]? = some k → k.phase = .done (.ok objs) →
    objs.length = k.reqs.length ∧ ∀ r, r ∈ k.reqs → Acyc g r

/-- the only other ways to fail: a factory that raises, a dangling dependency -/
def C22_statement_outcome_sound (c : Cfg) : Prop :=
  ∀ (g : Graph) (acts : List Act) (t : Nat) (k : Task),
    (run c g acts).tasks[t]? = some k →
    (∀ x, k.phase = .done (.failed x) → ∃ r, g[x]? = some r ∧ r.fails = true) ∧
    (∀ x, k.phase = .done (.badRef x) → g[x]? = none)

/-- the whole property -/
def C22_statement (c : Cfg) : Prop :=
  C22_statement_cached_once c ∧ C22_statement_cached_same c ∧ C22_statement_scope_isolation c ∧
  C22_statement_injected_by_factory c ∧ C22_statement_no_false_cycle c ∧ C22_statement_cycle_reported c ∧
  C22_statement_outcome_sound c

/-! ## exclusive scopes (the repaired code): every schedule -/

/-- Task trees.  An invocation created by a *finished* invocation -- in a copy of its
context, as `asyncio.create_task` does -- is an ordinary invocation: the creator's
context lists no open scope of the manager, whatever happened before, so the new task
takes the lock like anybody else.  Hence every theorem here, quantifying over arbitrary
`spawn`s, covers resolve-then-spawn trees of any depth (a parent-workflow step with
injected resources running a child workflow; user code warming a resource before a
fan-out). -/
theorem C22_created_by_finished_is_fresh (c : Cfg) (g : Graph) (acts : List Act) (p : Nat) (k : Task)
    (o : Outcome) (reqs : List Nat) (bare : Bool)
    (h : (run c g acts).tasks[p]? = some k) (hd : k.phase = .done o) :
    heldIn (run c g acts) p = false ∧
    stepFrom c g (run c g acts) p reqs bare = step c g (run c g acts) (.spawn reqs bare) := by
  have hh : heldIn (run c g acts) p = false := by
    unfold heldIn
    rw [h]
    simp [hd]
  refine ⟨hh, ?_⟩
  unfold stepFrom
  rw [h]
  simp [hd, hh]

example : ∃ (g : Graph) (acts : List Act) (k : Task) (s : St),
    (run ⟨true, true⟩ g acts).tasks[0]? = some k ∧ k.phase = .done (.ok [0]) ∧
    stepFrom ⟨true, true⟩ g (run ⟨true, true⟩ g acts) 0 [0] false = some s ∧ s.tasks.length = 2 :=
  ⟨[⟨true, false, false, [], .obj⟩], [.spawn [0] false, .tick, .tick, .tick, .tick], _, _, rfl, rfl, rfl, rfl⟩

/-- At most one invocation is inside a resolution scope, whatever the schedule. -/
theorem C22_mutual_exclusion (b : Bool) (g : Graph) (acts : List Act) (t t' : Nat) (k k' : Task)
    (h1 : (run ⟨true, b⟩ g acts).tasks[t]? = some k) (h2 : (run ⟨true, b⟩ g acts).tasks[t']? = some k')
    (a1 : k.phase = .active) (a2 : k'.phase = .active) : t = t' :=
  (inv_run_excl ⟨true, b⟩ rfl g acts).solo h1 h2 a1 a2

example : ∃ (g : Graph) (acts : List Act) (k : Task), (run ⟨true, true⟩ g acts).tasks[0]? = some k ∧ k.phase = .active :=
  ⟨[⟨true, true, false, [], .obj⟩], [.spawn [0] false, .tick, .tick, .tick, .spawn [0] false, .tick], _, rfl, rfl⟩

theorem C22_cached_created_once (b : Bool) : C22_statement_cached_once ⟨true, b⟩ :=
  fun g acts x hc => ((inv_run_excl ⟨true, b⟩ rfl g acts).madeC x hc).1

example : isCached [⟨true, true, false, [], .obj⟩] 0 = true ∧
    countMade (run ⟨true, true⟩ [⟨true, true, false, [], .obj⟩]
      [.spawn [0] false, .tick, .tick, .tick, .spawn [0] false, .tick, .resume 0, .tick, .resume 1, .tick, .tick, .tick]).log 0 = 1 := by
  decide

/-- *Fresh for each step invocation, shared within one dependency resolution*, as a
count: inside one invocation a factory returns at most once, however many consumers
the resource has in that resolution (the diamond `b -> d <- c` builds `d` once).  For a
resource whose value is an interned singleton (`None`, `0`, `""`, `False`) the count is
the only observable of this clause -- the identity of what is injected cannot differ. -/
theorem C22_created_once_per_invocation (b : Bool) (g : Graph) (acts : List Act) (t x : Nat) :
    countMadeBy (run ⟨true, b⟩ g acts).log t x ≤ 1 :=
  (inv_run_excl ⟨true, b⟩ rfl g acts).madeN t x

/-- the diamond over a non-cached, `None`-valued `d` (resource 0), requested twice:
each invocation builds `d` exactly once -/
example :
    let g : Graph := [⟨false, false, false, [], .pyNone⟩, ⟨false, false, false, [0], .obj⟩,
      ⟨false, false, false, [0], .obj⟩, ⟨false, false, false, [1, 2], .obj⟩]
    let s := settle ⟨true, true⟩ g 40 (stepD ⟨true, true⟩ g (settle ⟨true, true⟩ g 40 (run ⟨true, true⟩ g [.spawn [3] false]))
      (.spawn [3] false))
    s.tasks.map (·.phase) = [.done (.ok [3]), .done (.ok [7])] ∧
    countMadeBy s.log 0 0 = 1 ∧ countMadeBy s.log 1 0 = 1 ∧ countMade s.log 0 = 2 := by
  decide

/-- **The value a factory returns plays no part**: a graph and the same graph with
every value replaced by an ordinary object have the same runs -- the same factory
calls, caches, lock hand-offs and outcomes, on every schedule and in either
configuration.  In particular every clause above holds unchanged for resources whose
value is `None`, `0`, `""`, `[]` or `False`: a stored falsy value is a cache hit. -/
theorem C22_value_independent (c : Cfg) (g : Graph) (acts : List Act) :
    run c (eraseVals g) acts = run c g acts :=
  run_eraseVals c g acts

/-- a cached, async, `None`-valued resource requested by two overlapping invocations is
created once; the graph is not its own erasure -/
example :
    let g : Graph := [⟨true, true, false, [], .pyNone⟩]
    eraseVals g ≠ g ∧ (valueOf g 0).truthy = false ∧ isCached g 0 = true ∧
    countMade (run ⟨true, true⟩ g
      [.spawn [0] false, .tick, .tick, .tick, .spawn [0] false, .tick, .resume 0, .tick, .resume 1, .tick, .tick, .tick]).log 0 = 1 := by
  decide

theorem C22_cached_same_object (b : Bool) : C22_statement_cached_same ⟨true, b⟩ :=
  fun g acts _ _ _ _ _ hc h1 h2 => (inv_run_excl ⟨true, b⟩ rfl g acts).cached_same hc h1 h2

theorem C22_scope_isolation (b : Bool) : C22_statement_scope_isolation ⟨true, b⟩ :=
  fun g acts _ _ _ _ _ hc h1 h2 => (inv_run_excl ⟨true, b⟩ rfl g acts).scoped hc h1 h2

theorem C22_injected_by_factory (b : Bool) : C22_statement_injected_by_factory ⟨true, b⟩ :=
  fun g acts _ _ _ hi => (inv_run_excl ⟨true, b⟩ rfl g acts).injected_made hi

theorem C22_no_false_cycle (b : Bool) : C22_statement_no_false_cycle ⟨true, b⟩ :=
  fun g acts t k _ hk hd => (inv_run_excl ⟨true, b⟩ rfl g acts).finOk t k _ hk hd

theorem C22_cycle_reported (b : Bool) : C22_statement_cycle_reported ⟨true, b⟩ :=
  fun g acts _ _ _ hk hd => (inv_run_excl ⟨true, b⟩ rfl g acts).ok_acyclic hk hd

theorem C22_outcome_sound (b : Bool) : C22_statement_outcome_sound ⟨true, b⟩ :=
  fun g acts t k hk =>
    ⟨fun _ hd => (inv_run_excl ⟨true, b⟩ rfl g acts).finOk t k _ hk hd,
     fun _ hd => (inv_run_excl ⟨true, b⟩ rfl g acts).finOk t k _ hk hd⟩

/-- *Always reported*: every await-free section of a resolution ends -- after
finitely many micro-steps the running invocation is suspended at an async factory,
waits for the lock, or has finished with its outcome -- on every graph, cyclic or
not, from every reachable state (the cycle check cuts each dependency path that
returns to itself; without it resolution would recurse forever). -/
theorem C22_resolution_terminates (b : Bool) (g : Graph) (acts : List Act) :
    ∃ n, (settle ⟨true, b⟩ g n (run ⟨true, b⟩ g acts)).cur = none :=
  settle_terminates _ (inv_run_excl ⟨true, b⟩ rfl g acts)

/-- a self-cycle behind a dependency: three ticks after the spawn the invocation has
finished with the cycle error -/
example : (settle ⟨true, true⟩ [⟨true, false, false, [1], .obj⟩, ⟨false, false, false, [1], .obj⟩] 5
    (run ⟨true, true⟩ [⟨true, false, false, [1], .obj⟩, ⟨false, false, false, [1], .obj⟩] [.spawn [0] false])).tasks.map (·.phase)
    = [.done (.cycle [0, 1, 1])] := by decide

/-- **Cancellation leaves nothing behind.**  Whatever mix of completions, factory errors,
cycle errors and cancellations a schedule contains -- a `cancel` hits an invocation
suspended inside an async factory at any depth of its dependency chain, or queued on the
scope lock -- whenever no invocation is inside a scope (in particular once every
invocation has ended) the manager's resolution bookkeeping is neutral: `_resolving` is
empty, the depth is 0 and the scoped cache is empty.  So the next resolution on the same
manager (a step that was queued behind the cancelled one, the next run of the same
workflow instance) starts from the state a new manager has; with `C22_no_false_cycle`
(stated over the same schedules, `cancel` included) it cannot be refused with a cycle error
unless the graph has one. -/
theorem C22_neutral_after_cancellations (b : Bool) (g : Graph) (acts : List Act)
    (h : ∀ (t : Nat) (k : Task), (run ⟨true, b⟩ g acts).tasks[t]? = some k → k.phase ≠ .active) :
    (run ⟨true, b⟩ g acts).resolving = [] ∧ (run ⟨true, b⟩ g acts).depth = 0 ∧ (run ⟨true, b⟩ g acts).scache = [] :=
  (inv_run_excl ⟨true, b⟩ rfl g acts).idle h

/-- `repo -> conn` (`conn` async): invocation 0 resolves `repo` and is cancelled inside
`conn`'s factory with `_resolving = [repo, conn]`; invocation 1, queued behind it for
`conn`, takes the lock and gets its object; invocation 2 is cancelled in the queue.  All
ended, nothing marked, and a later invocation resolves `repo`. -/
example :
    let g : Graph := [⟨true, true, false, [], .obj⟩, ⟨true, false, false, [0], .obj⟩]
    let c : Cfg := ⟨true, true⟩
    let s0 := settle c g 40 (run c g [.spawn [1] false])
    let s1 := settle c g 40 (stepD c g (settle c g 40 (stepD c g s0 (.spawn [0] false))) (.spawn [1] false))
    let s2 := settle c g 40 (stepD c g (settle c g 40 (stepD c g s1 (.cancel 0))) (.resume 1))
    let s3 := stepD c g s2 (.cancel 2)
    let s4 := settle c g 40 (stepD c g (settle c g 40 (stepD c g s3 (.resume 1))) (.spawn [1] false))
    s1.resolving = [1, 0] ∧ s1.tasks.map (·.phase) = [.active, .lockWait, .lockWait] ∧
    s3.tasks.map (·.phase) = [.done .cancelled, .active, .done .cancelled] ∧ s3.resolving = [0] ∧
    s4.tasks.map (·.phase) = [.done .cancelled, .done (.ok [1]), .done .cancelled, .done (.ok [2])] ∧
    s4.resolving = [] ∧ s4.depth = 0 ∧ s4.scache = [] ∧ s4.lock = none := by
  decide

/-- ... and the scope lock is free: once every invocation has ended -- it returned, raised,
or was cancelled, inside a factory or in the queue of the lock, also after it had been
handed the lock but before it ran -- nobody holds the lock and nobody waits for it
(invariant: the lock is held by, or has been handed to, a live invocation; the queue holds
distinct waiting invocations, none of them the holder). -/
theorem C22_lock_free_after_all_ended (b : Bool) (g : Graph) (acts : List Act)
    (h : ∀ (t : Nat) (k : Task), (run ⟨true, b⟩ g acts).tasks[t]? = some k → ∃ o, k.phase = .done o) :
    (run ⟨true, b⟩ g acts).lock = none ∧ (run ⟨true, b⟩ g acts).waiters = [] :=
  lock_free_of_all_done (lock_run ⟨true, b⟩ rfl g acts) h

/-- invocation 0 is cancelled inside the async factory with invocation 1 queued: the lock is
handed to 1, which is cancelled before it runs -/
example :
    let s := run ⟨true, true⟩ [⟨true, true, false, [], .obj⟩]
      [.spawn [0] false, .tick, .tick, .tick, .spawn [0] false, .tick, .cancel 0, .cancel 1]
    s.tasks.map (·.phase) = [.done .cancelled, .done .cancelled] ∧ s.lock = none ∧ s.waiters = [] ∧
    (run ⟨true, true⟩ [⟨true, true, false, [], .obj⟩]
      [.spawn [0] false, .tick, .tick, .tick, .spawn [0] false, .tick, .cancel 0]).lock = some 1 := by
  decide

/-- **The property, concurrent, for the tree as it is**: all clauses, for every graph
and every interleaving -- stated for the configuration regenerated from the
sources, so it only checks while the tree's scopes are exclusive. -/
theorem C22_concurrent : C22_statement C22_treeCfg := by
  have h : C22_treeCfg = ⟨true, Gen.Resource.partialSkipsEmpty⟩ := by
    simp only [C22_treeCfg]; congr
  rw [h]
  exact ⟨C22_cached_created_once _, C22_cached_same_object _, C22_scope_isolation _, C22_injected_by_factory _,
    C22_no_false_cycle _, C22_cycle_reported _, C22_outcome_sound _⟩

/-! ## sequential semantics of the unlocked code, and why the lock is needed -/

/-- **Sequential semantics, all graphs**: under the old scope discipline (and under
the new one) every clause holds for every schedule that starts an invocation only
when the previous ones have finished (`serialFrom`, a decidable guard on the
schedule; suspensions at async factories inside an invocation are unrestricted). -/
theorem C22_sequential (c : Cfg) (g : Graph) (acts : List Act) (hs : serialFrom c g St.init acts = true) :
    (∀ x, isCached g x = true → countMade (run c g acts).log x ≤ 1) ∧
    (∀ x t v t' v', isCached g x = true → Injected g (run c g acts) t x v → Injected g (run c g acts) t' x v' → v = v') ∧
    (∀ x t v t' v', isCached g x = false → Injected g (run c g acts) t x v → Injected g (run c g acts) t' x v' →
      (t = t' ↔ v = v')) ∧
    (∀ (t : Nat) (k : Task) (chain : List Nat), (run c g acts).tasks[t]? = some k → k.phase = .done (.cycle chain) →
      (∃ r, r ∈ k.reqs ∧ ¬ Acyc g r) ∧ CycleChain g chain) ∧
    (∀ (t : Nat) (k : Task) (objs : List Nat), (run c g acts).tasks[t]? = some k → k.phase = .done (.ok objs) →
      objs.length = k.reqs.length ∧ ∀ r, r ∈ k.reqs → Acyc g r) := by
  have h := inv_run_serial c g acts hs
  exact ⟨fun x hc => (h.madeC x hc).1, fun _ _ _ _ _ hc h1 h2 => h.cached_same hc h1 h2,
    fun _ _ _ _ _ hc h1 h2 => h.scoped hc h1 h2, fun t k _ hk hd => h.finOk t k _ hk hd,
    fun _ _ _ hk hd => h.ok_acyclic hk hd⟩

/-- ... and there, too, every await-free section ends. -/
theorem C22_resolution_terminates_sequential (c : Cfg) (g : Graph) (acts : List Act)
    (hs : serialFrom c g St.init acts = true) : ∃ n, (settle c g n (run c g acts)).cur = none :=
  settle_terminates _ (inv_run_serial c g acts hs)

/-- a serial schedule with two invocations, the first suspended at an async factory
in between -/
example : serialFrom ⟨false, false⟩ [⟨false, true, false, [], .obj⟩] St.init
    [.spawn [0] false, .tick, .tick, .tick, .resume 0, .tick, .tick, .spawn [0, 0] false, .tick, .tick, .tick] = true := by
  decide

def C22_witness_graph_one : Graph := [⟨true, true, false, [], .obj⟩]

/-- two invocations resolve the same async factory; the second starts while the
first is suspended at the factory's await -/
def C22_witness_false_cycle : List Act :=
  [.spawn [0] false, .tick, .tick, .tick, .spawn [0] false, .tick, .tick]

/-- **Refuted for the unlocked code** (F20): the second invocation gets
`Circular resource dependency detected: r0 -> r0` on a graph with one resource and
no dependency at all. -/
theorem C22_refuted_unlocked_false_cycle (b : Bool) : ¬ C22_statement_no_false_cycle ⟨false, b⟩ := by
  intro h
  have hrun : ∃ k, (run ⟨false, b⟩ C22_witness_graph_one C22_witness_false_cycle).tasks[1]? = some k ∧
      k.phase = .done (.cycle [0, 0]) ∧ k.reqs = [0] := by
    cases b <;> exact ⟨_, rfl, rfl, rfl⟩
  obtain ⟨k, hk, hd, hreq⟩ := hrun
  obtain ⟨⟨r, hr, hna⟩, _⟩ := h _ _ 1 k _ hk hd
  rw [hreq] at hr
  simp at hr; subst hr
  exact hna (Acyc.mk 0 ⟨true, true, false, [], .obj⟩ rfl (by simp))

/-- `r0` non-cached sync, `r1` cached async -/
def C22_witness_graph_two : Graph := [⟨false, false, false, [], .obj⟩, ⟨true, true, false, [], .obj⟩]

/-- invocation 0 resolves `r0`, then suspends in `r1`; invocation 1 asks for `r0` -/
def C22_witness_scope_leak : List Act :=
  [.spawn [0, 1] false, .tick, .tick, .tick, .tick, .tick,
   .spawn [0] false, .tick, .tick, .tick,
   .resume 0, .tick]

/-- **Refuted for the unlocked code**: the non-cached object created for
invocation 0 is injected into invocation 1 (the scoped cache is shared and only
cleared when no scope is open). -/
theorem C22_refuted_unlocked_scope_leak (b : Bool) : ¬ C22_statement_scope_isolation ⟨false, b⟩ := by
  intro h
  have h0 : Injected C22_witness_graph_two (run ⟨false, b⟩ C22_witness_graph_two C22_witness_scope_leak) 0 0 0 := by
    cases b <;> exact Or.inr ⟨_, [0, 1], 0, rfl, rfl, rfl, rfl⟩
  have h1 : Injected C22_witness_graph_two (run ⟨false, b⟩ C22_witness_graph_two C22_witness_scope_leak) 1 0 0 := by
    cases b <;> exact Or.inr ⟨_, [0], 0, rfl, rfl, rfl, rfl⟩
  have := (h _ _ 0 0 0 1 0 rfl h0 h1).mpr rfl
  cases this

/-- `r0`, `r1` non-cached async -/
def C22_witness_graph_three : Graph := [⟨false, true, false, [], .obj⟩, ⟨false, true, false, [], .obj⟩]

/-- invocation 0 (`partial`, `r0`) suspends; a bare `get(r1)` joins its scope and
suspends; 0 finishes and closes the scope; the bare get then stores its value in the
scoped cache although no scope is open; invocation 2 starts when everything has
finished and is handed that stale object. -/
def C22_witness_stale_scope : List Act :=
  [.spawn [0] false, .tick, .tick, .tick,
   .spawn [1] true, .tick, .tick, .tick,
   .resume 0, .tick,
   .resume 1, .tick,
   .spawn [1] false, .tick, .tick, .tick]

/-- **Refuted for the unlocked code**: a value leaks into an invocation that does
not even overlap with the one it was created for. -/
theorem C22_refuted_unlocked_stale_scope (b : Bool) : ¬ C22_statement_scope_isolation ⟨false, b⟩ := by
  intro h
  have h1 : Injected C22_witness_graph_three (run ⟨false, b⟩ C22_witness_graph_three C22_witness_stale_scope) 1 1 1 := by
    cases b <;> exact Or.inr ⟨_, [1], 0, rfl, rfl, rfl, rfl⟩
  have h2 : Injected C22_witness_graph_three (run ⟨false, b⟩ C22_witness_graph_three C22_witness_stale_scope) 2 1 1 := by
    cases b <;> exact Or.inr ⟨_, [1], 0, rfl, rfl, rfl, rfl⟩
  have := (h _ _ 1 1 1 2 1 rfl h1 h2).mpr rfl
  cases this
