"""Name-only import-surface shim for `asyncpg` (absent from the sandbox).

Only so that modules which `import asyncpg` for type annotations / the PostgreSQL
halves (`journal/crud.py`, `journal/lifecycle.py`, `runtime.py`, `_pool.py`, the
postgres stores) import.  Every callable raises: nothing PostgreSQL is ever run
by the verification harness (the PostgreSQL backends are *modelled / trusted*,
never exercised).
"""
from __future__ import annotations

from typing import Any


class _Absent(RuntimeError):
    pass


def _absent(*_a: Any, **_k: Any) -> Any:
    raise _Absent("asyncpg is a name-only shim in the verification sandbox; PostgreSQL paths cannot run")


class Pool:  # pragma: no cover - never instantiated
    def __init__(self, *a: Any, **k: Any) -> None:
        _absent()


class Connection:  # pragma: no cover
    def __init__(self, *a: Any, **k: Any) -> None:
        _absent()


class Record(dict):  # pragma: no cover
    pass


class PostgresError(Exception):
    pass


class UniqueViolationError(PostgresError):
    pass


class InterfaceError(Exception):
    pass


async def create_pool(*a: Any, **k: Any) -> Any:  # pragma: no cover
    _absent()


async def connect(*a: Any, **k: Any) -> Any:  # pragma: no cover
    _absent()


from . import pool  # noqa: E402,F401
