import WfModel.Validate
import Driver.Engine
open Validate Drv.Engine
namespace Drv.Validate

def hierP : P Hier := do
  let user ← counted (counted nat)
  pure { bases := builtinBases ++ user }

def stepP : P Step := do
  let name ← nat
  let accepted ← counted nat
  let returns ← counted nat
  let skip ← counted nat
  let handler ← bool
  let forSteps ← opt (counted nat)
  let maxRec ← nat
  pure { name, accepted, returns, skip, handler, forSteps, maxRec }

def sorted (l : List Nat) : List Nat := l.mergeSort
def sNats (l : List Nat) : String := if l.isEmpty then "-" else ",".intercalate (l.map toString)
def sSet (l : List Nat) : String := sNats (sorted l)

def sErr : Err → String
  | .noSteps => "noSteps"
  | .noStart => "noStart"
  | .multiStart => "multiStart"
  | .noStop => "noStop"
  | .multiStop => "multiStop"
  | .unknownCheck => "unknownCheck"
  | .acceptsStop ss => s!"acceptsStop {sNats ss}"
  | .consumedNotProduced es => s!"consumedNotProduced {sSet es}"
  | .producedNotConsumed es => s!"producedNotConsumed {sSet es}"
  | .handlerMaxRec => "handlerMaxRec"
  | .handlerStructure => "handlerStructure"
  | .graph g => s!"graph R={sSet g.unreach} T={sSet g.dangling} D={sSet g.deadEnd}"

def sRes : Except Err Bool → String
  | .ok b => s!"ok {sBool b}"
  | .error e => s!"err {sErr e}"

def stepNodes (l : List Node) : List Nat := l.filterMap fun | .step n => some n | .ev _ => none
def evNodes (l : List Node) : List Nat := l.filterMap fun | .ev c => some c | .step _ => none
def sNodes (l : List Node) : String := s!"{sSet (stepNodes l)}/{sSet (evNodes l)}"

def okInput (H : Hier) (W : List Step) : Bool :=
  H.wf && decide (names W).Nodup &&
  W.all fun s => (s.accepted ++ s.returns).all fun c => decide (c < H.bases.length)

def rootBits (H : Hier) (c : Cls) : String :=
  String.join ([cEvent, cStart, cStop, cInputRequired, cHumanResponse, cStepFailed].map fun r => sBool (isSub H c r))

def step (_ : Unit) (line : String) : Unit × String :=
  match tokens line with
  | "V" :: ts =>
    match (do let H ← hierP; let W ← counted stepP; let skip ← counted nat; pure (H, W, skip)) ts with
    | some ((H, W, skip), []) => if okInput H W then ((), sRes (validateWorkflow H W skip)) else ((), "bad-op")
    | _ => ((), "bad-op")
  | "W" :: ts =>
    match (do let H ← hierP; let W ← counted stepP; let skip ← counted nat; pure (H, W, skip)) ts with
    | some ((H, W, skip), []) => if okInput H W then ((), sRes (constructAndValidate H W skip)) else ((), "bad-op")
    | _ => ((), "bad-op")
  | "G" :: ts =>
    match (do let H ← hierP; let W ← counted stepP; let start ← nat; pure (H, W, start)) ts with
    | some ((H, W, start), []) =>
      if okInput H W && decide (start < H.bases.length) then
        ((), s!"F={sNodes (fwdReach H W start)} R={sNodes (revReach H W)} E={sSet (eventTypes W)}")
      else ((), "bad-op")
    | _ => ((), "bad-op")
  | "D" :: ts =>
    match (do let seeds ← counted nat; let es ← counted (do let a ← nat; let b ← nat; pure (a, b)); pure (seeds, es)) ts with
    | some ((seeds, es), []) =>
      ((), sSet (stepNodes (dfs (es.map fun e => (Node.step e.1, Node.step e.2)) (seeds.map Node.step))))
    | _ => ((), "bad-op")
  | "I" :: ts =>
    match hierP ts with
    | some (H, []) =>
      if H.wf then ((), " ".intercalate ((List.range H.bases.length).map fun c => s!"{c}:{rootBits H c}")) else ((), "bad-op")
    | _ => ((), "bad-op")
  | _ => ((), "bad-op")

end Drv.Validate
