"""Generator plugin for C28 (M11 `Migrate`): regenerates lean/WfModel/GenMigrate.lean.

From /repo's *current* sources, on every run:

* the shipped SQLite migration directory: every directory entry (name, full text) in
  directory order reversed (the model sorts, as `iter_migration_files` does), and for each
  `.sql` file the abstract DDL effect obtained by parsing its statements (`parse_sql`);
* the constants of the version-header parser (`migration_utils.py`): regex source, which
  line is searched, `search` vs `match`, the `.sql` suffix, the sort key;
* the constants of `migrate.py`: `range(lo, legacy_version + off)` of the bootstrap, the
  guard `legacy_version > 0`, the package literal the bootstrap seeds, the default source,
  the skip condition and the try/except/else shape of the apply loop.

`parse_sql` is also used by harness/props/c28.py for the synthetic migration streams, so the
same (trusted, tied by correspondence with real SQLite on every run) SQL reader feeds both.
"""
from __future__ import annotations

import ast
import os
import re
from typing import Any

from ..boot import repo_path
from ..translate import lean_str

LEAN_MODULE = "GenMigrate"

SERVER_STORE = "packages/llama-agents-server/src/llama_agents/server/_store"
MIGRATE_PY = SERVER_STORE + "/sqlite/migrate.py"
UTILS_PY = SERVER_STORE + "/migration_utils.py"
STORE_INIT = SERVER_STORE + "/__init__.py"
MIGRATIONS_DIR = SERVER_STORE + "/sqlite/migrations"
# the production call with two sources (DBOSRuntime.run_migrations): the second package's directory and tuple
DBOS_PKG = "packages/llama-agents-dbos/src/llama_agents/dbos"
DBOS_STORE_INIT = DBOS_PKG + "/_store/__init__.py"
DBOS_RUNTIME_PY = DBOS_PKG + "/runtime.py"
DBOS_MIGRATIONS_DIR = DBOS_PKG + "/_store/sqlite/migrations"

# --------------------------------------------------------------------------
# SQL reader: text -> abstract statements
#
#   ("ct", if_not_exists, name, [(col, decl), ...])
#   ("ac", table, (col, decl))
#   ("ci", if_not_exists, unique, name, table, [col, ...])
#   ("inv",)                       statement SQLite rejects in every schema (syntax error)
#   ("unsup", reason)              anything this reader does not model (maps to `invalid`)
#
# decl = "TYPE|notnull|default|pk"  exactly as PRAGMA table_info reports the column.
# Identifiers are lower-cased (SQLite compares them case-insensitively).

_TOKEN = re.compile(
    r"""\s+|--[^\n]*|/\*.*?\*/|'(?:[^']|'')*'|"(?:[^"]|"")*"|`[^`]*`|\[[^\]]*\]|[A-Za-z_][A-Za-z_0-9$]*|\d+(?:\.\d+)?|.""",
    re.S,
)
_CONSTRAINT_WORDS = {"primary", "not", "null", "unique", "default", "check", "references", "collate", "generated",
                     "constraint", "autoincrement", "as"}


def tokenize(sql: str) -> list[str]:
    out = []
    for m in _TOKEN.finditer(sql):
        t = m.group(0)
        if t.isspace() or t.startswith("--") or t.startswith("/*"):
            continue
        out.append(t)
    return out


def split_statements(tokens: list[str]) -> list[list[str]]:
    stmts, cur = [], []
    for t in tokens:
        if t == ";":
            if cur:
                stmts.append(cur)
            cur = []
        else:
            cur.append(t)
    if cur:
        stmts.append(cur)
    return stmts


def _ident(tok: str) -> str | None:
    if not tok:
        return None
    if tok[0] == '"' and tok[-1] == '"' and len(tok) >= 2:
        return tok[1:-1].replace('""', '"').lower()
    if tok[0] == "`" and tok[-1] == "`" and len(tok) >= 2:
        return tok[1:-1].lower()
    if tok[0] == "[" and tok[-1] == "]":
        return tok[1:-1].lower()
    if re.fullmatch(r"[A-Za-z_][A-Za-z_0-9$]*", tok):
        return tok.lower()
    return None


class _Unsup(Exception):
    pass


class _Invalid(Exception):
    pass


def _split_top(tokens: list[str]) -> list[list[str]]:
    """split a parenthesised body on top-level commas"""
    parts, cur, depth = [], [], 0
    for t in tokens:
        if t == "(":
            depth += 1
        elif t == ")":
            depth -= 1
        if t == "," and depth == 0:
            parts.append(cur)
            cur = []
        else:
            cur.append(t)
    parts.append(cur)
    return parts


def _coldef(toks: list[str]) -> tuple[str, str, bool]:
    """-> (name, decl, primary_key?)"""
    if not toks:
        raise _Invalid()
    name = _ident(toks[0])
    if name is None:
        raise _Invalid()
    i = 1
    type_toks: list[str] = []
    while i < len(toks) and toks[i].lower() not in _CONSTRAINT_WORDS:
        if toks[i] == "(":
            raise _Unsup("parenthesised type")
        if _ident(toks[i]) is None or toks[i][0] in '"`[':
            raise _Unsup("type token " + toks[i])
        type_toks.append(toks[i])
        i += 1
    notnull, dflt, pk = 0, "", False
    while i < len(toks):
        w = toks[i].lower()
        if w == "primary" and i + 1 < len(toks) and toks[i + 1].lower() == "key":
            if pk:
                raise _Unsup("two primary keys")
            pk = True
            i += 2
            if i < len(toks) and toks[i].lower() == "autoincrement":
                if " ".join(type_toks).upper() != "INTEGER":
                    raise _Unsup("autoincrement on non-integer")
                i += 1
        elif w == "not" and i + 1 < len(toks) and toks[i + 1].lower() == "null":
            notnull = 1
            i += 2
        elif w == "null":
            i += 1
        elif w == "default" and i + 1 < len(toks):
            i += 1
            t = toks[i]
            if t == "(":
                depth, j = 0, i
                while j < len(toks):
                    if toks[j] == "(":
                        depth += 1
                    elif toks[j] == ")":
                        depth -= 1
                        if depth == 0:
                            break
                    j += 1
                if j >= len(toks):
                    raise _Invalid()
                dflt = "".join(toks[i + 1:j])
                i = j + 1
            elif t in "+-" and i + 1 < len(toks) and re.fullmatch(r"\d+(?:\.\d+)?", toks[i + 1]):
                dflt = t + toks[i + 1]
                i += 2
            elif t[0] == "'" or re.fullmatch(r"\d+(?:\.\d+)?", t) or t.lower() in ("null", "true", "false", "current_timestamp"):
                dflt = t
                i += 1
            else:
                raise _Unsup("default " + t)
        else:
            raise _Unsup("column constraint " + toks[i])
    # SQLite reports its standard type names in upper case whatever the script's spelling: compare upper-cased
    decl = "%s|%d|%s|%d" % (" ".join(type_toks).upper(), notnull, dflt, 1 if pk else 0)
    return name, decl, pk


def parse_statement(toks: list[str]) -> tuple:
    try:
        return _parse_statement(toks)
    except _Unsup as e:
        return ("unsup", str(e))
    except _Invalid:
        return ("inv",)
    except IndexError:
        return ("inv",)


def _parse_statement(toks: list[str]) -> tuple:
    low = [t.lower() for t in toks]
    if low[:2] == ["create", "table"]:
        i = 2
        ifne = False
        if low[i:i + 3] == ["if", "not", "exists"]:
            ifne = True
            i += 3
        name = _ident(toks[i])
        if name is None:
            raise _Invalid()
        i += 1
        if toks[i] == ".":
            raise _Unsup("schema-qualified name")
        if toks[i] != "(" or toks[-1] != ")":
            raise _Unsup("create table tail")
        body = toks[i + 1:-1]
        if not body:
            raise _Invalid()
        cols: list[tuple[str, str]] = []
        npk = 0
        for part in _split_top(body):
            if not part:
                raise _Invalid()
            if part[0].lower() in ("primary", "unique", "check", "foreign", "constraint"):
                raise _Unsup("table constraint")
            cname, decl, pk = _coldef(part)
            npk += pk
            cols.append((cname, decl))
        if npk > 1:
            raise _Unsup("two primary keys")
        return ("ct", ifne, name, cols)
    if low[:2] == ["alter", "table"]:
        name = _ident(toks[2])
        if name is None:
            raise _Invalid()
        if low[3:4] != ["add"]:
            raise _Unsup("alter table " + " ".join(low[3:5]))
        i = 4
        if low[i:i + 1] == ["column"]:
            i += 1
        cname, decl, pk = _coldef(toks[i:])
        typ, notnull, dflt, _pk = decl.split("|")
        if pk:
            raise _Unsup("add primary key column")
        if notnull == "1" and dflt in ("", "null", "NULL"):
            raise _Unsup("add NOT NULL column without default (data dependent)")
        if dflt and not (dflt[0] == "'" or re.fullmatch(r"[+-]?\d+(?:\.\d+)?", dflt) or dflt.lower() in ("null", "true", "false")):
            raise _Unsup("add column with non-constant default")
        return ("ac", name, (cname, decl))
    if low[:2] == ["create", "index"] or low[:3] == ["create", "unique", "index"]:
        unique = low[1] == "unique"
        i = 3 if unique else 2
        ifne = False
        if low[i:i + 3] == ["if", "not", "exists"]:
            ifne = True
            i += 3
        name = _ident(toks[i])
        if name is None:
            raise _Invalid()
        i += 1
        if toks[i] == ".":
            raise _Unsup("schema-qualified name")
        if low[i] != "on":
            raise _Invalid()
        table = _ident(toks[i + 1])
        if table is None:
            raise _Invalid()
        i += 2
        if toks[i] != "(" or toks[-1] != ")":
            raise _Unsup("index tail (partial index?)")
        cols = []
        for part in _split_top(toks[i + 1:-1]):
            if len(part) != 1 or _ident(part[0]) is None:
                raise _Unsup("index column expression")
            cols.append(_ident(part[0]))
        if not cols:
            raise _Invalid()
        return ("ci", ifne, unique, name, table, cols)
    if low and low[0] in ("create", "alter", "drop", "insert", "update", "delete", "pragma", "begin", "commit", "rollback",
                          "select", "with", "replace", "vacuum", "reindex", "analyze", "attach", "detach", "savepoint",
                          "release", "end", "explain"):
        raise _Unsup("statement " + " ".join(low[:3]))
    raise _Invalid()


def parse_sql(text: str) -> list[tuple]:
    return [parse_statement(s) for s in split_statements(tokenize(text))]


# --------------------------------------------------------------------------
# Lean rendering


def lean_pair(c: tuple[str, str]) -> str:
    return "(%s, %s)" % (lean_str(c[0]), lean_str(c[1]))


def lean_stmt(s: tuple) -> str:
    """RawStmt = (kind, flag1, flag2, name, table, [(col, decl)]); decoded by WfModel/MigrateShipped.lean"""
    def b(x: bool) -> str:
        return "true" if x else "false"

    if s[0] == "ct":
        return '("ct", %s, false, %s, "", [%s])' % (b(s[1]), lean_str(s[2]), ", ".join(lean_pair(c) for c in s[3]))
    if s[0] == "ac":
        return '("ac", false, false, "", %s, [%s])' % (lean_str(s[1]), lean_pair(s[2]))
    if s[0] == "ci":
        return '("ci", %s, %s, %s, %s, [%s])' % (b(s[1]), b(s[2]), lean_str(s[3]), lean_str(s[4]),
                                               ", ".join(lean_pair((c, "")) for c in s[5]))
    return '("invalid", false, false, "", "", [])'


def _parse_py(rel: str) -> ast.Module | None:
    try:
        return ast.parse(open(repo_path(rel)).read())
    except (OSError, SyntaxError):
        return None


def _func(tree: ast.AST | None, name: str) -> ast.AST | None:
    if tree is None:
        return None
    for n in ast.walk(tree):
        if isinstance(n, (ast.FunctionDef, ast.AsyncFunctionDef)) and n.name == name:
            return n
    return None


def _const_strs(node: ast.AST | None) -> list[str]:
    if node is None:
        return []
    return [n.value for n in ast.walk(node) if isinstance(n, ast.Constant) and isinstance(n.value, str)]


def extract_source_facts(notes: list[str]) -> dict[str, Any]:
    """Constants and shapes of the loader / bootstrap / apply loop (rename-robust: no local names)."""
    f: dict[str, Any] = {
        "versionPattern": "<missing>", "patternMethod": "<missing>", "lineIndex": 999, "lineSplit": "<missing>",
        "groupIndex": 999, "suffix": "<missing>", "sortKeyAttr": "<missing>", "sortReverse": True,
        "rangeLo": 999, "rangeHiOffset": 999, "legacyGuardOp": "<missing>", "legacyGuardRhs": 999,
        "bootstrapPackage": "<missing>", "bootstrapChecksTable": "<missing>", "defaultPackage": "<missing>",
        "defaultModule": "<missing>", "versionOrZero": False, "skipIfApplied": False, "skipIfZero": False,
        "applyThenRecord": False, "rollbackOnError": False, "reraises": False, "appliedUpdated": False,
        "scriptPrefix": "<missing>", "appliedQueryFiltersPackage": False, "seedsCommitted": False,
    }
    utils = _parse_py(UTILS_PY)
    if utils is not None:
        for n in ast.walk(utils):
            if isinstance(n, ast.Assign) and len(n.targets) == 1 and isinstance(n.targets[0], ast.Name) \
                    and n.targets[0].id == "VERSION_PATTERN" and isinstance(n.value, ast.Call) and n.value.args \
                    and isinstance(n.value.args[0], ast.Constant) and len(n.value.args) == 1 and not n.value.keywords:
                f["versionPattern"] = n.value.args[0].value
    ptv = _func(utils, "parse_target_version")
    if ptv is not None:
        for n in ast.walk(ptv):
            if isinstance(n, ast.Subscript) and isinstance(n.value, ast.Call) and isinstance(n.value.func, ast.Attribute) \
                    and n.value.func.attr in ("splitlines", "split") and isinstance(n.slice, ast.Constant):
                f["lineIndex"] = n.slice.value if isinstance(n.slice.value, int) and n.slice.value >= 0 else 999
                f["lineSplit"] = n.value.func.attr + "(" + ",".join(ast.unparse(a) for a in n.value.args) + ")"
            if isinstance(n, ast.Call) and isinstance(n.func, ast.Attribute) and isinstance(n.func.value, ast.Name) \
                    and n.func.value.id == "VERSION_PATTERN":
                f["patternMethod"] = n.func.attr
            if isinstance(n, ast.Call) and isinstance(n.func, ast.Attribute) and n.func.attr == "group" and n.args \
                    and isinstance(n.args[0], ast.Constant) and isinstance(n.args[0].value, int):
                f["groupIndex"] = n.args[0].value
    imf = _func(utils, "iter_migration_files")
    if imf is not None:
        for n in ast.walk(imf):
            if isinstance(n, ast.Call) and isinstance(n.func, ast.Attribute) and n.func.attr == "endswith" and n.args \
                    and isinstance(n.args[0], ast.Constant):
                f["suffix"] = n.args[0].value
            if isinstance(n, ast.Call) and isinstance(n.func, ast.Name) and n.func.id == "sorted":
                f["sortReverse"] = any(k.arg == "reverse" for k in n.keywords)
                for k in n.keywords:
                    if k.arg == "key" and isinstance(k.value, ast.Lambda) and isinstance(k.value.body, ast.Attribute):
                        f["sortKeyAttr"] = k.value.body.attr
    mig = _parse_py(MIGRATE_PY)
    boot = _func(mig, "_bootstrap_schema_migrations")
    if boot is not None:
        for n in ast.walk(boot):
            if isinstance(n, ast.Call) and isinstance(n.func, ast.Name) and n.func.id == "range" and len(n.args) == 2:
                a, b = n.args
                if isinstance(a, ast.Constant) and isinstance(a.value, int) and a.value >= 0:
                    f["rangeLo"] = a.value
                if isinstance(b, ast.BinOp) and isinstance(b.op, ast.Add) and isinstance(b.left, ast.Name) \
                        and isinstance(b.right, ast.Constant) and isinstance(b.right.value, int) and b.right.value >= 0:
                    f["rangeHiOffset"] = b.right.value
                elif isinstance(b, ast.Name):
                    f["rangeHiOffset"] = 0
            if isinstance(n, ast.If) and isinstance(n.test, ast.Compare) and len(n.test.ops) == 1 \
                    and isinstance(n.test.left, ast.Name) and isinstance(n.test.comparators[0], ast.Constant) \
                    and isinstance(n.test.comparators[0].value, int) and any(
                        isinstance(m, ast.Call) and isinstance(m.func, ast.Name) and m.func.id == "range" for m in ast.walk(n)):
                # the seed rows are committed by the bootstrap itself: a `<conn>.commit()` statement after the statement
                # that inserts them, inside the same guarded block (nothing later in a run is bound to commit them)
                ins = [i for i, b in enumerate(n.body) if any("INSERT" in c.upper() and "schema_migrations" in c for c in _const_strs(b))]
                com = [i for i, b in enumerate(n.body) if isinstance(b, ast.Expr) and isinstance(b.value, ast.Call)
                       and isinstance(b.value.func, ast.Attribute) and b.value.func.attr == "commit" and not b.value.args]
                f["seedsCommitted"] = bool(ins) and any(j > ins[-1] for j in com)
                f["legacyGuardOp"] = type(n.test.ops[0]).__name__
                f["legacyGuardRhs"] = n.test.comparators[0].value if n.test.comparators[0].value >= 0 else 999
            if isinstance(n, ast.Tuple) and len(n.elts) == 2 and isinstance(n.elts[0], ast.Constant) \
                    and isinstance(n.elts[0].value, str) and isinstance(n.elts[1], ast.Name):
                f["bootstrapPackage"] = n.elts[0].value
        strs = _const_strs(boot)
        probe = [s for s in strs if "sqlite_master" in s]
        f["bootstrapChecksTable"] = re.sub(r"\s+", " ", probe[0]).strip() if probe else "<missing>"
    init = _parse_py(STORE_INIT)
    if init is not None:
        for n in ast.walk(init):
            tgt = None
            if isinstance(n, ast.AnnAssign) and isinstance(n.target, ast.Name):
                tgt, val = n.target.id, n.value
            elif isinstance(n, ast.Assign) and len(n.targets) == 1 and isinstance(n.targets[0], ast.Name):
                tgt, val = n.targets[0].id, n.value
            if tgt == "SQLITE_MIGRATION_SOURCE" and isinstance(val, ast.Tuple) and len(val.elts) == 2 \
                    and all(isinstance(e, ast.Constant) for e in val.elts):
                f["defaultModule"] = val.elts[1].value
                f["sourceTuplePackage"] = val.elts[0].value
    run = _func(mig, "run_migrations")
    if run is not None:
        # default sources: [("server", _MIGRATIONS_PKG)]
        for n in ast.walk(run):
            if isinstance(n, ast.If) and isinstance(n.test, ast.Compare) and isinstance(n.test.ops[0], ast.Is):
                for m in ast.walk(n):
                    if isinstance(m, ast.List) and len(m.elts) == 1 and isinstance(m.elts[0], ast.Tuple) \
                            and isinstance(m.elts[0].elts[0], ast.Constant):
                        f["defaultPackage"] = m.elts[0].elts[0].value
            if isinstance(n, ast.BoolOp) and isinstance(n.op, ast.Or) and len(n.values) == 2 \
                    and isinstance(n.values[0], ast.Call) and isinstance(n.values[0].func, ast.Name) \
                    and n.values[0].func.id == "parse_target_version" and isinstance(n.values[1], ast.Constant) \
                    and n.values[1].value == 0:
                f["versionOrZero"] = True
            if isinstance(n, ast.If) and isinstance(n.test, ast.BoolOp) and isinstance(n.test.op, ast.Or) \
                    and any(isinstance(b, ast.Continue) for b in n.body):
                for v in n.test.values:
                    if isinstance(v, ast.Compare) and len(v.ops) == 1:
                        if isinstance(v.ops[0], ast.In):
                            f["skipIfApplied"] = True
                        if isinstance(v.ops[0], ast.Eq) and isinstance(v.comparators[0], ast.Constant) and v.comparators[0].value == 0:
                            f["skipIfZero"] = True
            if isinstance(n, ast.Try):
                def has(nodes: list[ast.stmt], pred) -> bool:
                    return any(pred(m) for s in nodes for m in ast.walk(s))

                def is_script(m: ast.AST) -> bool:
                    return isinstance(m, ast.Call) and isinstance(m.func, ast.Attribute) and m.func.attr == "executescript"

                def sql_call(word: str):
                    return lambda m: isinstance(m, ast.Call) and isinstance(m.func, ast.Attribute) and m.func.attr == "execute" \
                        and m.args and isinstance(m.args[0], ast.Constant) and isinstance(m.args[0].value, str) \
                        and word in m.args[0].value.upper()

                body_script = has(n.body, is_script)
                body_insert = has(n.body, sql_call("INSERT INTO SCHEMA_MIGRATIONS"))
                else_insert = has(n.orelse, sql_call("INSERT INTO SCHEMA_MIGRATIONS"))
                else_commit = has(n.orelse, sql_call("COMMIT"))
                f["applyThenRecord"] = body_script and not body_insert and else_insert and else_commit
                f["rollbackOnError"] = all(has(h.body, sql_call("ROLLBACK")) for h in n.handlers) and bool(n.handlers)
                f["reraises"] = all(any(isinstance(s, ast.Raise) for s in h.body) for h in n.handlers) and bool(n.handlers)
                f["appliedUpdated"] = has(n.orelse, lambda m: isinstance(m, ast.Call) and isinstance(m.func, ast.Attribute)
                                          and m.func.attr == "add")
                for m in ast.walk(n):
                    if is_script(m) and m.args and isinstance(m.args[0], ast.BinOp) and isinstance(m.args[0].left, ast.Constant):
                        f["scriptPrefix"] = m.args[0].left.value
        f["appliedQueryFiltersPackage"] = any("FROM schema_migrations WHERE package = ?" in re.sub(r"\s+", " ", s)
                                              for s in _const_strs(run))
    for k, v in f.items():
        if v in ("<missing>", 999):
            notes.append(f"translate: gen/migrate could not extract {k}")
    return f


def _source_tuple(rel: str, name: str = "SQLITE_MIGRATION_SOURCE") -> tuple[str, str] | None:
    """the literal `(package, module)` a store `__init__` binds `name` to"""
    tree = _parse_py(rel)
    if tree is None:
        return None
    for n in ast.walk(tree):
        tgt, val = None, None
        if isinstance(n, ast.AnnAssign) and isinstance(n.target, ast.Name):
            tgt, val = n.target.id, n.value
        elif isinstance(n, ast.Assign) and len(n.targets) == 1 and isinstance(n.targets[0], ast.Name):
            tgt, val = n.targets[0].id, n.value
        if tgt == name and isinstance(val, ast.Tuple) and len(val.elts) == 2 \
                and all(isinstance(e, ast.Constant) and isinstance(e.value, str) for e in val.elts):
            return (val.elts[0].value, val.elts[1].value)
    return None


def extract_production_sources(notes: list[str]) -> dict[str, Any]:
    """`DBOSRuntime.run_migrations`: the list given as `sources=` to the SQLite runner, each element resolved through
    runtime.py's own imports to the `(package, module)` literal of the store `__init__` it comes from."""
    out: dict[str, Any] = {"packages": ["<missing>"], "modules": ["<missing>"], "passed": False}
    tree = _parse_py(DBOS_RUNTIME_PY)
    if tree is None:
        notes.append("translate: gen/migrate cannot read " + DBOS_RUNTIME_PY)
        return out
    imported: dict[str, tuple[str, str]] = {}  # local name -> (module, original name)
    for n in ast.walk(tree):
        if isinstance(n, ast.ImportFrom) and n.module:
            for a in n.names:
                imported[a.asname or a.name] = (n.module, a.name)
    inits = {"llama_agents.server._store": STORE_INIT, "llama_agents.dbos._store": DBOS_STORE_INIT}
    fn = _func(tree, "run_migrations")
    if fn is None:
        notes.append("translate: gen/migrate: DBOSRuntime.run_migrations not found")
        return out
    alias = None  # the name bound to sqlite ... migrate.run_migrations
    for k, (mod, orig) in imported.items():
        if mod.endswith("_store.sqlite.migrate") and orig == "run_migrations":
            alias = k
    lists: dict[str, list[str]] = {}
    for n in ast.walk(fn):
        if isinstance(n, ast.Assign) and len(n.targets) == 1 and isinstance(n.targets[0], ast.Name) \
                and isinstance(n.value, ast.List) and all(isinstance(e, ast.Name) for e in n.value.elts):
            lists[n.targets[0].id] = [e.id for e in n.value.elts]
    for n in ast.walk(fn):
        if isinstance(n, ast.Call) and isinstance(n.func, ast.Name) and n.func.id == alias:
            for k in n.keywords:
                if k.arg == "sources" and isinstance(k.value, ast.Name) and k.value.id in lists:
                    pk, md = [], []
                    for name in lists[k.value.id]:
                        mod, orig = imported.get(name, ("", ""))
                        tup = _source_tuple(inits[mod], orig) if mod in inits else None
                        pk.append(tup[0] if tup else "<missing>")
                        md.append(tup[1] if tup else "<missing>")
                    out = {"packages": pk, "modules": md, "passed": True}
    if not out["passed"] or "<missing>" in out["packages"]:
        notes.append("translate: gen/migrate could not resolve the sources of DBOSRuntime.run_migrations")
    return out


def _lean_files(name: str, doc: str, entries: list[tuple[str, str]], notes: list[str]) -> list[str]:
    L = [f"/-- {doc} -/", f"def {name} : List (String × List Nat × List RawStmt) := ["]
    rows = []
    for fname, text in entries:
        stmts = parse_sql(text) if fname.endswith(".sql") else []
        for s in stmts:
            if s[0] == "unsup":
                notes.append(f"translate: gen/migrate {name}/{fname}: statement not modelled ({s[1]})")
        rows.append("  (%s,\n    %s,\n    [%s])" % (
            lean_str(fname), "[" + ",".join(str(ord(ch)) for ch in text) + "]", ",\n      ".join(lean_stmt(s) for s in stmts)))
    L.append(",\n".join(rows))
    L.append("]")
    return L


def read_directory(rel_dir: str) -> list[tuple[str, str]]:
    """[(name, text)] for every regular file of the migrations directory (reverse name order: the
    model must not depend on the listing order)."""
    d = repo_path(rel_dir)
    out = []
    for name in sorted(os.listdir(d), reverse=True):
        p = os.path.join(d, name)
        if os.path.isfile(p):
            try:
                out.append((name, open(p, encoding="utf-8").read()))
            except (OSError, UnicodeDecodeError):
                out.append((name, ""))
    return out


def generate(notes: list[str]) -> list[str]:
    L = ["namespace Gen.Migrate"]
    facts = extract_source_facts(notes)
    for k in sorted(facts):
        v = facts[k]
        if isinstance(v, bool):
            L.append(f"def {k} : Bool := {'true' if v else 'false'}")
        elif isinstance(v, int):
            L.append(f"def {k} : Nat := {v}")
        else:
            L.append(f"def {k} : String := {lean_str(str(v))}")
    try:
        entries = read_directory(MIGRATIONS_DIR)
    except OSError as e:
        notes.append(f"translate: gen/migrate cannot list {MIGRATIONS_DIR}: {e!r}")
        entries = []
    L.append("")
    L.append("/-- every file of the shipped migrations directory (listing order reversed; the loader sorts) -/")
    L.append("abbrev RawStmt := String × Bool × Bool × String × String × List (String × String)")
    L.append("/-- (name, code points of the text, statements) -/")
    L.append("def files : List (String × List Nat × List RawStmt) := [")
    rows = []
    for name, text in entries:
        stmts = parse_sql(text) if name.endswith(".sql") else []
        for s in stmts:
            if s[0] == "unsup":
                notes.append(f"translate: gen/migrate {name}: statement not modelled ({s[1]})")
        rows.append("  (%s,\n    %s,\n    [%s])" % (
            lean_str(name), "[" + ",".join(str(ord(ch)) for ch in text) + "]", ",\n      ".join(lean_stmt(s) for s in stmts)))
    L.append(",\n".join(rows))
    L.append("]")
    L.append("")
    # second package of the production call + the list DBOSRuntime.run_migrations passes
    prod = extract_production_sources(notes)
    dtup = _source_tuple(DBOS_STORE_INIT)
    if dtup is None:
        notes.append("translate: gen/migrate could not extract the dbos SQLITE_MIGRATION_SOURCE")
    L.append(f"def dbosPackage : String := {lean_str(dtup[0] if dtup else '<missing>')}")
    L.append(f"def dbosModule : String := {lean_str(dtup[1] if dtup else '<missing>')}")
    L.append("/-- packages of `_SQLITE_SOURCES` in `DBOSRuntime.run_migrations`, in list order -/")
    L.append("def productionPackages : List String := [" + ", ".join(lean_str(x) for x in prod["packages"]) + "]")
    L.append("def productionModules : List String := [" + ", ".join(lean_str(x) for x in prod["modules"]) + "]")
    L.append(f"def productionPassesSources : Bool := {'true' if prod['passed'] else 'false'}")
    try:
        dentries = read_directory(DBOS_MIGRATIONS_DIR)
    except OSError as e:
        notes.append(f"translate: gen/migrate cannot list {DBOS_MIGRATIONS_DIR}: {e!r}")
        dentries = []
    L += _lean_files("dbosFiles", "every file of the dbos package's SQLite migrations directory (listing order reversed)", dentries, notes)
    L.append("")
    L.append("end Gen.Migrate")
    return L
