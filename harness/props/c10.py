"""C10 — a waiting step resumes once, with a matching event or a timeout."""
from __future__ import annotations

import copy
import random
from typing import Any

from ..engine import evtypes as ET
from ..engine import live, monitors, specgen, suite
from ..runner import Divergence, Driver, Env, Outcome, Violation, diff_streams

THEOREMS = ["C10_resolved_events_match", "C10_init_sound", "C10_got_matches", "C10_wait_outcomes", "C10_waiter_records_request",
            "C10_no_rematch", "C10_timed_out_not_resolved", "C10_replay_once_per_resolution", "C10_second_event_no_replay", "C10_waiter_event_iff_new",
            "C10_timeout_after_resolution_noop", "C10_timeout_marks_and_replays_once", "C10_resume_keeps", "C10_resume_partial",
            "C10_resume_sound", "C10_refuted_resume_requirements", "C10_resume_timeout",
            "C10_default_ids_distinct", "C10_default_wait_gets_own_reply", "C10_default_wait_registers_own"]
EXPLANATION = (
    "Lean: invariant over every tick sequence (any schedule, any step results): resolved waiters — live and in every running "
    "snapshot — hold an event of the awaited type meeting the recorded requirement; wait_for_event hands the step exactly that "
    "event; AddWaiter records exactly the request; a resolved waiter never matches again, so each newly resolved waiter is "
    "replayed once and a second matching event replays nothing; waiter_event/timeout are emitted iff the waiter id is new; a "
    "timeout tick is a no-op for resolved waiters and marks+replays once otherwise; serialisation keeps id/event/type/resolved "
    "event, and (repaired, F28) timed_out, but not requirements (refutation = known finding F30, replayed). Tie: WE ops (real "
    "wait_for_event coroutine on generated snapshots), serde ops (real to_serialized -> JSON -> from_serialized twice), "
    "reducer/runner correspondence. Search: live wait workflows (duplicate, non-matching, early/late responses, timeouts, 1..2 "
    "workers) incl. snapshot -> JSON -> resume at random points; per-wait completion counts, delivered event vs request, "
    "reducer-level waiter facts on the real ticks. Default waiter ids: a naming table (type, requirement) -> id, accepted by "
    "the driver only if injective; theorems: different requests get different ids, a default-id wait returns an event that "
    "satisfies ITS request and otherwise registers exactly its request; WE ops without waiter id on the real coroutine; live "
    "family wait_multi (waits of one step that differ only in a requirement value) with per-wait rules stated from the step "
    "bodies' requests (returned event, announced once, waits before it returns, resumes with its reply)."
)
ASSUMPTIONS = suite.ENGINE_ASSUMPTIONS + [
    "requirements are modelled as one optional equality on the field k (the code compares arbitrary dict items with getattr/==)",
    "a waiter id identifies one wait of one step; two concurrent invocations of a step that make the SAME request (same explicit id, or no id and the same type and requirements) share one waiter and overwrite each other's (outside the property: it states 'at most once'); the per-wait rules skip such shared labels",
    "default waiter names (text of the awaited class and of the requirements dict) are abstracted to numbers by a table built in harness/engine/enc.py from the documented format for requirement values 0..5; the model takes the table as given and requires it to be injective",
]


def _we_corr(env: Env, out: Outcome, n: int) -> None:
    import asyncio

    from workflows.context.internal_context import InternalContext
    from workflows.runtime.types import results as R

    from ..engine import direct, enc
    from ..engine import evtypes as ET

    rng = random.Random(env.rng.randrange(1 << 30))
    g = direct.Gen(rng)
    ic = object.__new__(InternalContext)

    def registered_id(ty: int, req: dict) -> str:
        """the id under which the implementation itself registers wait_for_event(T<ty>, requirements=req) without waiter_id"""
        tok = R.StepWorkerStateContextVar.set(R.StepWorkerContext(
            state=R.StepWorkerState(step_name="s01", collected_events={}, collected_waiters=[]), returns=R.Returns(return_values=[])))
        try:
            coro = InternalContext.wait_for_event(ic, ET.TYPES[ty], requirements=req or None, timeout=None)
            try:
                coro.send(None)
                coro.close()
            except R.WaitingForEvent as w:
                return w.add.waiter_id
            except BaseException:  # noqa: BLE001
                pass
            return "?"
        finally:
            R.StepWorkerStateContextVar.reset(tok)

    # the naming of default waiter ids the model works with (harness/engine/enc.py: numbered from the documented format)
    ops, exp = [enc.autoids_line()], [f"ok {len(enc.auto_table())}"]
    n_auto = max(n // 4, 1)
    auto_made: set = set()
    if env.replay is not None and isinstance(env.replay.get("payload", {}).get("case"), dict) and "we_default" in env.replay["payload"]["case"]:
        # replay of a default-id case: earlier waits of the step (registered by the implementation itself, resolved ones holding
        # an event that satisfies their request), then the call
        c = env.replay["payload"]["case"]["we_default"]
        ws = []
        for x in c["snapshot"]:
            req = {} if x["k"] is None else {"k": x["k"]}
            ws.append(R.StepWorkerWaiter(waiter_id=registered_id(x["ty"], req), event=ET.mk(5, 1, None), waiting_for_event=ET.TYPES[x["ty"]],
                                         requirements=req, has_requirements=bool(req),
                                         resolved_event=None if x["resolved"] is None else ET.mk(x["ty"], x["resolved"][0], x["resolved"][1]),
                                         timed_out=x["timed_out"]))
        tok = R.StepWorkerStateContextVar.set(R.StepWorkerContext(
            state=R.StepWorkerState(step_name="s01", collected_events={}, collected_waiters=ws), returns=R.Returns(return_values=[])))
        val = None
        try:
            coro = InternalContext.wait_for_event(ic, ET.TYPES[c["ty"]], requirements=None if c["k"] is None else {"k": c["k"]}, timeout=None)
            try:
                coro.send(None)
                coro.close()
            except StopIteration as si:
                val = si.value
            except BaseException:  # noqa: BLE001
                pass
        finally:
            R.StepWorkerStateContextVar.reset(tok)
        if val is not None and (type(val) is not ET.TYPES[c["ty"]] or (c["k"] is not None and getattr(val, "k", None) != c["k"])):
            out.violations.append(Violation("C10/delivered_event_mismatch:default_id_snapshot",
                                            f"wait_for_event(T{c['ty']}, requirements k={c['k']!r}) without waiter_id returned {enc.ev(val)} from the snapshot "
                                            f"{[(x.waiter_id, x.requirements, None if x.resolved_event is None else enc.ev(x.resolved_event)) for x in ws]}",
                                            {"we_default": c}))
    for i in range(n + n_auto):
        auto = i >= n
        if i == n:
            # a second stream for the calls without `waiter_id=` (drawn after the others: the explicit-id stream stays what it was)
            rng = random.Random(rng.randrange(1 << 30))
            g = direct.Gen(rng)
        ws = []
        used = set()
        for _i in range(rng.choice([0, 1, 1, 2, 3])):
            w = g.waiter()
            if auto and rng.random() < 0.75:
                # an earlier wait of the same step without waiter_id, registered under the id the implementation gave it; it
                # records its request, and a resolved one holds an event that satisfies that request
                wty_ = rng.choice([3, 3, 11, 5])
                w.waiting_for_event = ET.TYPES[wty_]
                w.requirements = rng.choice([{}, {"k": 1}, {"k": 2}, {"k": 3}])
                w.has_requirements = bool(w.requirements)
                w.waiter_id = registered_id(wty_, w.requirements)
                auto_made.add(w.waiter_id)
                if w.resolved_event is not None:
                    w.resolved_event = ET.mk(wty_, getattr(w.resolved_event, "uid", 7), w.requirements.get("k", rng.choice([None, 1, 2])))
            if w.waiter_id in used and rng.random() < 0.8:
                continue
            used.add(w.waiter_id)
            ws.append(w)
        wid = rng.choice(sorted(used)) if used and rng.random() < 0.75 else rng.choice(["w01", "w02", "w03", "w07"])
        ty = rng.choice([3, 11, 5])
        reqk = rng.choice([None, None, 1, 2])
        tmo = rng.choice([None, 5, 20])
        if auto:
            wid = None
            ty = rng.choice([3, 3, 11, 5])
            reqk = rng.choice([None, 1, 2, 3])
        val = None
        wev = ET.mk(2, 777, None) if rng.random() < 0.4 else None
        returns = R.Returns(return_values=[])
        tok = R.StepWorkerStateContextVar.set(R.StepWorkerContext(
            state=R.StepWorkerState(step_name="s01", collected_events={}, collected_waiters=ws), returns=returns))
        try:
            coro = InternalContext.wait_for_event(ic, ET.TYPES[ty], waiter_event=wev, waiter_id=wid,
                                                  requirements=None if reqk is None else {"k": reqk}, timeout=tmo)
            try:
                coro.send(None)
                res = "?? suspended"
                coro.close()
            except StopIteration as si:
                val = si.value
                res = "got " + enc.ev(si.value) + " " + enc.lst([enc.res(r) for r in returns.return_values])
            except asyncio.TimeoutError:
                res = "timeout " + enc.lst([enc.res(r) for r in returns.return_values])
            except R.WaitingForEvent as w:
                res = "waiting " + enc.res(w.add) + ("" if not returns.return_values else " ?? " + repr(returns.return_values))
        finally:
            R.StepWorkerStateContextVar.reset(tok)
        ops.append("WE %s %s %d %s %s %s" % (enc.lst([enc.waiter(w) for w in ws]), "_" if wid is None else enc.waiter_id(wid), ty, enc.opt_ev(wev), enc.num(reqk), enc.num(tmo)))
        exp.append(res)
        out.evaluations += 1
        out.count(("we_default_id:" if auto else "we:") + res.split(" ")[0])
        if not res.startswith("waiting"):
            out.nontrivial(ops[-1])
        if auto:
            # direct statement, default id: among waiters that each hold an event satisfying the request they were registered for,
            # what the call returns satisfies the request of THIS call
            if val is not None and (type(val) is not ET.TYPES[ty] or (reqk is not None and getattr(val, "k", None) != reqk)):
                out.violations.append(Violation("C10/delivered_event_mismatch:default_id_snapshot",
                                                f"wait_for_event(T{ty}, requirements k={reqk!r}) without waiter_id returned {enc.ev(val)} from the snapshot "
                                                f"{[(x.waiter_id, x.requirements, None if x.resolved_event is None else enc.ev(x.resolved_event)) for x in ws]}",
                                                {"we_default": {"snapshot": [{"ty": ET.TY_ID[x.waiting_for_event], "k": (x.requirements or {}).get("k"),
                                                                              "resolved": None if x.resolved_event is None else [x.resolved_event.uid, x.resolved_event.k],
                                                                              "timed_out": bool(x.timed_out)} for x in ws if x.waiter_id in auto_made],
                                                                "ty": ty, "k": reqk, "op": ops[-1]}}))
            continue
        # direct statement: what the step receives is the resolved event of the waiter with that id
        w0 = next((w for w in ws if w.waiter_id == wid), None)
        if res.startswith("got") and (w0 is None or w0.resolved_event is None or w0.timed_out):
            out.violations.append(Violation("C10/wait_returned_without_resolved_waiter", f"wait_for_event({wid}) returned with waiter {w0!r}", {"direct_we": ops[-1]}))
    try:
        mo = Driver("engine").run(ops)
    except Exception as ex:  # noqa: BLE001
        out.divergences.append(Divergence("engine-wait", 0, "<driver>", repr(ex), ""))
        return
    out.traces_validated += len(ops)
    out.disagreements_checked += len(ops)
    d = diff_streams("engine-wait", ops, mo, exp)
    if d is not None:
        out.divergences.append(d)


def _resume_runs(env: Env, out: Outcome, n: int, extra: list[dict], n_multi: int = 0) -> None:
    """run a wait workflow, snapshot (ctx.to_dict -> JSON) at a scheduler-chosen quiet point and stop; resume a fresh
    workflow from the snapshot, deliver the remaining responses; monitor the resumed run"""
    rng = random.Random(env.rng.randrange(1 << 30))
    jobs: list[tuple[dict, int, list | None, list | None]] = []
    if env.replay is not None and isinstance(env.replay.get("payload", {}).get("case"), dict) and "resume" in env.replay["payload"]["case"]:
        c = env.replay["payload"]["case"]["resume"]
        jobs.append((c["spec"], c["seed"], c.get("actions1"), c.get("actions2")))
    for item in extra:
        if "resume" in item:
            c = item["resume"]
            jobs.append((c["spec"], c["seed"], c.get("actions1"), c.get("actions2")))
    for _ in range(n):
        spec = specgen.gen_wait_spec(rng)
        spec["externals"] = [e for e in spec["externals"] if e["op"] != "snapshot"]
        spec["externals"].append({"op": "snapshot_stop", "after_quiet": rng.choice([0, 0, 1, 1, 2, 3])})
        jobs.append((spec, rng.randrange(1 << 30), None, None))
    for _ in range(n_multi):
        # several default-id waits of one step that differ in the requirement value, snapshot somewhere in between
        spec = specgen.gen_wait_multi_spec(rng)
        spec["externals"] = [e for e in spec["externals"] if e["op"] != "snapshot"]
        spec["externals"].append({"op": "snapshot_stop", "after_quiet": rng.choice([0, 1, 1, 2, 2, 3])})
        jobs.append((spec, rng.randrange(1 << 30), None, None))
    resumed: list = []
    for spec, seed, a1, a2 in jobs:
        tr1 = live.run_spec(spec, seed=seed, replay_actions=a1)
        out.evaluations += 1
        snaps = [s for s in tr1.snapshots if s.get("stopped")]
        if not snaps:
            out.count("resume:no_snapshot")
            continue
        snap = snaps[0]
        waiting = monitors.live_waiters_at(tr1, snap["at_call"])
        spec2 = copy.deepcopy(spec)
        spec2["externals"] = copy.deepcopy([e for e in getattr(tr1, "remaining_externals", []) if e["op"] == "send"])
        for e in spec2["externals"]:
            e["after_quiet"] = 0
        spec2["_resumed"] = True
        tr2 = live.run_spec(spec2, seed=seed + 1, replay_actions=a2, resume_from=snap["dict"])
        resumed.append(tr2)
        out.count("resume:runs")
        out.count(f"resume:waiters_at_snapshot:{min(len(waiting), 3)}")
        out.count("resume:outcome:" + tr2.outcome[0])
        if waiting:
            out.nontrivial((repr(spec), tuple(tr1.actions), tuple(tr2.actions)))
        case = {"resume": {"spec": spec, "seed": seed, "actions1": tr1.actions, "actions2": tr2.actions}}
        rehydrated = {(nm, w.waiter_id) for nm, w in waiting if w.has_requirements or w.requirements}
        # auto-generated waiter ids are recorded by the step body as auto<type>:<own requirement value>
        rehydrated |= {(nm, f"auto{ET.TY_ID[w.waiting_for_event]}:{(w.requirements or {}).get('k')!r}") for nm, w in waiting
                       if (w.has_requirements or w.requirements) and str(w.waiter_id).startswith("waiter_")}
        # every waiter that lost its requirements in the snapshot is re-registered by re-pinging its step when the run is resumed:
        # the first ticks the resumed run reduces are those re-pings, one per such waiter (before anything else can resolve it)
        need = sorted({(nm, getattr(w.event, "uid", None)) for nm, w in waiting
                       if w.has_requirements and w.resolved_event is None and not w.timed_out}, key=repr)
        if need and tr2.outcome[0] != "invalid":
            from workflows.runtime.types import ticks as _T
            first = [c.tick for c in tr2.calls if c.kind == "reduce"][: len(need)]
            got = sorted({(t.step_name, getattr(t.event, "uid", None)) for t in first if isinstance(t, _T.TickAddEvent)}, key=repr)
            if got != need:
                out.violations.append(Violation("C10/waiter_not_repinged_on_resume",
                                                f"waiters that lost their requirements in the snapshot: {need}; the resumed run first reduced re-pings for {got} only: "
                                                f"the others stay registered with requirements={{}} and accept any event of the awaited type", case))
        vs2 = monitors.mon_c10(tr2, earlier_users=monitors.c10_waiter_users(tr1))
        # the rehydration window, seen on the ticks: a waiter that still lacks its requirements (its step's re-pinged replay has
        # not re-registered it yet) is resolved by an incoming event -- that resolution queues a second replay of its invocation
        from workflows.runtime.types import ticks as _T2
        doubled: set = set()
        for c in tr2.calls:
            if c.kind == "reduce" and c.after is not None and isinstance(c.tick, _T2.TickAddEvent) and c.caller in ("run", "_process_tick"):
                for nm, ws in c.before.workers.items():
                    for w in ws.collected_waiters:
                        if w.has_requirements and not w.requirements and w.resolved_event is None and not w.timed_out:
                            now_w = next((x for x in c.after.workers[nm].collected_waiters if x.waiter_id == w.waiter_id), None)
                            if now_w is not None and now_w.resolved_event is not None:
                                doubled.add((nm, getattr(w.event, "uid", None)))
        for v in vs2:
            v.replay = case
            m = getattr(v, "meta", None)
            if v.signature == "C10/resumed_more_than_once" and (any(f"'{nm}'" in v.what and f"'{wid}'" in v.what for nm, wid in rehydrated if (nm, wid) in rehydrated)
                                                                 or (m and (m["step"], m["uid"]) in doubled)):
                # the waiter lost its requirements in the snapshot: the step is re-pinged on resume, and an event that
                # resolves the waiter before that replay has run queues a second replay (same root as F30); the surplus replay
                # runs the whole body again, also through the later waits of that invocation
                v.signature = "C10/rehydration_window_double_replay"
                if m:
                    doubled.add((m["step"], m["uid"]))
        for v in vs2:
            m = getattr(v, "meta", None)
            if v.signature == "C10/waiter_event_not_once:per_wait:repeated" and m and (m["step"], m["uid"]) in doubled:
                # ... waits it had finished (waiter deleted on completion) are registered, and announced, anew
                v.signature = "C10/rehydration_window_double_replay"
            out.violations.append(v)
        # a waiter whose timeout had fired before the snapshot must still raise after resume
        def _same(rec_wid, w) -> bool:
            # auto-generated ids are recorded as auto<k> (k = the invocation's own requirement value)
            if isinstance(rec_wid, str) and rec_wid.startswith("auto"):
                ty, _, k = rec_wid[4:].partition(":")
                return (repr((w.requirements or {}).get("k")) == k and w.waiting_for_event is ET.TYPES[int(ty)]
                        and str(w.waiter_id).startswith("waiter_"))
            return rec_wid == w.waiter_id

        for nm, w in waiting:
            already = any(r[0] == "wait_timeout" and r[1] == nm and _same(r[5]["wid"], w) for r in tr1.steps)
            if w.timed_out and w.resolved_event is None and not already:
                raised = any(r[0] == "wait_timeout" and r[1] == nm and _same(r[5]["wid"], w) for r in tr2.steps)
                wuid = getattr(w.event, "uid", None)
                replayed_to_end = any(r[0] == "exit" and r[1] == nm and r[2] == wuid and r[5].get("status") == "ok" for r in tr2.steps)
                stuck = tr2.outcome[0] in ("cancelled", "deadlock") and any("stuck" in n for n in tr2.notes)
                # the run may legitimately end (StopEvent from another step) before the replay gets to run
                if not raised and (replayed_to_end or stuck):
                    out.violations.append(Violation("C10/resumed_timeout_lost",
                                                    f"step {nm}: waiter {w.waiter_id!r} had timed out before the snapshot; after resume the TimeoutError is never raised", case))

    suite.runner_corr(out, resumed, "engine-runner-resumed")


def run(env: Env) -> Outcome:
    out = Outcome()
    out.rule = ("WE: (snapshot waiters, waiter id or none, type, requirement, timeout) tuples on the real coroutine; serde: generated broker states; "
                "live: wait-family and general workflows under random schedules; resume: snapshot_stop at a random quiet point, resume from JSON; "
                "non-trivial = wait returned/raised, state had waiters or in-progress work, run had waiters at the snapshot; distinct by op line / (spec, schedule)")
    corpus = suite.load_corpus("C10")
    # the hand-picked cases (and a replayed live case) first; on a generator of their own, so that the generated streams below
    # do not depend on the corpus
    import dataclasses
    suite.live_runs(dataclasses.replace(env, rng=random.Random(0)), out, 0, [monitors.mon_c10], extra_specs=[c for c in corpus if "spec" in c])
    _we_corr(env, out, env.budget(3000, 60000))
    suite.serde_corr(env, out, env.budget(600, 12000))
    suite.direct_corr(env, out, env.budget(1500, 30000))
    suite.live_runs(env, out, env.budget(50, 1000), [monitors.mon_c10])
    suite.live_runs(env, out, env.budget(250, 5000), [monitors.mon_c10], gen_kwargs={"family": "wait"})
    _resume_runs(env, out, env.budget(120, 2400), corpus, n_multi=env.budget(40, 800))
    # waiting steps with a retry policy that fail before / after their wait (the replay continues the retried invocation);
    # last, so that the streams above are what they were before this family existed
    suite.live_runs(env, out, env.budget(80, 1600), [monitors.mon_c10], gen_kwargs={"family": "wait_retry"})
    # several waits of one step that differ only in the requirement VALUE (default waiter ids): in sequence in one body, and
    # one per fanned-out item
    suite.live_runs(env, out, env.budget(80, 1600), [monitors.mon_c10], gen_kwargs={"family": "wait_multi"})
    return out
