import WfProofs.KeyedLockGlobal
/-! Extensions for C25 (M6): draining a key by fairness steps only, a cancelled
waiter always gets out at its next task step. -/
namespace KeyedLock
open GenKeyedLock

/-! ### draining -/

/-- one unit per holder, two per queued waiter (a waiter needs one step to get in / out
and, if it got in, one more to leave) -/
def drainMeasure (st : KeySt) : Nat :=
  st.inside.length + 2 * (match st.lock with | none => 0 | some l => l.waiters.length)

theorem c25x_progress_decreases {st st' : KeySt} {x : KAct} (hi : Inv st) (hp : isProgress st x = true)
    (h : kstep false st x = .ok st') : drainMeasure st' < drainMeasure st := by
  rcases Inv.shape hi with hs | ⟨l, ins, hs, hinv⟩
  · subst hs; cases x <;> simp [isProgress] at hp
  · subst hs
    obtain ⟨hr, hpos, hm, hh, ht⟩ := hinv
    cases x with
    | enter b => simp [isProgress] at hp
    | cancel b => simp [isProgress] at hp
    | exit b =>
      obtain ⟨hb, hlk, h⟩ := exit_some h
      have hlen : (ins.erase b).length + 1 = ins.length := by
        rw [List.length_erase_of_mem hb]
        have : 0 < ins.length := List.length_pos_of_mem hb
        omega
      split at h
      · subst h; simp only [drainMeasure]; omega
      · subst h; simp only [drainMeasure, length_wakeFirst]; omega
    | resume b =>
      rcases resume_some h with ⟨hf, h⟩ | ⟨hf, h⟩
      · subst h
        have := length_removeW hf
        simp only [drainMeasure, List.length_append, List.length_singleton]; omega
      · have hfb : ∃ f, findW b l.waiters = some f := by rcases hf with h | h <;> exact ⟨_, h⟩
        obtain ⟨fb, hfb⟩ := hfb
        have hlen := length_removeW hfb
        simp only at h
        split at h
        · subst h; simp only [drainMeasure]; omega
        · subst h; simp only [drainMeasure]
          split <;> (try simp only [length_wakeFirst]) <;> omega

theorem c25x_inv_ids_nil {st : KeySt} (hi : Inv st) (h : ids st = []) : st = {} := by
  rcases Inv.shape hi with hs | ⟨l, ins, hs, hl⟩
  · exact hs
  · subst hs
    simp only [ids, List.append_eq_nil_iff, List.map_eq_nil_iff] at h
    have := hl.pos; simp [h.1, h.2] at this

/-- in an invariant state with somebody present a fairness step exists -/
theorem c25x_exists_progress_of_ids {st : KeySt} (hi : Inv st) (h : ids st ≠ []) :
    ∃ x, isProgress st x = true := by
  rcases Inv.shape hi with hs | ⟨l, ins, hs, hl⟩
  · subst hs; simp [ids] at h
  · subst hs
    by_cases hw : l.waiters = []
    · cases ins with
      | nil => simp [ids, hw] at h
      | cons b r => exact ⟨.exit b, by simp [isProgress]⟩
    · exact exists_progress hi rfl hw

theorem c25x_drain {k : Nat} (M : Nat) {s : KL} (hg : GInv s) (hM : drainMeasure (s.slot k) ≤ M) :
    ∃ cont : List Act, cont.length ≤ drainMeasure (s.slot k) ∧ progressCount k s cont = cont.length ∧
      (∀ x ∈ cont, x.key = k) ∧ (run cont s).slot k = {} := by
  induction M generalizing s with
  | zero =>
    refine ⟨[], by simp, rfl, by simp, ?_⟩
    have hi := (hg.2 k).1
    apply c25x_inv_ids_nil hi
    rcases Inv.shape hi with hs | ⟨l, ins, hs, hl⟩
    · rw [hs]; rfl
    · rw [hs] at hM
      have := hl.pos
      simp only [drainMeasure] at hM this; omega
  | succ M ih =>
    by_cases hids : ids (s.slot k) = []
    · exact ⟨[], by simp, rfl, by simp, c25x_inv_ids_nil (hg.2 k).1 hids⟩
    · obtain ⟨xa, hp⟩ := c25x_exists_progress_of_ids (hg.2 k).1 hids
      obtain ⟨st', hst⟩ := progress_enabled (hg.2 k).1 hp
      have hdec := c25x_progress_decreases (hg.2 k).1 hp hst
      have hslot : (stepD s ⟨k, xa⟩).slot k = st' := by
        rw [show k = (⟨k, xa⟩ : Act).key from rfl, stepD_slot _ _ hg.1]
        simp [kstepD, hst]
      obtain ⟨cont, hlen, hpc, hkeys, hend⟩ := ih (s := stepD s ⟨k, xa⟩) (ginv_stepD _ hg) (by rw [hslot]; omega)
      refine ⟨⟨k, xa⟩ :: cont, ?_, ?_, ?_, ?_⟩
      · rw [hslot] at hlen; simp only [List.length_cons]; omega
      · simp only [progressCount, isProgressG, beq_self_eq_true, Bool.true_and, hp, if_true, hpc, List.length_cons]
        omega
      · intro x hx
        rcases List.mem_cons.mp hx with h | h
        · rw [h]
        · exact hkeys x h
      · rw [run_cons]; exact hend

/-! ### a cancelled waiter leaves at its next task step -/

theorem c25x_not_mem_removeW {a : Nat} {ws : List (Nat × Fut)} (hn : (ws.map (·.1)).Nodup) :
    a ∉ (removeW a ws).map (·.1) := by
  induction ws with
  | nil => simp [removeW]
  | cons w r ih =>
    simp only [List.map_cons, List.nodup_cons] at hn
    simp only [removeW]; split
    · rename_i he; rw [← he]; exact hn.1
    · rename_i hne
      simp only [List.map_cons, List.mem_cons, not_or]
      exact ⟨fun h => hne h.symm, ih hn.2⟩

theorem c25x_cancelled_leaves {st : KeySt} {l : Lock} {a : Nat} (hi : Inv st) (hn : (ids st).Nodup)
    (hl : st.lock = some l)
    (hc : findW a l.waiters = some .cancelled ∨ findW a l.waiters = some .wokenCancelled) :
    ∃ st', kstep false st (.resume a) = .ok st' ∧ a ∉ ids st' ∧ st'.inside = st.inside := by
  rcases Inv.shape hi with hs | ⟨l', ins, hs, hinv⟩
  · subst hs; simp at hl
  · subst hs
    simp at hl; subst hl
    cases hk : kstep false ⟨some l', some ((ins.length + l'.waiters.length : Nat) : Int), ins⟩ (.resume a) with
    | error e =>
      exfalso
      simp only [kstep, mainSection, Bool.false_eq_true, if_false, deregister_some] at hk
      rcases hc with h | h <;> simp [h] at hk <;> split at hk <;> cases hk
    | ok st' =>
      refine ⟨st', rfl, ?_⟩
      simp only [ids] at hn
      have hn1 := (List.nodup_append.mp hn).1
      have hn2 := (List.nodup_append.mp hn).2.1
      have hdisj := (List.nodup_append.mp hn).2.2
      have hfa : ∃ f, findW a l'.waiters = some f := by rcases hc with h | h <;> exact ⟨_, h⟩
      obtain ⟨fa, hfa⟩ := hfa
      have hmem : a ∈ l'.waiters.map (·.1) := List.mem_map.mpr ⟨_, findW_mem hfa, rfl⟩
      have hnin : a ∉ ins := fun h => hdisj a h a hmem rfl
      rcases resume_some hk with ⟨hf, _⟩ | ⟨_, h⟩
      · rcases hc with h | h <;> simp [h] at hf
      · simp only at h
        split at h
        · subst h; exact ⟨by simpa [ids] using hnin, rfl⟩
        · subst h
          refine ⟨?_, rfl⟩
          simp only [ids, List.mem_append, not_or]
          refine ⟨hnin, ?_⟩
          split
          · exact c25x_not_mem_removeW hn2
          · rw [map_fst_wakeFirst]; exact c25x_not_mem_removeW hn2

end KeyedLock
