import WfProofs.ResourceRun
/-!
What the solo invariant says about observable behaviour: creation counts, identity
of injected objects, outcomes of invocations.
-/
namespace Resource

theorem countP_le_one_unique {α : Type} {p : α → Bool} : ∀ {l : List α}, l.countP p ≤ 1 →
    ∀ {a b : α}, a ∈ l → b ∈ l → p a = true → p b = true → a = b
  | [], _, a, _, ha, _, _, _ => by cases ha
  | c :: l, hle, a, b, ha, hb, pa, pb => by
    rw [List.countP_cons] at hle
    rcases List.mem_cons.mp ha with rfl | ha' <;> rcases List.mem_cons.mp hb with rfl | hb'
    · rfl
    · have : 0 < l.countP p := List.countP_pos_iff.mpr ⟨b, hb', pb⟩
      simp only [pa, ↓reduceIte] at hle; omega
    · have : 0 < l.countP p := List.countP_pos_iff.mpr ⟨a, ha', pa⟩
      simp only [pb, ↓reduceIte] at hle; omega
    · exact countP_le_one_unique (by omega) ha' hb' pa pb

theorem Paired.get {P : Nat → Nat → Prop} {xs vs : List Nat} (h : Paired P xs vs) {i x v : Nat}
    (hx : xs[i]? = some x) (hv : vs[i]? = some v) : P x v := h.2 i x v hx hv

/-- every injected object was returned by `_get` to that invocation -/
theorem Inv.injected_delivered {c : Cfg} {g : Graph} {s : St} (h : Inv c g s) {t x v : Nat}
    (hi : Injected g s t x v) : Ev.deliver t x v ∈ s.log := by
  rcases hi with ⟨y, obj, args, r, i, hcall, hr, hx, hv⟩ | ⟨k, objs, i, hk, hd, hx, hv⟩
  · obtain ⟨r', hr', hp⟩ := h.callArgs t y obj args hcall
    rw [hr] at hr'; cases hr'
    exact hp.get hx hv
  · have := h.finOk t k _ hk hd
    exact Paired.get this hx hv

theorem Inv.injected_made {c : Cfg} {g : Graph} {s : St} (h : Inv c g s) {t x v : Nat}
    (hi : Injected g s t x v) : ∃ t0, Ev.made t0 x v ∈ s.log ∧ (isCached g x = false → t0 = t) := by
  have hd := h.injected_delivered hi
  cases hc : isCached g x with
  | true => obtain ⟨t0, h0⟩ := h.delivC t x v hd hc; exact ⟨t0, h0, fun hh => by cases hh⟩
  | false => exact ⟨t, h.delivN t x v hd hc, fun _ => rfl⟩

theorem Inv.cached_same {c : Cfg} {g : Graph} {s : St} (h : Inv c g s) {x t v t' v' : Nat}
    (hc : isCached g x = true) (h1 : Injected g s t x v) (h2 : Injected g s t' x v') : v = v' := by
  obtain ⟨t0, m1, _⟩ := h.injected_made h1
  obtain ⟨t0', m2, _⟩ := h.injected_made h2
  have := countP_le_one_unique (h.madeC x hc).1 m1 m2 (by simp [isMade]) (by simp [isMade])
  cases this; rfl

theorem Inv.scoped {c : Cfg} {g : Graph} {s : St} (h : Inv c g s) {x t v t' v' : Nat}
    (hc : isCached g x = false) (h1 : Injected g s t x v) (h2 : Injected g s t' x v') : t = t' ↔ v = v' := by
  obtain ⟨t0, m1, e1⟩ := h.injected_made h1
  obtain ⟨t0', m2, e2⟩ := h.injected_made h2
  have e1' := e1 hc; have e2' := e2 hc
  subst e1' e2'
  constructor
  · rintro rfl
    have := countP_le_one_unique (h.madeN t0 x) m1 m2 (by simp [isMadeBy]) (by simp [isMadeBy])
    cases this; rfl
  · rintro rfl
    obtain ⟨a1, c1⟩ := h.madeCall _ _ _ m1
    obtain ⟨a2, c2⟩ := h.madeCall _ _ _ m2
    exact (h.callInj _ _ _ _ _ _ _ c1 c2).1

theorem Inv.ok_acyclic {c : Cfg} {g : Graph} {s : St} (h : Inv c g s) {t : Nat} {k : Task} {objs : List Nat}
    (hk : s.tasks[t]? = some k) (hd : k.phase = .done (.ok objs)) :
    objs.length = k.reqs.length ∧ ∀ r, r ∈ k.reqs → Acyc g r := by
  have hp : Paired (Delivered s t) k.reqs objs := h.finOk t k _ hk hd
  refine ⟨hp.1.symm, ?_⟩
  intro r hr
  obtain ⟨v, hv⟩ := hp.left_mem hr
  exact h.delivA hv

end Resource
