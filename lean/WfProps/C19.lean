import WfProofs.StateStoreSnap
/-!
# C19 — state stores implement the same state semantics, with isolated snapshots

Model: `WfModel/StateStore.lean` (M5).  `Spec` is the plain nested-dict model, `Mem` the
in-memory store, `Sql` the SQLite store.  All theorems quantify over every schema of typed
models, every state type (DictState / any level of the inheritance chain) and every list of
operations (`get`/`set` by dotted path, `get_state`, `set_state` with a same-typed /
ancestor-typed / DictState / unrelated instance, `clear`, `edit_state` with a scripted body,
top-level mutation of a snapshot, write-back).
-/
open StateStore

/-- the source still has the shape the model was written against: `MAX_DEPTH`, a shallow copy of a
`DictLikeModel` owns its `_data`, the path helpers address a `DictLikeModel` by name,
`SqliteStateStore.set_state` merges also when no row exists, `get_state` returns a copy -/
theorem C19_source_shape :
    GenStateStore.maxDepth = 1000 ∧ GenStateStore.dictLikeCopyOwnsData = true ∧
    GenStateStore.dictLikeByName = true ∧ GenStateStore.sqlRowNoneMerges = true ∧
    GenStateStore.memGetStateCopies = true := by decide

/-- the in-memory store returns, for every operation sequence whose `edit_state` bodies do not
raise, exactly what the nested-dict specification returns -/
theorem C19_refines_dict_memory (sc : Schema) (ty : Ty) (ops : List Op)
    (h : bodiesOk (Mem.init sc ty) ops = true) :
    runOuts Mem.step (Mem.init sc ty) ops = runOuts Spec.step (Spec.init sc ty) ops :=
  (memSim_run ops _ _ (memSim_init sc ty) h).1

example : bodiesOk (Mem.init [[("a", .int 0)]] (.typed 0))
    [.edit [.incr "a" 2, .append "a" .null], .set "a.0" (.str "x"), .get "a.0" none] = true := by decide

/-- the SQLite store returns, for every operation sequence, exactly what the specification returns -/
theorem C19_refines_dict_sqlite (sc : Schema) (ty : Ty) (ops : List Op) :
    runOuts Sql.step (Sql.init sc ty) ops = runOuts Spec.step (Spec.init sc ty) ops :=
  (sqlSim_run ops _ _ (sqlSim_init sc ty)).1

theorem C19_refines_dict (sc : Schema) (ty : Ty) (ops : List Op) :
    runOuts Sql.step (Sql.init sc ty) ops = runOuts Spec.step (Spec.init sc ty) ops ∧
    (bodiesOk (Mem.init sc ty) ops = true →
      runOuts Mem.step (Mem.init sc ty) ops = runOuts Spec.step (Spec.init sc ty) ops) :=
  ⟨C19_refines_dict_sqlite sc ty ops, C19_refines_dict_memory sc ty ops⟩

/-- a run in which every branch of the walkers is taken and nothing is trivial -/
example :
    runOuts Spec.step (Spec.init [] .dict)
      [.set "a.b.0" (.int 1), .set "l" (.arr [.int 1, .int 2]), .set "l.-1" (.str "z"), .get "l.1.0" none,
       .set "l.2" .null, .get "a.b" none, .get "nope.x" (some .null), .set "0" (.int 7), .get "0" none] =
      [.none, .none, .none, .val (.str "z"), .err .attributeError, .val (.obj [("0", .int 1)]),
       .val .null, .none, .val (.int 7)] := by rfl

/-- both stores return the same values -/
theorem C19_backends_agree (sc : Schema) (ty : Ty) (ops : List Op)
    (h : bodiesOk (Mem.init sc ty) ops = true) :
    runOuts Mem.step (Mem.init sc ty) ops = runOuts Sql.step (Sql.init sc ty) ops := by
  rw [C19_refines_dict_memory sc ty ops h, C19_refines_dict_sqlite sc ty ops]

/-- the guard is needed: a body that raises after a mutation is where the stores differ
(memory edits the live object, SQLite drops its copy) -/
example :
    runOuts Mem.step (Mem.init [] .dict) [.edit [.setKey "z" (.int 1), .raise], .get "z" (some .null)]
      = [.err .bodyError, .val (.int 1)] ∧
    runOuts Sql.step (Sql.init [] .dict) [.edit [.setKey "z" (.int 1), .raise], .get "z" (some .null)]
      = [.err .bodyError, .val .null] := ⟨rfl, rfl⟩

/-- not only the results: what the stores hold is what the specification holds -/
theorem C19_store_tracks_spec (sc : Schema) (ty : Ty) (ops : List Op) :
    (runState Sql.step (Sql.init sc ty) ops).abs = (runState Spec.step (Spec.init sc ty) ops).root ∧
    (bodiesOk (Mem.init sc ty) ops = true →
      (runState Mem.step (Mem.init sc ty) ops).root = (runState Spec.step (Spec.init sc ty) ops).root) :=
  ⟨(sqlSim_run ops _ _ (sqlSim_init sc ty)).2.root, fun h => (memSim_run ops _ _ (memSim_init sc ty) h).2.root⟩

/-- changing top-level fields / keys of a snapshot obtained from `get_state` changes neither store -/
theorem C19_snapshot (k : String) (v : Json) :
    (∀ m : Mem, (Mem.step m (.mutSnap k v)).1.root = m.root) ∧
    (∀ q : Sql, (Sql.step q (.mutSnap k v)).1.row = q.row ∧ (Sql.step q (.mutSnap k v)).1.abs = q.abs) ∧
    (∀ s : Spec, (Spec.step s (.mutSnap k v)).1.root = s.root) :=
  ⟨fun _ => rfl, fun _ => ⟨rfl, rfl⟩, fun _ => rfl⟩

/-- ... and no later sequence of store operations can tell whether the snapshot was mutated, until it
is written back: after any list of snapshot mutations every store operation returns what it would
have returned without them -/
theorem C19_snapshot_until_written_back (muts : List (String × Json)) (ops : List Op)
    (hops : ∀ op ∈ ops, storeOp op = true) :
    (∀ m : Mem, runOuts Mem.step (runState Mem.step m (snapOps muts)) ops = runOuts Mem.step m ops) ∧
    (∀ q : Sql, runOuts Sql.step (runState Sql.step q (snapOps muts)) ops = runOuts Sql.step q ops) := by
  constructor
  · intro m
    have ⟨h1, h2⟩ := mem_snapOps_store muts m
    exact (mem_storeOps_indep ops h2 h1 hops).1
  · intro q
    have ⟨h1, h2, h3⟩ := sql_snapOps_store muts q
    exact (sql_storeOps_indep ops h2 h3 h1 hops).1

/-- the snapshot is really mutated (the theorem is not about a no-op), and writing it back is what
changes the store -/
example :
    runOuts Mem.step (Mem.init [] .dict)
      [.set "a" (.int 1), .getState, .mutSnap "a" (.int 99), .get "a" none, .writeBack, .get "a" none] =
      [.none, .state ⟨.dict, [("a", .int 1)]⟩, .none, .val (.int 1), .none, .val (.int 99)] := by rfl

/-- a successful `set(path, v)` is read back by `get(path)` (spec, hence both stores) -/
theorem C19_set_then_get (s : Spec) (p : String) (v : Json) (d : Option Json)
    (h : (Spec.step s (.set p v)).2 = .none) :
    (Spec.step (Spec.step s (.set p v)).1 (.get p d)).2 = .val v := by
  simp only [Spec.step] at h ⊢
  cases hs : specSetPath s.root p v with
  | error e => rw [hs] at h; cases h
  | ok r =>
    simp only []
    exact specGet_after_set d hs

example : (Spec.step (Spec.init [] .dict) (.set "x.y" (.int 1))).2 = .none := by rfl

/-- missing intermediate segments are created as nested dicts -/
theorem C19_set_creates_missing (r : Root) (s t : String) (rest : List String) (v : Json)
    (hd : r.ty = .dict) (hm : lookup s r.data = none) :
    specRootSet r (s :: t :: rest) v = .ok { r with data := upsert s (nest (t :: rest) v) r.data } := by
  simp [specRootSet, hm, specRootPut, hd]

/-- at the root of a `DictState` every segment — all-digit ones included — is a string key
(F17: the unrepaired walker wrote the integer key `0` in memory) -/
theorem C19_digit_segment_is_key_at_root (r : Root) (seg : String) (v : Json) (hd : r.ty = .dict) :
    rootSet r [] seg v = .ok { r with data := upsert seg v r.data } ∧
    rootChild { r with data := upsert seg v r.data } seg = some v := by
  constructor
  · simp [rootSet, rootAssign, hd]
  · simp [rootChild, lookup_upsert_same]

example : runOuts Mem.step (Mem.init [] .dict) [.set "0" (.str "v"), .get "0" none, .get "" none] =
    [.none, .val (.str "v"), .state ⟨.dict, [("0", .str "v")]⟩] := by rfl

/-- below the root an all-digit segment indexes lists and strings, and is a key of dicts -/
example : runOuts Sql.step (Sql.init [] .dict)
    [.set "l" (.arr [.str "ab", .obj []]), .get "l.0.1" none, .set "l.1.0" (.int 5), .get "l.1" none,
     .get "l.1_0" (some .null), .get "l. -2 .-1" none] =
    [.none, .val (.str "b"), .none, .val (.obj [("0", .int 5)]), .val .null, .val (.str "b")] := by rfl

/-- `set_state` with an ancestor-typed instance overrides exactly the ancestor's fields and keeps
the child's own fields -/
theorem C19_merge_keeps_child_fields (cur inc r : Root) (n m : Nat) (hc : cur.ty = .typed n)
    (hi : inc.ty = .typed m) (hlt : m < n) (h : mergeState cur inc = .ok r) :
    r.ty = .typed n ∧ r.data.map (·.1) = cur.data.map (·.1) ∧
    ∀ k, lookup k r.data = (lookup k cur.data).map fun v => (lookup k inc.data).getD v := by
  unfold mergeState at h
  have h1 : isSub inc.ty cur.ty = false := by
    rw [hc, hi]; simp only [isSub, decide_eq_false_iff_not]; omega
  have h2 : isSub cur.ty inc.ty = true := by
    rw [hc, hi]; simp only [isSub, decide_eq_true_eq]; omega
  simp only [h1, h2, if_true, Bool.false_eq_true, if_false] at h
  cases h
  exact ⟨hc, overlay_keys _ _, fun k => lookup_overlay k _ _⟩

example : mergeState ⟨.typed 1, [("a", .int 0), ("c", .str "mine")]⟩ ⟨.typed 0, [("a", .int 5)]⟩ =
    .ok ⟨.typed 1, [("a", .int 5), ("c", .str "mine")]⟩ := by rfl

/-- `clear` leaves the type's defaults in both stores, whatever was there, and `get_state` then
returns them -/
theorem C19_clear_is_default :
    (∀ m : Mem, (Mem.step m .clear).1.root = defaultRoot m.sc m.root.ty ∧
      (Mem.step (Mem.step m .clear).1 .getState).2 = .state (defaultRoot m.sc m.root.ty)) ∧
    (∀ q : Sql, (Sql.step q .clear).1.abs = defaultRoot q.sc q.ty ∧
      (Sql.step (Sql.step q .clear).1 .getState).2 = .state (defaultRoot q.sc q.ty)) := by
  constructor
  · intro m
    have h : (Mem.step m .clear).1.root = defaultRoot m.sc m.root.ty := by
      simp only [Mem.step, Mem.setState]
      rw [mergeState_same (defaultRoot_ty _ _)]
    exact ⟨h, by simp only [Mem.step] at h ⊢; rw [h]⟩
  · intro q
    have hd : (defaultRoot q.sc q.ty).ty = q.abs.ty := by rw [defaultRoot_ty, Sql.abs_ty]
    have h : (Sql.step q .clear).1.abs = defaultRoot q.sc q.ty := by
      simp only [Sql.step, Sql.setState]
      rw [mergeState_same hd]
      exact Sql.abs_save _ _ (defaultRoot_ty _ _)
    refine ⟨h, ?_⟩
    have hl := (Sql.load_spec (Sql.step q .clear).1).1
    simp only [Sql.step] at h hl ⊢
    rw [hl, h]

example : (Sql.step (Sql.step (Sql.init [[("a", .int 0)], [("c", .str "c0")]] (.typed 1)) (.set "a" (.int 9))).1 .clear).1.row
    = some [("a", .int 0), ("c", .str "c0")] := by rfl
