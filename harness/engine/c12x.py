"""C12, second half: the payload side of `Context.from_dict`, the full `to_dict -> JSON -> from_dict` path, the resumed
run in closed form, and pause points at which nothing is in flight.

* `payload_stream` (K + S): raw payload dicts that `to_serialized` did NOT write -- current format with omitted fields,
  legacy `requirements` objects, in-progress entries, unknown and missing steps, any version marker; legacy V0 format with
  per-type buffers, waiter-id queues, `waiting_ids`; a malformed share -- go through JSON text and the real
  `PreContext(previous_context=...)` (`SerializedContext.from_dict_auto` + synchronous validation, `ContextSerdeError`) and
  `BrokerState.from_serialized`, then once more through `to_serialized -> JSON -> from_serialized`; compared with the model
  driver `serialctx` (`cur` / `leg` / `again`).  Monitors on the implementation alone: the second load equals the first
  (`C12/payload_roundtrip_not_stable`), no pending invocation of a known step is lost (`C12/payload_pending_invocation_lost`).
* `todict_stream` (K + S): generated broker states through what `ExternalContext.to_dict` does (`to_serialized`,
  `model_dump(mode="python")`), JSON text, `PreContext`, `from_serialized` (driver op `todict`), then the real
  `rewind_in_progress` at a generated clock against the closed form of `C12_resumed_run_restarts_pending` /
  `C12_resumed_run_retry_records` computed by the driver from the state BEFORE serialisation (`resumespec`).  Monitors on the
  implementation alone: count of pending invocations, records of the formerly queued ones, no free slot beside a backlog.
* `parked_runs` (S): a sequential human-in-the-loop workflow is snapshotted (`ctx.to_dict()`, the run goes on) and the snapshot
  is resumed separately; result, store, and -- when the snapshot was taken while the run waited for the reply with nothing in
  flight -- everything published from the snapshot on are compared (`C12_parked_resume_same_future` on the real code).
"""
from __future__ import annotations

import copy
import json
import random
from typing import Any

from ..runner import Divergence, Driver, Env, Outcome, Violation, diff_streams
from . import direct, enc, live
from . import evtypes as ET

QUAL = ET.__name__


# ------------------------------------------------------------------ token encodings of payload records

def _started(ev: Any, attempts: int, first: Any, exc: Any, failed: Any, rc: dict) -> str:
    return "%s %d %s %s %s %s" % (enc.ev(ev), attempts, enc.num(first), enc.exc(exc), enc.num(failed), enc.rc(rc))


def _qname(name: str) -> int:
    """queue names of the legacy format: step names `sNN` -> NN, waiter-id queues `wNN` -> 1000 + NN"""
    if name[0] == "s":
        return int(name[1:])
    return 1000 + int(name[1:])


class PayloadGen:
    """abstract payloads -> (raw dict for the real code, token line for the driver)"""

    def __init__(self, rng: random.Random, g: direct.Gen):
        from workflows.context.context_types import SerializedEventAttempt
        from workflows.context.serializers import JsonSerializer

        self.rng = rng
        self.g = g
        self.ser = JsonSerializer()
        self._sea = SerializedEventAttempt

    def exc_json(self, e: Exception | None) -> Any:
        return self._sea(event="x", last_exception=e).model_dump(mode="json")["last_exception"]

    def maybe(self, d: dict, key: str, value: Any, default: Any, p_omit: float = 0.5) -> None:
        """write `key` unless it holds its default and the coin says to leave it to the model's default"""
        if value == default and self.rng.random() < p_omit:
            return
        d[key] = value

    def attempt(self, hn: list[str], bad: list[bool]) -> tuple[dict, str]:
        rng = self.rng
        e = self.g.event(rng.choice([0, 5, 6, 7]))
        attempts = rng.choice([0, 0, 1, 2])
        first = rng.choice([None, None, 0.0, 990.0])
        exc = rng.choice([None, None, ET.Boom("e3")])
        failed = rng.choice([None, None, 995.0])
        rcd = self.g.rc(hn)
        d: dict = {"event": self.ser.serialize(e)}
        self.maybe(d, "attempts", attempts, 0)
        self.maybe(d, "first_attempt_at", first, None)
        self.maybe(d, "last_exception", self.exc_json(exc), None)
        self.maybe(d, "last_failed_at", failed, None)
        self.maybe(d, "recovery_counts", rcd, {})
        tok_attempts = str(attempts)
        if bad[0] and rng.random() < 0.5:
            d["attempts"] = "many"
            tok_attempts = "!"
            bad[0] = False
        return d, "PA %s %s %s %s %s %s" % (enc.ev(e), tok_attempts, enc.num(first), enc.exc(exc), enc.num(failed), enc.rc(rcd))

    def waiter(self, hn: list[str], wid: str) -> tuple[dict, str]:
        rng = self.rng
        wty = rng.choice([5, 6, 7, 3])
        e = self.g.event(rng.choice([0, 5, 6]))
        has_req = rng.random() < 0.3
        resolved = ET.mk(wty, self.g.fresh(), rng.choice([None, 1])) if rng.random() < 0.3 else None
        timed_out = resolved is None and rng.random() < 0.15
        attempts = rng.choice([0, 0, 1, 2])
        first = rng.choice([None, 0.0, 990.0])
        exc = rng.choice([None, None, ET.Boom("e2")])
        failed = rng.choice([None, 996.0])
        rcd = self.g.rc(hn)
        legacy = rng.choice([None, None, {}, {"k": 1}])
        d: dict = {"waiter_id": wid, "event": self.ser.serialize(e), "waiting_for_event": f"{QUAL}.{ET.TYPES[wty].__name__}"}
        self.maybe(d, "has_requirements", has_req, False)
        self.maybe(d, "resolved_event", None if resolved is None else self.ser.serialize(resolved), None)
        self.maybe(d, "timed_out", timed_out, False)
        self.maybe(d, "attempts", attempts, 0)
        self.maybe(d, "first_attempt_at", first, None)
        self.maybe(d, "last_exception", self.exc_json(exc), None)
        self.maybe(d, "last_failed_at", failed, None)
        self.maybe(d, "recovery_counts", rcd, {})
        if legacy is not None:
            d["requirements"] = legacy
        tok = "PW %s %s %d %d %s %d %d %s %s %s %s %d" % (
            enc.waiter_id(wid), enc.ev(e), wty, 1 if has_req else 0, enc.opt_ev(resolved), 1 if timed_out else 0, attempts,
            enc.num(first), enc.exc(exc), enc.num(failed), enc.rc(rcd), 1 if legacy else 0)
        return d, tok

    def collected(self) -> tuple[dict, str]:
        c = self.g.collected()
        return ({b: [self.ser.serialize(e) for e in v] for b, v in c.items()}, enc.collected(c))

    def current(self, names: list[str], hn: list[str], malformed: bool) -> tuple[dict, str, dict]:
        rng = self.rng
        version = rng.choice([1, 1, 1, 1, 1, 1, None, 0, 2])
        # a payload that is not read as the current format is read as the legacy one, which ignores `workers` altogether
        malformed = malformed and version == 1
        bad = [malformed]
        chosen = [n for n in names if rng.random() < 0.8] + [f"s{rng.randint(90, 95)}" for _ in range(rng.choice([0, 0, 1]))]
        chosen = list(dict.fromkeys(chosen))
        rng.shuffle(chosen)
        workers: dict = {}
        toks = []
        pending: dict[str, int] = {}
        for nm in chosen:
            q = [self.attempt(hn, bad) for _ in range(rng.choice([0, 0, 1, 2, 3]))]
            ip = [self.g.event(rng.choice([0, 5, 6])) for _ in range(rng.choice([0, 0, 1, 2]))]
            cd, ctok = self.collected()
            wids = rng.sample([f"w{i:02d}" for i in range(5)], rng.choice([0, 0, 1, 2]))
            ws = [self.waiter(hn, w) for w in wids]
            rec: dict = {}
            self.maybe(rec, "queue", [x[0] for x in q], [])
            self.maybe(rec, "in_progress", [self.ser.serialize(e) for e in ip], [])
            self.maybe(rec, "collected_events", cd, {})
            self.maybe(rec, "collected_waiters", [x[0] for x in ws], [])
            workers[nm] = rec
            toks.append("%s PS %s %s %s %s" % (enc.step_id(nm), enc.lst([x[1] for x in q]), enc.lst([enc.ev(e) for e in ip]), ctok,
                                              enc.lst([x[1] for x in ws])))
            pending[nm] = len(q) + len(ip)
        running = rng.random() < 0.8
        d: dict = {"state": {}}
        if version is not None:
            d["version"] = version
        self.maybe(d, "is_running", running, False, 0.3)
        self.maybe(d, "workers", workers, {}, 0.3)
        if bad[0]:
            # nothing was spoilt in a queue entry: spoil the record shape instead
            if workers:
                nm = rng.choice(list(workers))
                workers[nm]["queue"] = "not-a-list"
                d["workers"] = workers
            else:
                d["is_running"] = "perhaps"
            toks.append("!")
        info_malformed = malformed
        line = "cur %s %d %s" % (enc.num(version), 1 if running else 0, enc.lst(toks))
        return d, line, {"version": version, "pending": pending, "malformed": info_malformed}

    def legacy(self, names: list[str], malformed: bool) -> tuple[dict, str, dict]:
        rng = self.rng
        pool = names + [f"s{rng.randint(90, 95)}"] + ["w01", "w02"]

        def some_names() -> list[str]:
            k = rng.randint(0, min(3, len(pool)))
            return rng.sample(pool, k)

        queues = {n: [self.g.event(rng.choice([0, 5, 6])) for _ in range(rng.randint(0, 3))] for n in some_names()}
        inprog = {n: [self.g.event(rng.choice([0, 5, 6])) for _ in range(rng.randint(0, 2))] for n in some_names() if n[0] == "s"}
        bufs: dict[str, dict[int, list]] = {}
        for n in some_names():
            if n[0] != "s":
                continue
            tys = rng.sample([5, 6, 7], rng.randint(0, 2))
            bufs[n] = {t: [self.g.event(t) for _ in range(rng.randint(0, 2))] for t in tys}
        waiting = [w for w in ("w01", "w02") if rng.random() < 0.5]
        if names and rng.random() < 0.15:
            waiting.append(rng.choice(names))  # a step name among the waiter ids: that step is skipped
        version = rng.choice([None, None, None, 0, 2, 1])
        # read as the current format (version 1) the legacy keys are ignored, spoilt or not
        malformed = malformed and version != 1
        running = rng.random() < 0.8
        d: dict = {"state": {}}
        if version is not None:
            d["version"] = version
        self.maybe(d, "is_running", running, False, 0.3)
        self.maybe(d, "queues", {n: json.dumps([self.ser.serialize(e) for e in v]) for n, v in queues.items()}, {}, 0.3)
        self.maybe(d, "in_progress", {n: [self.ser.serialize(e) for e in v] for n, v in inprog.items()}, {}, 0.3)
        self.maybe(d, "event_buffers", {n: {f"{QUAL}.{ET.TYPES[t].__name__}": [self.ser.serialize(e) for e in v] for t, v in tv.items()}
                                        for n, tv in bufs.items()}, {}, 0.3)
        self.maybe(d, "waiting_ids", waiting, [], 0.3)
        if rng.random() < 0.3:
            d["broker_log"] = []
            d["streaming_queue"] = "[]"
        tail = ""
        if malformed:
            d["queues"] = {"s00": 7}
            tail = " !"
        line = "leg %s %d %s %s %s %s%s" % (
            enc.num(version), 1 if running else 0,
            enc.lst([f"{_qname(n)} {enc.lst([enc.ev(e) for e in v])}" for n, v in queues.items()]),
            enc.lst([f"{_qname(n)} {enc.lst([enc.ev(e) for e in v])}" for n, v in inprog.items()]),
            enc.lst([f"{_qname(n)} " + enc.lst([f"{t} {enc.lst([enc.ev(e) for e in v])}" for t, v in tv.items()]) for n, tv in bufs.items()]),
            enc.lst([str(_qname(w)) for w in waiting]), tail)
        pending = {}
        if version != 1:
            for n in set(queues) | set(inprog) | set(bufs):
                if n not in waiting:
                    pending[n] = len(queues.get(n, [])) + len(inprog.get(n, []))
        return d, line, {"version": version, "pending": pending, "legacy": True, "malformed": malformed}


def _patched_base(st: Any) -> Any:
    from workflows.runtime.types.internal_state import BrokerState, InternalStepWorkerState

    def base(_wf: Any, st: Any = st) -> Any:
        return BrokerState(is_running=False, config=st.config,
                           workers={nm: InternalStepWorkerState(queue=[], config=w.config, in_progress=[], collected_events={},
                                                                collected_waiters=[]) for nm, w in st.workers.items()})

    return staticmethod(base)


def _load(data: dict) -> Any:
    """what `Context.from_dict(workflow, data)` followed by `workflow.run(ctx=...)` computes as the initial broker state"""
    from workflows.context.pre_context import PreContext
    from workflows.runtime.types.internal_state import BrokerState

    pre = PreContext(workflow=None, previous_context=data)  # type: ignore[arg-type]
    return BrokerState.from_serialized(pre.init_snapshot, None, pre._serializer)  # type: ignore[arg-type]


def _replay_target(env: Env, stream: str) -> tuple[int | None, int | None]:
    if env.replay is not None and isinstance(env.replay.get("payload", {}).get("case"), dict):
        c = env.replay["payload"]["case"].get("c12x")
        if isinstance(c, dict) and c.get("stream") == stream:
            return c["gen_seed"], c["index"]
    return None, None


def payload_stream(env: Env, out: Outcome, n: int) -> None:
    from workflows.context.context_types import SerializedContext
    from workflows.errors import ContextSerdeError
    from workflows.runtime.types.internal_state import BrokerState

    gen_seed = env.rng.randrange(1 << 30)
    rs, only = _replay_target(env, "payload")
    if rs is not None:
        gen_seed, n = rs, max(n, (only or 0) + 1)
    rng = random.Random(gen_seed)
    g = direct.Gen(rng)
    pg = PayloadGen(rng, g)
    ops: list[str] = []
    exp: list[str] = []
    orig = BrokerState.from_workflow
    try:
        for idx in range(n):
            st = g.state(illformed=False)
            for w in st.workers.values():
                w.queue, w.in_progress, w.collected_events, w.collected_waiters = [], [], {}, []
            names = list(st.config.steps.keys())
            hn = list(st.config.catch_error_handlers.keys())
            malformed = rng.random() < 0.08
            kind = "legacy" if rng.random() < 0.35 else "current"
            data, line, info = pg.legacy(names, malformed) if kind == "legacy" else pg.current(names, hn, malformed)
            malformed = info["malformed"]
            if only is not None and idx != only:
                continue
            BrokerState.from_workflow = _patched_base(st)  # type: ignore[method-assign]
            case = {"c12x": {"stream": "payload", "gen_seed": gen_seed, "index": idx}, "payload": data}
            text = json.dumps(data)
            ops += ["cfg " + enc.cfg(st), line]
            exp.append("ok")
            out.evaluations += 1
            out.count(f"payload:{kind}:version:{info['version']}")
            try:
                cur = _load(json.loads(text))
            except ContextSerdeError:
                exp.append("bad-op")
                out.count("payload:rejected:" + ("malformed" if malformed else "WELL-FORMED"))
                if not malformed:
                    out.violations.append(Violation("C12/wellformed_payload_rejected", "Context.from_dict raised ContextSerdeError on a well-formed payload", case))
                continue
            except Exception as ex:  # anything else than the documented error: shown as a disagreement with the model's answer
                exp.append(f"raised {type(ex).__name__}")
                out.count("payload:raised:" + type(ex).__name__)
                if not malformed:
                    out.violations.append(Violation("C12/wellformed_payload_raises", f"Context.from_dict raised {type(ex).__name__}: {ex} on a well-formed payload", case))
                continue
            if malformed:
                out.count("payload:malformed_accepted")
            first = enc.state(cur)
            exp.append(first)
            # S: nothing pending is lost for the steps the workflow knows
            want = {nm: k for nm, k in info["pending"].items() if nm in st.workers}
            if info.get("legacy") is None and info["version"] != 1:
                want = {}
            got = {nm: len(w.queue) + len(w.in_progress) for nm, w in cur.workers.items()}
            lost = {nm: (k, got.get(nm, 0)) for nm, k in want.items() if got.get(nm, 0) != k}
            if lost and not malformed:
                out.violations.append(Violation("C12/payload_pending_invocation_lost",
                                                f"pending invocations per step in the payload vs. after Context.from_dict: {lost}", case))
            # one more to_serialized -> JSON -> from_serialized: the loaded state is a fixed point
            text2 = cur.to_serialized(pg.ser).model_dump_json()
            cur2 = BrokerState.from_serialized(SerializedContext.model_validate_json(text2), None, pg.ser)  # type: ignore[arg-type]
            second = enc.state(cur2)
            ops.append("again")
            exp.append(second)
            if second != first:
                i = 0
                while i < min(len(first), len(second)) and first[i] == second[i]:
                    i += 1
                out.violations.append(Violation("C12/payload_roundtrip_not_stable",
                                                "the state loaded from a payload changes under one more round trip: "
                                                f"...{first[max(0, i - 60): i + 60]}... vs ...{second[max(0, i - 60): i + 60]}...", case))
            npend = sum(got.values())
            out.count(f"payload:pending:{min(npend, 3)}")
            if kind == "current":
                out.count("payload:current:" + ("omitted_fields" if any(len(r) < 4 for r in data.get("workers", {}).values()) else "all_fields"))
                if any("requirements" in w for r in data.get("workers", {}).values() for w in r.get("collected_waiters", [])):
                    out.count("payload:current:legacy_requirements")
                if any(nm not in st.workers for nm in data.get("workers", {})):
                    out.count("payload:current:unknown_step")
            else:
                if any(n_ in data.get("waiting_ids", []) for n_ in list(data.get("queues", {})) + list(data.get("event_buffers", {}))):
                    out.count("payload:legacy:name_in_waiting_ids")
                if data.get("event_buffers"):
                    out.count("payload:legacy:buffers")
            if npend or any(w.collected_waiters or w.collected_events for w in cur.workers.values()):
                out.nontrivial(("payload", line))
            if len([s for s in out.samples if isinstance(s, dict) and "payload" in s]) < 2 and npend:
                out.sample({"payload": data, "loaded": first[:400]})
    finally:
        BrokerState.from_workflow = orig  # type: ignore[method-assign]
    _drive(out, "serialctx-payload", ops, exp)


def _drive(out: Outcome, label: str, ops: list[str], exp: list[str]) -> None:
    if not ops:
        return
    try:
        mo = Driver("serialctx").run(ops)
    except Exception as ex:
        out.divergences.append(Divergence(label, 0, "<driver>", repr(ex), ""))
        return
    out.traces_validated += sum(1 for o in ops if o.startswith("cfg "))
    out.disagreements_checked += len(ops)
    d = diff_streams(label, ops, mo, exp)
    if d is not None:
        a, b = d.model_out, d.impl_out
        i = 0
        while i < min(len(a), len(b)) and a[i] == b[i]:
            i += 1
        d.context = {"cfg": next((o for o in reversed(ops[: d.index]) if o.startswith("cfg ")), "")[:2000],
                     "state": next((o for o in reversed(ops[: d.index]) if o.startswith("state ")), "")[:4000]}
        d.op, d.model_out, d.impl_out = d.op[:3000], a[max(0, i - 300): i + 400], b[max(0, i - 300): i + 400]
        out.divergences.append(d)


def todict_stream(env: Env, out: Outcome, n: int) -> None:
    from workflows.runtime import control_loop as CL
    from workflows.runtime.types.internal_state import BrokerState, EventAttempt

    gen_seed = env.rng.randrange(1 << 30)
    rs, only = _replay_target(env, "todict")
    if rs is not None:
        gen_seed, n = rs, max(n, (only or 0) + 1)
    rng = random.Random(gen_seed)
    g = direct.Gen(rng)
    from workflows.context.serializers import JsonSerializer

    ser = JsonSerializer()
    ops: list[str] = []
    exp: list[str] = []
    orig = BrokerState.from_workflow
    try:
        for idx in range(n):
            st = g.state(illformed=False)
            if rng.random() < 0.4:
                # a backlog behind full workers / more queued than free slots: the resumed run must choose whom to start
                hn = list(st.config.catch_error_handlers.keys())
                for nm, w in st.workers.items():
                    if nm not in hn and rng.random() < 0.6:
                        ty = enc.ET.TY_ID.get(type(w.in_progress[0].event), 5) if w.in_progress else 5
                        w.queue += [g.attempt(hn, ty) for _ in range(rng.randint(1, 3))]
            now = float(rng.choice([1000, 1001, 1005]))
            if only is not None and idx != only:
                continue
            BrokerState.from_workflow = _patched_base(st)  # type: ignore[method-assign]
            case = {"c12x": {"stream": "todict", "gen_seed": gen_seed, "index": idx}, "cfg": enc.cfg(st)[:2000], "state": enc.state(st)[:6000]}
            # ExternalContext.to_dict: to_serialized, state filled in, model_dump(mode="python"); then JSON text and back
            ctx = st.to_serialized(ser)
            ctx.state = {}
            data = json.loads(json.dumps(ctx.model_dump(mode="python")))
            loaded = _load(data)
            after, cmds = CL.rewind_in_progress(loaded.deepcopy(), now)
            spec = enc.lst(["%s %d %s %s" % (
                enc.step_id(nm), len(after.workers[nm].in_progress),
                enc.lst([_started(ip.event, ip.attempts, ip.first_attempt_at, ip.last_exception, ip.last_failed_at, ip.recovery_counts)
                         for ip in after.workers[nm].in_progress]),
                enc.lst([enc.attempt(a) for a in after.workers[nm].queue])) for nm in st.config.steps.keys()])
            ops += ["cfg " + enc.cfg(st), "state " + enc.state(st), f"resumespec {enc.num(now)}", "todict"]
            exp += ["ok", enc.state(st), spec, enc.state(loaded)]
            out.evaluations += 1
            # S, on the implementation alone
            b4 = sum(len(w.queue) + len(w.in_progress) for w in st.workers.values())
            af = sum(len(w.queue) + len(w.in_progress) for w in after.workers.values())
            if b4 != af:
                out.violations.append(Violation("C12/resumed_run_invocation_count_changed",
                                                f"{b4} queued/in-progress invocations before ctx.to_dict(), {af} in the resumed run after its rewind", case))
            for nm, w in after.workers.items():
                if w.queue and len(w.in_progress) < w.config.num_workers:
                    out.violations.append(Violation("C12/resumed_run_slot_left_free",
                                                    f"{nm}: the resumed run starts with {len(w.queue)} queued invocation(s) but {len(w.in_progress)}/{w.config.num_workers} workers running", case))
                    break
            started_cmds = sum(1 for c in cmds if type(c).__name__ == "CommandRunWorker")
            if started_cmds != sum(len(w.in_progress) for w in after.workers.values()):
                out.violations.append(Violation("C12/resumed_run_row_without_worker",
                                                f"{sum(len(w.in_progress) for w in after.workers.values())} invocations in progress after the resumed run's rewind, {started_cmds} workers started", case))

            def rec(e: Any, attempts: Any, exc: Any, failed: Any, rcd: dict) -> tuple:
                return (enc.ev(e), attempts or 0, enc.exc(exc), failed, tuple(sorted(rcd.items())))

            have: list[tuple] = []
            for nm, w in after.workers.items():
                have += [(nm,) + rec(ip.event, ip.attempts, ip.last_exception, ip.last_failed_at, ip.recovery_counts) for ip in w.in_progress]
                have += [(nm,) + rec(a.event, a.attempts, a.last_exception, a.last_failed_at, a.recovery_counts) for a in w.queue]
            missing = []
            for nm, w in st.workers.items():
                for a in w.queue:
                    r = (nm,) + rec(a.event, a.attempts, a.last_exception, a.last_failed_at, a.recovery_counts)
                    if r in have:
                        have.remove(r)
                    else:
                        missing.append(r)
            if missing:
                out.violations.append(Violation("C12/resumed_run_queued_record_changed",
                                                f"queued invocations that the resumed run does not start / keep with their retry count, last failure and recovery counts: {missing[:3]}", case))
            nip = sum(len(w.in_progress) for w in st.workers.values())
            backlog = max((len(w.queue) + len(w.in_progress) - w.config.num_workers) for w in st.workers.values())
            out.count(f"todict:inprog:{min(nip, 3)}")
            out.count("todict:backlog:" + ("none" if backlog <= 0 else "1-2" if backlog <= 2 else ">2"))
            if nip or backlog > 0:
                out.nontrivial(("todict", ops[-3], now))
    finally:
        BrokerState.from_workflow = orig  # type: ignore[method-assign]
    _drive(out, "serialctx-todict", ops, exp)


# ------------------------------------------------------------------ pause points with nothing in flight

def gen_parked_spec(rng: random.Random) -> dict:
    """a sequential human-in-the-loop workflow: start -> ask (publishes a question, waits for the reply without requirements)
    -> finish.  One worker per step, one item, no gates: every schedule publishes the same sequence.  A snapshot is taken
    at a scheduler-chosen quiet point (the run goes on); the reply arrives later from outside."""
    wty = rng.choice([3, 11])
    ask_script: list = []
    if rng.random() < 0.3:
        ask_script.append(["gate"])  # then the snapshot may also be taken while the asking step is still running
    if rng.random() < 0.5:
        ask_script.append(["store_mark"])
    ask_script.append(["wait", wty, None, None, rng.choice(["w01", "w02"]), rng.choice([None, 2]), "swallow"])
    if rng.random() < 0.5:
        ask_script.append(["store_mark"])
    ask_script.append(["ret", "6"])
    start = {"name": "s00", "accepts": [0], "nw": 1, "retry": None, "script": [["send", 5, rng.choice([None, "s02"]), 1], ["ret", "none"]]}
    ask = {"name": "s02", "accepts": [5], "nw": 1, "retry": None, "script": ask_script}
    fin = {"name": "s04", "accepts": [6], "nw": 1, "retry": None,
           "script": [["store_set", "done", 1], ["ret", rng.choice(["stop", "stop", "none"])]]}
    steps = [start, ask, fin]
    rng.shuffle(steps)
    # the reply must not overtake the registration of the wait (it would be dropped as unhandled and the run would depend on
    # the schedule): without a gate the first quiet point is the one at which the run waits for the reply; a gate adds one.
    # The harness ends a run in which nothing is enabled, so the reply is enabled right at the quiet point after those.
    gated = any(a[0] == "gate" for a in ask_script)
    ext = [{"op": "snapshot", "after_quiet": 0}, {"op": "send", "ty": wty, "k": None, "step": None, "after_quiet": 2 if gated else 1}]
    return {"steps": steps, "externals": ext, "det_uids": True}


def parked_runs(env: Env, out: Outcome, n: int, corpus: list[dict]) -> list:
    rng = random.Random(env.rng.randrange(1 << 30))
    jobs: list[tuple[dict, int, list | None, list | None]] = []
    if env.replay is not None and isinstance(env.replay.get("payload", {}).get("case"), dict) and "parked" in env.replay["payload"]["case"]:
        c = env.replay["payload"]["case"]["parked"]
        jobs.append((c["spec"], c["seed"], c.get("actions1"), c.get("actions2")))
    for item in corpus:
        if "parked" in item:
            c = item["parked"]
            jobs.append((c["spec"], c["seed"], c.get("actions1"), c.get("actions2")))
    for _ in range(n):
        jobs.append((gen_parked_spec(rng), rng.randrange(1 << 30), None, None))
    resumed: list = []
    for spec, seed, a1, a2 in jobs:
        tr1 = live.run_spec(copy.deepcopy(spec), seed=seed, replay_actions=a1)
        out.evaluations += 1
        snaps = [s for s in tr1.snapshots if "dict" in s and not s.get("after_end")]
        if not snaps or tr1.outcome[0] not in ("result", "cancelled"):
            out.count("parked:no_snapshot" if not snaps else "parked:baseline:" + tr1.outcome[0])
            continue
        snap = snaps[0]
        if "remaining" not in snap:
            out.count("parked:no_remaining_info")
            continue
        rc = [c for c in tr1.calls[: snap["at_call"]] if c.after is not None]
        live_state = rc[-1].after if rc else None
        busy = live_state is None or any(w.queue or w.in_progress for w in live_state.workers.values())
        waiting = [] if live_state is None else [w for ws in live_state.workers.values() for w in ws.collected_waiters]
        parked = (not busy) and bool(waiting) and all(not w.requirements and not w.has_requirements for w in waiting)
        spec2 = copy.deepcopy(spec)
        # resumed while the asking step was running: it runs again from its start (one more gate) before it waits
        spec2["externals"] = [dict(e, after_quiet=0 if parked else 1) for e in snap["remaining"] if e["op"] == "send"]
        spec2["_resumed"] = True
        tr2 = live.run_spec(spec2, seed=seed + 1, replay_actions=a2, resume_from=snap["dict"])
        resumed.append(tr2)
        kind = "parked" if parked else ("busy" if busy else "before_wait")
        out.count("parked:snapshot:" + kind)
        out.count("parked:resumed_outcome:" + tr2.outcome[0])
        case = {"parked": {"spec": spec, "seed": seed, "actions1": tr1.actions, "actions2": tr2.actions}}
        if parked:
            out.nontrivial((repr(spec), tuple(tr1.actions)))
        if tr1.outcome[0] != tr2.outcome[0]:
            out.violations.append(Violation("C12/parked_resume_outcome_differs" if parked else "C12/snapshot_resume_outcome_differs",
                                            f"the run that went on ended as {tr1.outcome[0]}, the run resumed from its snapshot ({kind}) as {tr2.outcome[0]} ({tr2.outcome[1]!r})", case))
            continue
        if tr1.outcome[0] == "result":
            r1 = repr(getattr(tr1.outcome[1], "result", tr1.outcome[1]))
            r2 = repr(getattr(tr2.outcome[1], "result", tr2.outcome[1]))
            if r1 != r2:
                out.violations.append(Violation("C12/result_differs", f"snapshot ({kind}): went on -> {r1}, resumed -> {r2}", case))
            elif tr1.final_store != tr2.final_store:  # type: ignore[attr-defined]
                out.violations.append(Violation("C12/store_differs", f"snapshot ({kind}): went on -> store {tr1.final_store}, resumed -> {tr2.final_store}", case))  # type: ignore[attr-defined]
        if parked:
            # everything published from the pause on (C12_parked_resume_same_future: live.stream = before ++ resumed.stream)
            from . import suite

            tail1 = [suite.enc_pub(e) for (e, *_r) in tr1.stream[snap["stream_len"]:]]
            all2 = [suite.enc_pub(e) for (e, *_r) in tr2.stream]
            if tail1 != all2:
                i = 0
                while i < min(len(tail1), len(all2)) and tail1[i] == all2[i]:
                    i += 1
                out.violations.append(Violation("C12/parked_resume_publishes_differently",
                                                f"paused while waiting for input with nothing in flight; from the pause on the run that went on published {tail1[i: i + 3]} "
                                                f"where the resumed run published {all2[i: i + 3]} (position {i})", case))
            if len([s for s in out.samples if isinstance(s, dict) and "parked_spec" in s]) < 1:
                out.sample({"parked_spec": spec, "published_after_pause": all2[:12]})
    return resumed
