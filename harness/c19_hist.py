"""C19, statements over whole histories: correspondence streams of the `statestorehist` driver and the
model-independent metamorphic monitors that go with the theorems of `WfProps/C19.lean`, section "Every history".

K (driver `statestorehist`, `lean/Driver/StateStoreHist.lean`), per case:
  * `live`  — `Spec.stepLive` (the nested dict edited in place) against the real in-memory store on EVERY case,
    raising bodies included (the `spec` stream of c19.py has to skip those cases);
  * `memp` / `sqlp` — result of every op AND what the store holds after it (`get_state()` of the real store) against
    `Mem.root` / `Sql.abs` of the machines;
  * `sqlr`  — result of every op AND the database row of the run after it, read through the harness's own connection
    (absent / `state_json` decoded), against `Sql.row`: ties `Sql.load` ("the first read inserts the defaults"),
    `Sql.save` and the no-row branch of `set_state` to the table itself.  This stream needs an execution of its own
    (the monitors of c19.py read the state after every op, which creates the row).

S (no model involved), per case, on fresh real stores:
  * `snapshot_mutation_observable` — the ops up to the first write-back, with the top-level snapshot mutations erased,
    must give the same results at every remaining position and leave the same state;
  * `read_observable` — the whole case with the `get`s erased, likewise (in SQLite the first read writes the row).
"""
from __future__ import annotations

import json
from typing import Any

from .runner import Divergence, Violation

MODEL = "statestorehist"


# --------------------------------------------------------------------------
# real side


def canon_row(S: Any, row: Any) -> str:
    """the row of `workflow_state` as the model shows `Sql.row`"""
    if row is None:
        return "norow"
    state_json, tname = row
    try:
        d = json.loads(state_json)
        if tname == "DictState":
            data = {k: json.loads(v) for k, v in d.get("_data", {}).items()}
            kind = "dict"
        else:
            names = [c.__name__ for c in S.CHAIN]
            kind = f"typed:{names.index(tname)}" if tname in names else "other:" + str(tname)
            data = d["value"]
        return f"row {kind} {S.enc(data)}"
    except Exception as e:  # noqa: BLE001 - an undecodable row is an observation
        return f"row-undecodable {type(e).__name__}"


def run_rows(S: Any, sqlenv: Any, case: dict) -> list[str]:
    """unmonitored execution on a fresh real SQLite store; after every op the row is read from the table"""
    kind = case["kind"]
    real = S.Real(sqlenv.store(kind), kind)
    real.env = sqlenv
    outs = []
    for op in case["ops"]:
        if op[0] == "raw":
            outs.append("bad-op")
            continue
        o = real.do(op)
        outs.append(o + " ;; " + canon_row(S, sqlenv.raw_row(real.store.run_id)))
    return outs


def run_plain(S: Any, sqlenv: Any, kind: str, ops: list) -> tuple[list[str], list[str], Any, Any]:
    """unmonitored execution on fresh real stores: results of both, and what both hold at the end"""
    mem = S.Real(S.make_mem(kind), kind)
    sql = S.Real(sqlenv.store(kind), kind)
    sql.env = sqlenv
    a = [mem.do(op) for op in ops]
    b = [sql.do(op) for op in ops]
    return a, b, mem.peek(), sql.peek()


async def persist_real(real: Any, how: str) -> str:
    """`persist` op of `ss_common.Real`: replace `real.store` by a store restored from its serialized payload, through
    JSON as the server persists it.  The caller's snapshot (`real.held`) stays what it is."""
    from workflows.context.serializers import JsonSerializer
    from workflows.context.state_store import InMemoryStateStore, create_in_memory_payload

    from . import ss_common as S

    ser = JsonSerializer()
    s = real.store
    if how not in ("reopen", "copy", "migrate"):
        return "bad-op"
    if isinstance(s, InMemoryStateStore):
        payload = json.loads(json.dumps(s.to_dict(ser)))
        real.store = InMemoryStateStore.from_dict(payload, ser)
        return "none"
    env = real.env
    if env is None:
        return "bad-op"
    st_type = S.model_of(real.kind)
    if how == "reopen":
        # SqliteStateStore.from_dict of the {"store_type": "sqlite", "run_id"} reference: a new object on the same row
        payload = json.loads(json.dumps(s.to_dict(ser)))
        real.store = type(s).from_dict(payload, ser, db_path=env.path, state_type=st_type)
        return "none"
    env.n += 1
    new_run = f"run-{env.n}"
    if how == "copy":
        # the server's resume path: create_state_store(new run, serialized_state=<sqlite reference>) -> SQL copy of the row
        payload = json.loads(json.dumps(s.to_dict(ser)))
    else:
        # migrate: an in-memory payload of the current state (what InMemoryStateStore.to_dict gives) seeded into a new run
        cur = await s.get_state()
        payload = json.loads(json.dumps(create_in_memory_payload(cur, ser).model_dump()))
    real.store = env.ws.create_state_store(new_run, state_type=st_type, serialized_state=payload, serializer=ser)
    return "none"


def _state_line(S: Any, st: Any) -> str:
    return f"state {st[0]} {S.enc(st[1])}"


def _cls(kind: str) -> str:
    return "dict" if kind == "dict" else "typed"


def erase_checks(S: Any, sqlenv: Any, case: dict, r: Any, out: Any) -> list[Violation]:
    """metamorphic monitors; `r` is the CaseResult of the monitored run of `case` (results + states after every op)"""
    ops = case["ops"]
    kind = case["kind"]
    if any(op[0] == "raw" for op in ops) or r.viol is not None:
        return []
    vs: list[Violation] = []
    variants = []
    cut = next((i for i, op in enumerate(ops) if op[0] == "writeback"), len(ops))
    if any(op[0] == "mutsnap" for op in ops[:cut]):
        variants.append(("snapshot_mutation_observable", "mutsnap", cut,
                         "top-level mutations of get_state() snapshots (no write-back in between)"))
    if any(op[0] == "get" for op in ops):
        variants.append(("read_observable", "get", len(ops), "get() calls"))
    if any(op[0] == "persist" for op in ops):
        variants.append(("persist_restore_observable", "persist", len(ops), "persistence round trips (to_dict / from_dict)"))
    for rule, erased, upto, descr in variants:
        keep = [i for i in range(upto) if ops[i][0] != erased]
        fops = [ops[i] for i in keep]
        a, b, pa, pb = run_plain(S, sqlenv, kind, fops)
        out.count(f"erase:{erased}:cases")
        out.count(f"erase:{erased}:ops_erased", upto - len(keep))
        out.evaluations += 2 * len(fops)
        for name, orig, new, ost, nst in (("mem", r.mem, a, r.mem_st, pa), ("sql", r.sql, b, r.sql_st, pb)):
            bad = next((j for j, i in enumerate(keep) if orig[i] != new[j]), None)
            if bad is not None:
                i = keep[bad]
                vs.append(Violation(
                    f"C19/{rule}:{name}:{_cls(kind)}",
                    f"op #{i} {ops[i]!r} answered {orig[i]!r}; with the {descr} before it erased from the sequence the {name} "
                    f"store answers {new[bad]!r}",
                    {"kind": kind, "ops": ops[: i + 1]}))
                break
            if upto > 0 and ost and len(ost) >= upto and ost[upto - 1] is not None and tuple(ost[upto - 1]) != tuple(nst):
                vs.append(Violation(
                    f"C19/{rule}:{name}:{_cls(kind)}:state",
                    f"after the first {upto} ops the {name} store holds {ost[upto - 1][1]!r}; with the {descr} erased it holds {nst[1]!r}",
                    {"kind": kind, "ops": ops[:upto]}))
                break
        if vs:
            break
    return vs


# --------------------------------------------------------------------------
# model side


def driver_lines(S: Any, case: dict) -> list[str]:
    sc = S.schema_enc()
    lines = []
    for be in ("live", "memp", "sqlp", "sqlr"):
        lines.append(f"init|{be}|{case['kind']}|{sc}")
        lines += [S.op_line(op) for op in case["ops"]]
    return lines


def compare(S: Any, cases: list, results: list, rows: list, model_out: list[str], lines: list[str], spans: list, out: Any) -> None:
    """diff the four streams of every case; first mismatch per case becomes a Divergence"""
    for (tag, case), r, rw, (start, n) in zip(cases, results, rows, spans):
        upto = (r.at + 1) if (r.viol is not None and r.at >= 0) else n
        blocks = {}
        for bi, be in enumerate(("live", "memp", "sqlp", "sqlr")):
            s0 = start + bi * (n + 1)
            if s0 >= len(model_out) or model_out[s0] != "ok":
                out.divergences.append(Divergence(MODEL, s0, lines[s0] if s0 < len(lines) else "?",
                                                  model_out[s0] if s0 < len(model_out) else "<missing>", "ok", {"case": case}))
                blocks = None
                break
            blocks[be] = model_out[s0 + 1: s0 + 1 + n]
        if blocks is None:
            continue

        def with_state(outs: list[str], sts: list) -> list[str]:
            res = []
            for j in range(min(upto, len(outs))):
                st = sts[j] if j < len(sts) else None
                if case["ops"][j][0] == "raw" or st is None:
                    res.append(outs[j] if case["ops"][j][0] == "raw" else None)
                else:
                    res.append(outs[j] + " ;; " + _state_line(S, st))
            return res

        pairs = [
            ("live~mem", blocks["live"], list(r.mem[:upto])),
            ("memp", blocks["memp"], with_state(r.mem, r.mem_st)),
            ("sqlp", blocks["sqlp"], with_state(r.sql, r.sql_st)),
            ("sqlr", blocks["sqlr"], rw),
        ]
        for name, mo, io in pairs:
            hit = False
            for j in range(len(io)):
                if io[j] is None:
                    continue  # the monitored run recorded no state there (it stopped at a violation)
                out.disagreements_checked += 1
                if j >= len(mo) or mo[j] != io[j]:
                    out.divergences.append(Divergence(
                        f"{MODEL}/{name}", j, S.op_line(case["ops"][j]), mo[j] if j < len(mo) else "<missing>", io[j],
                        {"case": {"kind": case["kind"], "ops": case["ops"][: j + 1]}, "source": tag}))
                    hit = True
                    break
            if hit:
                break


# --------------------------------------------------------------------------
# generator shapes aimed at the history theorems


def gen_case_hist(S: Any, rng: Any, n_ops: int) -> dict:
    """* the first operation of a fresh store is of every kind (each reaches the no-row branch of another SQLite method);
    * a snapshot is held over a long stretch of store operations and own mutations, then written back, then read;
    * bodies raise in the middle and the sequence goes on (memory keeps what the body did, SQLite does not)."""
    kind = rng.choice(S.KINDS)
    ref = S.PySpec(kind)
    ops: list = []

    def put(op: list) -> None:
        ops.append(op)
        ref.do(op)

    shape = rng.randrange(3)
    if rng.random() < 0.4:
        # operations that must leave a store without a row without one
        for _ in range(rng.randrange(1, 4)):
            put(rng.choice([["setstate", "other", {}], ["writeback"], S.gen_op_mutsnap(rng, kind),
                            ["setstate", "anc:7", {}]]))
    first = rng.choice(["get", "getstate", "setstate", "clear", "edit", "set", "editraise", "getroot", "setstate_bad"])
    if first == "get":
        put(["get", S.gen_path(rng, ref.data, kind, False), S.NODEF if rng.random() < 0.5 else S.gen_scalar(rng)])
    elif first == "getroot":
        put(["get", "", S.NODEF])
    elif first == "getstate":
        put(["getstate"])
    elif first == "setstate":
        put(S.gen_setstate(rng, kind))
    elif first == "setstate_bad":
        put(["setstate", "other", {}])
    elif first == "clear":
        put(["clear"])
    elif first == "edit":
        put(["edit", [S.gen_mut(rng, kind, ref.data, False) for _ in range(rng.randrange(0, 3))]])
    elif first == "editraise":
        put(["edit", [S.gen_mut(rng, kind, ref.data, False) for _ in range(rng.randrange(0, 2))] + [["R"]]])
    else:
        path = S.gen_path(rng, ref.data, kind, True)
        put(["set", path, S.conforming_set_value(rng, kind, path)])
    if shape == 0:
        # long-held snapshot
        for _ in range(rng.randrange(0, 4)):
            put(S.gen_op(rng, kind, ref.data, ref.held is not None, False))
        put(["getstate"])
        for _ in range(rng.randrange(3, max(4, n_ops // 2))):
            x = rng.random()
            if x < 0.35:
                put(S.gen_op_mutsnap(rng, kind))
            else:
                op = S.gen_op(rng, kind, ref.data, True, False)
                if op[0] in ("getstate", "writeback"):
                    op = ["get", S.gen_path(rng, ref.data, kind, False), S.gen_scalar(rng)]
                put(op)
        put(["writeback"])
        put(["get", "", S.NODEF])
    elif shape == 1:
        # bodies raise in the middle; the sequence goes on
        while len(ops) < n_ops:
            if rng.random() < 0.2:
                muts = [S.gen_mut(rng, kind, ref.data, False) for _ in range(rng.randrange(1, 4))]
                muts.insert(rng.randrange(0, len(muts) + 1), ["R"] if kind == "dict" or rng.random() < 0.5 else ["K", "nofield", 1])
                put(["edit", muts])
                put(["get", "", S.NODEF])
            else:
                put(S.gen_op(rng, kind, ref.data, ref.held is not None, True))
    else:
        # snapshot handling interleaved with writes, no write-back at all
        put(["getstate"])
        while len(ops) < n_ops:
            x = rng.random()
            if x < 0.3:
                put(S.gen_op_mutsnap(rng, kind))
            elif x < 0.4:
                put(["getstate"])
            else:
                op = S.gen_op(rng, kind, ref.data, True, False)
                if op[0] == "writeback":
                    op = ["getstate"]
                put(op)
    return {"kind": kind, "ops": ops}


def with_persists(rng: Any, case: dict) -> dict:
    """sprinkle persistence round trips over a case: before the first op (a store that holds nothing / has no row), right
    after get_state (the snapshot must survive the store object), after raising bodies, and at random places"""
    ops: list = []
    hows = ["reopen", "copy", "migrate"]
    if rng.random() < 0.5:
        ops.append(["persist", rng.choice(hows)])
    for op in case["ops"]:
        ops.append(op)
        p = 0.12
        if op[0] in ("getstate", "mutsnap"):
            p = 0.35
        elif op[0] in ("edit", "clear", "setstate"):
            p = 0.25
        if rng.random() < p:
            ops.append(["persist", rng.choice(hows)])
            if rng.random() < 0.2:
                ops.append(["persist", rng.choice(hows)])
    return {"kind": case["kind"], "ops": ops}
