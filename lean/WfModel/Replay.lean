import WfModel.Runner
import WfModel.Serial
/-!
M1 (restart) — what the server does with a persisted tick log when it starts
(`llama_agents/server/_runtime/persistence_runtime.py`, `workflows/runtime/control_loop.py`):

* `replay_ticks_stream(state, ticks)`: `rewind_in_progress(state, time.time())` (commands
  dropped), then `_reduce_tick(tick, state, time.time())` for every persisted tick **in log
  order, all of them** (it does not stop at a terminal tick).  Every command the reducer
  returns is dropped — `CommandQueueEvent`, `CommandRunWorker`, `CommandPublishEvent`,
  `CommandScheduleWaiterTimeout`, `CommandScheduleIdleCheck` — except that the *last*
  exit-indicating one (`CommandCompleteRun` / `CommandFailWorkflow` / `CommandHalt`) is
  remembered ("last wins").  The clock is the wall clock at replay time, not the time the tick
  was processed (ticks are persisted without it): `clk i` below.  A reducer exception
  (`crash`) propagates: `none`.
* the persisted form of a tick (`Tick.persist`): `AddWaiter` requirements do not survive the store.
* `handler_status_from_exit_command`.
* `TickPersistenceDecorator.context_from_ticks`: validates the workflow first (repair `fix-C13`:
  the catch_error tables of the configuration are built by validation, so replay reduces with the
  same `cfg` as the live run — before the repair it reduced with empty handler tables on a freshly
  started server); no ticks and no legacy ctx → `None`; start
  from the legacy ctx (`BrokerState.from_serialized`) if the store has one, else from
  `BrokerState.from_workflow`; replay; `to_serialized` → `Context.from_dict` (= `roundtrip`).
* `PersistenceDecorator._on_server_start`: handlers with status `running`, a registered
  workflow, not idle; skipped without run id or when the run is already active; `None` →
  marked failed; exit command with a status → finalized, not run; otherwise
  `workflow.run(ctx=…, run_id=…)` = `Runner.init` on the deserialised state (rehydration ticks,
  `rewind_in_progress`, workflow timeout re-armed from now; the timer heap, the tick buffer and
  the mailbox of the dead process are not restored); an exception marks the handler failed.
Import-free apart from the engine model, so that `wfdriver` links.
-/
namespace Engine

/-! ### what of a tick survives the store -/

/-- `WorkflowTickAdapter.dump_python(tick, mode="json")` → store → `validate_python`: an `AddWaiter`
result is written with `requirements = {}` plus a `has_requirements` flag, and the validator strips
that flag again ("it's computed"), so the tick read back says "no requirements".  (Event payloads
and exceptions are abstract ids in this model; their own round trip is property C18.) -/
def Res.persist : Res → Res
  | .addWaiter wid waiterEv _ timeout ty => .addWaiter wid waiterEv none timeout ty
  | r => r

def Tick.persist : Tick → Tick
  | .stepResult step worker ev res => .stepResult step worker ev (res.map Res.persist)
  | t => t

/-- the persisted log of a run: `on_tick` appends every processed tick (without its time) -/
def persistedTicks (log : List (Tick × Int)) : List Tick := log.map (fun p => p.1.persist)

/-- "last wins": the last exit-indicating command seen so far -/
def lastExit (prev : Option Cmd) (cmds : List Cmd) : Option Cmd :=
  cmds.foldl (fun acc c => if c.isExit then some c else acc) prev

/-- `ReplayResult` -/
structure Replayed where
  st : State
  exit : Option Cmd := none

/-- the `async for tick in ticks` loop of `replay_ticks_stream`; `i` counts the reducer calls -/
def replayFrom (cfg : Cfg) (pol : Policy) (clk : Nat → Int) : Nat → Replayed → List Tick → Option Replayed
  | _, acc, [] => some acc
  | i, acc, t :: ts =>
    let r := reduce cfg pol t acc.st (clk i)
    if r.2.contains .crash then none
    else replayFrom cfg pol clk (i + 1) { st := r.1, exit := lastExit acc.exit r.2 } ts

/-- `replay_ticks_stream(state, ticks)`; `now0` is the clock of the leading `rewind_in_progress` -/
def replayTicks (cfg : Cfg) (pol : Policy) (st0 : State) (now0 : Int) (clk : Nat → Int)
    (ticks : List Tick) : Option Replayed :=
  let rw := rewind cfg st0 now0
  if rw.2.contains .crash then none else replayFrom cfg pol clk 0 { st := rw.1 } ticks

/-! ### handler status -/

inductive Status | running | completed | failed | cancelled
deriving DecidableEq, Repr

/-- the `error` column: `str(exception)` abstracted to what produced it -/
inductive ErrMsg
  | exc (x : Nat)        -- `str(command.exception)` of a step failure
  | timedOut             -- `str(WorkflowTimeoutError(...))`
  | noState              -- "handler crashed before persisting any state; cannot resume"
  | resumeError          -- `str(e)` of an exception raised while replaying / starting the run
deriving DecidableEq, Repr

structure Final where
  status : Status
  result : Option Pub := none
  error : Option ErrMsg := none
deriving DecidableEq, Repr

/-- `handler_status_from_exit_command` (on the three exit commands; `none` = "idle release is not
a completion": resume).  It is only ever called with an exit command. -/
def statusOfExit : Cmd → Option Final
  | .completeRun .idleReleased => none
  | .completeRun p => some { status := .completed, result := some p }
  | .failWorkflow _ x => some { status := .failed, error := some (.exc x) }
  | .halt .cancelledByUser => some { status := .cancelled }
  | .halt .timeout => some { status := .failed, error := some .timedOut }
  | _ => none

/-! ### `context_from_ticks` -/

inductive Ctx
  | nothing                      -- `return None`
  | raised                       -- an exception escaped (reducer error during replay)
  | ok (st : State) (exit : Option Cmd)  -- the deserialised state the Context is built from

/-- `legacy` = `BrokerState.from_serialized(legacy ctx)` when the store has a legacy ctx for the run -/
def contextFromTicks (cfg : Cfg) (pol : Policy) (legacy : Option State) (ticks : List Tick)
    (now0 : Int) (clk : Nat → Int) : Ctx :=
  match ticks, legacy with
  | [], none => .nothing
  | [], some s => .ok (roundtrip cfg s) none
  | _ :: _, _ =>
    match replayTicks cfg pol (legacy.getD initState) now0 clk ticks with
    | none => .raised
    | some rep => .ok (roundtrip cfg rep.st) rep.exit

/-! ### `_on_server_start` -/

inductive Decision
  | skip                         -- not selected / no run id / already active: nothing is written or started
  | markFailed (e : ErrMsg)      -- `update_handler_status(failed, error=…)`, nothing started
  | finalize (f : Final)         -- `update_handler_status(status, result, error)`, nothing started
  | resume (r : Runner)          -- `workflow.run(ctx=…, run_id=…)`: this runner starts

/-- what restarting one run does, given its persisted ticks.  `mkStart` is what
`_get_start_event_instance()` builds from no arguments when the rebuilt context is not running
(`none` = it raises); `nowR` the clock when the resumed runner starts. -/
def restartRun (cfg : Cfg) (pol : Policy) (legacy : Option State) (ticks : List Tick) (now0 : Int)
    (clk : Nat → Int) (nowR : Int) (mkStart : Option Ev) (timeout : Option Nat) : Decision :=
  match contextFromTicks cfg pol legacy ticks now0 clk with
  | .nothing => .markFailed .noState
  | .raised => .markFailed .resumeError
  | .ok st exit =>
    match exit.bind statusOfExit with
    | some f => .finalize f
    | none =>
      if st.isRunning then .resume (Runner.init cfg st nowR none timeout)
      else match mkStart with
        | some e => .resume (Runner.init cfg st nowR (some e) timeout)
        | none => .markFailed .resumeError

/-- a row of the handlers table, as far as `_on_server_start` looks at it -/
structure HandlerRow where
  hid : Nat
  wf : Nat
  status : Status
  runId : Option Nat
  idle : Bool
deriving DecidableEq, Repr

/-- `HandlerQuery(status_in=["running"], workflow_name_in=registered, is_idle=False)` -/
def startQuery (registered : List Nat) (h : HandlerRow) : Bool :=
  h.status == .running && registered.contains h.wf && !h.idle

inductive Pick | notSelected | noRunId | alreadyActive | restart (run : Nat)
deriving DecidableEq, Repr

/-- which handlers `_on_server_start` acts on, in query order.  `active` = `_active_run_ids`; a
run joins it only when it is actually resumed (`run_workflow`), which `resumes r` says -/
def pickHandlers (registered : List Nat) (resumes : Nat → Bool) : List Nat → List HandlerRow → List (Nat × Pick)
  | _, [] => []
  | active, h :: hs =>
    if !startQuery registered h then (h.hid, .notSelected) :: pickHandlers registered resumes active hs
    else match h.runId with
      | none => (h.hid, .noRunId) :: pickHandlers registered resumes active hs
      | some r =>
        if active.contains r then (h.hid, .alreadyActive) :: pickHandlers registered resumes active hs
        else (h.hid, .restart r) :: pickHandlers registered resumes (if resumes r then r :: active else active) hs

/-! ### the idle marker of a handler row (`idle_release_runtime.py`), as far as a restart depends on it

`WorkflowServer` always puts `IdleReleaseDecorator` around `PersistenceDecorator`, and the start query
reads the marker it maintains (`is_idle=False` = `idle_since IS NULL`).  Memory and SQLite store calls
never yield, so each of the following is one step (the interleavings with stores that suspend are
properties C26 / C36, model `Lifecycle`):

* `idleAnnounced` — `_IdleReleaseInternalRunAdapter.write_to_event_stream(WorkflowIdleEvent)`:
  `update_handler_status(idle_since=now)` before the event is published;
* `sendDone` — `IdleReleaseExternalRunAdapter.send_event` has returned: under the reload lock, a run
  that is in memory gets `update_handler_status(idle_since=None)`, a released one is reloaded by
  `_ensure_active_run_locked` (`context_from_ticks`, `workflow.run`, `_active_run_ids.add`,
  `update_handler_status(idle_since=None)`); then the tick is put into the run's mailbox;
* `released` — `_release_idle_handler` went through (marker set, `idle_timeout` elapsed, run in memory);
* `processStop` — the process stops; the next one's `_on_server_start` selects the row iff it is not idle. -/

inductive RowEv | idleAnnounced | sendDone | released | processStop
deriving DecidableEq, Repr

/-- `idle` = the row's `idle_since` is set; `inMemory` = `run_id ∈ IdleReleaseDecorator._active_run_ids` -/
structure RowMark where
  idle : Bool := false
  inMemory : Bool := true
deriving DecidableEq, Repr

def RowMark.step (m : RowMark) : RowEv → RowMark
  | .idleAnnounced => { m with idle := true }
  | .sendDone => { idle := false, inMemory := true }
  | .released => if m.idle && m.inMemory then { m with inMemory := false } else m
  | .processStop => { m with inMemory := !m.idle }

def RowMark.run (m : RowMark) (evs : List RowEv) : RowMark := evs.foldl RowMark.step m

/-- one handler row of `_on_server_start` on the full server stack: a row whose idle marker is set is
not in the result of the start query, so nothing is read, written or started for it (it is reloaded
by the next `send_event`); any other running row is `restartRun` -/
def restartHandler (idle : Bool) (cfg : Cfg) (pol : Policy) (legacy : Option State) (ticks : List Tick) (now0 : Int)
    (clk : Nat → Int) (nowR : Int) (mkStart : Option Ev) (timeout : Option Nat) : Decision :=
  if idle then .skip else restartRun cfg pol legacy ticks now0 clk nowR mkStart timeout

/-! ### what of a live runner is volatile -/

/-- events of the invocations a step still owes: queued and in progress -/
def pendingEvs (ss : StepState) : List Ev := ss.queue.map (·.ev) ++ ss.inProg.map (·.ev)

/-- timers that carry work (a delayed retry, a waiter timeout); the workflow timeout is re-armed on resume -/
def Timer.carriesWork (t : Timer) : Bool :=
  match t.tick with
  | .addEvent _ _ => true
  | .waiterTimeout _ _ => true
  | _ => false

end Engine
