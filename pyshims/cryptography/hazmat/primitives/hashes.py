"""STAND-IN (see cryptography/__init__.py): hash algorithm descriptors only."""


class HashAlgorithm:
    name = "?"
    digest_size = 0


class SHA256(HashAlgorithm):
    name = "sha256"
    digest_size = 32
    block_size = 64
