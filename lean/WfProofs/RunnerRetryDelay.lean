import WfProofs.RunnerIdle
import WfProofs.RunnerTimeout
import WfProofs.RunnerC03
import WfProofs.RunnerRecovery
/-!
C06 on the runner LTS, for every history: **no retry is re-admitted before the delay its own record documents**.

A retry travels as a `TickAddEvent` that carries the record of the failure it follows (`attempts = k`,
`last_failed_at = f`, `first_attempt_at = fa`, `last_exception = x`).  "Served at `t`" says: whatever delay `d` the
step's policy grants for exactly that failure (`next(f - fa, k, x) = d`), `f + d ≤ t`.  `C06Inv` says every timer is
due at a time its tick is served at, every buffered / logged tick is served at the clock it is (was) reduced at, and
nothing in the mailbox carries a failure record.  It is preserved by every action of the runner (`c06_step_inv`), so
it holds after every action list (`c06_run_inv`).
-/
set_option linter.unusedSimpArgs false
set_option linter.unusedVariables false

namespace Engine

/-- the record `att` carries is honoured at time `t`: the delay the policy grants for the failure the record
describes has passed since that failure -/
def Attempt.c06ServedAt (pol : Policy) (step : Nat) (att : Attempt) (t : Int) : Prop :=
  ∀ (k : Nat) (f fa : Int) (x d : Nat), att.attempts = some k → att.lastFailedAt = some f → att.firstAt = some fa →
    att.lastExc = some x → pol step (f - fa) k x = .retry d → f + (d : Int) ≤ t

def Tick.c06ServedAt (pol : Policy) (tk : Tick) (t : Int) : Prop :=
  match tk with
  | .addEvent att (some step) => att.c06ServedAt pol step t
  | _ => True

/-- a step-result tick reports no failure time later than `t` (`failed_at = get_now()` when the step raised) -/
def Tick.c06FailsBy (tk : Tick) (t : Int) : Prop :=
  match tk with
  | .stepResult _ _ _ res => ∀ x f, Res.failed x f ∈ res → f ≤ t
  | _ => True

/-- ticks that carry no failure record at all (what `ctx.send_event`, `cancel_run`, … put into the mailbox) -/
def Tick.c06NoRec : Tick → Bool
  | .addEvent att _ => att.lastFailedAt.isNone
  | .stepResult _ _ _ _ => false
  | _ => true

def Tick.c06Ok (pol : Policy) (tk : Tick) (t : Int) : Prop := tk.c06ServedAt pol t ∧ tk.c06FailsBy t

theorem Tick.c06Ok_mono (pol : Policy) (tk : Tick) {t t' : Int} (h : t ≤ t') (hk : tk.c06Ok pol t) : tk.c06Ok pol t' := by
  obtain ⟨h1, h2⟩ := hk
  constructor
  · cases tk with
    | addEvent att tgt =>
      cases tgt with
      | none => trivial
      | some s =>
        intro k f fa x d a1 a2 a3 a4 a5
        have := h1 k f fa x d a1 a2 a3 a4 a5
        omega
    | _ => trivial
  · cases tk with
    | stepResult s w ev res =>
      intro x f hm
      have := h2 x f hm
      omega
    | _ => trivial

theorem Tick.c06Ok_of_noRec (pol : Policy) (tk : Tick) (t : Int) (h : tk.c06NoRec = true) : tk.c06Ok pol t := by
  cases tk with
  | addEvent att tgt =>
    refine ⟨?_, trivial⟩
    cases tgt with
    | none => trivial
    | some s =>
      intro k f fa x d a1 a2 a3 a4 a5
      simp [Tick.c06NoRec, a2] at h
  | stepResult s w ev res => simp [Tick.c06NoRec] at h
  | _ => exact ⟨trivial, trivial⟩

/-- a queued event is served at the time `process_command` makes it available: `now + delay` on the heap, `now`
in the buffer -/
def Cmd.c06Served (pol : Policy) (now : Int) : Cmd → Prop
  | .queueEvent att tgt delay => (Tick.addEvent att tgt).c06ServedAt pol (now + ((delay.getD 0 : Nat) : Int))
  | _ => True

theorem c06Served_of_notQueue (pol : Policy) (now : Int) (c : Cmd) (h : c.isQueue = false) : c.c06Served pol now := by
  cases c <;> first | trivial | simp [Cmd.isQueue] at h

theorem c06Served_of_any (pol : Policy) (now : Int) (cmds : List Cmd) (h : cmds.any Cmd.isQueue = false) :
    ∀ c ∈ cmds, c.c06Served pol now := by
  intro c hc
  apply c06Served_of_notQueue
  have := List.any_eq_false.mp h c hc
  simpa using this

theorem retryDecision_pol (cfg : Cfg) (pol : Policy) (step : Nat) (el : Int) (k x d : Nat)
    (h : retryDecision cfg pol step el k x = .retry d) : pol step el k x = .retry d := by
  unfold retryDecision at h
  split at h
  · split at h
    · exact h
    · cases h
  · cases h

theorem c06Served_norec (pol : Policy) (now : Int) (ev : Ev) (rc : RC) (tgt : Option Nat) (delay : Option Nat) :
    (Cmd.queueEvent { ev := ev, rc := rc } tgt delay).c06Served pol now := by
  cases tgt with
  | none => trivial
  | some s =>
    intro k f fa x d a1 a2 a3 a4 a5
    cases a2

theorem applyRes_c06 (cfg : Cfg) (pol : Policy) (step : Nat) (tickEv : Ev) (dc : Bool) (now : Int)
    (acc : ResAcc) (r : Res) (hr : ∀ x f, r = .failed x f → f ≤ now)
    (h : ∀ c ∈ acc.cmds, c.c06Served pol now) :
    ∀ c ∈ (applyRes cfg pol step tickEv dc acc r).cmds, c.c06Served pol now := by
  cases r with
  | result r =>
    cases r with
    | none => simpa [applyRes] using h
    | some ev =>
      simp only [applyRes]
      split
      · intro c hc
        simp only [List.mem_append, List.mem_cons, List.mem_nil_iff, or_false] at hc
        rcases hc with hc | rfl | rfl
        · exact h c hc
        · trivial
        · trivial
      · intro c hc
        simp only [List.mem_append, List.mem_cons, List.mem_nil_iff, or_false] at hc
        rcases hc with (hc | hc) | rfl
        · exact h c hc
        · split at hc
          · simp at hc; subst hc; trivial
          · simp at hc
        · trivial
  | failed exc failedAt =>
    have hle : failedAt ≤ now := hr exc failedAt rfl
    simp only [applyRes]
    split
    · exact h
    split
    · rename_i d hd
      intro c hc
      simp only [List.mem_append, List.mem_cons, List.mem_nil_iff, or_false] at hc
      rcases hc with hc | rfl
      · exact h c hc
      · intro k f fa x d' a1 a2 a3 a4 a5
        simp only [Option.some.injEq] at a1 a2 a3 a4
        subst a1 a2 a3 a4
        have := retryDecision_pol cfg pol step _ _ _ _ hd
        rw [this] at a5
        cases a5
        simp only [Option.getD_some]
        omega
    all_goals
      split
      · split
        · intro c hc
          simp only [List.mem_append, List.mem_cons, List.mem_nil_iff, or_false] at hc
          rcases hc with hc | rfl
          · exact h c hc
          · exact c06Served_norec pol now _ _ _ _
        · intro c hc
          simp only [List.mem_append, List.mem_cons, List.mem_nil_iff, or_false] at hc
          rcases hc with hc | rfl | rfl
          · exact h c hc
          · trivial
          · trivial
      · intro c hc
        simp only [List.mem_append, List.mem_cons, List.mem_nil_iff, or_false] at hc
        rcases hc with hc | rfl | rfl
        · exact h c hc
        · trivial
        · trivial
  | addCollected buf ev =>
    simp only [applyRes]
    split
    · exact h
    split
    · intro c hc
      simp only [List.mem_append, List.mem_cons, List.mem_nil_iff, or_false] at hc
      rcases hc with hc | rfl
      · exact h c hc
      · trivial
    · exact h
  | deleteCollected buf =>
    simp only [applyRes]
    split <;> exact h
  | addWaiter wid waiterEv req timeout ty =>
    simp only [applyRes]
    split
    · exact h
    · intro c hc
      simp only [List.mem_append] at hc
      rcases hc with (hc | hc) | hc
      · exact h c hc
      · cases waiterEv <;> simp at hc; subst hc; trivial
      · cases timeout <;> simp at hc; subst hc; trivial
  | deleteWaiter wid =>
    simp only [applyRes]
    split <;> exact h

theorem foldl_applyRes_c06 (cfg : Cfg) (pol : Policy) (step : Nat) (tickEv : Ev) (dc : Bool) (now : Int) :
    ∀ (res : List Res) (acc : ResAcc), (∀ x f, Res.failed x f ∈ res → f ≤ now) →
      (∀ c ∈ acc.cmds, c.c06Served pol now) →
      ∀ c ∈ (res.foldl (applyRes cfg pol step tickEv dc) acc).cmds, c.c06Served pol now
  | [], acc, _, h => by simpa using h
  | r :: rs, acc, hr, h => by
    simp only [List.foldl_cons]
    exact foldl_applyRes_c06 cfg pol step tickEv dc now rs _ (fun x f hm => hr x f (by simp [hm]))
      (applyRes_c06 cfg pol step tickEv dc now acc r (fun x f e => hr x f (by simp [e])) h)

theorem processStepResult_c06 (cfg : Cfg) (pol : Policy) (step worker : Nat) (tickEv : Ev)
    (res : List Res) (st : State) (now : Int) (hr : ∀ x f, Res.failed x f ∈ res → f ≤ now) :
    ∀ c ∈ (processStepResult cfg pol step worker tickEv res st now).2, c.c06Served pol now := by
  unfold processStepResult
  split
  · intro c hc; simp at hc; subst hc; trivial
  · split
    · intro c hc; simp at hc; subst hc; trivial
    · rename_i exec _
      have hf := foldl_applyRes_c06 cfg pol step tickEv (res.any isResult) now res
        { st := st, exec := exec } hr (by simp)
      simp only
      generalize (res.foldl (applyRes cfg pol step tickEv (res.any isResult)) { st := st, exec := exec }) = acc at hf
      have hs : ∀ c ∈ (settle acc step worker tickEv).2, c.c06Served pol now := by
        unfold settle; simp only; split
        · exact hf
        · intro c hc
          rcases List.mem_cons.mp hc with rfl | hc
          · trivial
          · exact hf c hc
      split
      · exact hs
      · intro c hc
        rcases List.mem_append.mp hc with hc | hc
        · exact hs c hc
        · exact c06Served_of_any pol now _ (drain_free lightFree_queue _ _ _ _ _) c hc

/-- every event a tick queues is served at the time it becomes available, provided the tick reports no failure
from the future -/
theorem reduce_c06 (cfg : Cfg) (pol : Policy) (tick : Tick) (st : State) (now : Int) (hf : tick.c06FailsBy now) :
    ∀ c ∈ (reduce cfg pol tick st now).2, c.c06Served pol now := by
  have key : ∀ (r : State × List Cmd), (∀ c ∈ r.2, c.c06Served pol now) →
      ∀ c ∈ (if checkIdle cfg r.1 then (r.1, r.2 ++ [Cmd.scheduleIdleCheck]) else r).2, c.c06Served pol now := by
    intro r hr c hmem
    split at hmem
    · rcases List.mem_append.mp hmem with hm | hm
      · exact hr c hm
      · simp at hm; subst hm; trivial
    · exact hr c hmem
  unfold reduce
  cases tick with
  | stepResult step worker ev res =>
    exact key _ (processStepResult_c06 cfg pol step worker ev res st now hf)
  | addEvent att target =>
    exact key _ (c06Served_of_any pol now _ (processAddEvent_free lightFree_queue cfg att target st now))
  | cancelRun =>
    exact key _ (by intro c hc; simp at hc; rcases hc with rfl | rfl <;> trivial)
  | idleRelease => intro c hc; simp at hc; subst hc; trivial
  | publish ev =>
    exact key _ (by intro c hc; simp at hc; subst hc; trivial)
  | timeout t =>
    exact key _ (by intro c hc; simp at hc; rcases hc with rfl | rfl <;> trivial)
  | waiterTimeout step waiter =>
    exact key _ (c06Served_of_any pol now _ (processWaiterTimeout_free lightFree_queue cfg step waiter st now))
  | idleCheck =>
    simp only
    split
    · intro c hc; simp at hc; subst hc; trivial
    · intro c hc; simp at hc

/-! ### the runner invariant -/

structure C06Inv (pol : Policy) (r : Runner) : Prop where
  heap : ∀ tm ∈ r.heap, tm.tick.c06Ok pol tm.at_
  buf : ∀ t ∈ r.buf, t.c06Ok pol r.now
  mailbox : ∀ t ∈ r.mailbox, t.c06NoRec = true
  log : ∀ p ∈ r.log, p.1.c06ServedAt pol p.2

theorem c06_addEvent_failsBy (att : Attempt) (tgt : Option Nat) (t : Int) : (Tick.addEvent att tgt).c06FailsBy t := trivial

theorem execCmd_c06Inv (pol : Policy) (r : Runner) (c : Cmd) (h : C06Inv pol r) (hc : c.c06Served pol r.now) :
    C06Inv pol (execCmd r c) := by
  obtain ⟨hh, hb, hm, hl⟩ := h
  cases c with
  | queueEvent att step delay =>
    simp only [execCmd]
    have hbuf : (Tick.addEvent att step).c06ServedAt pol r.now →
        C06Inv pol { r with buf := r.buf ++ [Tick.addEvent att step] } := by
      intro hs
      refine ⟨hh, ?_, hm, hl⟩
      intro x hx
      rcases List.mem_append.mp hx with hx | hx
      · exact hb x hx
      · simp at hx; subst hx; exact ⟨hs, trivial⟩
    cases delay with
    | none => exact hbuf (by simpa [Cmd.c06Served] using hc)
    | some d =>
      simp only
      split
      · refine ⟨?_, hb, hm, hl⟩
        intro tm htm
        simp only [Runner.push, List.mem_append, List.mem_singleton] at htm
        rcases htm with htm | rfl
        · exact hh tm htm
        · exact ⟨by simpa [Cmd.c06Served] using hc, trivial⟩
      · rename_i hd
        have : d = 0 := by omega
        subst this
        exact hbuf (by simpa [Cmd.c06Served] using hc)
  | runWorker s ev w => exact ⟨hh, hb, hm, hl⟩
  | halt k => exact ⟨hh, hb, hm, hl⟩
  | completeRun p => exact ⟨hh, hb, hm, hl⟩
  | failWorkflow s x => exact ⟨hh, hb, hm, hl⟩
  | publish p => exact ⟨hh, hb, hm, hl⟩
  | scheduleIdleCheck =>
    simp only [execCmd]
    split
    · exact ⟨hh, hb, hm, hl⟩
    · refine ⟨hh, ?_, hm, hl⟩
      intro x hx
      rcases List.mem_append.mp hx with hx | hx
      · exact hb x hx
      · simp at hx; subst hx; exact ⟨trivial, trivial⟩
  | scheduleWaiterTimeout s w t =>
    refine ⟨?_, hb, hm, hl⟩
    intro tm htm
    simp only [execCmd, Runner.push, List.mem_append, List.mem_singleton] at htm
    rcases htm with htm | rfl
    · exact hh tm htm
    · exact ⟨trivial, trivial⟩
  | crash => exact ⟨hh, hb, hm, hl⟩

theorem execCmds_c06Inv (pol : Policy) : ∀ (cmds : List Cmd) (r : Runner), C06Inv pol r →
    (∀ c ∈ cmds, c.c06Served pol r.now) → C06Inv pol (execCmds r cmds)
  | [], r, h, _ => by simpa [execCmds] using h
  | c :: cs, r, h, hc => by
    unfold execCmds
    have h1 := execCmd_c06Inv pol r c h (hc c (by simp))
    simp only
    split
    · exact h1
    · apply execCmds_c06Inv pol cs _ h1
      intro x hx
      rw [execCmd_now]
      exact hc x (by simp [hx])

/-- what the environment may do: a finishing worker reports failure times that are not in the future, and an
outside party sends ticks without a failure record (`ctx.send_event` builds a bare `TickAddEvent`) -/
def Act.c06Ok (r : Runner) : Act → Prop
  | .workerDone _ _ res => ∀ x f, Res.failed x f ∈ res → f ≤ r.now
  | .external t => t.c06NoRec = true
  | _ => True

theorem c06_step_inv (cfg : Cfg) (pol : Policy) (r : Runner) (a : Act) (ha : a.c06Ok r)
    (h : C06Inv pol r) : C06Inv pol (r.step cfg pol a) := by
  unfold Runner.step
  split
  · exact h
  · obtain ⟨hh, hb, hm, hl⟩ := h
    cases a with
    | drain =>
      simp only
      split
      · exact ⟨hh, hb, hm, hl⟩
      · rename_i t rest hbuf
        have hbt : t.c06Ok pol r.now := hb t (by simp [hbuf])
        have hbrest : ∀ x ∈ rest, x.c06Ok pol r.now := fun x hx => hb x (by simp [hbuf, hx])
        split
        · exact ⟨hh, hbrest, hm, hl⟩
        · apply execCmds_c06Inv
          · refine ⟨hh, hbrest, hm, ?_⟩
            intro p hp
            rcases List.mem_append.mp hp with hp | hp
            · exact hl p hp
            · simp at hp; subst hp; exact hbt.1
          · exact reduce_c06 cfg pol t r.st r.now hbt.2
    | workerDone s w res =>
      simp only
      split
      · exact ⟨hh, hb, hm, hl⟩
      · split
        · exact ⟨hh, hb, hm, hl⟩
        · refine ⟨hh, ?_, hm, hl⟩
          intro x hx
          simp at hx; subst hx
          exact ⟨trivial, ha⟩
    | pull =>
      simp only
      split
      · exact ⟨hh, hb, hm, hl⟩
      · split
        · exact ⟨hh, hb, hm, hl⟩
        · rename_i t m hmb
          refine ⟨hh, ?_, fun x hx => hm x (by simp [hmb, hx]), hl⟩
          intro x hx
          simp at hx; subst hx
          exact Tick.c06Ok_of_noRec pol x r.now (hm x (by simp [hmb]))
    | timer =>
      simp only
      split
      · exact ⟨hh, hb, hm, hl⟩
      · refine ⟨fun tm htm => hh tm (List.mem_filter.mp htm).1, ?_, hm, hl⟩
        intro x hx
        obtain ⟨tm, htm, rfl⟩ := List.mem_map.mp hx
        have hmem := List.mem_filter.mp (mem_sortTimers htm)
        have hle : tm.at_ ≤ r.now := by simpa using hmem.2
        exact Tick.c06Ok_mono pol tm.tick hle (hh tm hmem.1)
    | advance dt =>
      refine ⟨hh, fun x hx => ?_, hm, hl⟩
      exact Tick.c06Ok_mono pol x (by simp only; omega) (hb x hx)
    | external t =>
      simp only
      split
      · refine ⟨hh, hb, ?_, hl⟩
        intro x hx
        rcases List.mem_append.mp hx with hx | hx
        · exact hm x hx
        · simp at hx; subst hx; exact ha
      · exact ⟨hh, hb, hm, hl⟩
    | stepWrite p => exact ⟨hh, hb, hm, hl⟩

/-- an action list all of whose actions are admissible in the state they are taken in -/
def c06ActsOk (cfg : Cfg) (pol : Policy) : Runner → List Act → Prop
  | _, [] => True
  | r, a :: as => a.c06Ok r ∧ c06ActsOk cfg pol (r.step cfg pol a) as

theorem c06_run_inv (cfg : Cfg) (pol : Policy) : ∀ (acts : List Act) (r : Runner),
    c06ActsOk cfg pol r acts → C06Inv pol r → C06Inv pol (Runner.run cfg pol r acts)
  | [], r, _, h => h
  | a :: as, r, ha, h => by
    simp only [Runner.run, List.foldl_cons]
    exact c06_run_inv cfg pol as _ ha.2 (c06_step_inv cfg pol r a ha.1 h)

/-! ### the start of a run -/

/-- what a resumed state must satisfy: the attempt records kept in its waiters (what `rehydrate_with_ticks` replays)
are served at the time of the resume.  A fresh state has no waiters. -/
def c06InitOk (pol : Policy) (cfg : Cfg) (st0 : State) (now : Int) : Prop :=
  ∀ c ∈ cfg.steps, ∀ w ∈ (st0.workers c.name).waiters, w.replay.c06ServedAt pol c.name now

theorem c06InitOk_fresh (pol : Policy) (cfg : Cfg) (now : Int) : c06InitOk pol cfg initState now := by
  intro c _ w hw
  simp [initState] at hw

theorem c06_init_inv (cfg : Cfg) (pol : Policy) (st0 : State) (now : Int) (start : Option Ev) (timeout : Option Nat)
    (h0 : c06InitOk pol cfg st0 now) : C06Inv pol (Runner.init cfg st0 now start timeout) := by
  have hbuf : ∀ t ∈ rehydrateTicks cfg st0 ++ (match start with | some e => [Tick.addEvent { ev := e } none] | none => []),
      t.c06Ok pol now := by
    intro t ht
    rcases List.mem_append.mp ht with h | h
    · obtain ⟨c, hc, w, hw, rfl⟩ := mem_rehydrateTicks h
      exact ⟨h0 c (mem_sortedSteps hc) w hw, trivial⟩
    · cases start with
      | none => cases h
      | some e => simp only [List.mem_singleton] at h; subst h; exact ⟨trivial, trivial⟩
  cases timeout with
  | none =>
    unfold Runner.init
    apply execCmds_c06Inv pol
    · exact ⟨by intro tm h; simp at h, hbuf, by intro t h; simp at h, by intro p h; simp at h⟩
    · exact c06Served_of_any pol _ _ (rewind_free lightFree_queue cfg st0 now)
  | some t =>
    unfold Runner.init
    apply execCmds_c06Inv pol
    · refine ⟨?_, hbuf, by intro t h; simp [Runner.push] at h, by intro p h; simp [Runner.push] at h⟩
      intro tm h
      simp only [Runner.push, List.nil_append, List.mem_singleton] at h
      subst h
      exact ⟨trivial, trivial⟩
    · exact c06Served_of_any pol _ _ (rewind_free lightFree_queue cfg st0 now)

end Engine
