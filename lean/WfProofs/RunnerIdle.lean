import WfProofs.RunnerWorkers
import WfProofs.RunnerTicks
import WfProofs.EngineIdle
/-!
C03 on the runner, part 1: the deferred idle check (`CommandScheduleIdleCheck` /
`TickIdleCheck` / `_idle_check_pending`) and what the buffer looks like when idleness is
announced.

* Command kinds: only a `stepResult` tick queues events (`CommandQueueEvent`), and
  `CommandScheduleIdleCheck` occurs only as the last command of a tick (`reduce_shape`).
* `IdleInv`: the idle-check tick, when there is one, is the **last** element of the buffer,
  there is at most one, and `_idle_check_pending` is true exactly when it is there; timers
  and the mailbox never hold one.  Preserved by every action (`step_idleInv`).
-/
set_option linter.unusedSimpArgs false
set_option linter.unusedVariables false

namespace Engine

def Cmd.isSIC : Cmd → Bool
  | .scheduleIdleCheck => true
  | _ => false

def Cmd.isQueue : Cmd → Bool
  | .queueEvent _ _ _ => true
  | _ => false

/-- a predicate on commands that is false on everything `addOrEnqueue` can emit -/
structure LightFree (bad : Cmd → Bool) : Prop where
  run : ∀ s e w, bad (.runWorker s e w) = false
  pub : ∀ p, bad (.publish p) = false
  crash : bad .crash = false

theorem lightFree_sic : LightFree Cmd.isSIC := ⟨fun _ _ _ => rfl, fun _ => rfl, rfl⟩
theorem lightFree_queue : LightFree Cmd.isQueue := ⟨fun _ _ _ => rfl, fun _ => rfl, rfl⟩

section light
variable {bad : Cmd → Bool} (hb : LightFree bad)
include hb

theorem addOrEnqueue_free (att : Attempt) (step : Nat) (ss : StepState) (nw : Nat) (now : Int) :
    (addOrEnqueue att step ss nw now).2.any bad = false := by
  unfold addOrEnqueue
  split
  · split <;> simp [hb.run, hb.pub, hb.crash]
  · simp [hb.pub]

theorem drain_free (step nw : Nat) (now : Int) :
    ∀ (fuel : Nat) (ss : StepState), (drain step nw now fuel ss).2.any bad = false
  | 0, ss => by simp [drain]
  | fuel + 1, ss => by
    unfold drain
    split
    · simp
    · split
      · simp only [List.any_append, addOrEnqueue_free hb, drain_free step nw now fuel, Bool.or_self]
      · simp

theorem resolveLoop_free (ev : Ev) (step nw : Nat) (now : Int) :
    ∀ (rest done : List Waiter) (ss : StepState) (cmds : List Cmd) (hd : Bool),
      cmds.any bad = false →
      (resolveLoop ev step nw now done rest ss cmds hd).2.1.any bad = false
  | [], done, ss, cmds, hd, h => by simpa [resolveLoop] using h
  | w :: rest, done, ss, cmds, hd, h => by
    unfold resolveLoop
    split
    · apply resolveLoop_free
      simp only [List.any_append, h, addOrEnqueue_free hb, Bool.or_self]
    · exact resolveLoop_free ev step nw now rest _ ss cmds hd h

theorem addEventWaiters_free (cfg : Cfg) (ev : Ev) (target : Option Nat) (now : Int) :
    ∀ (cs : List StepCfg) (acc : AddAcc), acc.cmds.any bad = false →
      (addEventWaiters cfg ev target now cs acc).cmds.any bad = false
  | [], acc, h => by simpa [addEventWaiters] using h
  | c :: cs, acc, h => by
    unfold addEventWaiters
    split
    · exact addEventWaiters_free cfg ev target now cs acc h
    · apply addEventWaiters_free cfg ev target now cs
      split
      · simp only [List.any_append, h, Bool.false_or]
        exact resolveLoop_free hb ev c.name c.numWorkers now _ [] _ [] false (by simp)
      · exact h

theorem addEventRoute_free (att : Attempt) (target : Option Nat) (now : Int) :
    ∀ (cs : List StepCfg) (acc : AddAcc), acc.cmds.any bad = false →
      (addEventRoute att target now cs acc).cmds.any bad = false
  | [], acc, h => by simpa [addEventRoute] using h
  | c :: cs, acc, h => by
    unfold addEventRoute
    split
    · exact addEventRoute_free att target now cs acc h
    · split
      · apply addEventRoute_free att target now cs
        simp only [List.any_append, h, addOrEnqueue_free hb, Bool.or_self]
      · exact addEventRoute_free att target now cs acc h

theorem processAddEvent_free (cfg : Cfg) (att : Attempt) (target : Option Nat) (st : State) (now : Int) :
    (processAddEvent cfg att target st now).2.any bad = false := by
  unfold processAddEvent
  simp only [List.any_append]
  have h1 := addEventWaiters_free hb cfg att.ev target now cfg.steps { st := addEventStart att st } (by simp)
  have h2 := addEventRoute_free hb att target now cfg.steps _ h1
  rw [h2, Bool.false_or]
  unfold unhandledCmds
  split
  · simp
  · split
    · simp
    · simp [hb.pub]

theorem processWaiterTimeout_free (cfg : Cfg) (step waiter : Nat) (st : State) (now : Int) :
    (processWaiterTimeout cfg step waiter st now).2.any bad = false := by
  unfold processWaiterTimeout
  split
  · simp
  · dsimp only
    split
    · simp
    · split
      · simp
      · exact addOrEnqueue_free hb _ _ _ _ _

end light

/-! ### `processStepResult` never schedules the idle check itself -/

theorem applyRes_noSIC (cfg : Cfg) (pol : Policy) (step : Nat) (tickEv : Ev) (dc : Bool)
    (acc : ResAcc) (r : Res) (h : acc.cmds.any Cmd.isSIC = false) :
    (applyRes cfg pol step tickEv dc acc r).cmds.any Cmd.isSIC = false := by
  cases r with
  | result r =>
    cases r with
    | none => simpa [applyRes] using h
    | some ev =>
      simp only [applyRes]
      split
      · simp [List.any_append, h, Cmd.isSIC]
      · split <;> simp [List.any_append, h, Cmd.isSIC]
  | failed exc failedAt =>
    simp only [applyRes]
    split
    · exact h
    split
    · simp [List.any_append, h, Cmd.isSIC]
    all_goals
      split
      · split <;> simp [List.any_append, h, Cmd.isSIC]
      · simp [List.any_append, h, Cmd.isSIC]
  | addCollected buf ev =>
    simp only [applyRes]
    split
    · exact h
    split
    · simp [List.any_append, h, Cmd.isSIC]
    · exact h
  | deleteCollected buf => simp only [applyRes]; split <;> exact h
  | addWaiter wid waiterEv req timeout ty =>
    simp only [applyRes]
    split
    · exact h
    · cases waiterEv <;> cases timeout <;> simp [List.any_append, h, Cmd.isSIC]
  | deleteWaiter wid => simp only [applyRes]; split <;> exact h

theorem foldl_applyRes_noSIC (cfg : Cfg) (pol : Policy) (step : Nat) (tickEv : Ev) (dc : Bool) :
    ∀ (res : List Res) (acc : ResAcc), acc.cmds.any Cmd.isSIC = false →
      (res.foldl (applyRes cfg pol step tickEv dc) acc).cmds.any Cmd.isSIC = false
  | [], acc, h => by simpa using h
  | r :: rs, acc, h => by
    simp only [List.foldl_cons]
    exact foldl_applyRes_noSIC cfg pol step tickEv dc rs _ (applyRes_noSIC cfg pol step tickEv dc acc r h)

theorem processStepResult_noSIC (cfg : Cfg) (pol : Policy) (step worker : Nat) (tickEv : Ev)
    (res : List Res) (st : State) (now : Int) :
    (processStepResult cfg pol step worker tickEv res st now).2.any Cmd.isSIC = false := by
  unfold processStepResult
  split
  · simp [Cmd.isSIC]
  · split
    · simp [Cmd.isSIC]
    · rename_i exec _
      have hf := foldl_applyRes_noSIC cfg pol step tickEv (res.any isResult) res
        { st := st, exec := exec } (by simp)
      simp only
      generalize (res.foldl (applyRes cfg pol step tickEv (res.any isResult)) { st := st, exec := exec }) = acc at hf
      have hs : (settle acc step worker tickEv).2.any Cmd.isSIC = false := by
        unfold settle; simp only; split
        · exact hf
        · simp [hf, Cmd.isSIC]
      split
      · exact hs
      · simp only [List.any_append, hs, drain_free lightFree_sic, Bool.or_self]

/-! ### the shape of a tick's command list -/

/-- **shape of `_reduce_tick`'s output**: a body that never schedules the idle check — and, unless
the tick is a step result, never queues an event — optionally followed by one
`CommandScheduleIdleCheck`, which is there exactly when the state after the tick passes
`_check_idle_state` (except for the two ticks that return early). -/
theorem reduce_shape (cfg : Cfg) (pol : Policy) (tick : Tick) (st : State) (now : Int) :
    ∃ body, body.any Cmd.isSIC = false ∧ (tick.isStepResult = false → body.any Cmd.isQueue = false) ∧
      ((reduce cfg pol tick st now).2 = body ∨
        ((reduce cfg pol tick st now).2 = body ++ [.scheduleIdleCheck] ∧
          checkIdle cfg (reduce cfg pol tick st now).1 = true)) := by
  have key : ∀ (p : State × List Cmd), p.2.any Cmd.isSIC = false →
      (tick.isStepResult = false → p.2.any Cmd.isQueue = false) →
      ∃ body, body.any Cmd.isSIC = false ∧ (tick.isStepResult = false → body.any Cmd.isQueue = false) ∧
        ((if checkIdle cfg p.1 then (p.1, p.2 ++ [Cmd.scheduleIdleCheck]) else p).2 = body ∨
          ((if checkIdle cfg p.1 then (p.1, p.2 ++ [Cmd.scheduleIdleCheck]) else p).2
              = body ++ [.scheduleIdleCheck] ∧
            checkIdle cfg (if checkIdle cfg p.1 then (p.1, p.2 ++ [Cmd.scheduleIdleCheck]) else p).1 = true)) := by
    intro p h1 h2
    refine ⟨p.2, h1, h2, ?_⟩
    split
    · rename_i hc; exact Or.inr ⟨rfl, hc⟩
    · exact Or.inl rfl
  unfold reduce
  cases tick with
  | stepResult step worker ev res =>
    exact key _ (processStepResult_noSIC cfg pol step worker ev res st now) (by simp [Tick.isStepResult])
  | addEvent att target =>
    exact key _ (processAddEvent_free lightFree_sic cfg att target st now)
      (fun _ => processAddEvent_free lightFree_queue cfg att target st now)
  | cancelRun => exact key (st, _) (by simp [Cmd.isSIC]) (by simp [Cmd.isQueue])
  | idleRelease => exact ⟨_, by simp [Cmd.isSIC], by simp [Cmd.isQueue], Or.inl rfl⟩
  | publish ev => exact key (st, _) (by simp [Cmd.isSIC]) (by simp [Cmd.isQueue])
  | timeout t => exact key ({ st with isRunning := false }, _) (by simp [Cmd.isSIC]) (by simp [Cmd.isQueue])
  | waiterTimeout step waiter =>
    exact key _ (processWaiterTimeout_free lightFree_sic cfg step waiter st now)
      (fun _ => processWaiterTimeout_free lightFree_queue cfg step waiter st now)
  | idleCheck =>
    simp only
    split
    · exact ⟨_, by simp [Cmd.isSIC], by simp [Cmd.isQueue], Or.inl rfl⟩
    · exact ⟨_, by simp [Cmd.isSIC], by simp [Cmd.isQueue], Or.inl rfl⟩

/-- `WorkflowIdleEvent` is published by the idle-check tick only -/
theorem reduce_pub_idle_tick (cfg : Cfg) (pol : Policy) (tick : Tick) (st : State) (now : Int)
    (h : Cmd.publish .idle ∈ (reduce cfg pol tick st now).2) : tick = .idleCheck := by
  have hno : ∀ (l : List Cmd), l.any isIdlePub = false → Cmd.publish .idle ∉ l := by
    intro l hl hm
    have : l.any isIdlePub = true := List.any_eq_true.mpr ⟨_, hm, rfl⟩
    rw [hl] at this; cases this
  have hwi : ∀ (p : State × List Cmd), Cmd.publish .idle ∉ p.2 →
      Cmd.publish .idle ∉ (if checkIdle cfg p.1 then (p.1, p.2 ++ [Cmd.scheduleIdleCheck]) else p).2 := by
    intro p hp
    split
    · intro hm
      rcases List.mem_append.mp hm with hm | hm
      · exact hp hm
      · simp at hm
    · exact hp
  unfold reduce at h
  cases tick with
  | stepResult step worker ev res =>
    exact absurd h (hwi _ (hno _ (processStepResult_noIdle cfg pol step worker ev res st now)))
  | addEvent att target =>
    refine absurd h (hwi _ ?_)
    unfold processAddEvent
    simp only
    intro hm
    rcases List.mem_append.mp hm with hm | hm
    · have h1 := addEventWaiters_noIdle cfg att.ev target now cfg.steps { st := addEventStart att st } (by simp)
      exact hno _ (addEventRoute_noIdle att target now cfg.steps _ h1) hm
    · unfold unhandledCmds at hm
      split at hm
      · simp at hm
      · split at hm <;> simp at hm
  | cancelRun => exact absurd h (hwi (st, _) (by simp))
  | idleRelease => simp at h
  | publish ev => exact absurd h (hwi (st, _) (by simp))
  | timeout t => exact absurd h (hwi ({ st with isRunning := false }, _) (by simp))
  | waiterTimeout step waiter =>
    exact absurd h (hwi _ (hno _ (processWaiterTimeout_noIdle cfg step waiter st now)))
  | idleCheck => rfl

/-! ## the runner: where the idle-check tick can be -/

/-- the idle-check bookkeeping of the buffer: no idle-check tick and the flag down, or exactly one,
at the very end, and the flag up -/
def ICForm (buf : List Tick) (pending : Bool) : Prop :=
  (pending = false ∧ ∀ t ∈ buf, t ≠ Tick.idleCheck) ∨
  (pending = true ∧ ∃ pre, buf = pre ++ [Tick.idleCheck] ∧ ∀ t ∈ pre, t ≠ Tick.idleCheck)

/-- what the timer heap can hold: delayed retries, waiter timeouts, the run's timeout -/
def Tick.isTimerKind : Tick → Bool
  | .addEvent _ _ => true
  | .waiterTimeout _ _ => true
  | .timeout _ => true
  | _ => false

structure IdleInv (r : Runner) : Prop where
  form : ICForm r.buf r.idlePending
  heap : ∀ tm ∈ r.heap, tm.tick.isTimerKind = true
  mbox : ∀ t ∈ r.mailbox, t.isExternal = true

theorem execCmd_heap_kind (r : Runner) (c : Cmd) (h : ∀ tm ∈ r.heap, tm.tick.isTimerKind = true) :
    ∀ tm ∈ (execCmd r c).heap, tm.tick.isTimerKind = true := by
  have hpush : ∀ (t : Tick) (a : Int), t.isTimerKind = true →
      ∀ tm ∈ (r.push t a).heap, tm.tick.isTimerKind = true := by
    intro t a ht tm htm
    simp only [Runner.push] at htm
    rcases List.mem_append.mp htm with h' | h'
    · exact h tm h'
    · simp only [List.mem_singleton] at h'; subst h'; exact ht
  cases c with
  | queueEvent att step delay =>
    simp only [execCmd]
    cases delay with
    | none => exact h
    | some d => simp only; split; exact hpush _ _ rfl; exact h
  | scheduleIdleCheck => simp only [execCmd]; split <;> exact h
  | scheduleWaiterTimeout s w t => exact hpush _ _ rfl
  | _ => exact h

theorem execCmds_heap_kind : ∀ (cmds : List Cmd) (r : Runner), (∀ tm ∈ r.heap, tm.tick.isTimerKind = true) →
    ∀ tm ∈ (execCmds r cmds).heap, tm.tick.isTimerKind = true
  | [], r, h => by simpa [execCmds] using h
  | c :: cs, r, h => by
    simp only [execCmds]
    split
    · exact execCmd_heap_kind r c h
    · exact execCmds_heap_kind cs _ (execCmd_heap_kind r c h)

/-- a command other than `CommandScheduleIdleCheck` leaves the flag alone and appends at most the
event it queues -/
theorem execCmd_buf_kind (r : Runner) (c : Cmd) (hc : c.isSIC = false) :
    (execCmd r c).idlePending = r.idlePending ∧
      ((execCmd r c).buf = r.buf ∨
        (c.isQueue = true ∧ ∃ att s, (execCmd r c).buf = r.buf ++ [.addEvent att s])) := by
  cases c with
  | queueEvent att step delay =>
    simp only [execCmd]
    cases delay with
    | none => exact ⟨rfl, Or.inr ⟨rfl, att, step, rfl⟩⟩
    | some d =>
      simp only
      split
      · exact ⟨rfl, Or.inl rfl⟩
      · exact ⟨rfl, Or.inr ⟨rfl, att, step, rfl⟩⟩
  | scheduleIdleCheck => simp [Cmd.isSIC] at hc
  | _ => exact ⟨rfl, Or.inl rfl⟩

theorem execCmds_noSIC_buf : ∀ (body : List Cmd) (r : Runner), body.any Cmd.isSIC = false →
    ∃ extra, (execCmds r body).buf = r.buf ++ extra ∧ (∀ t ∈ extra, ∃ att s, t = Tick.addEvent att s) ∧
      (body.any Cmd.isQueue = false → extra = []) ∧ (execCmds r body).idlePending = r.idlePending
  | [], r, _ => ⟨[], by simp [execCmds], by simp, fun _ => rfl, rfl⟩
  | c :: cs, r, h => by
    simp only [List.any_cons, Bool.or_eq_false_iff] at h
    obtain ⟨hp, hbuf⟩ := execCmd_buf_kind r c h.1
    simp only [execCmds]
    split
    · rcases hbuf with hbuf | ⟨hq, att, s, hbuf⟩
      · exact ⟨[], by simp [hbuf], by simp, fun _ => rfl, hp⟩
      · refine ⟨[.addEvent att s], hbuf, ?_, ?_, hp⟩
        · intro t ht; simp only [List.mem_singleton] at ht; exact ⟨att, s, ht⟩
        · intro hn; simp [hq] at hn
    · obtain ⟨extra, e1, e2, e3, e4⟩ := execCmds_noSIC_buf cs (execCmd r c) h.2
      rcases hbuf with hbuf | ⟨hq, att, s, hbuf⟩
      · refine ⟨extra, by rw [e1, hbuf], e2, ?_, e4.trans hp⟩
        intro hn
        simp only [List.any_cons, Bool.or_eq_false_iff] at hn
        exact e3 hn.2
      · refine ⟨.addEvent att s :: extra, by rw [e1, hbuf]; simp, ?_, ?_, e4.trans hp⟩
        · intro t ht
          rcases List.mem_cons.mp ht with ht | ht
          · exact ⟨att, s, ht⟩
          · exact e2 t ht
        · intro hn; simp [hq] at hn

theorem execCmds_append_open : ∀ (a b : List Cmd) (r : Runner), (execCmds r a).outcome = none →
    execCmds r (a ++ b) = execCmds (execCmds r a) b
  | [], b, r, _ => by simp [execCmds]
  | c :: cs, b, r, h => by
    simp only [execCmds, List.cons_append] at h ⊢
    split
    · rename_i hs
      rw [if_pos hs] at h
      rw [h] at hs; cases hs
    · rename_i hs
      rw [if_neg hs] at h
      exact execCmds_append_open cs b _ h

theorem execCmds_append_closed : ∀ (a b : List Cmd) (r : Runner), r.outcome = none →
    (execCmds r a).outcome.isSome = true → execCmds r (a ++ b) = execCmds r a
  | [], b, r, h0, h => by simp [execCmds, h0] at h
  | c :: cs, b, r, h0, h => by
    simp only [execCmds, List.cons_append] at h ⊢
    split
    · rfl
    · rename_i hs
      rw [if_neg hs] at h
      have : (execCmd r c).outcome = none := by
        cases hx : (execCmd r c).outcome with
        | none => rfl
        | some o => rw [hx] at hs; simp at hs
      exact execCmds_append_closed cs b _ this h

theorem ICForm.sic {r : Runner} (h : ICForm r.buf r.idlePending) :
    ICForm (execCmd r .scheduleIdleCheck).buf (execCmd r .scheduleIdleCheck).idlePending := by
  simp only [execCmd]
  rcases h with ⟨hp, hn⟩ | ⟨hp, pre, hb, hn⟩
  · rw [hp]
    simp only [Bool.false_eq_true, ↓reduceIte]
    exact Or.inr ⟨rfl, r.buf, rfl, hn⟩
  · rw [hp]
    simp only [↓reduceIte]
    exact Or.inr ⟨hp, pre, hb, hn⟩

/-- the buffer after a whole command list of reducer shape: the body appends only queued events,
the trailing idle-check command at most the idle check -/
theorem execCmds_shape_buf (r : Runner) (body : List Cmd) (hs : body.any Cmd.isSIC = false)
    (hq : r.idlePending = true → body.any Cmd.isQueue = false)
    (hf : ICForm r.buf r.idlePending) (tail : List Cmd) (ht : tail = [] ∨ tail = [.scheduleIdleCheck]) :
    ICForm (execCmds r (body ++ tail)).buf (execCmds r (body ++ tail)).idlePending ∧
      ∃ extra, (∀ t ∈ extra, ∃ att s, t = Tick.addEvent att s) ∧
        (body.any Cmd.isQueue = false → extra = []) ∧
        ((execCmds r (body ++ tail)).buf = r.buf ++ extra ∨
          (execCmds r (body ++ tail)).buf = r.buf ++ extra ++ [.idleCheck]) := by
  obtain ⟨extra, e1, e2, e3, e4⟩ := execCmds_noSIC_buf body r hs
  have hbody : ICForm (execCmds r body).buf (execCmds r body).idlePending := by
    rw [e1, e4]
    rcases hf with ⟨hp, hn⟩ | ⟨hp, pre, hb, hn⟩
    · refine Or.inl ⟨hp, ?_⟩
      intro t ht'
      rcases List.mem_append.mp ht' with h | h
      · exact hn t h
      · obtain ⟨att, s, rfl⟩ := e2 t h; simp
    · rw [e3 (hq hp), List.append_nil]
      exact Or.inr ⟨hp, pre, hb, hn⟩
  rcases ht with rfl | rfl
  · rw [List.append_nil]
    exact ⟨hbody, extra, e2, e3, Or.inl e1⟩
  · cases ho : (execCmds r body).outcome with
    | some o =>
      by_cases h0 : r.outcome = none
      · rw [execCmds_append_closed body _ r h0 (by rw [ho]; rfl)]
        exact ⟨hbody, extra, e2, e3, Or.inl e1⟩
      · -- the run had already ended: nothing is executed beyond the first command; same shape
        cases body with
        | nil =>
          simp only [List.nil_append, execCmds]
          have hx := ICForm.sic hf
          refine ⟨by split <;> exact hx, [], by simp, fun _ => rfl, ?_⟩
          have : (execCmd r .scheduleIdleCheck).buf = r.buf ∨
              (execCmd r .scheduleIdleCheck).buf = r.buf ++ [.idleCheck] := by
            simp only [execCmd]; split
            · exact Or.inl rfl
            · exact Or.inr rfl
          split <;> simpa using this
        | cons c cs =>
          have hc : (execCmd r c).outcome.isSome = true := by
            cases hr : r.outcome with
            | none => exact absurd hr h0
            | some o0 =>
              cases c with
              | queueEvent att step delay =>
                cases delay with
                | none => simp [execCmd, hr]
                | some d => simp only [execCmd]; split <;> simp [Runner.push, hr]
              | scheduleIdleCheck => simp only [execCmd]; split <;> simp [hr]
              | _ => simp [execCmd, Runner.finish, Runner.push, hr]
          have hx : execCmds r (c :: cs ++ [Cmd.scheduleIdleCheck]) = execCmds r (c :: cs) := by
            simp only [List.cons_append, execCmds, hc, ↓reduceIte]
          rw [hx]
          exact ⟨hbody, extra, e2, e3, Or.inl e1⟩
    | none =>
      rw [execCmds_append_open body _ r ho]
      simp only [execCmds]
      have hx := ICForm.sic hbody
      refine ⟨by split <;> exact hx, extra, e2, e3, ?_⟩
      have : (execCmd (execCmds r body) .scheduleIdleCheck).buf = (execCmds r body).buf ∨
          (execCmd (execCmds r body) .scheduleIdleCheck).buf = (execCmds r body).buf ++ [.idleCheck] := by
        simp only [execCmd]; split
        · exact Or.inl rfl
        · exact Or.inr rfl
      rw [e1] at this
      split <;> exact this

/-! ### every action preserves the bookkeeping -/

theorem ICForm.nil_pending {p : Bool} (h : ICForm [] p) : p = false := by
  rcases h with ⟨hp, _⟩ | ⟨_, pre, hb, _⟩
  · exact hp
  · cases pre <;> simp at hb

theorem ICForm.fresh {buf : List Tick} (h : ∀ t ∈ buf, t ≠ Tick.idleCheck) : ICForm buf false :=
  Or.inl ⟨rfl, h⟩

/-- taking the head off the buffer (the flag goes down when the head is the idle check) -/
theorem ICForm.pop {t : Tick} {rest : List Tick} {p : Bool} (h : ICForm (t :: rest) p) :
    ICForm rest (if t = Tick.idleCheck then false else p) ∧
      (t = Tick.idleCheck → rest = []) ∧
      ((if t = Tick.idleCheck then false else p) = true → rest ≠ []) := by
  rcases h with ⟨hp, hn⟩ | ⟨hp, pre, hb, hn⟩
  · have ht : t ≠ Tick.idleCheck := hn t (by simp)
    rw [if_neg ht, hp]
    exact ⟨Or.inl ⟨rfl, fun x hx => hn x (by simp [hx])⟩, fun h => absurd h ht, fun h => by cases h⟩
  · cases pre with
    | nil =>
      simp only [List.nil_append, List.cons.injEq] at hb
      obtain ⟨rfl, rfl⟩ := hb
      rw [if_pos rfl]
      exact ⟨Or.inl ⟨rfl, by simp⟩, fun _ => rfl, fun h => by cases h⟩
    | cons q pre' =>
      simp only [List.cons_append, List.cons.injEq] at hb
      obtain ⟨rfl, rfl⟩ := hb
      have ht : t ≠ Tick.idleCheck := hn t (by simp)
      rw [if_neg ht, hp]
      exact ⟨Or.inr ⟨rfl, pre', rfl, fun x hx => hn x (by simp [hx])⟩, fun h => absurd h ht, fun _ => by simp⟩

/-- with an empty buffer the flag is down -/
theorem IdleInv.flag_of_empty {r : Runner} (h : IdleInv r) (hb : (!r.buf.isEmpty) ≠ true) :
    r.buf = [] ∧ r.idlePending = false := by
  have he : r.buf = [] := by
    cases hx : r.buf with
    | nil => rfl
    | cons a l => rw [hx] at hb; simp at hb
  have hf := h.form
  rw [he] at hf
  exact ⟨he, hf.nil_pending⟩

theorem execCmds_mailbox : ∀ (cmds : List Cmd) (r : Runner), (execCmds r cmds).mailbox = r.mailbox
  | [], r => rfl
  | c :: cs, r => by
    simp only [execCmds]
    split
    · exact execCmd_mailbox r c
    · exact (execCmds_mailbox cs _).trans (execCmd_mailbox r c)

theorem execCmds_st : ∀ (cmds : List Cmd) (r : Runner), (execCmds r cmds).st = r.st
  | [], r => rfl
  | c :: cs, r => by
    simp only [execCmds]
    split
    · exact execCmd_st r c
    · exact (execCmds_st cs _).trans (execCmd_st r c)

theorem isTimerKind_ne_idleCheck {t : Tick} (h : t.isTimerKind = true) : t ≠ Tick.idleCheck := by
  intro he; subst he; simp [Tick.isTimerKind] at h

theorem isExternal_ne_idleCheck {t : Tick} (h : t.isExternal = true) : t ≠ Tick.idleCheck := by
  intro he; subst he; simp [Tick.isExternal] at h

/-- the head of a buffer with at least two ticks is not a step result -/
theorem RunInv.head_noSR {cfg : Cfg} {P : Prop} {r : Runner} (h : RunInv cfg P r) {t : Tick}
    {rest : List Tick} (hb : r.buf = t :: rest) (hne : rest ≠ []) : t.isStepResult = false := by
  rcases h.buf with hn | ⟨s, w, ev, res, hb', _⟩
  · exact hn t (by rw [hb]; simp)
  · rw [hb] at hb'
    simp only [List.cons.injEq] at hb'
    exact absurd hb'.2 hne

/-- the state a `drain` hands to `execCmds`, and what comes out of it (buffer and flag) -/
theorem drain_shape (cfg : Cfg) (pol : Policy) (P : Prop) (r : Runner) (t : Tick) (rest : List Tick)
    (hr : RunInv cfg P r) (hb : r.buf = t :: rest) (hf : ICForm r.buf r.idlePending) :
    let r1 := r.logged t rest (reduce cfg pol t r.st r.now).1
    let r' := execCmds r1 (reduce cfg pol t r.st r.now).2
    ICForm r'.buf r'.idlePending ∧
      ∃ extra, (∀ x ∈ extra, ∃ att s, x = Tick.addEvent att s) ∧
        (t.isStepResult = false → extra = []) ∧
        (r'.buf = rest ++ extra ∨ r'.buf = rest ++ extra ++ [.idleCheck]) := by
  intro r1 r'
  rw [hb] at hf
  obtain ⟨hpop, _, hpend⟩ := hf.pop
  obtain ⟨body, hs, hq, hshape⟩ := reduce_shape cfg pol t r.st r.now
  have hq1 : r1.idlePending = true → body.any Cmd.isQueue = false := by
    intro hp
    exact hq (hr.head_noSR hb (hpend hp))
  have hf1 : ICForm r1.buf r1.idlePending := hpop
  rcases hshape with he | ⟨he, _⟩
  · have := execCmds_shape_buf r1 body hs hq1 hf1 [] (Or.inl rfl)
    rw [List.append_nil, ← he] at this
    obtain ⟨h1, extra, e1, e2, e3⟩ := this
    exact ⟨h1, extra, e1, fun hsr => e2 (by rw [he]; exact hq hsr), e3⟩
  · have := execCmds_shape_buf r1 body hs hq1 hf1 [.scheduleIdleCheck] (Or.inr rfl)
    rw [← he] at this
    obtain ⟨h1, extra, e1, e2, e3⟩ := this
    exact ⟨h1, extra, e1, fun hsr => e2 (hq hsr), e3⟩

theorem step_idleInv (cfg : Cfg) (pol : Policy) (P : Prop) (r : Runner) (a : Act)
    (hr : RunInv cfg P r) (h : IdleInv r) : IdleInv (r.step cfg pol a) := by
  cases ho : r.outcome with
  | some o =>
    have : r.step cfg pol a = r := by unfold Runner.step; simp [ho]
    rw [this]; exact h
  | none =>
  cases a with
  | drain =>
    cases hbuf : r.buf with
    | nil =>
      have : r.step cfg pol .drain = r := by unfold Runner.step; simp [ho, hbuf]
      rw [this]; exact h
    | cons t rest =>
      rw [step_drain cfg pol r t rest ho hbuf]
      split
      · have hf := h.form
        rw [hbuf] at hf
        exact ⟨hf.pop.1, h.heap, h.mbox⟩
      · refine ⟨(drain_shape cfg pol P r t rest hr hbuf h.form).1, ?_, ?_⟩
        · exact execCmds_heap_kind _ _ h.heap
        · rw [execCmds_mailbox]; exact h.mbox
  | workerDone s w res =>
    unfold Runner.step
    simp only [ho, Option.isSome_none, Bool.false_eq_true, ↓reduceIte]
    split
    · exact h
    · split
      · exact h
      · rename_i hbe _ _ _
        obtain ⟨_, hp⟩ := h.flag_of_empty hbe
        refine ⟨?_, h.heap, h.mbox⟩
        show ICForm [_] r.idlePending
        rw [hp]; exact ICForm.fresh (by simp)
  | pull =>
    unfold Runner.step
    simp only [ho, Option.isSome_none, Bool.false_eq_true, ↓reduceIte]
    split
    · exact h
    · split
      · exact h
      · rename_i hbe _ t m hmb
        obtain ⟨_, hp⟩ := h.flag_of_empty hbe
        refine ⟨?_, h.heap, ?_⟩
        · show ICForm [t] r.idlePending
          rw [hp]; apply ICForm.fresh
          intro x hx
          simp only [List.mem_singleton] at hx
          subst hx
          exact isExternal_ne_idleCheck (h.mbox x (by rw [hmb]; simp))
        · intro x hx; exact h.mbox x (by rw [hmb]; simp [hx])
  | timer =>
    unfold Runner.step
    simp only [ho, Option.isSome_none, Bool.false_eq_true, ↓reduceIte]
    split
    · exact h
    · rename_i hbe
      obtain ⟨_, hp⟩ := h.flag_of_empty hbe
      refine ⟨?_, ?_, h.mbox⟩
      · show ICForm ((sortTimers (r.heap.filter (fun t => t.at_ ≤ r.now))).map (·.tick)) r.idlePending
        rw [hp]; apply ICForm.fresh
        intro x hx
        simp only [List.mem_map] at hx
        obtain ⟨tm, htm, rfl⟩ := hx
        exact isTimerKind_ne_idleCheck (h.heap tm (List.mem_filter.mp (mem_sortTimers htm)).1)
      · intro tm htm; exact h.heap tm (List.mem_filter.mp htm).1
  | advance dt =>
    unfold Runner.step
    simp only [ho, Option.isSome_none, Bool.false_eq_true, ↓reduceIte]
    exact ⟨h.form, h.heap, h.mbox⟩
  | external t =>
    unfold Runner.step
    simp only [ho, Option.isSome_none, Bool.false_eq_true, ↓reduceIte]
    split
    · rename_i hext
      refine ⟨h.form, h.heap, ?_⟩
      intro x hx
      rcases List.mem_append.mp hx with hx | hx
      · exact h.mbox x hx
      · simp only [List.mem_singleton] at hx; subst hx; exact hext
    · exact h
  | stepWrite p =>
    unfold Runner.step
    simp only [ho, Option.isSome_none, Bool.false_eq_true, ↓reduceIte]
    exact ⟨h.form, h.heap, h.mbox⟩

end Engine
