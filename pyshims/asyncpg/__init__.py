"""Name-only import shim for `asyncpg` (absent from the sandbox).

Only the names that `llama_agents.dbos.journal.{crud,lifecycle}` mention at import / annotation time.
Nothing here talks to a database: the PostgreSQL classes of those modules cannot be run with it.
"""


class Pool:  # pragma: no cover - never instantiated
    pass


class Connection:  # pragma: no cover
    pass


class Record(dict):  # pragma: no cover
    pass


async def create_pool(*a, **kw):  # pragma: no cover
    raise RuntimeError("asyncpg is not available in this sandbox (name-only shim)")
