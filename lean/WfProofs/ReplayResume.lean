import WfProofs.ReplayLive
import WfProofs.SerialLemmas
import WfProofs.EngineTelemetry
/-!
The resumed runner: `workflow.run(ctx=Context.from_dict(to_serialized(replayed state)))`
= `Runner.init cfg (roundtrip cfg st) now none timeout`.

* serialisation keeps agreement up to `first_attempt_at` (what replay at another clock gets
  differently): `roundtrip_sim` (in `EngineErase`);
* `rewind_in_progress` keeps, per step, the multiset of queued + in-progress invocations, the
  buffers and the waiters, never raises, and emits a `runWorker` for every invocation it puts in
  progress;
* `Runner.init` without a start event: buffer = rehydration ticks only, timer heap = the workflow
  timeout only, empty mailbox, empty log, still running, and every in-progress invocation has a
  started worker.
-/
set_option linter.unusedVariables false
set_option linter.unusedSimpArgs false

namespace Engine

/-! ### the empty state -/

def AllEmpty (st : State) : Prop := st.isRunning = false ∧ ∀ n, st.workers n = {}

theorem rewindStep_empty (c : StepCfg) (now : Int) : rewindStep c {} now = ({}, []) := by
  simp [rewindStep, drain]

theorem rewindLoop_allEmpty (now : Int) : ∀ (cs : List StepCfg) (st : State) (cmds : List Cmd), AllEmpty st →
    AllEmpty (rewindLoop now cs st cmds).1 ∧ (rewindLoop now cs st cmds).2 = cmds
  | [], st, cmds, h => by simpa [rewindLoop] using h
  | c :: cs, st, cmds, h => by
    unfold rewindLoop
    rw [h.2 c.name, rewindStep_empty]
    simp only [List.append_nil]
    apply rewindLoop_allEmpty now cs
    refine ⟨h.1, fun n => ?_⟩
    simp only [State.set]
    split
    · rfl
    · exact h.2 n

theorem allEmpty_init : AllEmpty initState := ⟨rfl, fun _ => rfl⟩

theorem rewind_init (cfg : Cfg) (now : Int) :
    AllEmpty (rewind cfg initState now).1 ∧ (rewind cfg initState now).2 = [] :=
  rewindLoop_allEmpty now _ _ _ allEmpty_init

theorem AllEmpty.sim {a b : State} (ha : AllEmpty a) (hb : AllEmpty b) : SimSt a b :=
  ⟨ha.1.trans hb.1.symm, fun n => by rw [ha.2 n, hb.2 n]; exact SimSS.refl _⟩

/-! ### `rewind_in_progress`: frame, per-step effect -/

theorem rewindLoop_other (now : Int) : ∀ (cs : List StepCfg) (st : State) (cmds : List Cmd) (t : Nat),
    t ∉ cs.map (·.name) → (rewindLoop now cs st cmds).1.workers t = st.workers t
  | [], st, cmds, t, _ => by simp [rewindLoop]
  | e :: es, st, cmds, t, ht => by
    simp only [List.map_cons, List.mem_cons, not_or] at ht
    unfold rewindLoop
    rw [rewindLoop_other now es _ _ t ht.2]
    simp [State.set, ht.1]

theorem rewindLoop_running (now : Int) : ∀ (cs : List StepCfg) (st : State) (cmds : List Cmd),
    (rewindLoop now cs st cmds).1.isRunning = st.isRunning
  | [], st, cmds => by simp [rewindLoop]
  | e :: es, st, cmds => by
    unfold rewindLoop
    rw [rewindLoop_running now es]
    rfl

theorem rewindLoop_at (now : Int) : ∀ (cs : List StepCfg) (st : State) (cmds : List Cmd),
    (cs.map (·.name)).Nodup → ∀ c ∈ cs,
      (rewindLoop now cs st cmds).1.workers c.name = (rewindStep c (st.workers c.name) now).1
  | [], _, _, _, c, hc => by cases hc
  | d :: ds, st, cmds, hnd, c, hc => by
    simp only [List.map_cons, List.nodup_cons] at hnd
    unfold rewindLoop
    rcases List.mem_cons.mp hc with hc | hc
    · subst hc
      rw [rewindLoop_other now ds _ _ c.name hnd.1]
      simp [State.set]
    · rw [rewindLoop_at now ds _ _ hnd.2 c hc]
      have hne : c.name ≠ d.name := by
        intro e
        apply hnd.1
        rw [← e]
        exact List.mem_map_of_mem hc
      simp [State.set, hne]

theorem rewindLoop_cmds_mono (now : Int) : ∀ (cs : List StepCfg) (st : State) (cmds : List Cmd),
    ∀ x ∈ cmds, x ∈ (rewindLoop now cs st cmds).2
  | [], st, cmds, x, hx => by simpa [rewindLoop] using hx
  | d :: ds, st, cmds, x, hx => by
    unfold rewindLoop
    exact rewindLoop_cmds_mono now ds _ _ x (by simp [hx])

theorem rewindLoop_cmds_step (now : Int) : ∀ (cs : List StepCfg) (st : State) (cmds : List Cmd),
    (cs.map (·.name)).Nodup → ∀ c ∈ cs, ∀ x ∈ (rewindStep c (st.workers c.name) now).2,
      x ∈ (rewindLoop now cs st cmds).2
  | [], _, _, _, c, hc, _, _ => by cases hc
  | d :: ds, st, cmds, hnd, c, hc, x, hx => by
    simp only [List.map_cons, List.nodup_cons] at hnd
    unfold rewindLoop
    rcases List.mem_cons.mp hc with hc | hc
    · subst hc
      exact rewindLoop_cmds_mono now ds _ _ x (by simp [hx])
    · apply rewindLoop_cmds_step now ds _ _ hnd.2 c hc x
      have hne : c.name ≠ d.name := by
        intro e
        apply hnd.1
        rw [← e]
        exact List.mem_map_of_mem hc
      simpa [State.set, hne] using hx

/-- commands `rewind_in_progress` can emit: start a worker, announce it, or announce queueing -/
def isStartCmd : Cmd → Bool
  | .runWorker _ _ _ => true
  | .publish (.stepState _ _ _ _ _) => true
  | _ => false

theorem addOrEnqueue_start (att : Attempt) (step : Nat) (ss : StepState) (nw : Nat) (now : Int)
    (h : IdsOk ss nw) : ∀ c ∈ (addOrEnqueue att step ss nw now).2, isStartCmd c = true := by
  unfold addOrEnqueue
  split
  · rename_i hlt
    cases hf : freeIds ss nw with
    | nil => exact absurd hf (freeIds_ne_nil h hlt)
    | cons id rest => simp [isStartCmd]
  · simp [isStartCmd]

theorem drain_start (step nw : Nat) (now : Int) : ∀ (fuel : Nat) (ss : StepState), IdsOk ss nw →
    ∀ c ∈ (drain step nw now fuel ss).2, isStartCmd c = true
  | 0, ss, _ => by simp [drain]
  | fuel + 1, ss, h => by
    unfold drain
    split
    · simp
    · split
      · intro c hc
        rcases List.mem_append.mp hc with hc | hc
        · exact addOrEnqueue_start _ _ _ _ _ (by simpa [IdsOk, usedIds] using h) c hc
        · exact drain_start step nw now fuel _ (addOrEnqueue_idsOk _ _ _ _ _ (by simpa [IdsOk, usedIds] using h)) c hc
      · simp

theorem rewindStep_start (c : StepCfg) (ss : StepState) (now : Int) :
    ∀ x ∈ (rewindStep c ss now).2, isStartCmd x = true := by
  unfold rewindStep
  apply drain_start
  simp [IdsOk, usedIds]

theorem rewindLoop_start (now : Int) : ∀ (cs : List StepCfg) (st : State) (cmds : List Cmd),
    (∀ x ∈ cmds, isStartCmd x = true) → ∀ x ∈ (rewindLoop now cs st cmds).2, isStartCmd x = true
  | [], st, cmds, h => by simpa [rewindLoop] using h
  | d :: ds, st, cmds, h => by
    unfold rewindLoop
    apply rewindLoop_start now ds
    intro x hx
    rcases List.mem_append.mp hx with hx | hx
    · exact h x hx
    · exact rewindStep_start d _ now x hx

theorem rewind_start (cfg : Cfg) (st : State) (now : Int) : ∀ x ∈ (rewind cfg st now).2, isStartCmd x = true :=
  rewindLoop_start now _ _ _ (by simp)

/-! ### nothing is lost or duplicated by `rewind_in_progress` -/

theorem addOrEnqueue_pending (att : Attempt) (step : Nat) (ss : StepState) (nw : Nat) (now : Int)
    (h : IdsOk ss nw) :
    (pendingEvs (addOrEnqueue att step ss nw now).1).Perm (att.ev :: pendingEvs ss) := by
  unfold addOrEnqueue
  split
  · rename_i hlt
    cases hf : freeIds ss nw with
    | nil => exact absurd hf (freeIds_ne_nil h hlt)
    | cons id rest =>
      simp only [pendingEvs, List.map_append, List.map_cons, List.map_nil]
      rw [← List.append_assoc]
      exact List.perm_append_singleton _ _
  · simp only [pendingEvs, List.map_append, List.map_cons, List.map_nil, List.append_assoc, List.singleton_append]
    exact List.perm_middle

theorem drain_pending (step nw : Nat) (now : Int) : ∀ (fuel : Nat) (ss : StepState), IdsOk ss nw →
    (pendingEvs (drain step nw now fuel ss).1).Perm (pendingEvs ss)
  | 0, ss, _ => by simp [drain]
  | fuel + 1, ss, h => by
    unfold drain
    cases hq : ss.queue with
    | nil => simp
    | cons a q =>
      simp only
      split
      · have hi : IdsOk { ss with queue := q } nw := by simpa [IdsOk, usedIds] using h
        have h1 := addOrEnqueue_pending a step { ss with queue := q } nw now hi
        have h2 := drain_pending step nw now fuel _ (addOrEnqueue_idsOk a step { ss with queue := q } nw now hi)
        refine h2.trans (h1.trans ?_)
        simp [pendingEvs, hq]
      · simp [hq]

theorem rewindStep_pending (c : StepCfg) (ss : StepState) (now : Int) :
    (pendingEvs (rewindStep c ss now).1).Perm (pendingEvs ss) := by
  unfold rewindStep
  refine (drain_pending c.name c.numWorkers now _ _ (by simp [IdsOk, usedIds])).trans ?_
  simp only [pendingEvs, List.map_append, List.map_reverse, List.map_map, List.map_nil, List.append_nil]
  have : (List.map ((fun x => x.ev) ∘ inProgToAttempt) ss.inProg) = ss.inProg.map (·.ev) := by
    apply List.map_congr_left; intro x _; rfl
  rw [this]
  exact (List.perm_append_comm).trans (List.Perm.append_left _ (List.reverse_perm _))

theorem drain_collected (step nw : Nat) (now : Int) : ∀ (fuel : Nat) (ss : StepState),
    (drain step nw now fuel ss).1.collected = ss.collected ∧ (drain step nw now fuel ss).1.waiters = ss.waiters
  | 0, ss => by simp [drain]
  | fuel + 1, ss => by
    unfold drain
    split
    · simp
    · split
      · have h1 := addOrEnqueue_collected ‹Attempt› step { ss with queue := ‹List Attempt› } nw now
        have h2 := drain_collected step nw now fuel (addOrEnqueue ‹Attempt› step { ss with queue := ‹List Attempt› } nw now).1
        exact ⟨h2.1.trans h1.1, h2.2.trans h1.2⟩
      · simp

theorem rewindStep_collected (c : StepCfg) (ss : StepState) (now : Int) :
    (rewindStep c ss now).1.collected = ss.collected ∧ (rewindStep c ss now).1.waiters = ss.waiters := by
  unfold rewindStep
  exact drain_collected _ _ _ _ _

/-- every invocation put in progress got its `runWorker` -/
theorem addOrEnqueue_workers (att : Attempt) (step : Nat) (ss : StepState) (nw : Nat) (now : Int) :
    ∀ ip ∈ (addOrEnqueue att step ss nw now).1.inProg,
      ip ∈ ss.inProg ∨ Cmd.runWorker step ip.ev ip.wid ∈ (addOrEnqueue att step ss nw now).2 := by
  unfold addOrEnqueue
  split
  · cases hf : freeIds ss nw with
    | nil => intro ip hip; exact Or.inl hip
    | cons id rest =>
      intro ip hip
      simp only [List.mem_append, List.mem_singleton] at hip
      rcases hip with hip | hip
      · exact Or.inl hip
      · subst hip; right; simp
  · intro ip hip; exact Or.inl hip

theorem drain_workers (step nw : Nat) (now : Int) : ∀ (fuel : Nat) (ss : StepState),
    ∀ ip ∈ (drain step nw now fuel ss).1.inProg,
      ip ∈ ss.inProg ∨ Cmd.runWorker step ip.ev ip.wid ∈ (drain step nw now fuel ss).2
  | 0, ss => by intro ip hip; exact Or.inl (by simpa [drain] using hip)
  | fuel + 1, ss => by
    unfold drain
    split
    · intro ip hip; exact Or.inl hip
    · split
      · intro ip hip
        rcases drain_workers step nw now fuel _ ip hip with h | h
        · rcases addOrEnqueue_workers _ step _ nw now ip h with h | h
          · exact Or.inl h
          · exact Or.inr (by simp [h])
        · exact Or.inr (by simp [h])
      · intro ip hip; exact Or.inl hip

theorem rewindStep_workers (c : StepCfg) (ss : StepState) (now : Int) :
    ∀ ip ∈ (rewindStep c ss now).1.inProg, Cmd.runWorker c.name ip.ev ip.wid ∈ (rewindStep c ss now).2 := by
  unfold rewindStep
  intro ip hip
  rcases drain_workers c.name c.numWorkers now _ _ ip hip with h | h
  · simp at h
  · exact h

/-! ### `process_command` on start commands -/

structure StartedFrom (r r' : Runner) : Prop where
  st : r'.st = r.st
  buf : r'.buf = r.buf
  heap : r'.heap = r.heap
  mailbox : r'.mailbox = r.mailbox
  log : r'.log = r.log
  outcome : r'.outcome = r.outcome
  now : r'.now = r.now
  running : ∀ w ∈ r.running, w ∈ r'.running

theorem execCmds_started : ∀ (cmds : List Cmd) (r : Runner), r.outcome = none →
    (∀ c ∈ cmds, isStartCmd c = true) →
    StartedFrom r (execCmds r cmds) ∧
      ∀ s ev w, Cmd.runWorker s ev w ∈ cmds → ({ step := s, wid := w, ev := ev } : Worker) ∈ (execCmds r cmds).running
  | [], r, _, _ => by
    simp only [execCmds]
    exact ⟨⟨rfl, rfl, rfl, rfl, rfl, rfl, rfl, fun _ h => h⟩, by simp⟩
  | c :: cs, r, ho, hc => by
    have hcs : ∀ x ∈ cs, isStartCmd x = true := fun x hx => hc x (by simp [hx])
    have hc1 := hc c (by simp)
    obtain ⟨rst, rbuf, rheap, rseq, ridle, rrun, rstream, rlog, rout, rmail, rnow⟩ := r
    simp only at ho
    subst ho
    simp only [execCmds]
    cases c with
    | runWorker s ev w =>
      simp only [execCmd, Option.isSome_none, Bool.false_eq_true, if_false]
      have ih := execCmds_started cs
        { st := rst, buf := rbuf, heap := rheap, seq := rseq, idlePending := ridle,
          running := rrun ++ [{ step := s, wid := w, ev := ev }], stream := rstream, log := rlog, outcome := none,
          mailbox := rmail, now := rnow } rfl hcs
      refine ⟨⟨ih.1.st, ih.1.buf, ih.1.heap, ih.1.mailbox, ih.1.log, ih.1.outcome, ih.1.now,
        fun x hx => ih.1.running x (by simp [hx])⟩, ?_⟩
      intro s' ev' w' hm
      simp only [List.mem_cons, Cmd.runWorker.injEq] at hm
      rcases hm with ⟨rfl, rfl, rfl⟩ | hm
      · exact ih.1.running _ (by simp)
      · exact ih.2 s' ev' w' hm
    | publish p =>
      simp only [execCmd, Option.isSome_none, Bool.false_eq_true, if_false]
      have ih := execCmds_started cs
        { st := rst, buf := rbuf, heap := rheap, seq := rseq, idlePending := ridle, running := rrun,
          stream := rstream ++ [p], log := rlog, outcome := none, mailbox := rmail, now := rnow } rfl hcs
      refine ⟨⟨ih.1.st, ih.1.buf, ih.1.heap, ih.1.mailbox, ih.1.log, ih.1.outcome, ih.1.now, ih.1.running⟩, ?_⟩
      intro s' ev' w' hm
      simp only [List.mem_cons, reduceCtorEq, false_or] at hm
      exact ih.2 s' ev' w' hm
    | _ => simp [isStartCmd] at hc1

/-! ### the resumed runner -/

/-- the timer heap of a fresh runner: only the workflow timeout, if the workflow has one -/
def timeoutHeap (now : Int) : Option Nat → List Timer
  | none => []
  | some t => [{ at_ := now + t, seq := 0, tick := .timeout t }]

structure ResumedShape (cfg : Cfg) (S : State) (now : Int) (timeout : Option Nat) (R : Runner) : Prop where
  st : R.st = (rewind cfg S now).1
  buf : R.buf = rehydrateTicks cfg S
  heap : R.heap = timeoutHeap now timeout
  mailbox : R.mailbox = []
  log : R.log = []
  outcome : R.outcome = none
  clock : R.now = now
  workers : ∀ s ev w, Cmd.runWorker s ev w ∈ (rewind cfg S now).2 → ({ step := s, wid := w, ev := ev } : Worker) ∈ R.running

theorem init_resumed (cfg : Cfg) (S : State) (now : Int) (timeout : Option Nat) :
    ResumedShape cfg S now timeout (Runner.init cfg S now none timeout) := by
  unfold Runner.init
  cases timeout with
  | none =>
    simp only [List.append_nil]
    have h := execCmds_started (rewind cfg S now).2
      { st := (rewind cfg S now).1, buf := rehydrateTicks cfg S, now := now } rfl (rewind_start cfg S now)
    exact ⟨h.1.st, h.1.buf, h.1.heap, h.1.mailbox, h.1.log, h.1.outcome, h.1.now, h.2⟩
  | some t =>
    simp only [List.append_nil, Runner.push]
    have h := execCmds_started (rewind cfg S now).2
      { st := (rewind cfg S now).1, buf := rehydrateTicks cfg S, now := now,
        heap := [] ++ [{ at_ := now + t, seq := 0, tick := .timeout t }], seq := 0 + 1 } rfl (rewind_start cfg S now)
    exact ⟨h.1.st, h.1.buf, by simpa [timeoutHeap] using h.1.heap, h.1.mailbox, h.1.log, h.1.outcome, h.1.now, h.2⟩

/-- a fresh run: `Runner.init` from the empty state with a start event -/
theorem init_fresh (cfg : Cfg) (now : Int) (e : Ev) (timeout : Option Nat) :
    let r := Runner.init cfg initState now (some e) timeout
    AllEmpty r.st ∧ r.log = [] ∧ r.outcome = none := by
  have hr := rewind_init cfg now
  unfold Runner.init
  cases timeout with
  | none =>
    simp only [hr.2, execCmds]
    exact ⟨hr.1, by first | trivial | rfl, by first | trivial | rfl⟩
  | some t =>
    simp only [hr.2, execCmds, Runner.push]
    exact ⟨hr.1, by first | trivial | rfl, by first | trivial | rfl⟩

end Engine
