"""The decisions of `ctx.collect_events` and of the reducer's collect branches -> lean/WfModel/GenCollectShape.lean (C09).

Re-read from /repo's current `workflows/context/internal_context.py` and `workflows/runtime/control_loop.py` on every
run.  Every expression the model `collectEvents` / `applyRes` / `addOrEnqueue` / `c09Finish` (WfModel/Context.lean,
Engine.lean, CollectConc.lean) takes a decision on is emitted as normalised source text (`ast.unparse`), in source
order; `C09_collect_source_shape` (WfProps/C09.lean) pins them, so an edit of any of these places — another comparison,
another operand, another guard, another result class, another way of taking the snapshot — stops the theorem from
checking (what the branches compute is tied by the correspondence streams CE / CR / C09CH, not by this file):

* `collect_events`: the empty-`expected` guard and what it returns, the default buffer id, where the snapshot buffer is
  read from, the `remaining` multiset, the completion test, the test under which the event is recorded, the result class
  recorded, the pool the list is built from, the per-type pick, the iteration order, the result class of a completed set;
* `_process_step_result_tick`: `did_complete_step`; in the `AddCollectedEvent` branch the skip test, the live buffer, the
  snapshot buffer, the staleness test, the refreshed snapshot, the re-run command (class and `id`), the fresh append; in
  the `DeleteCollectedEvent` branch the guard and the pop;
* `_add_or_enqueue_event`: what the admitted invocation's `collected_events` snapshot is.
Locals are found by name and written as they are: renaming one of them is drift for this file (the pinned theorem has to
be re-read against the source), like any other edit of these lines.  Unrecognised shapes give `"<missing>"` and a note.
"""
from __future__ import annotations

import ast

from ..boot import repo_path

LEAN_MODULE = "GenCollectShape"
IC = "packages/llama-index-workflows/src/workflows/context/internal_context.py"
CL = "packages/llama-index-workflows/src/workflows/runtime/control_loop.py"
MISSING = "<missing>"


def _s(x: str) -> str:
    return '"' + x.replace("\\", "\\\\").replace('"', '\\"').replace("\n", " ") + '"'


def _u(n: ast.AST | None) -> str:
    return MISSING if n is None else " ".join(ast.unparse(n).split())


def _fn(tree: ast.AST, name: str) -> ast.AST | None:
    return next((n for n in ast.walk(tree) if isinstance(n, (ast.FunctionDef, ast.AsyncFunctionDef)) and n.name == name), None)


def _assign_to(fn: ast.AST, name: str) -> ast.AST | None:
    for n in ast.walk(fn):
        if isinstance(n, ast.Assign) and len(n.targets) == 1 and isinstance(n.targets[0], ast.Name) and n.targets[0].id == name:
            return n.value
        if isinstance(n, ast.AnnAssign) and isinstance(n.target, ast.Name) and n.target.id == name and n.value is not None:
            return n.value
    return None


def _branch(fn: ast.AST, cls: str) -> ast.If | None:
    for n in ast.walk(fn):
        if isinstance(n, ast.If):
            t = n.test
            if (isinstance(t, ast.Call) and isinstance(t.func, ast.Name) and t.func.id == "isinstance" and len(t.args) == 2
                    and isinstance(t.args[0], ast.Name) and t.args[0].id == "result" and isinstance(t.args[1], ast.Name) and t.args[1].id == cls):
                return n
    return None


def _appended_classes(stmts: list[ast.stmt], attr: str = "return_values") -> list[str]:
    out = []
    for st in stmts:
        for c in ast.walk(st):
            if (isinstance(c, ast.Call) and isinstance(c.func, ast.Attribute) and c.func.attr == "append" and isinstance(c.func.value, ast.Attribute)
                    and c.func.value.attr == attr and c.args and isinstance(c.args[0], ast.Call)):
                out.append(_u(c.args[0]))
    return out


def _collect_events(notes: list[str]) -> dict[str, str]:
    d: dict[str, str] = {}
    try:
        tree = ast.parse(open(repo_path(IC)).read())
    except (OSError, SyntaxError) as e:
        notes.append(f"collect_shape: cannot parse internal_context.py: {e}")
        return d
    fn = _fn(tree, "collect_events")
    if fn is None:
        notes.append("collect_shape: collect_events not found")
        return d
    ifs = [s for s in fn.body if isinstance(s, ast.If)]  # type: ignore[attr-defined]
    if len(ifs) >= 1:
        d["emptyGuard"] = _u(ifs[0].test)
        d["emptyReturns"] = "; ".join(_u(s) for s in ifs[0].body)
    d["bufferDefault"] = _u(_assign_to(fn, "buffer_id"))
    d["snapshotBuffer"] = _u(_assign_to(fn, "collected_events"))
    d["remaining"] = _u(_assign_to(fn, "remaining_event_types"))
    if len(ifs) >= 2:
        d["notCompleteTest"] = _u(ifs[1].test)
        inner = [s for s in ifs[1].body if isinstance(s, ast.If)]
        d["recordTest"] = _u(inner[0].test) if len(inner) == 1 else MISSING
        d["recorded"] = "; ".join(_appended_classes(inner[0].body)) if len(inner) == 1 else MISSING
        d["notCompleteReturns"] = "; ".join(_u(s) for s in ifs[1].body if isinstance(s, ast.Return))
        d["notCompleteOrelse"] = str(len(ifs[1].orelse))
    fors = [s for s in fn.body if isinstance(s, ast.For)]  # type: ignore[attr-defined]
    if len(fors) == 2:
        d["pool"] = _u(fors[0].iter)
        d["poolGrouping"] = "; ".join(_u(s) for s in fors[0].body)
        d["order"] = _u(fors[1].iter)
        d["pick"] = "; ".join(_u(s) for s in fors[1].body)
    tail = [s for s in fn.body if not isinstance(s, (ast.If, ast.For))]  # type: ignore[attr-defined]
    d["completed"] = "; ".join(_appended_classes(tail))
    d["completedReturns"] = _u(fn.body[-1])  # type: ignore[attr-defined]
    return d


def _reducer(notes: list[str]) -> dict[str, str]:
    d: dict[str, str] = {}
    try:
        tree = ast.parse(open(repo_path(CL)).read())
    except (OSError, SyntaxError) as e:
        notes.append(f"collect_shape: cannot parse control_loop.py: {e}")
        return d
    fn = _fn(tree, "_process_step_result_tick")
    if fn is None:
        notes.append("collect_shape: _process_step_result_tick not found")
        return d
    d["didComplete"] = _u(_assign_to(fn, "did_complete_step"))
    add = _branch(fn, "AddCollectedEvent")
    if add is not None:
        ifs = [s for s in add.body if isinstance(s, ast.If)]
        if len(ifs) == 2:
            d["addSkipTest"] = _u(ifs[0].test)
            d["addSkipBody"] = "; ".join(_u(s) for s in ifs[0].body)
            d["staleTest"] = _u(ifs[1].test)
            d["freshBody"] = "; ".join(_u(s) for s in ifs[1].orelse)
            d["refreshed"] = _u(_assign_to(ifs[1], "updated_state"))
            d["refreshedStored"] = "; ".join(_u(s) for s in ifs[1].body if isinstance(s, ast.Assign) and isinstance(s.targets[0], ast.Attribute))
            d["rerunCommand"] = "; ".join(_appended_classes(ifs[1].body, attr="commands")) or "; ".join(
                _u(c.args[0]) for s in ifs[1].body for c in ast.walk(s)
                if isinstance(c, ast.Call) and isinstance(c.func, ast.Attribute) and c.func.attr == "append" and isinstance(c.func.value, ast.Name) and c.func.value.id == "commands" and c.args)
            d["staleFlag"] = "; ".join(_u(s) for s in ifs[1].body if isinstance(s, ast.Assign) and isinstance(s.targets[0], ast.Name) and s.targets[0].id == "step_no_longer_in_progress")
        d["liveBuffer"] = _u(_assign_to(add, "collected_events"))
        d["sentBuffer"] = _u(_assign_to(add, "sent_events"))
    dele = _branch(fn, "DeleteCollectedEvent")
    if dele is not None and len(dele.body) == 1 and isinstance(dele.body[0], ast.If):
        d["deleteGuard"] = _u(dele.body[0].test)
        d["deleteBody"] = "; ".join(_u(s) for s in dele.body[0].body)
        d["deleteOrelse"] = str(len(dele.body[0].orelse))
    adm = _fn(tree, "_add_or_enqueue_event")
    if adm is not None:
        d["admitCopy"] = _u(_assign_to(adm, "state_copy"))
        kw = [k.value for c in ast.walk(adm) if isinstance(c, ast.Call) and isinstance(c.func, ast.Name) and c.func.id == "StepWorkerState"
              for k in c.keywords if k.arg == "collected_events"]
        d["admitSnapshot"] = _u(kw[0]) if len(kw) == 1 else MISSING
    return d


CE_KEYS = ["emptyGuard", "emptyReturns", "bufferDefault", "snapshotBuffer", "remaining", "notCompleteTest", "recordTest", "recorded",
           "notCompleteReturns", "notCompleteOrelse", "pool", "poolGrouping", "order", "pick", "completed", "completedReturns"]
RD_KEYS = ["didComplete", "addSkipTest", "addSkipBody", "liveBuffer", "sentBuffer", "staleTest", "staleFlag", "refreshed", "refreshedStored",
           "rerunCommand", "freshBody", "deleteGuard", "deleteBody", "deleteOrelse", "admitCopy", "admitSnapshot"]


def generate(notes: list[str]) -> list[str]:
    ce = _collect_events(notes)
    rd = _reducer(notes)
    lines = ["/-! Generated by harness/gen/collect_shape.py from the current sources of run-llama/workflows-py. Do not edit. -/",
             "namespace GenCollectShape"]
    for keys, d, what in ((CE_KEYS, ce, "collect_events"), (RD_KEYS, rd, "control_loop")):
        for k in keys:
            v = d.get(k, MISSING)
            if v == MISSING or v == "":
                notes.append(f"collect_shape: {what}: shape `{k}` not recognised")
                v = v or MISSING
            lines.append(f"def {k} : String := {_s(v)}")
    lines.append("end GenCollectShape")
    return lines
