class Starlette:
    def __init__(self, *args, **kwargs):
        self.args = args
        self.kwargs = kwargs
        self.routes = list(kwargs.get("routes") or [])
        self.mounts = []

    def mount(self, path, app=None, name=None):
        self.mounts.append((path, app, name))
