import WfProofs.HandlerStatusRun
import WfProofs.HandlerStatusSticky
import WfProofs.HandlerStatusHistory
import WfProps.C04
/-!
# C15 — the server's handler record reflects the run outcome

Model: `WfModel/HandlerStatus.lean` (the stored row and every operation of the in-process stack that
writes it, with transient store faults) composed with the runner LTS of C04 through
`WfModel/HandlerStatusRun.lean` (`serve`: the run's adapter takes the published stream in order; an
exception ends the run).  Constants and tables come from `WfModel/GenHandlerStatus.lean`, regenerated
from the sources on every run.

* `C15_status_map` — every run that ends (every run ends through a reducer exit command: C04,
  `C04_terminal_last_unconditional`) leaves the status of its terminal event, with result / error, provided
  the store faults stay within the retry budget.
* `C15_terminal_sticky` — no operation the stack issues after a terminal status for that row puts it back
  to `running`.  The stores themselves do **not** enforce this (`C15_store_sticky_refuted`,
  `C15_idle_event_after_terminal_flips`); it rests on C04 (`C15_nothing_published_after_terminal`) and on
  the only writers of `running` being the start of a run and the idle adapter (`C15_tables`).
* `C15_never_stays_running_statement` is **false** of the code (`C15_never_stays_running_refuted_*`):
  exhausted retries of the status write, one transient failure of the unretried `append_event`, one of the
  idle adapter's unretried status write.  `…_partial` is what holds.  A fourth cause — an engine-side
  failure: a retry policy raising inside the reducer (F07) — was repaired in the engine
  (C04/engine_side_failure_no_terminal_event, C15/stays_running:engine_side_failure): the reducer raises
  nothing any more (`C04_crash_unreachable`), so `…_partial` no longer excludes any outcome;
  `C15_stays_running_engine_unrepaired` keeps the old behaviour on the reducer variant before the repair.
-/
set_option linter.unusedVariables false
set_option linter.unusedSimpArgs false
open Engine HandlerStatus

/-! ## the regenerated tables are the ones the proofs are about -/

/-- Shape of the code the model is cut along; every conjunct is recomputed from the sources. -/
theorem C15_tables :
    GenHandlerStatus.statuses = ["running", "completed", "failed", "cancelled"] ∧
    GenHandlerStatus.terminalStatuses = ["completed", "failed", "cancelled"] ∧
    GenHandlerStatus.completedAtStatuses = GenHandlerStatus.terminalStatuses ∧
    GenHandlerStatus.eventStatusTable =
      [("WorkflowFailedEvent", "failed", true, false), ("WorkflowTimedOutEvent", "failed", true, false),
       ("WorkflowCancelledEvent", "cancelled", false, false), ("StopEvent", "completed", false, true)] ∧
    (GenHandlerStatus.guardedByNotReplaying && GenHandlerStatus.statusBeforeAppend &&
      GenHandlerStatus.forwardOutsideGuard && GenHandlerStatus.underWriteLock &&
      GenHandlerStatus.statusWriteRetried && !GenHandlerStatus.appendRetried &&
      GenHandlerStatus.retryPopsFront && GenHandlerStatus.retryRaisesWhenEmpty && GenHandlerStatus.retryCopiesPerCall &&
      GenHandlerStatus.startRetried &&
      !GenHandlerStatus.idleWriteRetried && GenHandlerStatus.idleWriteBeforeForward && GenHandlerStatus.idleSetsIdleSince &&
      !GenHandlerStatus.uhsReadsCurrentStatus && GenHandlerStatus.uhsStatusOnlyIfGiven && GenHandlerStatus.uhsResultOnlyIfGiven &&
      GenHandlerStatus.uhsErrorOnlyIfGiven && GenHandlerStatus.uhsIdleUnlessUnset && GenHandlerStatus.uhsNotFoundSkips) = true ∧
    GenHandlerStatus.startStatus = "running" ∧ GenHandlerStatus.idleStatus = "running" ∧
    GenHandlerStatus.idleClass = "WorkflowIdleEvent" ∧
    GenHandlerStatus.runningWriters =
      ["_runtime/idle_release_runtime.py:_IdleReleaseInternalRunAdapter.write_to_event_stream",
       "_runtime/server_runtime.py:ServerRuntimeDecorator.run_workflow_handler"] ∧
    GenHandlerStatus.resumeStatusIn = ["running"] ∧ GenHandlerStatus.resumeIsIdle = "False" ∧
    GenHandlerStatus.defaultBackoffMs.length = 2 := by decide

/-- every status named in the tables is a status, `is_terminal_status` is "not running", and the chain gives
each event class the status of its own branch although every terminal event is a `StopEvent` -/
theorem C15_chain :
    (∀ s : Status, s.isTerminal = !(s == .running)) ∧
    (∀ s : Status, Status.ofName? s.name = some s) ∧
    (∀ t, statusArgs { kind := .stop, tok := t } = some (.completed, none, some t)) ∧
    (∀ t, statusArgs { kind := .failed, tok := t } = some (.failed, some (.exc t), none)) ∧
    (∀ t, statusArgs { kind := .timedOut, tok := t } = some (.failed, some (.timeout t), none)) ∧
    (∀ t, statusArgs { kind := .cancelled, tok := t } = some (.cancelled, none, none)) ∧
    (∀ t, statusArgs { kind := .idle, tok := t } = none) ∧ (∀ t, statusArgs { kind := .other, tok := t } = none) :=
  ⟨by intro s; cases s <;> decide, by intro s; cases s <;> decide, statusArgs_stop, statusArgs_failed, statusArgs_timedOut, statusArgs_cancelled,
   statusArgs_idle, statusArgs_other⟩

/-! ## clause 1: the stored status is the one of the outcome -/

/-- what the row must say for an outcome of the run -/
def Reflects : Outcome → Rec → Prop
  | .completed (.event e), r => r.status = .completed ∧ r.result = some e.uid ∧ r.completedAt.isSome = true
  | .completed _, r => r.status.isTerminal = true
  | .failed _ x, r => r.status = .failed ∧ r.error = some (.exc x) ∧ r.completedAt.isSome = true
  | .halted .cancelledByUser, r => r.status = .cancelled ∧ r.completedAt.isSome = true
  | .halted .timeout, r => r.status = .failed ∧ (∃ t, r.error = some (.timeout t)) ∧ r.completedAt.isSome = true
  | .crashed, _ => False

theorem C15.reflects_of_terminal (p : Pub) (o : Outcome) (hp : isTerminalPub p = true) (hm : outcomeMatches p o = true)
    (r0 : Rec) (now : Nat) (st : Status) (x : Option Err) (y : Option Nat)
    (hargs : statusArgs (pubEv p) = some (st, x, y)) :
    Reflects o (r0.apply { status := some st, result := y, error := x } now) := by
  cases o with
  | crashed => simp [outcomeMatches] at hm
  | completed q =>
    have hpq : p = q := by simpa [outcomeMatches] using hm
    subst hpq
    cases p with
    | event e =>
      have hk : (e.kind == Kind.stop) = true := by simpa [isTerminalPub] using hp
      simp only [pubEv, hk, ↓reduceIte, statusArgs_stop] at hargs
      cases hargs
      exact ⟨rfl, rfl, by simp [Rec.apply, stamps_completed, stamps_failed, stamps_cancelled]⟩
    | cancelled =>
      simp only [pubEv, statusArgs_cancelled] at hargs; cases hargs
      show (Status.cancelled).isTerminal = true; decide
    | failed s x' a el =>
      simp only [pubEv, statusArgs_failed] at hargs; cases hargs
      show (Status.failed).isTerminal = true; decide
    | timedOut t ac =>
      simp only [pubEv, statusArgs_timedOut] at hargs; cases hargs
      show (Status.failed).isTerminal = true; decide
    | idleReleased =>
      simp only [pubEv, statusArgs_idleReleased] at hargs; cases hargs
      show (Status.completed).isTerminal = true; decide
    | stepState => simp [isTerminalPub] at hp
    | idle => simp [isTerminalPub] at hp
    | unhandled => simp [isTerminalPub] at hp
  | failed s x' =>
    cases p <;> simp [outcomeMatches] at hm
    rename_i s2 x2 a el
    obtain ⟨_, hx⟩ := hm
    subst hx
    simp only [pubEv, statusArgs_failed] at hargs; cases hargs
    exact ⟨rfl, rfl, by simp [Rec.apply, stamps_completed, stamps_failed, stamps_cancelled]⟩
  | halted k =>
    cases k with
    | cancelledByUser =>
      have : p = .cancelled := by simpa [outcomeMatches] using hm
      subst this
      simp only [pubEv, statusArgs_cancelled] at hargs; cases hargs
      exact ⟨rfl, by simp [Rec.apply, stamps_completed, stamps_failed, stamps_cancelled]⟩
    | timeout =>
      cases p <;> simp [outcomeMatches] at hm
      rename_i t ac
      simp only [pubEv, statusArgs_timedOut] at hargs; cases hargs
      exact ⟨rfl, ⟨t, rfl⟩, by simp [Rec.apply, stamps_completed, stamps_failed, stamps_cancelled]⟩

theorem C15.terminal_has_args (p : Pub) (hp : isTerminalPub p = true) :
    ∃ st x y, statusArgs (pubEv p) = some (st, x, y) := by
  cases p with
  | event e =>
    have hk : (e.kind == Kind.stop) = true := by simpa [isTerminalPub] using hp
    exact ⟨_, _, _, by simp only [pubEv, hk, ↓reduceIte]; exact statusArgs_stop _⟩
  | cancelled => exact ⟨_, _, _, statusArgs_cancelled _⟩
  | failed s x a el => exact ⟨_, _, _, statusArgs_failed _⟩
  | timedOut t ac => exact ⟨_, _, _, statusArgs_timedOut _⟩
  | idleReleased => exact ⟨_, _, _, statusArgs_idleReleased _⟩
  | stepState => simp [isTerminalPub] at hp
  | idle => simp [isTerminalPub] at hp
  | unhandled => simp [isTerminalPub] at hp

/-- **C15, clause 1.**  For every workflow configuration, retry policy (also one that raises), initial
state satisfying the worker-slot invariant, schedule, worker results and external ticks (C04's quantifier),
**every** way the run ends, and every assignment of transient store faults to the writes that stays within
the retry budget: serving the run's published stream to the server adapter raises nothing and leaves, in
the row the run was started with, the status of the outcome with its result / error and `completed_at`. -/
theorem C15_status_map (cfg : Cfg) (hwf : cfg.WF) (pol : Policy) (st0 : State) (h0 : IdsInv cfg st0) (now : Int)
    (start : Option Engine.Ev) (timeout : Option Nat) (acts : List Act) (hok : ∀ a ∈ acts, a.ok = true)
    (s : St) (run : Nat) (hr : RunningFor run s) (l : List (Pub × Faults)) :
    let r := Runner.run cfg pol (Runner.init cfg st0 now start timeout) acts
    l.map Prod.fst = r.stream → (∀ x ∈ l, WithinBudget s.backoff.length x) →
    ∀ o, r.outcome = some o →
      (serve run s l).2 = true ∧ ∃ rec, (serve run s l).1.row = some rec ∧ rec.runId = run ∧ Reflects o rec := by
  intro r hl hb o ho
  have h3 := C04_terminal_last_unconditional cfg hwf pol st0 h0 now start timeout acts hok
  simp only at h3
  rcases h3 with hlive | hwell
  · rw [hlive.1] at ho; cases ho
  · obtain ⟨o', p, pre, ho', hs, hpre, hp, hm⟩ := hwell
    have : o = o' := by rw [ho'] at ho; injection ho with ho; exact ho.symm
    subst this
    rw [hs] at hl
    obtain ⟨l1, l2, hl12, hl1, hl2⟩ := List.map_eq_append_iff.mp hl
    obtain ⟨pf, hpf, hpfst⟩ : ∃ pf, l2 = [pf] ∧ pf.1 = p := by
      match l2, hl2 with
      | [pf], h => exact ⟨pf, rfl, by simpa using h⟩
    subst hpf hl12
    have hpre' : ∀ x ∈ l1, isTerminalPub x.1 = false := by
      intro x hx
      apply hpre
      rw [← hl1]
      exact List.mem_map_of_mem hx
    obtain ⟨k1, k2, k3⟩ := serve_prefix run l1 s hpre' (fun x hx => hb x (by simp [hx])) hr
    rw [serve_append, andThen_ok _ _ k1, serve_cons]
    obtain ⟨p', f⟩ := pf
    simp only at hpfst; subst hpfst
    obtain ⟨hf2, _, hft⟩ := hb (p', f) (by simp)
    obtain ⟨st, x, y, hargs⟩ := C15.terminal_has_args p' hp
    have hw := writeEvent_terminal ((serve run s l1).1.armed f) run (pubEv p') st x y hargs k2
      (by show f.1 ≤ (serve run s l1).1.backoff.length; rw [k3]; exact hft hp) hf2
    obtain ⟨w1, r0, nw, w2, w3, w4, _⟩ := hw
    rw [andThen_ok _ _ w1]
    refine ⟨rfl, _, w4, by simpa [Rec.apply] using w3, C15.reflects_of_terminal p' o hp hm r0 nw st x y hargs⟩

/-! Non-vacuity: a run that completes, is cancelled while idle, times out; two transient failures of the
terminal status write are survived (3.5 s of back-off with the default `[0.5, 3]`). -/
def C15.started (run : Nat) : St := (({} : St).start run).1
def C15.zip (stream : List Pub) (k : Nat) : List (Pub × Faults) :=
  stream.map (fun p => (p, if isTerminalPub p then ((k, 0) : Faults) else (0, 0)))
def C15.okRun : Runner :=
  Runner.run C04.okCfg (fun _ _ _ _ => .stop) (Runner.init C04.okCfg initState 0 (some C04.startEv) none)
    [.drain, .workerDone 0 0 [.result (some C04.stopEv)], .drain, .drain]
def C15.idleCancelRun : Runner :=
  Runner.run C04.okCfg (fun _ _ _ _ => .stop) (Runner.init C04.okCfg initState 0 (some C04.startEv) none)
    [.drain, .workerDone 0 0 [.result none], .drain, .drain, .external .cancelRun, .pull, .drain]

example : RunningFor 7 (C15.started 7) := ⟨_, rfl, rfl, rfl⟩
example :
    (∀ x ∈ C15.zip C15.okRun.stream 2, WithinBudget (C15.started 7).backoff.length x) ∧
    C15.okRun.outcome = some (.completed (.event C04.stopEv)) ∧
    (let q := serve 7 (C15.started 7) (C15.zip C15.okRun.stream 2)
     (q.2, q.1.row.map (fun x => (x.status, x.result, x.error)), q.1.slept) =
       (true, some (.completed, some 9, none), 3500)) := by decide
example :
    C15.idleCancelRun.outcome = some (.halted .cancelledByUser) ∧ Pub.idle ∈ C15.idleCancelRun.stream ∧
    (let q := serve 7 (C15.started 7) (C15.zip C15.idleCancelRun.stream 1)
     (q.2, q.1.row.map (fun x => (x.status, x.idleSince.isSome, x.completedAt.isSome))) =
       (true, some (.cancelled, true, true))) := by decide

/-- **status before event**: a status-carrying event is appended to the event log only after its status was
stored: whoever reads the terminal event from the log finds the row already terminal. -/
theorem C15_status_before_event (s : St) (run : Nat) (e : HandlerStatus.Ev) (st : Status) (x : Option Err) (y : Option Nat)
    (r0 : Rec) (hrow : s.row = some r0) (hrun : r0.runId = run) (hargs : statusArgs e = some (st, x, y))
    (happ : (s.writeEvent run e false).1.events ≠ s.events) :
    GenHandlerStatus.statusBeforeAppend = true ∧
    ∃ r1, (s.writeEvent run e false).1.row = some r1 ∧ r1.runId = run ∧ r1.status = st := by
  refine ⟨by decide, ?_⟩
  have hk : e.kind ≠ .idle := by
    intro hk
    obtain ⟨k, t⟩ := e
    simp only at hk; subst hk
    rw [statusArgs_idle] at hargs; cases hargs
  have hstep := retry_uhs_step run { status := some st, result := y, error := x } s.backoff s
  have htrue := retry_uhs_true run { status := some st, result := y, error := x } s.backoff s
  rw [writeEvent_live, statusWrite_some _ _ _ _ _ _ hargs] at happ ⊢
  generalize retry (fun z => z.uhs run { status := some st, result := y, error := x }) s.backoff s = q at *
  obtain ⟨q1, q2⟩ := q
  cases q2
  · rw [andThen_false, andThen_false] at happ
    exact absurd hstep.events happ
  · obtain ⟨now, hnow⟩ := htrue rfl
    simp only at hnow hstep
    rw [andThen_true] at happ ⊢
    by_cases ha : q1.failApp = 0
    · rw [append_ok _ _ _ ha, andThen_true, forward_plain _ _ _ hk]
      exact ⟨r0.apply { status := some st, result := y, error := x } now,
        by simp [St.publish, hnow, hrow, hrun], by simpa [Rec.apply] using hrun, by simp [Rec.apply]⟩
    · rw [append_fail _ _ _ (Nat.pos_of_ne_zero ha), andThen_false] at happ
      exact absurd hstep.events happ

/-! ## clause 2: a stored terminal status is never changed back to running -/

/-- **C15, clause 2.**  From a row holding a terminal status of run `cur`, no sequence of the operations the
stack can still issue (`LateOp`, see there) — in any order, with any store faults, for any run ids — ever
shows `running` again: the row stays terminal for `cur` until it is purged. -/
theorem C15_terminal_sticky (cur : Nat) (s : St) (r : Rec) (hrow : s.row = some r) (hrun : r.runId = cur)
    (hterm : r.status.isTerminal = true) (ops : List LateOp) (hal : ∀ op ∈ ops, op.allowed cur) :
    (ops.foldl St.late s).row = none ∨
      ∃ r', (ops.foldl St.late s).row = some r' ∧ r'.runId = cur ∧ r'.status.isTerminal = true ∧ r'.status ≠ .running := by
  rcases settled_lates cur ops s hal (Or.inr ⟨r, hrow, hrun, hterm⟩) with h | ⟨r', h1, h2, h3⟩
  · exact Or.inl h
  · exact Or.inr ⟨r', h1, h2, h3, terminal_ne_running h3⟩

/-- The one excluded operation cannot happen: once a run has ended, nothing it does changes what was
published (C04), and what was published has exactly one terminal element, the last (so every
`WorkflowIdleEvent` of the run reached the adapter *before* the terminal status was stored). -/
theorem C15_nothing_published_after_terminal (cfg : Cfg) (pol : Policy) (r : Runner) (h : EndedWell r)
    (acts : List Act) :
    (Runner.run cfg pol r acts).stream = r.stream ∧
    ∃ pre p, r.stream = pre ++ [p] ∧ isTerminalPub p = true ∧ ∀ q ∈ pre, isTerminalPub q = false := by
  obtain ⟨o, p, pre, ho, hs, hpre, hp, _⟩ := h
  refine ⟨by rw [C04_outcome_once cfg pol r acts (by rw [ho]; rfl)], pre, p, hs, hp, hpre⟩

/-- the stores do not refuse to leave a terminal status -/
def C15_store_sticky_statement : Prop :=
  ∀ (s : St) (run : Nat) (a : UArgs) (r : Rec), s.row = some r → r.status.isTerminal = true →
    ∀ r', (s.uhs run a).1.row = some r' → r'.status.isTerminal = true

/-- `update_handler_status` never looks at the stored status: the idle adapter's arguments turn a completed
row back to `running` (its result and `completed_at` stay). -/
theorem C15_store_sticky_refuted : ¬ C15_store_sticky_statement ∧ GenHandlerStatus.uhsReadsCurrentStatus = false := by
  refine ⟨?_, by decide⟩
  intro h
  have := h { row := some { runId := 1, status := .completed, result := some 9, completedAt := some 3 } } 1
    { status := some .running, idle := some (some 4) } _ rfl (by decide) _ rfl
  revert this
  decide

/-- … so an idle event of the same run written after the terminal one would flip the row (witness); the
exclusion in `LateOp.allowed` is necessary. -/
theorem C15_idle_event_after_terminal_flips :
    let s0 := C15.started 1
    let s1 := (s0.writeEvent 1 { kind := .stop, tok := 9 } false).1
    let s2 := (s1.writeEvent 1 { kind := .idle } false).1
    s1.row.map (·.status) = some .completed ∧ s2.row.map (fun r => (r.status, r.result)) = some (.running, some 9) := by
  decide

example : -- non-vacuity of clause 2: a long tail of late operations on a completed row
    let s1 := ((C15.started 1).writeEvent 1 { kind := .stop, tok := 9 } false).1
    let ops : List LateOp := [.event 1 { kind := .other } false, .event 1 { kind := .cancelled } false, .idleClear 1,
      .event 0 { kind := .idle } false, .arm 5 1 0, .event 1 { kind := .failed, tok := 3 } true, .restart (.exit .haltCancel) false 1,
      .cancel false, .statusUpdate 1 .failed none (some (.exc 2)), .arm 0 0 0, .event 1 { kind := .timedOut, tok := 4 } false]
    (∀ op ∈ ops, op.allowed 1) ∧ (ops.foldl St.late s1).row.map (·.status) = some .failed := by
  refine ⟨?_, by decide⟩
  intro op hop
  simp only [List.mem_cons, List.mem_nil_iff, or_false] at hop
  rcases hop with h | h | h | h | h | h | h | h | h | h | h <;> subst h <;> simp [LateOp.allowed] <;> decide

/-- what the record says about how the run ended -/
def HandlerStatus.Rec.outcomeFields (r : Rec) : Nat × Status × Option Nat × Option Err × Option Nat :=
  (r.runId, r.status, r.result, r.error, r.completedAt)

theorem C15.idleClear_keeps (s : St) (run : Nat) :
    (s.idleClear run).1.row.map Rec.outcomeFields = s.row.map Rec.outcomeFields := by
  unfold St.idleClear St.uhs
  split
  · rfl
  · cases h : s.row with
    | none => simp [h]
    | some r =>
      by_cases hr : r.runId = run
      · simp [h, hr, Rec.apply, Rec.outcomeFields]
      · simp [h, hr]

/-- **C15, clause 2 for requests that are still in flight when the run ends.**  The writes the stack issues on
behalf of an external request (`send_event` to a run it holds, and the reload of a released run) pass
`idle_since=None` and no status (regenerated table), so any number of them, for any runs, in any state of the
store faults, leaves what the record says about the outcome — run, status, result, error, `completed_at` —
exactly as it was: a request that passed `resolve_handler` on a stale `running` view and is delivered after
the terminal status was stored cannot put the record back to `running`. -/
theorem C15_late_request_keeps_outcome :
    (GenHandlerStatus.unidleWrites.map (·.2) = ["_", "_"]) ∧
    ∀ (s : St) (runs : List Nat),
      (runs.foldl (fun x r => (x.idleClear r).1) s).row.map Rec.outcomeFields = s.row.map Rec.outcomeFields := by
  refine ⟨by decide, ?_⟩
  intro s runs
  induction runs generalizing s with
  | nil => rfl
  | cons r rs ih => rw [List.foldl_cons, ih, C15.idleClear_keeps]

example : -- non-vacuity: a completed row, three late deliveries (one hits a store fault, one is for another run)
    let s1 := { ((C15.started 1).writeEvent 1 { kind := .stop, tok := 9 } false).1 with failUhs := 1 }
    s1.row.map Rec.outcomeFields = some (1, .completed, some 9, none, some 2) ∧
    ([1, 1, 2].foldl (fun x r => (x.idleClear r).1) s1).row.map (fun r => (r.status, r.updatedAt)) = some (.completed, 3) := by
  decide

/-! ## clause 3: a handler never stays running after its run has ended -/

/-- The clause at full strength: for every program, schedule and transient fault assignment, once the run
has ended (any outcome, including an engine-side failure) the row it was started with does not say `running`. -/
def C15_never_stays_running_statement : Prop :=
  ∀ (cfg : Cfg) (pol : Policy) (start : Engine.Ev) (acts : List Act), (∀ a ∈ acts, a.ok = true) →
  ∀ (s : St) (run : Nat), RunningFor run s → ∀ (l : List (Pub × Faults)),
    let r := Runner.run cfg pol (Runner.init cfg initState 0 (some start) none) acts
    l.map Prod.fst = r.stream → r.outcome.isSome = true →
    ∃ rec, (serve run s l).1.row = some rec ∧ rec.status ≠ .running

theorem C15.refute (cfg : Cfg) (pol : Policy) (start : Engine.Ev) (acts : List Act) (hok : ∀ a ∈ acts, a.ok = true)
    (run : Nat) (l : List (Pub × Faults))
    (hl : l.map Prod.fst = (Runner.run cfg pol (Runner.init cfg initState 0 (some start) none) acts).stream)
    (ho : (Runner.run cfg pol (Runner.init cfg initState 0 (some start) none) acts).outcome.isSome = true)
    (hrow : (serve run (C15.started run) l).1.row.map (·.status) = some .running) :
    ¬ C15_never_stays_running_statement := by
  intro h
  obtain ⟨rec, h1, h2⟩ := h cfg pol start acts hok (C15.started run) run ⟨_, rfl, rfl, rfl⟩ l hl ho
  rw [h1] at hrow
  simp only [Option.map_some, Option.some.injEq] at hrow
  exact h2 hrow

/-- F07, **before the repair** of the engine (the reducer variant of `WfProofs/EnginePolicyEscapes.lean`): the
step fails, the user's retry policy raises inside the reducer; the run is over (`crashed`), no terminal event
was published, no fault was injected: the row still says `running`. -/
theorem C15_stays_running_engine_unrepaired :
    let r := Runner.runPolicyEscapes C04.wCfg (fun _ _ _ _ => .raise)
      (Runner.init C04.wCfg initState 0 (some C04.startEv) none) C04.wActs
    r.outcome = some .crashed ∧
      (serve 7 (C15.started 7) (C15.zip r.stream 0)).1.row.map (·.status) = some .running := by decide

/-- the same program, schedule and (absent) faults on the repaired reducer: the raising policy grants no retry,
the run fails with the step's error and the row says `failed` with that error -/
theorem C15_engine_failure_repaired :
    let r := Runner.run C04.wCfg (fun _ _ _ _ => .raise)
      (Runner.init C04.wCfg initState 0 (some C04.startEv) none) C04.wActs
    r.outcome = some (.failed 0 7) ∧
      (serve 7 (C15.started 7) (C15.zip r.stream 0)).1.row.map (fun x => (x.status, x.error)) =
        some (.failed, some (.exc 7)) := by decide

def C15.okActs : List Act := [.drain, .workerDone 0 0 [.result (some C04.stopEv)], .drain, .drain]
def C15.idleCancelActs : List Act :=
  [.drain, .workerDone 0 0 [.result none], .drain, .drain, .external .cancelRun, .pull, .drain]

/-- the store fails `len(backoff)+1 = 3` times in a row when the `completed` status is written: the exception
leaves `write_to_event_stream`, the run dies, the row still says `running` (and the `StopEvent` is not in the log) -/
theorem C15_never_stays_running_refuted_retries : ¬ C15_never_stays_running_statement :=
  C15.refute C04.okCfg (fun _ _ _ _ => .stop) C04.startEv C15.okActs (by decide) 7
    (C15.zip C15.okRun.stream 3) (by decide) (by decide) (by decide)

/-- ONE transient failure of `append_event` on the first (non-terminal) event: it is not retried -/
theorem C15_never_stays_running_refuted_append : ¬ C15_never_stays_running_statement :=
  C15.refute C04.okCfg (fun _ _ _ _ => .stop) C04.startEv C15.okActs (by decide) 7
    (match C15.okRun.stream with | [] => [] | p :: rest => (p, (0, 1)) :: C15.zip rest 0)
    (by decide) (by decide) (by decide)

/-- ONE transient failure of the idle adapter's `update_handler_status(status="running", idle_since=…)`: not retried -/
theorem C15_never_stays_running_refuted_idle_write : ¬ C15_never_stays_running_statement :=
  C15.refute C04.okCfg (fun _ _ _ _ => .stop) C04.startEv C15.idleCancelActs (by decide) 7
    (C15.idleCancelRun.stream.map (fun p => (p, if p = Pub.idle then ((1, 0) : Faults) else (0, 0))))
    (by decide) (by decide) (by decide)

theorem C15.reflects_not_running (o : Outcome) (r : Rec) (h : Reflects o r) : r.status ≠ .running := by
  cases o with
  | completed q =>
    cases q with
    | event e => intro hr; rw [h.1] at hr; cases hr
    | _ => exact terminal_ne_running h
  | failed s x => intro hr; rw [h.1] at hr; cases hr
  | halted k => cases k <;> (intro hr; rw [h.1] at hr; cases hr)
  | crashed => exact h.elim

/-- **C15, clause 3, what holds**: if the store faults stay within the retry budget (none on the two
unretried writes), then after the run has ended — in whatever way: no outcome is excluded, the engine has no
failure mode without a terminal event any more (`C04_crash_unreachable`) — the row does not say `running`. -/
theorem C15_never_stays_running_partial (cfg : Cfg) (hwf : cfg.WF) (pol : Policy) (st0 : State)
    (h0 : IdsInv cfg st0) (now : Int)
    (start : Option Engine.Ev) (timeout : Option Nat) (acts : List Act) (hok : ∀ a ∈ acts, a.ok = true)
    (s : St) (run : Nat) (hr : RunningFor run s) (l : List (Pub × Faults)) :
    let r := Runner.run cfg pol (Runner.init cfg st0 now start timeout) acts
    l.map Prod.fst = r.stream → (∀ x ∈ l, WithinBudget s.backoff.length x) →
    r.outcome.isSome = true →
      ∃ rec, (serve run s l).1.row = some rec ∧ rec.runId = run ∧ rec.status ≠ .running := by
  intro r hl hb ho
  obtain ⟨o, ho'⟩ := Option.isSome_iff_exists.mp ho
  obtain ⟨_, rec, h1, h2, h3⟩ := C15_status_map cfg hwf pol st0 h0 now start timeout acts hok s run hr l hl hb o ho'
  exact ⟨rec, h1, h2, C15.reflects_not_running o rec h3⟩

/-- The retry budget is exact, for every back-off list: up to `len(backoff)` transient failures of the
terminal status write are survived; one more and the exception leaves the adapter with the row and the event
log untouched. -/
theorem C15_retry_budget (s : St) (run : Nat) (e : HandlerStatus.Ev) (st : Status) (x : Option Err) (y : Option Nat)
    (hargs : statusArgs e = some (st, x, y)) (hr : RunningFor run s) (happ : s.failApp = 0) :
    (s.failUhs ≤ s.backoff.length →
      (s.writeEvent run e false).2 = true ∧ ∃ r1, (s.writeEvent run e false).1.row = some r1 ∧ r1.status = st) ∧
    (s.backoff.length < s.failUhs →
      (s.writeEvent run e false).2 = false ∧ (s.writeEvent run e false).1.row = s.row ∧
        (s.writeEvent run e false).1.events = s.events) := by
  constructor
  · intro hb
    obtain ⟨h1, r0, nw, _, _, h4, _⟩ := writeEvent_terminal s run e st x y hargs hr hb happ
    exact ⟨h1, _, h4, by simp [Rec.apply]⟩
  · intro hb
    obtain ⟨h1, h2⟩ := retry_uhs_exhausted run { status := some st, result := y, error := x } s.backoff s hb
    have hstep := retry_uhs_step run { status := some st, result := y, error := x } s.backoff s
    rw [writeEvent_live, statusWrite_some _ _ _ _ _ _ hargs, andThen_raised _ _ h1, andThen_raised _ _ h1]
    exact ⟨h1, h2, hstep.events⟩

/-- what the environment can do about the two "stays running" causes that involve the store: after a restart,
`_on_server_start` replays the persisted ticks and finalises the row with the status of the exit command —
the same status, result and error the live adapter would have written for the terminal event of that kind. -/
def HandlerStatus.ExitKind.event : ExitKind → HandlerStatus.Ev
  | .completeStop u => { kind := .stop, tok := u }
  | .completeIdleReleased => { kind := .idleReleased }
  | .fail n => { kind := .failed, tok := n }
  | .haltCancel => { kind := .cancelled }
  | .haltTimeout t => { kind := .timedOut, tok := t }

theorem C15_restart_finalizes (s : St) (r0 : Rec) (hrow : s.row = some r0) (hst : r0.status = .running)
    (hidle : r0.idleSince = none) (h0 : s.failUhs = 0) (x : ExitKind) (hx : x ≠ .completeIdleReleased) (fault : Nat) :
    ∃ st err res, statusArgs x.event = some (st, err, res) ∧
      (s.restart (.exit x) false fault).2 = .finalized ∧
      ∃ r1, (s.restart (.exit x) false fault).1.row = some r1 ∧ r1.status = st ∧
        (∀ e, err = some e → r1.error = some e) ∧ (∀ u, res = some u → r1.result = some u) := by
  have hres : Status.running.name ∈ GenHandlerStatus.resumeStatusIn := by decide
  cases x with
  | completeIdleReleased => exact absurd rfl hx
  | completeStop u =>
    refine ⟨_, _, _, statusArgs_stop u, ?_⟩
    simp [St.restart, hrow, hst, hres, hidle, exitArgs_stop, uhs_ok s _ _ h0, Rec.apply, ExitKind.event]
  | fail n =>
    refine ⟨_, _, _, statusArgs_failed n, ?_⟩
    simp [St.restart, hrow, hst, hres, hidle, exitArgs_fail, uhs_ok s _ _ h0, Rec.apply, ExitKind.event]
  | haltCancel =>
    refine ⟨_, _, _, statusArgs_cancelled 0, ?_⟩
    simp [St.restart, hrow, hst, hres, hidle, exitArgs_cancel, uhs_ok s _ _ h0, Rec.apply, ExitKind.event]
  | haltTimeout t =>
    refine ⟨_, _, _, statusArgs_timedOut t, ?_⟩
    simp [St.restart, hrow, hst, hres, hidle, exitArgs_timeout, uhs_ok s _ _ h0, Rec.apply, ExitKind.event]

/-- … but not under one more transient failure: a failed finalisation write is answered by marking the row
`failed` with the store's error text, whatever the run's real outcome was (witness: a completed run). -/
theorem C15_restart_fault_mislabels :
    let s := { C15.started 1 with failUhs := 1 }
    (s.restart (.exit (.completeStop 9)) false 5).2 = .markedFailed ∧
    (s.restart (.exit (.completeStop 9)) false 5).1.row.map (fun r => (r.status, r.error, r.result)) =
      some (.failed, some (.store 5), none) := by decide

/-! ## cancel through the service -/

/-- when `cancel_handler` answers `cancelled` for a handler that was still running, the row says `cancelled` -/
def C15_cancel_reflected_statement : Prop :=
  ∀ (s : St) (r : Rec) (inMemory : Bool), s.row = some r → r.status = .running → s.failUhs = 0 → s.failApp = 0 →
    (s.cancelHandler false inMemory).2 = .cancelled →
    (s.cancelHandler false inMemory).1.row.map (·.status) = some .cancelled

/-- A handler that went idle and was released from memory: `cancel_handler` answers `cancelled`, nothing is
cancelled, the row keeps saying `running` (and the next `send_event` would reload and continue the run). -/
theorem C15_cancel_reflected_refuted : ¬ C15_cancel_reflected_statement := by
  intro h
  have := h ((C15.started 1).writeEvent 1 { kind := .idle } false).1 _ false rfl (by decide) (by decide) (by decide) (by decide)
  revert this
  decide

/-- for a run that is in memory the answer is honest (store faults within the retry budget) -/
theorem C15_cancel_reflected_partial (s : St) (r : Rec) (hrow : s.row = some r) (hst : r.status = .running)
    (hb : s.failUhs ≤ s.backoff.length) (happ : s.failApp = 0) :
    (s.cancelHandler false true).2 = .cancelled ∧
    ∃ r1, (s.cancelHandler false true).1.row = some r1 ∧ r1.runId = r.runId ∧ r1.status = .cancelled ∧
      r1.completedAt.isSome = true := by
  have hnt : r.status.isTerminal = false := by rw [hst]; decide
  obtain ⟨_, r0, nw, h0, _, h2, _⟩ := writeEvent_terminal s r.runId { kind := .cancelled } .cancelled none none
    (statusArgs_cancelled 0) ⟨r, hrow, rfl, hst⟩ hb happ
  rw [hrow] at h0; cases h0
  have hc : s.cancelHandler false true = ((s.writeEvent r.runId { kind := .cancelled } false).1, .cancelled) := by
    simp [St.cancelHandler, hrow, hnt]
  rw [hc]
  exact ⟨rfl, _, h2, by simp [Rec.apply], by simp [Rec.apply], by simp [Rec.apply, stamps_cancelled]⟩

/-! ## the retry budget over the lifetime of one runtime -/

/-- **The budget of a write does not depend on earlier writes.**  After ANY history of one runtime instance
(runs started, events of any run written with any store faults — recovered or not —, idle clears, restarts,
cancels, late updates) the back-off schedule is the configured one, so a terminal status write of a run whose
row says `running` still survives up to `len(persistence_backoff)` transient failures and stores its status.
In the code this is the per-call copy `backoffs = list(self._persistence_backoff)` in `_retry_store_write`
(regenerated as `retryCopiesPerCall`): popping from the runtime's own list would drain the budget for good. -/
theorem C15_budget_per_write (s0 : St) (hist : List HistOp) (run : Nat) (e : HandlerStatus.Ev) (st : Status)
    (x : Option Err) (y : Option Nat) (f : Faults) :
    let s := (hist.foldl St.hist s0).armed f
    GenHandlerStatus.retryCopiesPerCall = true ∧ s.backoff = s0.backoff ∧
    (statusArgs e = some (st, x, y) → RunningFor run s → f.1 ≤ s0.backoff.length → f.2 = 0 →
      (s.writeEvent run e false).2 = true ∧ ∃ r1, (s.writeEvent run e false).1.row = some r1 ∧ r1.runId = run ∧ r1.status = st) := by
  intro s
  have hb : s.backoff = s0.backoff := hists_backoff hist s0
  refine ⟨by decide, hb, ?_⟩
  intro hargs hr hf1 hf2
  obtain ⟨h1, r0, nw, _, hrun, h4, _⟩ := writeEvent_terminal s run e st x y hargs hr (by rw [hb]; exact hf1) hf2
  exact ⟨h1, _, h4, by simpa [Rec.apply] using hrun, by simp [Rec.apply]⟩

example : -- non-vacuity: three runs on one runtime, each terminal write recovered after two failures; the fourth likewise
    let hist : List HistOp := [.start 1, .op (.arm 2 0 0), .op (.event 1 { kind := .stop, tok := 5 } false),
      .start 2, .op (.arm 2 0 0), .op (.event 2 { kind := .failed, tok := 3 } false),
      .op (.arm 0 0 2), .start 3, .op (.arm 2 0 0), .op (.event 3 { kind := .cancelled } false), .start 4]
    let s := (hist.foldl St.hist {}).armed (2, 0)
    (s.slept, s.row.map (fun r => (r.runId, r.status)),
      (s.writeEvent 4 { kind := .stop, tok := 9 } false).2,
      (s.writeEvent 4 { kind := .stop, tok := 9 } false).1.row.map (fun r => (r.status, r.result))) =
    (14000, some (4, .running), true, some (.completed, some 9)) := by decide
