import WfModel.IterUtils
/-! `sortByKey` (the model of `list.sort(key=key)`) is a stable sort. -/
namespace IterUtils

theorem insertByKey_perm (key : β → Nat) (x : β) (l : List β) : (insertByKey key x l).Perm (x :: l) := by
  induction l with
  | nil => exact List.Perm.refl _
  | cons y ys ih =>
    simp only [insertByKey]
    split
    · exact List.Perm.refl _
    · exact (List.Perm.cons y ih).trans (List.Perm.swap x y ys)

theorem sortByKey_perm (key : β → Nat) (l : List β) : (sortByKey key l).Perm l := by
  induction l with
  | nil => exact List.Perm.refl _
  | cons x xs ih =>
    simp only [sortByKey]
    exact (insertByKey_perm key x _).trans (List.Perm.cons x ih)

theorem insertByKey_sorted (key : β → Nat) (x : β) (l : List β)
    (h : l.Pairwise (fun a b => key a ≤ key b)) :
    (insertByKey key x l).Pairwise (fun a b => key a ≤ key b) := by
  induction l with
  | nil => simp [insertByKey]
  | cons y ys ih =>
    simp only [insertByKey]
    rw [List.pairwise_cons] at h
    split
    · rename_i hxy
      rw [List.pairwise_cons]
      refine ⟨?_, List.pairwise_cons.mpr h⟩
      intro b hb
      rcases List.mem_cons.mp hb with rfl | hb
      · exact hxy
      · exact Nat.le_trans hxy (h.1 b hb)
    · rename_i hxy
      rw [List.pairwise_cons]
      refine ⟨?_, ih h.2⟩
      intro b hb
      have := (insertByKey_perm key x ys).mem_iff.mp hb
      rcases List.mem_cons.mp this with rfl | hb
      · omega
      · exact h.1 b hb

theorem sortByKey_sorted (key : β → Nat) (l : List β) :
    (sortByKey key l).Pairwise (fun a b => key a ≤ key b) := by
  induction l with
  | nil => simp [sortByKey]
  | cons x xs ih => exact insertByKey_sorted key x _ ih

theorem insertByKey_stable (key : β → Nat) (x : β) (l : List β) (k : Nat) :
    (insertByKey key x l).filter (fun a => key a == k) = (x :: l).filter (fun a => key a == k) := by
  induction l with
  | nil => rfl
  | cons y ys ih =>
    simp only [insertByKey]
    split
    · rfl
    · rename_i hxy
      rw [List.filter_cons, ih]
      simp only [List.filter_cons]
      by_cases hx : key x = k <;> by_cases hy : key y = k
      · omega
      · simp [hx, hy]
      · simp [hx, hy]
      · simp [hx, hy]

/-- equal keys keep their arrival order -/
theorem sortByKey_stable (key : β → Nat) (l : List β) (k : Nat) :
    (sortByKey key l).filter (fun a => key a == k) = l.filter (fun a => key a == k) := by
  induction l with
  | nil => rfl
  | cons x xs ih =>
    simp only [sortByKey]
    rw [insertByKey_stable, List.filter_cons, List.filter_cons, ih]

theorem sortByKey_length (key : β → Nat) (l : List β) : (sortByKey key l).length = l.length :=
  (sortByKey_perm key l).length_eq

end IterUtils
