import WfModel.RunLimit
/-!
Helper lemmas about the waiter deque of the run-limit model: `wake`, the
in-flight count, pending / in-flight tests and the FIFO measure.
-/
namespace RunLimit

@[simp] theorem inflight_pending : Fut.pending.inflight = false := rfl
@[simp] theorem inflight_woken : Fut.woken.inflight = true := rfl
@[simp] theorem inflight_cancelled : Fut.cancelled.inflight = false := rfl
@[simp] theorem inflight_wokenCancel : Fut.wokenCancel.inflight = true := rfl
@[simp] theorem isCancelled_pending : Fut.pending.isCancelled = false := rfl
@[simp] theorem isCancelled_woken : Fut.woken.isCancelled = false := rfl
@[simp] theorem isCancelled_cancelled : Fut.cancelled.isCancelled = true := rfl
@[simp] theorem isCancelled_wokenCancel : Fut.wokenCancel.isCancelled = false := rfl

/-! ### association lists -/

theorem aget_append {α} (k : Nat) (l m : List (Nat × α)) :
    aget k (l ++ m) = match aget k l with | some v => some v | none => aget k m := by
  induction l with
  | nil => simp [aget]
  | cons p l ih =>
    obtain ⟨q, v⟩ := p
    by_cases h : q = k <;> simp [aget, h, ih]

theorem aget_aset {α} (j k : Nat) (v : α) (l : List (Nat × α)) :
    aget j (aset k v l) = if j = k then (aget k l).map (fun _ => v) else aget j l := by
  induction l with
  | nil => by_cases h : j = k <;> simp [aget, aset, h]
  | cons p l ih =>
    obtain ⟨q, u⟩ := p
    by_cases hq : q = k
    · by_cases hj : j = k
      · simp [aget, aset, hq, hj]
      · have : ¬ k = j := fun e => hj e.symm
        simp [aget, aset, hq, hj, this]
    · by_cases hj : j = k
      · subst hj; simp [aget, aset, hq, ih]
      · by_cases hqj : q = j <;> simp [aget, aset, hq, hj, hqj, ih]

theorem aget_some_mem_keys {α} (k : Nat) (l : List (Nat × α)) (v : α) (h : aget k l = some v) :
    k ∈ keys l := by
  induction l with
  | nil => simp [aget] at h
  | cons p l ih =>
    obtain ⟨q, u⟩ := p
    by_cases hq : q = k
    · simp [keys, hq]
    · simp only [aget, hq, if_false] at h
      have := ih h
      simp only [keys] at this ⊢
      simp [this]

theorem aget_none_of_not_mem {α} (k : Nat) (l : List (Nat × α)) (h : k ∉ keys l) :
    aget k l = none := by
  induction l with
  | nil => simp [aget]
  | cons p l ih =>
    obtain ⟨q, u⟩ := p
    simp only [keys, List.map_cons, List.mem_cons, not_or] at h
    have hq : ¬ q = k := fun e => h.1 e.symm
    simp only [aget, hq, if_false]
    exact ih (by simpa [keys] using h.2)

theorem keys_aset {α} (k : Nat) (v : α) (l : List (Nat × α)) : keys (aset k v l) = keys l := by
  induction l with
  | nil => simp [aset]
  | cons p l ih =>
    obtain ⟨q, u⟩ := p
    by_cases hq : q = k
    · simp [aset, hq, keys]
    · simp only [keys] at ih
      simp [aset, hq, keys, ih]

theorem keys_adel {α} (k : Nat) (l : List (Nat × α)) : keys (adel k l) = (keys l).erase k := by
  induction l with
  | nil => simp [adel, keys]
  | cons p l ih =>
    obtain ⟨q, u⟩ := p
    by_cases hq : q = k
    · simp [adel, hq, keys]
    · simp only [keys] at ih
      simp [adel, hq, keys, ih, List.erase_cons_tail]

theorem keys_append {α} (l m : List (Nat × α)) : keys (l ++ m) = keys l ++ keys m := by
  simp [keys]

/-! ### `wake` -/

theorem wake_none_iff (ws : Waiters) : wake ws = none ↔ hasPending ws = false := by
  induction ws with
  | nil => simp [wake, hasPending]
  | cons p ws ih =>
    obtain ⟨q, f⟩ := p
    by_cases hf : f = .pending
    · simp [wake, hasPending, hf]
    · simp only [wake, hf, if_false]
      cases hw : wake ws with
      | none =>
        have := ih.mp hw
        simp only [hasPending] at this ⊢
        simp [this, hf]
      | some r =>
        have : ¬ hasPending ws = false := fun e => by rw [ih.mpr e] at hw; cases hw
        simp only [hasPending] at this ⊢
        simp [hf]
        simpa using this

theorem wake_some_of_pending (ws : Waiters) (h : hasPending ws = true) :
    ∃ ws' q, wake ws = some (ws', q) := by
  cases hw : wake ws with
  | none => rw [(wake_none_iff ws).mp hw] at h; cases h
  | some p => exact ⟨p.1, p.2, rfl⟩

theorem wake_inflight (ws ws' : Waiters) (q : Nat) (h : wake ws = some (ws', q)) :
    nInflight ws' = nInflight ws + 1 ∧ hasInflight ws' = true := by
  induction ws generalizing ws' with
  | nil => simp [wake] at h
  | cons p ws ih =>
    obtain ⟨r, f⟩ := p
    by_cases hf : f = .pending
    · simp only [wake, hf, if_true, Option.some.injEq, Prod.mk.injEq] at h
      obtain ⟨rfl, _⟩ := h
      subst hf
      simp [nInflight, hasInflight]
      omega
    · simp only [wake, hf, if_false] at h
      cases hw : wake ws with
      | none => rw [hw] at h; cases h
      | some p =>
        obtain ⟨ws1, q1⟩ := p
        rw [hw] at h
        simp only [Option.some.injEq, Prod.mk.injEq] at h
        obtain ⟨rfl, rfl⟩ := h
        have := ih ws1 hw
        simp only [hasInflight] at this
        simp only [nInflight, hasInflight, List.any_cons, this.1, this.2, Bool.or_true, and_true]
        omega

/-- `wake` turns the first pending entry into a woken one and touches nothing else. -/
theorem wake_spec (ws ws' : Waiters) (q : Nat) (h : wake ws = some (ws', q)) :
    ∃ pre post, ws = pre ++ (q, .pending) :: post ∧ ws' = pre ++ (q, .woken) :: post ∧
      hasPending pre = false := by
  induction ws generalizing ws' with
  | nil => simp [wake] at h
  | cons p ws ih =>
    obtain ⟨r, f⟩ := p
    by_cases hf : f = .pending
    · simp only [wake, hf, if_true, Option.some.injEq, Prod.mk.injEq] at h
      obtain ⟨rfl, rfl⟩ := h
      subst hf
      exact ⟨[], ws, by simp, by simp, by simp [hasPending]⟩
    · simp only [wake, hf, if_false] at h
      cases hw : wake ws with
      | none => rw [hw] at h; cases h
      | some p =>
        obtain ⟨ws1, q1⟩ := p
        rw [hw] at h
        simp only [Option.some.injEq, Prod.mk.injEq] at h
        obtain ⟨rfl, rfl⟩ := h
        obtain ⟨pre, post, e1, e2, e3⟩ := ih ws1 hw
        refine ⟨(r, f) :: pre, post, by simp [e1], by simp [e2], ?_⟩
        simp only [hasPending] at e3 ⊢
        simp [e3, hf]

/-! ### counting in-flight permits -/

theorem nInflight_append (a b : Waiters) : nInflight (a ++ b) = nInflight a + nInflight b := by
  induction a with
  | nil => simp [nInflight]
  | cons p a ih =>
    obtain ⟨r, f⟩ := p
    simp only [List.cons_append, nInflight, ih]
    omega

theorem nInflight_aset (r : Nat) (f g : Fut) (ws : Waiters) (h : aget r ws = some f)
    (hfg : f.inflight = g.inflight) : nInflight (aset r g ws) = nInflight ws := by
  induction ws with
  | nil => simp [aget] at h
  | cons p ws ih =>
    obtain ⟨q, e⟩ := p
    by_cases hq : q = r
    · simp only [aget, hq, if_true, Option.some.injEq] at h
      subst h
      simp [aset, hq, nInflight, hfg]
    · simp only [aget, hq, if_false] at h
      simp [aset, hq, nInflight, ih h]

theorem nInflight_adel (r : Nat) (f : Fut) (ws : Waiters) (h : aget r ws = some f) :
    nInflight (adel r ws) + (if f.inflight then 1 else 0) = nInflight ws := by
  induction ws with
  | nil => simp [aget] at h
  | cons p ws ih =>
    obtain ⟨q, e⟩ := p
    by_cases hq : q = r
    · simp only [aget, hq, if_true, Option.some.injEq] at h
      subst h
      simp only [adel, hq, if_true, nInflight]
      omega
    · simp only [aget, hq, if_false] at h
      have := ih h
      simp only [adel, hq, if_false, nInflight]
      omega

/-! ### pending / in-flight tests under the deque operations -/

theorem hasPending_append (a b : Waiters) : hasPending (a ++ b) = (hasPending a || hasPending b) := by
  simp [hasPending]

theorem hasInflight_append (a b : Waiters) : hasInflight (a ++ b) = (hasInflight a || hasInflight b) := by
  simp [hasInflight]

theorem hasInflight_of_aget (r : Nat) (f : Fut) (ws : Waiters) (h : aget r ws = some f)
    (hf : f.inflight = true) : hasInflight ws = true := by
  induction ws with
  | nil => simp [aget] at h
  | cons p ws ih =>
    obtain ⟨q, e⟩ := p
    by_cases hq : q = r
    · simp only [aget, hq, if_true, Option.some.injEq] at h
      subst h
      simp [hasInflight, hf]
    · simp only [aget, hq, if_false] at h
      have := ih h
      simp only [hasInflight] at this ⊢
      simp [this]

theorem hasPending_of_aget (r : Nat) (ws : Waiters) (h : aget r ws = some .pending) :
    hasPending ws = true := by
  induction ws with
  | nil => simp [aget] at h
  | cons p ws ih =>
    obtain ⟨q, e⟩ := p
    by_cases hq : q = r
    · simp only [aget, hq, if_true, Option.some.injEq] at h
      subst h
      simp [hasPending]
    · simp only [aget, hq, if_false] at h
      have := ih h
      simp only [hasPending] at this ⊢
      simp [this]

/-- removing a waiter that is not pending keeps the pending test -/
theorem hasPending_adel (r : Nat) (f : Fut) (ws : Waiters) (h : aget r ws = some f)
    (hf : f ≠ .pending) : hasPending (adel r ws) = hasPending ws := by
  induction ws with
  | nil => simp [aget] at h
  | cons p ws ih =>
    obtain ⟨q, e⟩ := p
    by_cases hq : q = r
    · simp only [aget, hq, if_true, Option.some.injEq] at h
      subst h
      simp [adel, hq, hasPending, hf]
    · simp only [aget, hq, if_false] at h
      have := ih h
      simp only [hasPending] at this ⊢
      simp [adel, hq, this]

/-- removing a waiter that carries no permit keeps the in-flight test -/
theorem hasInflight_adel (r : Nat) (f : Fut) (ws : Waiters) (h : aget r ws = some f)
    (hf : f.inflight = false) : hasInflight (adel r ws) = hasInflight ws := by
  induction ws with
  | nil => simp [aget] at h
  | cons p ws ih =>
    obtain ⟨q, e⟩ := p
    by_cases hq : q = r
    · simp only [aget, hq, if_true, Option.some.injEq] at h
      subst h
      simp [adel, hq, hasInflight, hf]
    · simp only [aget, hq, if_false] at h
      have := ih h
      simp only [hasInflight] at this ⊢
      simp [adel, hq, this]

theorem hasInflight_aset (r : Nat) (f g : Fut) (ws : Waiters) (h : aget r ws = some f)
    (hfg : f.inflight = g.inflight) : hasInflight (aset r g ws) = hasInflight ws := by
  induction ws with
  | nil => simp [aget] at h
  | cons p ws ih =>
    obtain ⟨q, e⟩ := p
    by_cases hq : q = r
    · simp only [aget, hq, if_true, Option.some.injEq] at h
      subst h
      simp [aset, hq, hasInflight, hfg]
    · simp only [aget, hq, if_false] at h
      have := ih h
      simp only [hasInflight] at this ⊢
      simp [aset, hq, this]

/-- cancelling a pending waiter can only remove pending entries -/
theorem hasPending_aset_cancelled (r : Nat) (ws : Waiters)
    (h : hasPending (aset r .cancelled ws) = true) : hasPending ws = true := by
  induction ws with
  | nil => simp [aset, hasPending] at h
  | cons p ws ih =>
    obtain ⟨q, e⟩ := p
    by_cases hq : q = r
    · simp only [aset, hq, if_true, hasPending, List.any_cons] at h ⊢
      simp at h
      simp [h]
    · simp only [aset, hq, if_false, hasPending, List.any_cons, Bool.or_eq_true] at h ⊢
      rcases h with h | h
      · exact Or.inl h
      · exact Or.inr (by simpa [hasPending] using ih (by simpa [hasPending] using h))

theorem hasPending_aset_wokenCancel (r : Nat) (ws : Waiters) (h : aget r ws = some .woken) :
    hasPending (aset r .wokenCancel ws) = hasPending ws := by
  induction ws with
  | nil => simp [aget] at h
  | cons p ws ih =>
    obtain ⟨q, e⟩ := p
    by_cases hq : q = r
    · simp only [aget, hq, if_true, Option.some.injEq] at h
      subst h
      simp [aset, hq, hasPending]
    · simp only [aget, hq, if_false] at h
      have := ih h
      simp only [hasPending] at this ⊢
      simp [aset, hq, this]

theorem nInflight_zero_of_not_hasInflight (ws : Waiters) (h : hasInflight ws = false) :
    nInflight ws = 0 := by
  induction ws with
  | nil => rfl
  | cons p ws ih =>
    obtain ⟨q, f⟩ := p
    simp only [hasInflight, List.any_cons, Bool.or_eq_false_iff] at h
    simp only [nInflight, h.1, Bool.false_eq_true, if_false, Nat.zero_add]
    exact ih (by simpa [hasInflight] using h.2)

/-- a queue whose every entry is cancelled has neither pending nor in-flight waiters -/
theorem not_locked_waiters (ws : Waiters) (h : ws.any (fun w => !w.2.isCancelled) = false) :
    hasPending ws = false ∧ nInflight ws = 0 ∧ hasInflight ws = false := by
  induction ws with
  | nil => simp [hasPending, nInflight, hasInflight]
  | cons p ws ih =>
    obtain ⟨q, f⟩ := p
    simp only [List.any_cons, Bool.or_eq_false_iff, Bool.not_eq_false'] at h
    obtain ⟨hf, hrest⟩ := h
    obtain ⟨i1, i2, i3⟩ := ih hrest
    cases f <;> simp at hf
    simp only [hasPending, hasInflight] at i1 i3 ⊢
    simp [nInflight, i1, i2, i3]

/-- some entry is not cancelled: it is pending or carries a permit -/
theorem locked_waiters (ws : Waiters) (h : ws.any (fun w => !w.2.isCancelled) = true) :
    hasPending ws = true ∨ hasInflight ws = true := by
  induction ws with
  | nil => simp at h
  | cons p ws ih =>
    obtain ⟨q, f⟩ := p
    simp only [List.any_cons, Bool.or_eq_true, Bool.not_eq_true'] at h
    simp only [hasPending, hasInflight, List.any_cons, Bool.or_eq_true]
    rcases h with h | h
    · cases f <;> simp at h ⊢
    · rcases ih h with i | i
      · exact Or.inl (Or.inr (by simpa [hasPending] using i))
      · exact Or.inr (Or.inr (by simpa [hasInflight] using i))

end RunLimit
