import WfModel.Engine
import WfModel.Runner
import WfModel.GenEngineShape
/-!
# The reducer's dispatch shape, as found in the source

The hand-written model has one constructor per tick class, per command class and per step-result
class of `workflows/runtime/types/{ticks,commands,results}.py`, and `reduce` / `execCmd` have one
arm per constructor.  The lists below are re-extracted from the sources on every run
(`harness/gen/engine_shape.py`); the theorem fails to check when a tick, command or result kind is
added, removed, renamed, or dispatched to a different reducer function.  What each branch *does*
is tied by the correspondence runs, not here.
-/
open Engine

/-- the Python class a model tick stands for -/
def Engine.Tick.className : Tick → String
  | .stepResult .. => "TickStepResult"
  | .addEvent .. => "TickAddEvent"
  | .cancelRun => "TickCancelRun"
  | .idleRelease => "TickIdleRelease"
  | .publish _ => "TickPublishEvent"
  | .timeout _ => "TickTimeout"
  | .waiterTimeout .. => "TickWaiterTimeout"
  | .idleCheck => "TickIdleCheck"

/-- the reducer function a model tick is handled by (`<inline>`: handled inside `_reduce_tick`) -/
def Engine.Tick.reducerName : Tick → String
  | .stepResult .. => "_process_step_result_tick"
  | .addEvent .. => "_process_add_event_tick"
  | .cancelRun => "_process_cancel_run_tick"
  | .idleRelease => "<inline>"
  | .publish _ => "_process_publish_event_tick"
  | .timeout _ => "_process_timeout_tick"
  | .waiterTimeout .. => "_process_waiter_timeout_tick"
  | .idleCheck => "<inline>"

/-- the Python class a model command stands for; `crash` is the model's name for an exception
escaping the reducer and has no command class -/
def Engine.Cmd.className : Cmd → Option String
  | .runWorker .. => some "CommandRunWorker"
  | .queueEvent .. => some "CommandQueueEvent"
  | .halt _ => some "CommandHalt"
  | .completeRun _ => some "CommandCompleteRun"
  | .failWorkflow .. => some "CommandFailWorkflow"
  | .publish _ => some "CommandPublishEvent"
  | .scheduleIdleCheck => some "CommandScheduleIdleCheck"
  | .scheduleWaiterTimeout .. => some "CommandScheduleWaiterTimeout"
  | .crash => none

def Engine.Res.className : Res → String
  | .result _ => "StepWorkerResult"
  | .failed .. => "StepWorkerFailed"
  | .addCollected .. => "AddCollectedEvent"
  | .deleteCollected _ => "DeleteCollectedEvent"
  | .addWaiter .. => "AddWaiter"
  | .deleteWaiter _ => "DeleteWaiter"

/-- every model tick stands for a tick class of the source and is dispatched to the reducer
function the source dispatches that class to; the source has no further tick class -/
theorem C02_engine_source_shape :
    (∀ t : Tick, (t.className, t.reducerName) ∈ GenEngineShape.tickDispatch) ∧
    GenEngineShape.tickDispatch.length = 8 ∧
    (GenEngineShape.tickDispatch.map (·.1)).Nodup ∧
    (∀ c ∈ GenEngineShape.tickClasses, c ∈ GenEngineShape.tickDispatch.map (·.1)) ∧
    GenEngineShape.tickClasses.length = 8 ∧
    (∀ c : Cmd, ∀ n, c.className = some n → n ∈ GenEngineShape.commandDispatch ∧ n ∈ GenEngineShape.commandClasses) ∧
    GenEngineShape.commandDispatch.length = 8 ∧ GenEngineShape.commandDispatch.Nodup ∧
    GenEngineShape.commandClasses.length = 8 ∧
    (∀ r : Res, r.className ∈ GenEngineShape.resultClasses) ∧
    GenEngineShape.resultClasses.length = 6 ∧ GenEngineShape.resultClasses.Nodup ∧
    GenEngineShape.idleCheckScheduledAfterDispatch = true ∧ GenEngineShape.unknownTickRaises = true := by
  refine ⟨?_, by decide, by decide, by decide, by decide, ?_, by decide, by decide, by decide, ?_, by decide, by decide, rfl, rfl⟩
  · intro t; cases t <;> simp only [Engine.Tick.className, Engine.Tick.reducerName] <;> decide
  · intro c n h; cases c <;> simp [Engine.Cmd.className] at h <;> subst h <;> decide
  · intro r; cases r <;> simp only [Engine.Res.className] <;> decide

/-- non-vacuity: the idle-release tick is reduced inline to `completeRun`, as the source does -/
example : (Tick.idleRelease).reducerName = "<inline>" ∧ (Tick.idleRelease).className = "TickIdleRelease" := ⟨rfl, rfl⟩
