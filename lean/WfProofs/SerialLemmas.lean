import WfModel.Serial
import WfModel.Runner
/-! Lemmas about the serialised form (`to_serialized` / `from_serialized`). -/
set_option linter.unusedVariables false
namespace Engine

theorem orNat_orNat (x : Option Nat) : orNat (some (orNat x 0)) 0 = orNat x 0 := by
  cases x with
  | none => simp [orNat]
  | some v => by_cases h : v = 0 <;> simp [orNat, h]

theorem serAttempt_idem (a : Attempt) : serAttempt (serAttempt a) = serAttempt a := by
  simp [serAttempt, orNat_orNat]

theorem serWaiter_deserWaiter (w : SerWaiter) : serWaiter (deserWaiter w) = w := by
  cases w; simp [serWaiter, deserWaiter]

theorem hasStep_iff_mem (cfg : Cfg) (n : Nat) : cfg.hasStep n = true ↔ n ∈ cfg.names := by
  simp only [Cfg.hasStep, Cfg.find, Cfg.names, List.mem_map, Option.isSome_iff_exists]
  constructor
  · rintro ⟨c, hc⟩
    exact ⟨c, List.mem_of_find?_eq_some hc, by simpa using List.find?_some hc⟩
  · rintro ⟨c, hc, hn⟩
    cases hf : cfg.steps.find? (fun c => c.name == n) with
    | some d => exact ⟨d, rfl⟩
    | none =>
      have := List.find?_eq_none.mp hf c hc
      simp [hn] at this

theorem find_names_map {β} (names : List Nat) (f : Nat → β) (n : Nat) (h : n ∈ names) :
    (names.map (fun s => (s, f s))).find? (fun p => p.1 == n) = some (n, f n) := by
  induction names with
  | nil => simp at h
  | cons a as ih =>
    simp only [List.map_cons, List.find?_cons]
    by_cases ha : a = n
    · subst ha; simp
    · have : (a == n) = false := by simpa using ha
      simp only [this]
      rcases List.mem_cons.mp h with h | h
      · exact absurd h.symm ha
      · exact ih h

/-- the state after a round trip, step by step -/
theorem roundtrip_workers (cfg : Cfg) (st : State) (n : Nat) :
    (roundtrip cfg st).workers n = if cfg.hasStep n then deserStep (serStep (st.workers n)) else {} := by
  simp only [roundtrip, deser, ser]
  by_cases h : cfg.hasStep n = true
  · simp only [h, if_true]
    rw [find_names_map cfg.names _ n ((hasStep_iff_mem cfg n).mp h)]
  · simp [h]

theorem map_eq_self {α} (f : α → α) : ∀ (l : List α), (∀ a ∈ l, f a = a) → l.map f = l
  | [], _ => rfl
  | x :: xs, h => by
    simp only [List.map_cons]
    rw [h x (by simp), map_eq_self f xs (fun a ha => h a (by simp [ha]))]

theorem deser_ser_deserStep (s : SerStep) (hq : ∀ a ∈ s.queue, serAttempt a = a) :
    deserStep (serStep (deserStep s)) = deserStep s := by
  have h1 : (s.queue ++ s.inProg.map (fun e => ({ ev := e, attempts := some 0, firstAt := none } : Attempt))).map serAttempt
      = s.queue ++ s.inProg.map (fun e => ({ ev := e, attempts := some 0, firstAt := none } : Attempt)) := by
    apply map_eq_self
    intro a ha
    rcases List.mem_append.mp ha with ha | ha
    · exact hq a ha
    · obtain ⟨e, _, rfl⟩ := List.mem_map.mp ha
      simp [serAttempt, orNat]
  have h2 : ((s.waiters.map deserWaiter).map serWaiter).map deserWaiter = s.waiters.map deserWaiter := by
    simp only [List.map_map]
    apply List.map_congr_left
    intro w _
    simp [Function.comp, serWaiter_deserWaiter]
  simp only [deserStep, serStep, List.map_nil, List.append_nil, h1, h2]

end Engine
