import WfProofs.HandlerStoreRetention
/-! Whole-history lemmas for the handler-store model (C24): what the table of a reachable store is
in terms of the operations that led to it (every row is the latest write of its id and has been in
the table since; a write stays until the next write of its id or a delete that matches it), the
terminal-id queue of every reachable in-memory store, and "evicted = older than everything retained
at any later time". -/

namespace HandlerStore

theorem snoc_induction {α : Type} {P : List α → Prop} (h0 : P []) (hs : ∀ l a, P l → P (l ++ [a])) (l : List α) : P l := by
  have : ∀ r : List α, P r.reverse := by
    intro r
    induction r with
    | nil => exact h0
    | cons a r ih => rw [List.reverse_cons]; exact hs _ _ ih
  have h := this l.reverse
  rwa [List.reverse_reverse] at h

/-- the store before operation number `k` of the history `ops` (after all of it for `k ≥ length`) -/
def pre (b : Backend) (ops : List Op) (k : Nat) : Store := (Store.init b).run (ops.take k)

theorem pre_snoc_le (b : Backend) (ops : List Op) (op : Op) (k : Nat) (hk : k ≤ ops.length) :
    pre b (ops ++ [op]) k = pre b ops k := by
  unfold pre; rw [List.take_append_of_le_length hk]

theorem pre_length (b : Backend) (ops : List Op) : pre b ops ops.length = (Store.init b).run ops := by
  unfold pre; rw [List.take_length]

theorem pre_snoc_last (b : Backend) (ops : List Op) (op : Op) :
    pre b (ops ++ [op]) (ops.length + 1) = ((pre b ops ops.length).step op).1 := by
  unfold pre
  have : ops.length + 1 = (ops ++ [op]).length := by simp
  rw [this, List.take_length, List.take_length, run_snoc]

theorem Wf_pre (b : Backend) (ops : List Op) (k : Nat) : Wf (pre b ops k) := Wf_run _ _ (Wf_init b)

theorem pre_backend (b : Backend) (ops : List Op) (k : Nat) : (pre b ops k).backend = b := run_backend _ _

theorem getElem?_snoc_lt (ops : List Op) (op : Op) (j : Nat) (hj : j < ops.length) : (ops ++ [op])[j]? = ops[j]? :=
  List.getElem?_append_left hj

theorem getElem?_snoc_len (ops : List Op) (op : Op) : (ops ++ [op])[ops.length]? = some op := by simp

/-! ### one operation -/

theorem update_rows_subset (s : Store) (h : Handler) (hw : Wf s) : ∀ r ∈ (s.update h).rows, r ∈ upsert s.rows h := by
  intro r hr
  cases hb : s.backend with
  | sql => rw [(update_sql s h hb).1] at hr; exact hr
  | mem mx =>
    cases ht : h.terminal with
    | false => rw [(update_mem_nonterminal s h mx hb ht).1] at hr; exact hr
    | true =>
      cases mx with
      | none => rw [(update_mem_none s h hb ht).1] at hr; exact hr
      | some m =>
        rw [(update_mem_some s h m hw hb ht).1] at hr
        exact ((mem_dropOldest _ _ _ _).mp hr).1

/-- which rows a write can never remove: any row of the SQLite and of the unbounded store, a
non-terminal row of a bounded one -/
def Kept (b : Backend) (r : Handler) : Prop := b = .sql ∨ b = .mem none ∨ r.terminal = false

theorem update_keeps (s : Store) (h : Handler) (hw : Wf s) (r : Handler) (hr : r ∈ upsert s.rows h)
    (hk : Kept s.backend r) : r ∈ (s.update h).rows := by
  cases hb : s.backend with
  | sql => rw [(update_sql s h hb).1]; exact hr
  | mem mx =>
    cases ht : h.terminal with
    | false => rw [(update_mem_nonterminal s h mx hb ht).1]; exact hr
    | true =>
      cases mx with
      | none => rw [(update_mem_none s h hb ht).1]; exact hr
      | some m =>
        rw [(update_mem_some s h m hw hb ht).1]
        have hrt : r.terminal = false := by
          rcases hk with h1 | h1 | h1
          · rw [hb] at h1; cases h1
          · rw [hb] at h1; cases h1
          · exact h1
        have hq := QInv_enqueue (hw.mem _ hb) h ht
        exact (mem_dropOldest _ _ _ _).mpr ⟨hr, fun hm => hq.not_mem_of_nonterminal hr hrt (List.mem_of_mem_take hm)⟩

theorem delete_rows_sublist (s : Store) (q : Query) : (s.delete q).1.rows.Sublist s.rows := by
  unfold Store.delete
  cases s.backend with
  | mem mx => exact List.filter_sublist
  | sql =>
    simp only
    split
    · exact List.Sublist.refl _
    · split
      · exact List.Sublist.refl _
      · exact List.filter_sublist

theorem delete_keeps (s : Store) (q : Query) (r : Handler) (hr : r ∈ s.rows) (hn : matchesB r q = false) :
    r ∈ (s.delete q).1.rows := by
  unfold Store.delete
  cases s.backend with
  | mem mx =>
    simp only
    rw [List.mem_filter, memMatches_eq, hn]; exact ⟨hr, rfl⟩
  | sql =>
    simp only
    cases hs : sqlFilters q with
    | none => exact hr
    | some cs =>
      simp only
      split
      · exact hr
      · simp only
        rw [List.mem_filter, sqlMatches_of_filters r q cs hs, sqlMatches_eq, hn]; exact ⟨hr, rfl⟩

/-- a delete with at least one filter removes the rows it matches (both stores) -/
theorem delete_removes (s : Store) (q : Query) (hf : q.hasFilter = true) (r : Handler) (hr : r ∈ (s.delete q).1.rows) :
    matchesB r q = false := by
  rw [(delete_eq s q hf).1, List.mem_filter] at hr
  simpa using hr.2

/-- where a row of the table after one operation comes from -/
theorem step_rows_origin (s : Store) (op : Op) (hw : Wf s) (r : Handler) (hr : r ∈ (s.step op).1.rows) :
    s.written op = some r ∨ (r ∈ s.rows ∧ ∀ h, s.written op = some h → h.handlerId ≠ r.handlerId) := by
  cases hwr : s.written op with
  | some h =>
    rw [step_written_some s op h hwr] at hr
    rcases (mem_upsert _ _ _).mp (update_rows_subset s h hw r hr) with rfl | ⟨h1, h2⟩
    · exact Or.inl rfl
    · right
      refine ⟨h1, ?_⟩
      intro h' hh'
      cases hh'
      exact fun heq => h2 heq.symm
  | none =>
    right
    refine ⟨?_, fun h hh => by cases hh⟩
    rcases step_written_none s op hwr with h1 | ⟨q, _, h1⟩
    · rw [h1] at hr; exact hr
    · rw [h1] at hr; exact (delete_rows_sublist s q).subset hr

/-- a row stays through an operation that neither writes its id nor is a delete matching it -/
theorem step_keeps (s : Store) (op : Op) (hw : Wf s) (r : Handler) (hr : r ∈ s.rows) (hk : Kept s.backend r)
    (hnw : ∀ h, s.written op = some h → h.handlerId ≠ r.handlerId)
    (hnd : ∀ q, op = .delete q → ¬ Matches r q) : r ∈ (s.step op).1.rows := by
  cases hwr : s.written op with
  | some h =>
    rw [step_written_some s op h hwr]
    exact update_keeps s h hw r ((mem_upsert _ _ _).mpr (Or.inr ⟨hr, fun heq => hnw h hwr heq.symm⟩)) hk
  | none =>
    rcases step_written_none s op hwr with h1 | ⟨q, hq, h1⟩
    · rw [h1]; exact hr
    · rw [h1]
      apply delete_keeps s q r hr
      cases hm : matchesB r q with
      | false => rfl
      | true => exact absurd ((matchesB_iff r q).mp hm) (hnd q hq)

/-- the written handler is in the table right after its write when nothing can evict it -/
theorem step_writes (s : Store) (op : Op) (hw : Wf s) (r : Handler) (hwr : s.written op = some r) (hk : Kept s.backend r) :
    r ∈ (s.step op).1.rows := by
  rw [step_written_some s op r hwr]
  exact update_keeps s r hw r ((mem_upsert _ _ _).mpr (Or.inl rfl)) hk

/-! ### every row is the latest write of its id -/

/-- `r` was written by operation `i` of `ops`, has been in the table after every later operation,
and no later operation wrote its id -/
def LastWrite (b : Backend) (ops : List Op) (r : Handler) : Prop :=
  ∃ i op, ops[i]? = some op ∧ (pre b ops i).written op = some r ∧
    (∀ k, i < k → k ≤ ops.length → r ∈ (pre b ops k).rows) ∧
    ∀ j op', i < j → ops[j]? = some op' → ∀ h, (pre b ops j).written op' = some h → h.handlerId ≠ r.handlerId

theorem LastWrite_snoc_new (b : Backend) (ops : List Op) (op : Op) (r : Handler)
    (hwr : ((Store.init b).run ops).written op = some r) (hin : r ∈ ((Store.init b).run (ops ++ [op])).rows) :
    LastWrite b (ops ++ [op]) r := by
  refine ⟨ops.length, op, getElem?_snoc_len ops op, ?_, ?_, ?_⟩
  · rw [pre_snoc_le b ops op _ (Nat.le_refl _), pre_length]; exact hwr
  · intro k hk1 hk2
    simp only [List.length_append, List.length_singleton] at hk2
    have : k = (ops ++ [op]).length := by simp; omega
    rw [this, pre_length]; exact hin
  · intro j op' hj hget
    have : j < (ops ++ [op]).length := (List.getElem?_eq_some_iff.mp hget).1
    simp only [List.length_append, List.length_singleton] at this
    omega

theorem LastWrite_snoc_old (b : Backend) (ops : List Op) (op : Op) (r : Handler) (hl : LastWrite b ops r)
    (hin : r ∈ ((Store.init b).run (ops ++ [op])).rows)
    (hnw : ∀ h, ((Store.init b).run ops).written op = some h → h.handlerId ≠ r.handlerId) :
    LastWrite b (ops ++ [op]) r := by
  obtain ⟨i, op0, hget, hwr, hstay, hno⟩ := hl
  have hi : i < ops.length := (List.getElem?_eq_some_iff.mp hget).1
  refine ⟨i, op0, ?_, ?_, ?_, ?_⟩
  · rw [getElem?_snoc_lt ops op i hi]; exact hget
  · rw [pre_snoc_le b ops op i (Nat.le_of_lt hi)]; exact hwr
  · intro k hk1 hk2
    simp only [List.length_append, List.length_singleton] at hk2
    by_cases hk : k ≤ ops.length
    · rw [pre_snoc_le b ops op k hk]; exact hstay k hk1 hk
    · have : k = (ops ++ [op]).length := by simp; omega
      rw [this, pre_length]; exact hin
  · intro j op' hj hget'
    have hjl : j < (ops ++ [op]).length := (List.getElem?_eq_some_iff.mp hget').1
    simp only [List.length_append, List.length_singleton] at hjl
    by_cases hjo : j < ops.length
    · rw [getElem?_snoc_lt ops op j hjo] at hget'
      rw [pre_snoc_le b ops op j (Nat.le_of_lt hjo)]
      exact hno j op' hj hget'
    · have hje : j = ops.length := by omega
      subst hje
      rw [getElem?_snoc_len] at hget'
      cases hget'
      rw [pre_snoc_le b ops op _ (Nat.le_refl _), pre_length]
      exact hnw

theorem rows_lastWrite (b : Backend) (ops : List Op) : ∀ r ∈ ((Store.init b).run ops).rows, LastWrite b ops r := by
  induction ops using snoc_induction with
  | h0 => intro r hr; simp [Store.run, Store.init] at hr
  | hs ops op ih =>
    intro r hr
    have hw : Wf ((Store.init b).run ops) := Wf_run _ _ (Wf_init b)
    have hr' := hr
    rw [run_snoc] at hr'
    rcases step_rows_origin _ op hw r hr' with h1 | ⟨h1, h2⟩
    · exact LastWrite_snoc_new b ops op r h1 hr
    · exact LastWrite_snoc_old b ops op r (ih r h1) hr h2

/-! ### a write stays until the next write of its id or a delete that matches it -/

/-- no operation after number `i` writes the id of `r` or is a delete whose filters `r` passes -/
def Undisturbed (b : Backend) (ops : List Op) (i : Nat) (r : Handler) : Prop :=
  ∀ j op', i < j → ops[j]? = some op' →
    (∀ h, (pre b ops j).written op' = some h → h.handlerId ≠ r.handlerId) ∧ (∀ q, op' = .delete q → ¬ Matches r q)

theorem Undisturbed_of_snoc (b : Backend) (ops : List Op) (op : Op) (i : Nat) (r : Handler)
    (hu : Undisturbed b (ops ++ [op]) i r) : Undisturbed b ops i r := by
  intro j op' hj hget
  have hjl : j < ops.length := (List.getElem?_eq_some_iff.mp hget).1
  have := hu j op' hj (by rw [getElem?_snoc_lt ops op j hjl]; exact hget)
  rw [pre_snoc_le b ops op j (Nat.le_of_lt hjl)] at this
  exact this

theorem write_persists (b : Backend) (ops : List Op) : ∀ (i : Nat) (op : Op) (r : Handler), ops[i]? = some op →
    (pre b ops i).written op = some r → Kept b r → Undisturbed b ops i r → r ∈ ((Store.init b).run ops).rows := by
  induction ops using snoc_induction with
  | h0 => intro i op r hget; simp at hget
  | hs ops op1 ih =>
    intro i op r hget hwr hk hu
    have hw : Wf ((Store.init b).run ops) := Wf_run _ _ (Wf_init b)
    have hb : ((Store.init b).run ops).backend = b := run_backend _ _
    have hil : i < (ops ++ [op1]).length := (List.getElem?_eq_some_iff.mp hget).1
    simp only [List.length_append, List.length_singleton] at hil
    rw [run_snoc]
    by_cases hi : i < ops.length
    · rw [getElem?_snoc_lt ops op1 i hi] at hget
      rw [pre_snoc_le b ops op1 i (Nat.le_of_lt hi)] at hwr
      have hr := ih i op r hget hwr hk (Undisturbed_of_snoc b ops op1 i r hu)
      have h2 := hu ops.length op1 hi (getElem?_snoc_len ops op1)
      rw [pre_snoc_le b ops op1 _ (Nat.le_refl _), pre_length] at h2
      exact step_keeps _ op1 hw r hr (by rw [hb]; exact hk) h2.1 h2.2
    · have hie : i = ops.length := by omega
      subst hie
      rw [getElem?_snoc_len] at hget
      have hop : op1 = op := Option.some.inj hget
      subst hop
      rw [pre_snoc_le b ops op1 _ (Nat.le_refl _), pre_length] at hwr
      exact step_writes _ op1 hw r hwr (by rw [hb]; exact hk)

/-- a row that has been in the table since operation `i` was not matched by a later delete that has
a filter -/
theorem LastWrite_undisturbed (b : Backend) (ops : List Op) (hf : ∀ q, Op.delete q ∈ ops → q.hasFilter = true) (r : Handler)
    (i : Nat)
    (hstay : ∀ k, i < k → k ≤ ops.length → r ∈ (pre b ops k).rows)
    (hno : ∀ j op', i < j → ops[j]? = some op' → ∀ h, (pre b ops j).written op' = some h → h.handlerId ≠ r.handlerId) :
    Undisturbed b ops i r := by
  intro j op' hj hget
  refine ⟨hno j op' hj hget, ?_⟩
  intro q hq hm
  subst hq
  have hjl : j < ops.length := (List.getElem?_eq_some_iff.mp hget).1
  have hin : r ∈ (pre b ops (j + 1)).rows := hstay (j + 1) (by omega) (by omega)
  have hstep : pre b ops (j + 1) = ((pre b ops j).step (.delete q)).1 := by
    unfold pre
    rw [List.take_add_one, hget]
    simp only [Option.toList_some]
    rw [run_snoc]
  rw [hstep] at hin
  have hqf : q.hasFilter = true := hf q (List.mem_of_getElem? hget)
  have := delete_removes (pre b ops j) q hqf r hin
  rw [(matchesB_iff r q).mpr hm] at this
  cases this

/-! ### the terminal-id queue of a reachable in-memory store -/

theorem stamp_step_old (g : Ghost) (op : Op) (hg : GInv g) (mx : Option Nat) (hb : g.s.backend = .mem mx) (id : Nat)
    (hold : id ∈ g.s.queue) : (g.step op).stamp id = g.stamp id := by
  cases hwr : g.s.written op with
  | none => simp [Ghost.step, hwr]
  | some h =>
    cases hbt : becameTerminal g.s.rows h with
    | false => simp [Ghost.step, hwr, hbt]
    | true =>
      have : h.handlerId ∉ g.s.queue := ((becameTerminal_iff (hg.wf.mem _ hb) h).mp hbt).2
      have hne : id ≠ h.handlerId := fun heq => this (heq ▸ hold)
      simp [Ghost.step, hwr, hbt, hne]

theorem stamp_step_new (g : Ghost) (op : Op) (hg : GInv g) (mx : Option Nat) (hb : g.s.backend = .mem mx) (h : Handler)
    (hwr : g.s.written op = some h) (ht : h.terminal = true) (hnew : h.handlerId ∉ g.s.queue) :
    (g.step op).stamp h.handlerId = g.hist.length := by
  have hbt : becameTerminal g.s.rows h = true := (becameTerminal_iff (hg.wf.mem _ hb) h).mpr ⟨ht, hnew⟩
  simp [Ghost.step, hwr, hbt]

/-- in a table with unique ids the lookup by id finds the row -/
theorem find_of_mem (rows : List Handler) (hn : (ids rows).Nodup) (r : Handler) (hr : r ∈ rows) :
    rows.find? (·.handlerId == r.handlerId) = some r := by
  cases hf : rows.find? (·.handlerId == r.handlerId) with
  | none =>
    have := List.find?_eq_none.mp hf r hr
    simp at this
  | some h =>
    have hh : h ∈ rows := List.mem_of_find?_eq_some hf
    have hhid : h.handlerId = r.handlerId := by
      have := List.find?_some hf; simpa using this
    rw [ids_unique rows hn h hh r hr hhid]

/-! ### evicted = older than everything retained later -/

/-- every terminal row of the table has a stamp above `w` -/
def AllNewer (g : Ghost) (w : Nat) : Prop := ∀ k ∈ g.s.rows, k.terminal = true → w < g.stamp k.handlerId

theorem AllNewer_step (g : Ghost) (op : Op) (hg : GInv g) (mx : Option Nat) (hb : g.s.backend = .mem mx) (w : Nat)
    (hw : w < g.hist.length) (ha : AllNewer g w) : AllNewer (g.step op) w := by
  intro k hk hkt
  have hwf' : Wf (g.step op).s := Wf_step g.s op hg.wf
  have hb' : (g.step op).s.backend = .mem mx := by
    have : (g.step op).s.backend = g.s.backend := step_backend g.s op
    rw [this]; exact hb
  have hq : k.handlerId ∈ (g.step op).s.queue := ((hwf'.mem _ hb').queue_iff _).mpr ⟨k, hk, rfl, hkt⟩
  rcases queue_origin g.s mx hg.wf hb op k.handlerId hq with hold | ⟨h, hwr, hid, ht, hnew⟩
  · rw [stamp_step_old g op hg mx hb _ hold]
    obtain ⟨k', hk', hid', hkt'⟩ := ((hg.wf.mem _ hb).queue_iff _).mp hold
    have := ha k' hk' hkt'
    rw [hid'] at this; exact this
  · have := stamp_step_new g op hg mx hb h hwr ht (hid ▸ hnew)
    rw [hid] at this
    rw [this]; exact hw

theorem Ghost.step_hist_length (g : Ghost) (op : Op) : (g.step op).hist.length = g.hist.length + 1 := by
  simp [Ghost.step]

theorem AllNewer_run (ops : List Op) : ∀ (g : Ghost), GInv g → ∀ (mx : Option Nat), g.s.backend = .mem mx → ∀ (w : Nat),
    w < g.hist.length → AllNewer g w → AllNewer (g.run ops) w := by
  induction ops with
  | nil => intro g _ _ _ _ _ ha; exact ha
  | cons op ops ih =>
    intro g hg mx hb w hw ha
    have hb' : (g.step op).s.backend = .mem mx := by
      have : (g.step op).s.backend = g.s.backend := step_backend g.s op
      rw [this]; exact hb
    exact ih (g.step op) (GInv_step g op hg) mx hb' w (by rw [Ghost.step_hist_length]; omega)
      (AllNewer_step g op hg mx hb w hw ha)

/-- the stamp of every terminal row of the upserted table is below the length of the history after
the write -/
theorem stamp_upsert_lt (g : Ghost) (op : Op) (hg : GInv g) (mx : Option Nat) (hb : g.s.backend = .mem mx) (h e : Handler)
    (hwr : g.s.written op = some h) (he : e ∈ upsert g.s.rows h) (het : e.terminal = true) :
    (g.step op).stamp e.handlerId < (g.step op).hist.length := by
  rw [Ghost.step_hist_length]
  by_cases heh : e.handlerId = h.handlerId
  · -- `e` is the written handler itself
    have : e = h := by
      rcases (mem_upsert _ _ _).mp he with h1 | ⟨_, h2⟩
      · exact h1
      · exact absurd heh h2
    subst this
    by_cases hin : e.handlerId ∈ g.s.queue
    · rw [stamp_step_old g op hg mx hb _ hin]
      exact Nat.lt_succ_of_lt ((hg.ord _ hb).2 _ hin)
    · rw [stamp_step_new g op hg mx hb e hwr het hin]; exact Nat.lt_succ_self _
  · have hr : e ∈ g.s.rows := by
      rcases (mem_upsert _ _ _).mp he with h1 | ⟨h1, _⟩
      · subst h1; exact absurd rfl heh
      · exact h1
    have hin : e.handlerId ∈ g.s.queue := ((hg.wf.mem _ hb).queue_iff _).mpr ⟨e, hr, rfl, het⟩
    rw [stamp_step_old g op hg mx hb _ hin]
    exact Nat.lt_succ_of_lt ((hg.ord _ hb).2 _ hin)

theorem Ghost.run_append (g : Ghost) (a b : List Op) : g.run (a ++ b) = (g.run a).run b := by
  simp [Ghost.run, List.foldl_append]

/-! ### a bounded store holds a part of what the unbounded store holds (histories without status updates) -/

def Op.isStatus : Op → Bool
  | .status _ => true
  | _ => false

structure Within (B U : Store) : Prop where
  sub : ∀ r ∈ B.rows, r ∈ U.rows
  live : ∀ r ∈ U.rows, r.terminal = false → r ∈ B.rows

theorem Within_step (B U : Store) (m : Nat) (hwB : Wf B) (_hwU : Wf U) (hbB : B.backend = .mem (some m)) (hbU : U.backend = .mem none)
    (hw : Within B U) (op : Op) (hop : op.isStatus = false) : Within (B.step op).1 (U.step op).1 := by
  cases op with
  | status u => simp [Op.isStatus] at hop
  | query q => exact hw
  | update h =>
    simp only [Store.step]
    constructor
    · intro r hr
      rw [update_rows_unbounded U h (Or.inr hbU)]
      rcases (mem_upsert _ _ _).mp (update_rows_subset B h hwB r hr) with h1 | ⟨h1, h2⟩
      · exact (mem_upsert _ _ _).mpr (Or.inl h1)
      · exact (mem_upsert _ _ _).mpr (Or.inr ⟨hw.sub r h1, h2⟩)
    · intro r hr hrt
      rw [update_rows_unbounded U h (Or.inr hbU)] at hr
      apply update_keeps B h hwB r _ (Or.inr (Or.inr hrt))
      rcases (mem_upsert _ _ _).mp hr with h1 | ⟨h1, h2⟩
      · exact (mem_upsert _ _ _).mpr (Or.inl h1)
      · exact (mem_upsert _ _ _).mpr (Or.inr ⟨hw.live r h1 hrt, h2⟩)
  | delete q =>
    simp only [Store.step]
    have hB : (B.delete q).1.rows = B.rows.filter (fun r => !memMatches r q) := by unfold Store.delete; rw [hbB]
    have hU : (U.delete q).1.rows = U.rows.filter (fun r => !memMatches r q) := by unfold Store.delete; rw [hbU]
    constructor
    · intro r hr
      rw [hB, List.mem_filter] at hr
      rw [hU, List.mem_filter]; exact ⟨hw.sub r hr.1, hr.2⟩
    · intro r hr hrt
      rw [hU, List.mem_filter] at hr
      rw [hB, List.mem_filter]; exact ⟨hw.live r hr.1 hrt, hr.2⟩

theorem Within_run (m : Nat) : ∀ (ops : List Op) (B U : Store), Wf B → Wf U → B.backend = .mem (some m) → U.backend = .mem none →
    Within B U → (∀ op ∈ ops, op.isStatus = false) → Within (B.run ops) (U.run ops) := by
  intro ops
  induction ops with
  | nil => intro B U _ _ _ _ hw _; exact hw
  | cons op ops ih =>
    intro B U hwB hwU hbB hbU hw hop
    exact ih (B.step op).1 (U.step op).1 (Wf_step B op hwB) (Wf_step U op hwU) (by rw [step_backend, hbB]) (by rw [step_backend, hbU])
      (Within_step B U m hwB hwU hbB hbU hw op (hop op (List.mem_cons_self ..))) (fun o ho => hop o (List.mem_cons_of_mem _ ho))

end HandlerStore
