import WfProofs.PolicyLemmas
import WfProofs.RunnerTerminal
import WfProofs.EngineRerun
import WfProofs.RunnerRetryDelay
import WfProofs.PolicyChainIndex
import WfModel.GenEngineShape
import WfModel.GenRetryDelayShape
/-!
# C06 — retry delays follow the wait strategy in documented order

* **Not before the delay** (proved, runner LTS): a retry granted with delay `d > 0` at time
  `t` is parked in the timer heap for time `t + d` and the `timer` action releases it into
  the tick buffer only when the clock has reached that time.
* **Documented order** (the property's second sentence: the first retry uses the first
  strategy of `wait_chain` / the initial delay of the exponential strategies, i.e. tenacity's
  indexing): **refuted**.  The control loop hands `failures = attempts + 1` to `next()`
  (`Gen.RP.loopFailures`), which hands it unchanged to the 0-based strategies
  (`Gen.RP.composedNext`, `Gen.RP.waitChainIndex`), so the k-th retry uses index `k`, not
  `k − 1`: the first strategy of a chain is never used, the first exponential delay is
  `multiplier·base`, the first incrementing delay `start + increment`.  Known finding
  C06/retry_delay_index_off_by_one; the package's own unit tests pin `next()`'s current
  behaviour, so this is recorded rather than repaired.
* **Retries are numbered by failures** (proved, reducer): a collect re-run (stale `collect_events`
  snapshot) is not a retry and does not restart the numbering — no step result touches the retry
  record of its invocation, the re-run keeps it, and the failure after it is failure `attempts + 1`.
-/
set_option linter.unusedVariables false
open Policy Gen.RP Engine

/-- a delayed retry goes to the timer heap, due at `now + d`, and not into the buffer -/
theorem C06_delayed_retry_parked (r : Runner) (att : Attempt) (step : Option Nat) (d : Nat) (hd : 0 < d) :
    (execCmd r (.queueEvent att step (some d))).heap =
        r.heap ++ [{ at_ := r.now + d, seq := r.seq, tick := .addEvent att step }] ∧
      (execCmd r (.queueEvent att step (some d))).buf = r.buf := by
  simp [execCmd, Runner.push, hd]

/-- **not before the delay**: whatever the `timer` action moves into the buffer was due -/
theorem C06_not_before_delay (cfg : Cfg) (pol : Engine.Policy) (r : Runner) (hlive : r.outcome = none)
    (hempty : r.buf = []) :
    (∀ t ∈ (r.step cfg pol .timer).buf, ∃ tm ∈ r.heap, tm.tick = t ∧ tm.at_ ≤ r.now) ∧
    (∀ tm ∈ r.heap, r.now < tm.at_ → tm ∈ (r.step cfg pol .timer).heap) := by
  unfold Runner.step
  simp only [hlive, Option.isSome_none, Bool.false_eq_true, ↓reduceIte, hempty, List.isEmpty_nil,
    Bool.not_true]
  constructor
  · intro t ht
    simp only [List.mem_map] at ht
    obtain ⟨tm, htm, rfl⟩ := ht
    have := List.mem_filter.mp (mem_sortTimers htm)
    exact ⟨tm, this.1, rfl, by simpa using this.2⟩
  · intro tm htm hlt
    simp only [List.mem_filter, htm, true_and, Bool.not_eq_true', decide_eq_false_iff_not, Int.not_le]
    exact hlt

/-- no other action moves heap entries into the buffer -/
theorem C06_only_timer_releases (cfg : Cfg) (pol : Engine.Policy) (r : Runner) (a : Act)
    (ha : a ≠ .drain ∧ a ≠ .timer) : (r.step cfg pol a).heap = r.heap := by
  unfold Runner.step
  split
  · rfl
  · cases a with
    | drain => exact absurd rfl ha.1
    | timer => exact absurd rfl ha.2
    | workerDone s w res => simp only; split; · rfl
                            split <;> rfl
    | pull => simp only; split; · rfl
              split <;> rfl
    | advance dt => rfl
    | external t => simp only; split <;> rfl
    | stepWrite p => rfl

/-! ## documented order: statement and refutation -/

/-- delay the engine uses before the `k`-th retry (`k ≥ 1`): it calls `next(elapsed, k, exc)` -/
def C06.engineDelay (p : Composed) (k : Nat) (el : Rat) (e : Nat) (u : Rat) : Option Rat := p.next el k e u

/-- tenacity's convention, which the module mirrors and the property demands: the `k`-th
retry waits what the strategy documents for index `k − 1` -/
def C06_delay_index_statement : Prop :=
  ∀ (ws : List Wait) (n : Nat) (k : Nat) (el : Rat) (e : Nat) (u : Rat), ws ≠ [] → 1 ≤ k → k < n →
    C06.engineDelay { retry := none, wait := waitChain ws, stop := stopAfterAttempt n } k el e u =
      some (waitChain ws (k - 1) u)

/-- F02 witness: `wait_chain(wait_fixed(3), wait_fixed(1), wait_fixed(2))`: the first retry
waits 1, not 3 -/
theorem C06_refuted_witness :
    C06.engineDelay { retry := none, wait := waitChain [waitFixed 3, waitFixed 1, waitFixed 2],
                      stop := stopAfterAttempt 5 } 1 0 0 0 = some 1 := by
  simp [C06.engineDelay, Composed.next, waitChain, waitFixed, stopAfterAttempt]
  grind

theorem C06_refuted : ¬ C06_delay_index_statement := by
  intro h
  have h1 := h [waitFixed 3, waitFixed 1, waitFixed 2] 5 1 0 0 0 (by simp) (by omega) (by omega)
  have h2 := C06_refuted_witness
  have h3 : waitChain [waitFixed 3, waitFixed 1, waitFixed 2] (1 - 1) 0 = 3 := by
    simp [waitChain, waitFixed]
  have hcast : ((5 : Nat) : Rat) = 5 := by rfl
  rw [hcast, h2, h3] at h1
  have : (1 : Rat) = 3 := Option.some.inj h1
  grind

/-- what *is* true of the code: the `k`-th retry waits the strategy's value at index `k` -/
theorem C06_delay_index_actual (w : Wait) (n k : Nat) (el : Rat) (e : Nat) (u : Rat) (hk : k < n) :
    C06.engineDelay { retry := none, wait := w, stop := stopAfterAttempt (n : Rat) } k el e u = some (w k u) := by
  have hcast : decide ((k : Rat) ≥ (n : Rat)) = false := by
    simp [Rat.natCast_le_natCast]; omega
  simp [C06.engineDelay, Composed.next, stopAfterAttempt, hcast]

/-! ## collect re-runs are not retries

A step that calls `ctx.collect_events` on a snapshot that went stale while it ran (another worker of the
step buffered an event meanwhile) is run again by the reducer: nothing failed, no policy is consulted, no
delay applies.  Retries stay numbered by the FAILURES of the invocation: the re-run carries the retry
record on, so the failure that follows it is failure `attempts + 1` and is parked for the delay the policy
grants for that number (`C06_delayed_retry_parked`). -/

/-- the source agrees in shape (re-read on every run, `harness/gen/engine_shape.py`): the reducer handles the six
result kinds the model's `applyRes` has arms for, and none of those branches re-admits the running
invocation (`_add_or_enqueue_event`, a fresh `EventAttempt`) or takes it out of `in_progress` itself —
the only ways its retry record could be rebuilt while it runs -/
theorem C06_source_shape :
    GenEngineShape.resultDispatch =
        ["StepWorkerResult", "StepWorkerFailed", "AddCollectedEvent", "DeleteCollectedEvent", "AddWaiter", "DeleteWaiter"] ∧
      GenEngineShape.resultBranchesReadmitting = [] := by decide

/-- no kind of step result (plain result, failure, collect add/delete, waiter add/delete), in any
combination, changes the retry record of the invocation that produced it -/
theorem C06_results_keep_retry_record (cfg : Cfg) (pol : Engine.Policy) (step : Nat) (tickEv : Ev) (dc : Bool)
    (res : List Res) (acc : ResAcc) :
    (res.foldl (applyRes cfg pol step tickEv dc) acc).exec.retryRec = acc.exec.retryRec :=
  foldl_applyRes_retryRec cfg pol step tickEv dc res acc

/-- **a collect re-run neither counts as a retry nor restarts the numbering**: whenever a result tick
leaves the invocation in progress, its slot holds the same event with the same attempts, first-attempt
time, last failure and recovery counts as before the tick — for every result list, state and clock -/
theorem C06_collect_rerun_keeps_retry_number (cfg : Cfg) (pol : Engine.Policy) (step worker : Nat)
    (tickEv : Ev) (res : List Res) (st : State) (now : Int) (exec : InProg)
    (hs : cfg.hasStep step = true)
    (hf : (st.workers step).inProg.find? (fun w => w.wid == worker) = some exec)
    (hrr : (res.foldl (applyRes cfg pol step tickEv (res.any isResult))
              { st := st, exec := exec }).stillInProgress = true) :
    ∃ x, ((processStepResult cfg pol step worker tickEv res st now).1.workers step).inProg.find?
            (fun w => w.wid == worker) = some x ∧ x.retryRec = exec.retryRec :=
  processStepResult_rerun_keeps_retryRec cfg pol step worker tickEv res st now exec hs hf hrr

/-- a stale `AddCollectedEvent` is what leaves it in progress, and it asks for no retry: one
`runWorker` on the same slot, no `queueEvent`, no policy call -/
theorem C06_stale_collect_reruns_in_place (cfg : Cfg) (pol : Engine.Policy) (step : Nat) (tickEv : Ev) (dc : Bool)
    (acc : ResAcc) (buf : Nat) (ev : Ev) (h0 : acc.stillInProgress = false)
    (hstale : (acc.exec.snapEvents.get buf).length <
      ((((acc.st.workers step).collected).touch buf).get buf).length) :
    (applyRes cfg pol step tickEv dc acc (.addCollected buf ev)).stillInProgress = true ∧
      (applyRes cfg pol step tickEv dc acc (.addCollected buf ev)).cmds =
        acc.cmds ++ [.runWorker step ev acc.exec.wid] := by
  simp [applyRes, h0, hstale]

/-- the failure after the re-run is failure `attempts + 1` of the record carried on: the policy is asked
with that number and the elapsed time since the FIRST attempt, and the retry it grants is queued with
that delay -/
theorem C06_failure_after_rerun_counts_on (cfg : Cfg) (pol : Engine.Policy) (step : Nat) (tickEv : Ev) (dc : Bool)
    (acc : ResAcc) (r : RetryRec) (hr : acc.exec.retryRec = r) (exc : Nat) (failedAt : Int)
    (c : StepCfg) (hc : cfg.find step = some c) (hretry : c.hasRetry = true) (d : Nat)
    (hp : pol step (failedAt - r.firstAt) (r.attempts + 1) exc = .retry d)
    -- (the failure of an execution that an earlier result of the same list already scheduled to run again is skipped)
    (hsip : acc.stillInProgress = false) :
    (applyRes cfg pol step tickEv dc acc (.failed exc failedAt)).cmds = acc.cmds ++
      [.queueEvent { ev := tickEv, attempts := some (r.attempts + 1), firstAt := some r.firstAt,
                     lastExc := some exc, lastFailedAt := some failedAt, rc := r.rc } (some step) (some d)] := by
  subst hr
  simp only [InProg.retryRec] at hp
  simp [applyRes, retryDecision, hc, hretry, hp, InProg.retryRec, hsip]

/-! Non-vacuity: step 3 (two workers, retry policy); worker 0 runs event uid 1 on its second retry
(`attempts = 2`) with an empty snapshot of buffer 0 while the live buffer already holds event uid 2. -/
def C06.cfg : Cfg := { steps := [{ name := 3, accepted := [5, 6], numWorkers := 2, hasRetry := true }] }
def C06.exec : InProg :=
  { ev := { ty := 5, kind := .plain, uid := 1 }, wid := 0, snapEvents := [], snapWaiters := [],
    attempts := 2, firstAt := 10, lastExc := some 7, lastFailedAt := some 11 }
def C06.st : State :=
  { isRunning := true,
    workers := fun s => if s = 3 then { inProg := [C06.exec], collected := [(0, [{ ty := 6, kind := .plain, uid := 2 }])] } else {} }
def C06.res : List Res := [.addCollected 0 { ty := 5, kind := .plain, uid := 1 }, .result none]

example : ∃ x, ((processStepResult C06.cfg (fun _ _ k _ => .retry k) 3 0 C06.exec.ev C06.res C06.st 13).1.workers 3).inProg.find?
    (fun w => w.wid == 0) = some x ∧ x.retryRec = C06.exec.retryRec :=
  C06_collect_rerun_keeps_retry_number C06.cfg _ 3 0 C06.exec.ev C06.res C06.st 13 C06.exec (by decide) (by decide) (by decide)
example : (processStepResult C06.cfg (fun _ _ k _ => .retry k) 3 0 C06.exec.ev C06.res C06.st 13).2 =
    [.runWorker 3 { ty := 5, kind := .plain, uid := 1 } 0] := by decide
/-- ... and the re-run's failure at t = 13 is failure 3: asked with (elapsed 3, attempts 3), parked for `3` -/
example : (applyRes C06.cfg (fun _ _ k _ => .retry k) 3 C06.exec.ev false { st := C06.st, exec := C06.exec } (.failed 7 13)).cmds =
    [.queueEvent { ev := C06.exec.ev, attempts := some 3, firstAt := some 10, lastExc := some 7, lastFailedAt := some 13 } (some 3) (some 3)] :=
  C06_failure_after_rerun_counts_on C06.cfg _ 3 C06.exec.ev false { st := C06.st, exec := C06.exec } C06.exec.retryRec rfl 7 13
    { name := 3, accepted := [5, 6], numWorkers := 2, hasRetry := true } (by decide) rfl 3 rfl rfl

/-! ## every history: no retry is re-admitted before the delay documented for its failure

The per-step facts above (`C06_delayed_retry_parked`, `C06_not_before_delay`, `C06_only_timer_releases`) are lifted to an
invariant of the whole runner (`Engine.C06Inv`, `WfProofs/RunnerRetryDelay.lean`) and proved for EVERY action list from the
start of a run, fresh or resumed.  A retry travels as a `TickAddEvent` carrying the record of the failure it follows; the
statement reads that record: if it says "failure number `k`, at time `f`, of an invocation first started at `fa`, exception
`x`", and the step's policy grants delay `d` for exactly that failure, then the tick is reduced (the retry is admitted to a
worker slot or to the step's queue) at a time `t ≥ f + d`.

Environment assumptions, stated as `Engine.c06ActsOk` along the run: a finishing worker reports no failure time later than
the clock (`failed_at = get_now()` is read when the step raises, before its result is reduced), and ticks arriving from
outside carry no failure record (`ctx.send_event` builds a bare `TickAddEvent`).  A resumed state must hold only served
records in its waiters (`Engine.c06InitOk`; a fresh state has none). -/

/-- **whole-run form of "not before the delay"**: in the tick log of every reachable runner, every re-admitted retry
was reduced no earlier than the failure it follows plus the delay the policy grants for that failure -/
theorem C06_retry_never_before_its_delay (cfg : Cfg) (pol : Engine.Policy) (st0 : State) (now0 : Int) (start : Option Ev)
    (timeout : Option Nat) (h0 : c06InitOk pol cfg st0 now0) (acts : List Act)
    (hacts : c06ActsOk cfg pol (Runner.init cfg st0 now0 start timeout) acts)
    (att : Attempt) (step : Nat) (t : Int)
    (hlog : (Tick.addEvent att (some step), t) ∈ (Runner.run cfg pol (Runner.init cfg st0 now0 start timeout) acts).log)
    (k : Nat) (f fa : Int) (x d : Nat) (hk : att.attempts = some k) (hf : att.lastFailedAt = some f)
    (hfa : att.firstAt = some fa) (hx : att.lastExc = some x) (hp : pol step (f - fa) k x = .retry d) :
    f + (d : Int) ≤ t :=
  (c06_run_inv cfg pol acts _ hacts (c06_init_inv cfg pol st0 now0 start timeout h0)).log _ hlog k f fa x d hk hf hfa hx hp

/-- ... and what is still waiting: every parked retry is due no earlier than that time, every buffered one has
reached it, for every reachable runner -/
theorem C06_pending_retries_wait_out_their_delay (cfg : Cfg) (pol : Engine.Policy) (st0 : State) (now0 : Int)
    (start : Option Ev) (timeout : Option Nat) (h0 : c06InitOk pol cfg st0 now0) (acts : List Act)
    (hacts : c06ActsOk cfg pol (Runner.init cfg st0 now0 start timeout) acts) :
    let r := Runner.run cfg pol (Runner.init cfg st0 now0 start timeout) acts
    (∀ tm ∈ r.heap, tm.tick.c06ServedAt pol tm.at_) ∧ (∀ tk ∈ r.buf, tk.c06ServedAt pol r.now) := by
  intro r
  have h := c06_run_inv cfg pol acts _ hacts (c06_init_inv cfg pol st0 now0 start timeout h0)
  exact ⟨fun tm htm => (h.heap tm htm).1, fun tk htk => (h.buf tk htk).1⟩

/-- a fresh run needs no assumption on its start state -/
theorem C06_fresh_run_retry_never_before_its_delay (cfg : Cfg) (pol : Engine.Policy) (now0 : Int) (start : Option Ev)
    (timeout : Option Nat) (acts : List Act)
    (hacts : c06ActsOk cfg pol (Runner.init cfg initState now0 start timeout) acts)
    (att : Attempt) (step : Nat) (t : Int)
    (hlog : (Tick.addEvent att (some step), t) ∈ (Runner.run cfg pol (Runner.init cfg initState now0 start timeout) acts).log)
    (k : Nat) (f fa : Int) (x d : Nat) (hk : att.attempts = some k) (hf : att.lastFailedAt = some f)
    (hfa : att.firstAt = some fa) (hx : att.lastExc = some x) (hp : pol step (f - fa) k x = .retry d) :
    f + (d : Int) ≤ t :=
  C06_retry_never_before_its_delay cfg pol initState now0 start timeout (c06InitOk_fresh pol cfg now0) acts hacts
    att step t hlog k f fa x d hk hf hfa hx hp

/-- the invariant is not an artefact of the start: it is preserved by every single action from ANY runner state -/
theorem C06_every_action_keeps_delays (cfg : Cfg) (pol : Engine.Policy) (r : Runner) (a : Act) (ha : a.c06Ok r)
    (h : C06Inv pol r) : C06Inv pol (r.step cfg pol a) := c06_step_inv cfg pol r a ha h

/-! Non-vacuity: step 3 (one worker, retry policy `delay = 2·k`) receives start event uid 1 at t = 10, fails at t = 11
(failure 1 → delay 2, parked for t = 14 because the result is reduced at t = 12; the second `drain` reduces the idle check
the quiet step scheduled), the timer fires at t = 14 and the retry is admitted; it fails again at t = 15 (failure 2 →
delay 4), is reduced at t = 15, parked for 19, admitted at 19. -/
def C06.cfg1 : Cfg := { steps := [{ name := 3, accepted := [5], numWorkers := 1, hasRetry := true }] }
def C06.pol2k : Engine.Policy := fun _ _ k _ => .retry (2 * k)
def C06.ev1 : Ev := { ty := 5, kind := .start, uid := 1 }
def C06.acts : List Act :=
  [.drain, .advance 1, .workerDone 3 0 [.failed 7 11], .advance 1, .drain, .drain, .timer, .advance 2, .timer, .drain,
   .advance 1, .workerDone 3 0 [.failed 8 15], .drain, .drain, .advance 3, .timer, .advance 1, .timer, .drain]
def C06.run1 : Runner := Runner.run C06.cfg1 C06.pol2k (Runner.init C06.cfg1 initState 10 (some C06.ev1) none) C06.acts

example : C06.run1.log.map (fun p => (match p.1 with | .addEvent a _ => a.attempts | _ => none, p.2)) =
    [(none, 10), (none, 12), (none, 12), (some 1, 14), (none, 15), (none, 15), (some 2, 19)] := by decide
example : (Tick.addEvent { ev := C06.ev1, attempts := some 2, firstAt := some 10, lastExc := some 8, lastFailedAt := some 15 } (some 3), 19)
    ∈ C06.run1.log := by decide
theorem C06.acts_ok : c06ActsOk C06.cfg1 C06.pol2k (Runner.init C06.cfg1 initState 10 (some C06.ev1) none) C06.acts := by
  refine ⟨trivial, trivial, ?_, trivial, trivial, trivial, trivial, trivial, trivial, trivial, trivial, ?_, trivial, trivial,
    trivial, trivial, trivial, trivial, trivial, trivial⟩
  · intro x f hm
    simp only [List.mem_singleton, Res.failed.injEq] at hm
    obtain ⟨_, rfl⟩ := hm
    decide
  · intro x f hm
    simp only [List.mem_singleton, Res.failed.injEq] at hm
    obtain ⟨_, rfl⟩ := hm
    decide
example : (15 : Int) + ((4 : Nat) : Int) ≤ 19 :=
  C06_fresh_run_retry_never_before_its_delay C06.cfg1 C06.pol2k 10 (some C06.ev1) none C06.acts C06.acts_ok
    { ev := C06.ev1, attempts := some 2, firstAt := some 10, lastExc := some 8, lastFailedAt := some 15 } 3 19 (by decide)
    2 15 10 8 4 rfl rfl rfl rfl rfl
/-- a parked retry, mid-run: after the first failure is reduced at t = 12 the heap holds the retry, due at 14 = 12 + 2 ≥ 11 + 2 -/
example : ((Runner.run C06.cfg1 C06.pol2k (Runner.init C06.cfg1 initState 10 (some C06.ev1) none) (C06.acts.take 6)).heap.map
    (fun tm => tm.at_)) = [14] := by decide
/-- the assumption on the environment is needed: a worker reporting a failure time from the future (t = 20 at clock 11)
gets its retry admitted at 13 < 20 + 2 -/
example : (Runner.run C06.cfg1 C06.pol2k (Runner.init C06.cfg1 initState 10 (some C06.ev1) none)
      [.drain, .advance 1, .workerDone 3 0 [.failed 7 20], .drain, .drain, .advance 2, .timer, .drain]).log.map (·.2) = [10, 11, 11, 13] := by decide

/-- (repair b50f853) a failure reported in the same result list AFTER a stale `AddCollectedEvent` already scheduled the
execution to run again is skipped whole: no policy call, no retry queued, the record and the state untouched — the
invocation is re-run once, not re-run AND retried -/
theorem C06_failure_of_rescheduled_execution_skipped (cfg : Cfg) (pol : Engine.Policy) (step : Nat) (tickEv : Ev) (dc : Bool)
    (acc : ResAcc) (exc : Nat) (failedAt : Int) (h : acc.stillInProgress = true) :
    (applyRes cfg pol step tickEv dc acc (.failed exc failedAt)).cmds = acc.cmds ∧
      (applyRes cfg pol step tickEv dc acc (.failed exc failedAt)).exec.retryRec = acc.exec.retryRec ∧
      (applyRes cfg pol step tickEv dc acc (.failed exc failedAt)).stillInProgress = true := by
  simp [applyRes, h]
example : (processStepResult C06.cfg (fun _ _ k _ => .retry k) 3 0 C06.exec.ev
      [.addCollected 0 { ty := 5, kind := .plain, uid := 1 }, .failed 7 13] C06.st 13).2 =
    [.runWorker 3 { ty := 5, kind := .plain, uid := 1 } 0] := by decide

/-! ## which link / which exponent answers for the k-th retry, for all chains, parameters and retry numbers

`C06_delay_index_actual` says the engine evaluates the wait strategy at the failure number `k`.  What that means for the
strategies the property names: -/

/-- **`wait_chain`, every chain and every retry**: retry `k` inside the chain is answered by link number `k` counted
from 0 (the `(k+1)`-th strategy, not the `k`-th), retries at or past the end by the last link — each evaluated at `k` -/
theorem C06_chain_link_of_retry (ws : List Wait) (hne : ws ≠ []) (n k : Nat) (el : Rat) (e : Nat) (u : Rat) (hk : k < n) :
    (∀ h : k < ws.length,
      C06.engineDelay { retry := none, wait := waitChain ws, stop := stopAfterAttempt (n : Rat) } k el e u = some ((ws[k]) k u)) ∧
    (ws.length - 1 ≤ k →
      C06.engineDelay { retry := none, wait := waitChain ws, stop := stopAfterAttempt (n : Rat) } k el e u =
        some ((ws.getLast hne) k u)) := by
  rw [C06_delay_index_actual (waitChain ws) n k el e u hk]
  exact ⟨fun h => by rw [c06_waitChain_lt ws k u h], fun h => by rw [c06_waitChain_ge ws k u hne h]⟩

/-- **the first strategy of a chain is dead code for the engine** (the general form of `C06_refuted_witness`): with at
least two links, no retry `k ≥ 1` of any composed policy — any retry condition, any stop condition — depends on it -/
theorem C06_chain_head_never_used (w0 w0' : Wait) (ws : List Wait) (hne : ws ≠ []) (c : Option Cond) (s : Stop)
    (k : Nat) (hk : 1 ≤ k) (el : Rat) (e : Nat) (u : Rat) :
    C06.engineDelay { retry := c, wait := waitChain (w0 :: ws), stop := s } k el e u =
      C06.engineDelay { retry := c, wait := waitChain (w0' :: ws), stop := s } k el e u := by
  obtain ⟨j, rfl⟩ : ∃ j, k = j + 1 := ⟨k - 1, by omega⟩
  simp only [C06.engineDelay, Composed.next, c06_waitChain_cons_succ _ ws j u hne]

/-- hence the documented-order clause fails for EVERY chain of fixed waits whose first two links differ, at the
first retry — not only for the witness -/
theorem C06_refuted_for_every_such_chain (a b : Rat) (rest : List Wait) (n : Nat) (hn : 1 < n) (hab : a ≠ b) (el : Rat) (e : Nat) (u : Rat) :
    C06.engineDelay { retry := none, wait := waitChain (waitFixed a :: waitFixed b :: rest), stop := stopAfterAttempt (n : Rat) } 1 el e u
      ≠ some (waitChain (waitFixed a :: waitFixed b :: rest) (1 - 1) u) := by
  rw [C06_delay_index_actual _ n 1 el e u hn]
  have h1 : waitChain (waitFixed a :: waitFixed b :: rest) 1 u = b := by
    rw [c06_waitChain_lt _ 1 u (by simp)]; rfl
  have h0 : waitChain (waitFixed a :: waitFixed b :: rest) (1 - 1) u = a := by
    rw [c06_waitChain_lt _ (1 - 1) u (by simp)]; rfl
  rw [h1, h0]
  exact fun h => hab (Option.some.inj h).symm

/-- **the exponential and incrementing strategies, every parameter and every retry**: the `k`-th retry waits the
formula at exponent / multiple `k` — so the first retry waits `multiplier·exp_base`, `initial·exp_base (+ jitter)`,
`start + increment` (each clamped), not the documented initial values.  The right-hand sides are spelled out; the
left-hand sides are the bodies regenerated from the source (`Gen.RP`). -/
theorem C06_exponential_delay_of_retry (n k : Nat) (hk : k < n) (el : Rat) (e : Nat) (u : Rat) (m b mx mn s i j : Rat) :
    C06.engineDelay { retry := none, wait := waitExponential m b mx mn, stop := stopAfterAttempt (n : Rat) } k el e u =
        some (max (max 0 mn) (min (m * b ^ k) mx)) ∧
    C06.engineDelay { retry := none, wait := waitIncrementing s i mx, stop := stopAfterAttempt (n : Rat) } k el e u =
        some (max 0 (min (s + i * (k : Rat)) mx)) ∧
    C06.engineDelay { retry := none, wait := waitExponentialJitter m b mx j, stop := stopAfterAttempt (n : Rat) } k el e u =
        some (min (min (m * b ^ k) mx + (0 + u * (j - 0))) mx) ∧
    C06.engineDelay { retry := none, wait := waitRandomExponential m b mx mn, stop := stopAfterAttempt (n : Rat) } k el e u =
        some (mn + u * (max (max 0 mn) (min (m * b ^ k) mx) - mn)) :=
  ⟨C06_delay_index_actual _ n k el e u hk, C06_delay_index_actual _ n k el e u hk,
   C06_delay_index_actual _ n k el e u hk, C06_delay_index_actual _ n k el e u hk⟩

/-- in particular the first retry of `wait_exponential(multiplier=m, exp_base=b)` waits `m·b` (clamped), of
`wait_incrementing(start=s, increment=i)` waits `s + i` (clamped) -/
theorem C06_first_retry_delays (n : Nat) (hn : 1 < n) (el : Rat) (e : Nat) (u : Rat) (m b mx mn s i : Rat) :
    C06.engineDelay { retry := none, wait := waitExponential m b mx mn, stop := stopAfterAttempt (n : Rat) } 1 el e u =
        some (max (max 0 mn) (min (m * b) mx)) ∧
    C06.engineDelay { retry := none, wait := waitIncrementing s i mx, stop := stopAfterAttempt (n : Rat) } 1 el e u =
        some (max 0 (min (s + i) mx)) := by
  have h := C06_exponential_delay_of_retry n 1 hn el e u m b mx mn s i 0
  have hb : b ^ 1 = b := by rw [Rat.pow_succ, Rat.pow_zero, Rat.one_mul]
  have hi : i * ((1 : Nat) : Rat) = i := by
    have : ((1 : Nat) : Rat) = 1 := rfl
    rw [this, Rat.mul_one]
  rw [hb, hi] at h
  exact ⟨h.1, h.2.1⟩

example : C06.engineDelay { retry := none, wait := waitExponential 1 2 60 0, stop := stopAfterAttempt ((5 : Nat) : Rat) } 1 0 0 0 = some 2 := by
  rw [(C06_first_retry_delays 5 (by omega) 0 0 0 1 2 60 0 0 0).1]; decide +kernel
example : waitChain [waitFixed 3, waitFixed 1, waitFixed 2] 1 0 = waitChain [waitFixed 99, waitFixed 1, waitFixed 2] 1 0 := by
  have := C06_chain_head_never_used (waitFixed 3) (waitFixed 99) [waitFixed 1, waitFixed 2] (by simp) none stopNever 1 (by omega) 0 0 0
  simpa [C06.engineDelay, Composed.next, stopNever] using this
example : C06.engineDelay { retry := none, wait := waitChain [waitFixed 3, waitFixed 1], stop := stopAfterAttempt ((5 : Nat) : Rat) } 1 0 0 0
    ≠ some (waitChain [waitFixed 3, waitFixed 1] (1 - 1) 0) :=
  C06_refuted_for_every_such_chain 3 1 [] 5 (by omega) (by decide) 0 0 0

/-! ## the source of the delay path agrees in shape (re-read on every run, `harness/gen/retry_delay_shape.py`) -/

/-- the expressions the whole-run theorem rests on, as they stand in the current source: the retry command carries the
failure record (`attempts + 1`, first attempt, exception, `failed_at`) and the policy's delay; `process_command` copies the
record into the `TickAddEvent`, parks it for `get_now() + delay` exactly when `delay > 0` and buffers it otherwise;
`pop_due_ticks` releases a parked tick only when its time is `<= now`; every `StepWorkerFailed` takes its `failed_at`
from a clock reading (the epoch clock the adapter contract prescribes for `get_now()`), never from a computed value -/
theorem C06_delay_source_shape :
    GenRetryDelayShape.retryDelayGuard = "delay is not None" ∧
    GenRetryDelayShape.retryCommandRecord =
      "event=tick.event, delay=delay, step_name=tick.step_name, attempts=this_execution.attempts + 1, first_attempt_at=this_execution.first_attempt_at, last_exception=result.exception, last_failed_at=result.failed_at, recovery_counts=dict(this_execution.recovery_counts)" ∧
    GenRetryDelayShape.retryElapsed = "result.failed_at - this_execution.first_attempt_at" ∧
    GenRetryDelayShape.queueTickRecord =
      "event=command.event, step_name=command.step_name, attempts=command.attempts, first_attempt_at=command.first_attempt_at, last_exception=command.last_exception, last_failed_at=command.last_failed_at, recovery_counts=dict(command.recovery_counts)" ∧
    GenRetryDelayShape.queueDelayTest = "command.delay is not None and command.delay > 0" ∧
    GenRetryDelayShape.queueDelayedBody = "now = await self.adapter.get_now() ; self.schedule_tick(event, at_time=now + command.delay)" ∧
    GenRetryDelayShape.queueUndelayedBody = "self.tick_buffer.append(event)" ∧
    GenRetryDelayShape.scheduleTickPush = "heapq.heappush(self.scheduled_wakeups, (at_time, seq, tick))" ∧
    GenRetryDelayShape.popDueTest = "self.scheduled_wakeups and self.scheduled_wakeups[0][0] <= now" ∧
    GenRetryDelayShape.failedAtSources = ["await self.adapter.get_now()@control_loop.py", "time.time()@types/step_function.py"] ∧
    GenEngineShape.wakeupMutators = ["heapq.heappop@pop_due_ticks", "heapq.heappush@schedule_tick"] ∧
    Gen.RP.loopFailures = "this_execution.attempts + 1" ∧ Gen.RP.loopNextArgs = "elapsed_time, failures, result.exception" :=
  ⟨rfl, rfl, rfl, rfl, rfl, rfl, rfl, rfl, rfl, rfl, rfl, rfl, rfl⟩
example : GenRetryDelayShape.failedAtSources.length = 2 := by decide
