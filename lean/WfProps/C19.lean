import WfProofs.StateStoreHist
/-!
# C19 — state stores implement the same state semantics, with isolated snapshots

Model: `WfModel/StateStore.lean` (M5).  `Spec` is the plain nested-dict model, `Mem` the
in-memory store, `Sql` the SQLite store.  All theorems quantify over every schema of typed
models, every state type (DictState / any level of the inheritance chain) and every list of
operations (`get`/`set` by dotted path, `get_state`, `set_state` with a same-typed /
ancestor-typed / DictState / unrelated instance, `clear`, `edit_state` with a scripted body,
top-level mutation of a snapshot, write-back).
-/
open StateStore

/-- the source still has the shape the model was written against: `MAX_DEPTH`, a shallow copy of a
`DictLikeModel` owns its `_data`, the path helpers address a `DictLikeModel` by name,
`SqliteStateStore.set_state` merges also when no row exists, `get_state` returns a copy -/
theorem C19_source_shape :
    GenStateStore.maxDepth = 1000 ∧ GenStateStore.dictLikeCopyOwnsData = true ∧
    GenStateStore.dictLikeByName = true ∧ GenStateStore.sqlRowNoneMerges = true ∧
    GenStateStore.memGetStateCopies = true := by decide

/-- the in-memory store returns, for every operation sequence whose `edit_state` bodies do not
raise, exactly what the nested-dict specification returns -/
theorem C19_refines_dict_memory (sc : Schema) (ty : Ty) (ops : List Op)
    (h : bodiesOk (Mem.init sc ty) ops = true) :
    runOuts Mem.step (Mem.init sc ty) ops = runOuts Spec.step (Spec.init sc ty) ops :=
  (memSim_run ops _ _ (memSim_init sc ty) h).1

example : bodiesOk (Mem.init [[("a", .int 0)]] (.typed 0))
    [.edit [.incr "a" 2, .append "a" .null], .set "a.0" (.str "x"), .get "a.0" none] = true := by decide

/-- the SQLite store returns, for every operation sequence, exactly what the specification returns -/
theorem C19_refines_dict_sqlite (sc : Schema) (ty : Ty) (ops : List Op) :
    runOuts Sql.step (Sql.init sc ty) ops = runOuts Spec.step (Spec.init sc ty) ops :=
  (sqlSim_run ops _ _ (sqlSim_init sc ty)).1

theorem C19_refines_dict (sc : Schema) (ty : Ty) (ops : List Op) :
    runOuts Sql.step (Sql.init sc ty) ops = runOuts Spec.step (Spec.init sc ty) ops ∧
    (bodiesOk (Mem.init sc ty) ops = true →
      runOuts Mem.step (Mem.init sc ty) ops = runOuts Spec.step (Spec.init sc ty) ops) :=
  ⟨C19_refines_dict_sqlite sc ty ops, C19_refines_dict_memory sc ty ops⟩

/-- a run in which every branch of the walkers is taken and nothing is trivial -/
example :
    runOuts Spec.step (Spec.init [] .dict)
      [.set "a.b.0" (.int 1), .set "l" (.arr [.int 1, .int 2]), .set "l.-1" (.str "z"), .get "l.1.0" none,
       .set "l.2" .null, .get "a.b" none, .get "nope.x" (some .null), .set "0" (.int 7), .get "0" none] =
      [.none, .none, .none, .val (.str "z"), .err .attributeError, .val (.obj [("0", .int 1)]),
       .val .null, .none, .val (.int 7)] := by rfl

/-- both stores return the same values -/
theorem C19_backends_agree (sc : Schema) (ty : Ty) (ops : List Op)
    (h : bodiesOk (Mem.init sc ty) ops = true) :
    runOuts Mem.step (Mem.init sc ty) ops = runOuts Sql.step (Sql.init sc ty) ops := by
  rw [C19_refines_dict_memory sc ty ops h, C19_refines_dict_sqlite sc ty ops]

/-- the guard is needed: a body that raises after a mutation is where the stores differ
(memory edits the live object, SQLite drops its copy) -/
example :
    runOuts Mem.step (Mem.init [] .dict) [.edit [.setKey "z" (.int 1), .raise], .get "z" (some .null)]
      = [.err .bodyError, .val (.int 1)] ∧
    runOuts Sql.step (Sql.init [] .dict) [.edit [.setKey "z" (.int 1), .raise], .get "z" (some .null)]
      = [.err .bodyError, .val .null] := ⟨rfl, rfl⟩

/-- not only the results: what the stores hold is what the specification holds -/
theorem C19_store_tracks_spec (sc : Schema) (ty : Ty) (ops : List Op) :
    (runState Sql.step (Sql.init sc ty) ops).abs = (runState Spec.step (Spec.init sc ty) ops).root ∧
    (bodiesOk (Mem.init sc ty) ops = true →
      (runState Mem.step (Mem.init sc ty) ops).root = (runState Spec.step (Spec.init sc ty) ops).root) :=
  ⟨(sqlSim_run ops _ _ (sqlSim_init sc ty)).2.root, fun h => (memSim_run ops _ _ (memSim_init sc ty) h).2.root⟩

/-- changing top-level fields / keys of a snapshot obtained from `get_state` changes neither store -/
theorem C19_snapshot (k : String) (v : Json) :
    (∀ m : Mem, (Mem.step m (.mutSnap k v)).1.root = m.root) ∧
    (∀ q : Sql, (Sql.step q (.mutSnap k v)).1.row = q.row ∧ (Sql.step q (.mutSnap k v)).1.abs = q.abs) ∧
    (∀ s : Spec, (Spec.step s (.mutSnap k v)).1.root = s.root) :=
  ⟨fun _ => rfl, fun _ => ⟨rfl, rfl⟩, fun _ => rfl⟩

/-- ... and no later sequence of store operations can tell whether the snapshot was mutated, until it
is written back: after any list of snapshot mutations every store operation returns what it would
have returned without them -/
theorem C19_snapshot_until_written_back (muts : List (String × Json)) (ops : List Op)
    (hops : ∀ op ∈ ops, storeOp op = true) :
    (∀ m : Mem, runOuts Mem.step (runState Mem.step m (snapOps muts)) ops = runOuts Mem.step m ops) ∧
    (∀ q : Sql, runOuts Sql.step (runState Sql.step q (snapOps muts)) ops = runOuts Sql.step q ops) := by
  constructor
  · intro m
    have ⟨h1, h2⟩ := mem_snapOps_store muts m
    exact (mem_storeOps_indep ops h2 h1 hops).1
  · intro q
    have ⟨h1, h2, h3⟩ := sql_snapOps_store muts q
    exact (sql_storeOps_indep ops h2 h3 h1 hops).1

/-- the snapshot is really mutated (the theorem is not about a no-op), and writing it back is what
changes the store -/
example :
    runOuts Mem.step (Mem.init [] .dict)
      [.set "a" (.int 1), .getState, .mutSnap "a" (.int 99), .get "a" none, .writeBack, .get "a" none] =
      [.none, .state ⟨.dict, [("a", .int 1)]⟩, .none, .val (.int 1), .none, .val (.int 99)] := by rfl

/-- a successful `set(path, v)` is read back by `get(path)` (spec, hence both stores) -/
theorem C19_set_then_get (s : Spec) (p : String) (v : Json) (d : Option Json)
    (h : (Spec.step s (.set p v)).2 = .none) :
    (Spec.step (Spec.step s (.set p v)).1 (.get p d)).2 = .val v := by
  simp only [Spec.step] at h ⊢
  cases hs : specSetPath s.root p v with
  | error e => rw [hs] at h; cases h
  | ok r =>
    simp only []
    exact specGet_after_set d hs

example : (Spec.step (Spec.init [] .dict) (.set "x.y" (.int 1))).2 = .none := by rfl

/-- missing intermediate segments are created as nested dicts -/
theorem C19_set_creates_missing (r : Root) (s t : String) (rest : List String) (v : Json)
    (hd : r.ty = .dict) (hm : lookup s r.data = none) :
    specRootSet r (s :: t :: rest) v = .ok { r with data := upsert s (nest (t :: rest) v) r.data } := by
  simp [specRootSet, hm, specRootPut, hd]

/-- at the root of a `DictState` every segment — all-digit ones included — is a string key
(F17: the unrepaired walker wrote the integer key `0` in memory) -/
theorem C19_digit_segment_is_key_at_root (r : Root) (seg : String) (v : Json) (hd : r.ty = .dict) :
    rootSet r [] seg v = .ok { r with data := upsert seg v r.data } ∧
    rootChild { r with data := upsert seg v r.data } seg = some v := by
  constructor
  · simp [rootSet, rootAssign, hd]
  · simp [rootChild, lookup_upsert_same]

example : runOuts Mem.step (Mem.init [] .dict) [.set "0" (.str "v"), .get "0" none, .get "" none] =
    [.none, .val (.str "v"), .state ⟨.dict, [("0", .str "v")]⟩] := by rfl

/-- below the root an all-digit segment indexes lists and strings, and is a key of dicts -/
example : runOuts Sql.step (Sql.init [] .dict)
    [.set "l" (.arr [.str "ab", .obj []]), .get "l.0.1" none, .set "l.1.0" (.int 5), .get "l.1" none,
     .get "l.1_0" (some .null), .get "l. -2 .-1" none] =
    [.none, .val (.str "b"), .none, .val (.obj [("0", .int 5)]), .val .null, .val (.str "b")] := by rfl

/-- `set_state` with an ancestor-typed instance overrides exactly the ancestor's fields and keeps
the child's own fields -/
theorem C19_merge_keeps_child_fields (cur inc r : Root) (n m : Nat) (hc : cur.ty = .typed n)
    (hi : inc.ty = .typed m) (hlt : m < n) (h : mergeState cur inc = .ok r) :
    r.ty = .typed n ∧ r.data.map (·.1) = cur.data.map (·.1) ∧
    ∀ k, lookup k r.data = (lookup k cur.data).map fun v => (lookup k inc.data).getD v := by
  unfold mergeState at h
  have h1 : isSub inc.ty cur.ty = false := by
    rw [hc, hi]; simp only [isSub, decide_eq_false_iff_not]; omega
  have h2 : isSub cur.ty inc.ty = true := by
    rw [hc, hi]; simp only [isSub, decide_eq_true_eq]; omega
  simp only [h1, h2, if_true, Bool.false_eq_true, if_false] at h
  cases h
  exact ⟨hc, overlay_keys _ _, fun k => lookup_overlay k _ _⟩

example : mergeState ⟨.typed 1, [("a", .int 0), ("c", .str "mine")]⟩ ⟨.typed 0, [("a", .int 5)]⟩ =
    .ok ⟨.typed 1, [("a", .int 5), ("c", .str "mine")]⟩ := by rfl

/-- `clear` leaves the type's defaults in both stores, whatever was there, and `get_state` then
returns them -/
theorem C19_clear_is_default :
    (∀ m : Mem, (Mem.step m .clear).1.root = defaultRoot m.sc m.root.ty ∧
      (Mem.step (Mem.step m .clear).1 .getState).2 = .state (defaultRoot m.sc m.root.ty)) ∧
    (∀ q : Sql, (Sql.step q .clear).1.abs = defaultRoot q.sc q.ty ∧
      (Sql.step (Sql.step q .clear).1 .getState).2 = .state (defaultRoot q.sc q.ty)) := by
  constructor
  · intro m
    have h : (Mem.step m .clear).1.root = defaultRoot m.sc m.root.ty := by
      simp only [Mem.step, Mem.setState]
      rw [mergeState_same (defaultRoot_ty _ _)]
    exact ⟨h, by simp only [Mem.step] at h ⊢; rw [h]⟩
  · intro q
    have hd : (defaultRoot q.sc q.ty).ty = q.abs.ty := by rw [defaultRoot_ty, Sql.abs_ty]
    have h : (Sql.step q .clear).1.abs = defaultRoot q.sc q.ty := by
      simp only [Sql.step, Sql.setState]
      rw [mergeState_same hd]
      exact Sql.abs_save _ _ (defaultRoot_ty _ _)
    refine ⟨h, ?_⟩
    have hl := (Sql.load_spec (Sql.step q .clear).1).1
    simp only [Sql.step] at h hl ⊢
    rw [hl, h]

example : (Sql.step (Sql.step (Sql.init [[("a", .int 0)], [("c", .str "c0")]] (.typed 1)) (.set "a" (.int 9))).1 .clear).1.row
    = some [("a", .int 0), ("c", .str "c0")] := by rfl

/-! ## Every history: no guard on the bodies, interleavings of snapshot handling, invariants -/

/-- without any guard: for every operation sequence — bodies that raise included — the in-memory
store returns, and holds, exactly what a nested dict *edited in place* returns and holds
(`Spec.stepLive`: the `edit_state` block hands out the dict itself) -/
theorem C19_refines_dict_memory_every_history (sc : Schema) (ty : Ty) (ops : List Op) :
    runOuts Mem.step (Mem.init sc ty) ops = runOuts Spec.stepLive (Spec.init sc ty) ops ∧
    (runState Mem.step (Mem.init sc ty) ops).root = (runState Spec.stepLive (Spec.init sc ty) ops).root :=
  ⟨(memSimLive_run ops _ _ (memSim_init sc ty)).1, (memSimLive_run ops _ _ (memSim_init sc ty)).2.root⟩

/-- the dict edited in place and the transactional dict return the same result for every
operation, and are the same machine on everything but an `edit_state` whose body raises -/
theorem C19_live_dict_differs_only_on_raising_bodies (s : Spec) (op : Op) :
    (Spec.stepLive s op).2 = (Spec.step s op).2 ∧
    ((∀ muts, op = .edit muts → (runMuts s.root muts).2 = none) → Spec.stepLive s op = Spec.step s op) :=
  ⟨stepLive_out s op, stepLive_eq_step s op⟩

/-- the unguarded statement is about something: after a body that raised, memory follows the dict
edited in place, not the transactional one -/
example :
    runOuts Mem.step (Mem.init [] .dict) [.edit [.setKey "z" (.int 1), .raise], .get "z" (some .null)]
      = runOuts Spec.stepLive (Spec.init [] .dict) [.edit [.setKey "z" (.int 1), .raise], .get "z" (some .null)] ∧
    runOuts Spec.stepLive (Spec.init [] .dict) [.edit [.setKey "z" (.int 1), .raise], .get "z" (some .null)]
      = [.err .bodyError, .val (.int 1)] ∧
    runOuts Spec.step (Spec.init [] .dict) [.edit [.setKey "z" (.int 1), .raise], .get "z" (some .null)]
      = [.err .bodyError, .val .null] := ⟨rfl, rfl, rfl⟩

/-- for every operation sequence the two stores return the same values up to *and including* the
first `edit_state` whose body raises (`pre`: operations whose bodies do not raise, `op`: any
operation, `rest`: anything) -/
theorem C19_backends_agree_until_a_body_raises (sc : Schema) (ty : Ty) (pre : List Op) (op : Op) (rest : List Op)
    (h : bodiesOk (Mem.init sc ty) pre = true) :
    (runOuts Mem.step (Mem.init sc ty) (pre ++ op :: rest)).take (pre.length + 1) =
    (runOuts Sql.step (Sql.init sc ty) (pre ++ op :: rest)).take (pre.length + 1) :=
  backends_agree_prefix sc ty pre op rest h

example : bodiesOk (Mem.init [] .dict) [.set "a" (.int 1), .edit [.incr "a" 2]] = true ∧
    (runOuts Mem.step (Mem.init [] .dict)
      ([.set "a" (.int 1), .edit [.incr "a" 2]] ++ .edit [.setKey "z" (.int 1), .raise] :: [.get "z" (some .null)])).take 3
      = [.none, .none, .err .bodyError] := ⟨by decide, rfl⟩

/-- snapshot isolation over interleavings: take ANY operation sequence without a write-back —
`get_state`s, top-level mutations of the snapshot held, and store operations in any order — and
erase the snapshot mutations: every other operation returns what it returned before, and the store
holds the same at the end.  For every state of either store. -/
theorem C19_snapshot_mutations_unobservable (ops : List Op) (h : ∀ op ∈ ops, isWriteBack op = false) :
    (∀ m : Mem,
      outsAt (fun op => !isMutSnap op) ops (runOuts Mem.step m ops) =
        runOuts Mem.step m (ops.filter fun op => !isMutSnap op) ∧
      (runState Mem.step m ops).root = (runState Mem.step m (ops.filter fun op => !isMutSnap op)).root) ∧
    (∀ q : Sql,
      outsAt (fun op => !isMutSnap op) ops (runOuts Sql.step q ops) =
        runOuts Sql.step q (ops.filter fun op => !isMutSnap op) ∧
      (runState Sql.step q ops).abs = (runState Sql.step q (ops.filter fun op => !isMutSnap op)).abs) :=
  ⟨fun _ => mem_erase_mutSnap ops rfl rfl h, fun _ => sql_erase_mutSnap ops rfl rfl rfl h⟩

/-- an interleaving: the snapshot is mutated between store operations, and re-taken -/
example :
    outsAt (fun op => !isMutSnap op)
      [.set "a" (.int 1), .getState, .mutSnap "a" (.int 99), .set "b" (.int 2), .mutSnap "b" (.int 7), .get "a" none,
       .getState, .mutSnap "c" .null, .get "c" (some (.str "no"))]
      (runOuts Mem.step (Mem.init [] .dict)
        [.set "a" (.int 1), .getState, .mutSnap "a" (.int 99), .set "b" (.int 2), .mutSnap "b" (.int 7), .get "a" none,
         .getState, .mutSnap "c" .null, .get "c" (some (.str "no"))]) =
    [.none, .state ⟨.dict, [("a", .int 1)]⟩, .none, .val (.int 1),
     .state ⟨.dict, [("a", .int 1), ("b", .int 2)]⟩, .val (.str "no")] := by rfl

/-- reads cannot be observed either: erase the `get`s from any operation sequence (write-backs and
snapshot handling included) and nothing else changes.  In SQLite the first read *writes* — it
inserts the row with the type's defaults — and that write is invisible. -/
theorem C19_reads_unobservable (ops : List Op) :
    (∀ m : Mem,
      outsAt (fun op => !isGet op) ops (runOuts Mem.step m ops) = runOuts Mem.step m (ops.filter fun op => !isGet op) ∧
      runState Mem.step m ops = runState Mem.step m (ops.filter fun op => !isGet op)) ∧
    (∀ q : Sql,
      outsAt (fun op => !isGet op) ops (runOuts Sql.step q ops) = runOuts Sql.step q (ops.filter fun op => !isGet op) ∧
      (runState Sql.step q ops).abs = (runState Sql.step q (ops.filter fun op => !isGet op)).abs ∧
      (runState Sql.step q ops).held = (runState Sql.step q (ops.filter fun op => !isGet op)).held) :=
  ⟨fun m => mem_erase_get ops m, fun _ => sql_erase_get ops rfl rfl rfl rfl⟩

/-- the read really writes: the row exists afterwards -/
example : (Sql.init [[("a", .int 0)]] (.typed 0)).row = none ∧
    (Sql.step (Sql.init [[("a", .int 0)]] (.typed 0)) (.get "a" none)).1.row = some [("a", .int 0)] := ⟨rfl, rfl⟩

/-- "until it is written back", for every history: after any `pre`, a snapshot taken by `get_state`
and written back later installs exactly the state at the time of `get_state` plus the caller's own
top-level mutations — whatever the store did in between (`ops`: any gets / sets / set_states /
clears / edits / snapshot mutations) is replaced -/
theorem C19_write_back_installs_snapshot (sc : Schema) (ty : Ty) (pre ops : List Op)
    (h : ∀ op ∈ ops, noSnapTaking op = true) :
    (runState Mem.step (Mem.init sc ty) (pre ++ .getState :: (ops ++ [.writeBack]))).root =
      snapAfter (runState Mem.step (Mem.init sc ty) pre).root ops ∧
    (runState Sql.step (Sql.init sc ty) (pre ++ .getState :: (ops ++ [.writeBack]))).abs =
      snapAfter (runState Sql.step (Sql.init sc ty) pre).abs ops :=
  ⟨mem_writeBack_installs sc ty pre ops h, sql_writeBack_installs sc ty pre ops h⟩

example :
    (runState Sql.step (Sql.init [] .dict)
      ([.set "a" (.int 1)] ++ .getState :: ([.set "b" (.int 2), .mutSnap "c" (.int 3), .clear] ++ [.writeBack]))).abs =
    ⟨.dict, [("a", .int 1), ("c", .int 3)]⟩ ∧
    snapAfter ⟨.dict, [("a", .int 1)]⟩ [.set "b" (.int 2), .mutSnap "c" (.int 3), .clear] = ⟨.dict, [("a", .int 1), ("c", .int 3)]⟩ :=
  ⟨rfl, rfl⟩

/-- the model type of the state — and of any snapshot the caller holds — is the declared one in every
reachable state of both stores, whatever the operations were and whether bodies raised -/
theorem C19_type_never_changes (sc : Schema) (ty : Ty) (ops : List Op) :
    ((runState Mem.step (Mem.init sc ty) ops).root.ty = ty ∧
      ∀ h, (runState Mem.step (Mem.init sc ty) ops).held = some h → h.ty = ty) ∧
    ((runState Sql.step (Sql.init sc ty) ops).ty = ty ∧ (runState Sql.step (Sql.init sc ty) ops).abs.ty = ty ∧
      ∀ h, (runState Sql.step (Sql.init sc ty) ops).held = some h → h.ty = ty) :=
  ⟨mem_ty_inv sc ty ops, sql_ty_inv sc ty ops⟩

example : (runState Mem.step (Mem.init [[("a", .int 0)], [("c", .str "c0")]] (.typed 1))
    [.setState (.ancestor 0) [("a", .int 5)], .setState .dictState [], .getState, .edit [.raise]]).root.ty = .typed 1 := by rfl

/-- a typed state never gains or loses a field: in every reachable state of both stores the fields
are the declared ones, in declaration order — provided each `set_state` argument carries exactly the
fields of its class (`opWf`; pydantic guarantees it when the instance is built) -/
theorem C19_typed_fields_fixed (sc : Schema) (n : Nat) (ops : List Op)
    (h : ∀ op ∈ ops, opWf sc (.typed n) op = true) :
    keys (runState Mem.step (Mem.init sc (.typed n)) ops).root.data = keys (fieldsOf sc n) ∧
    keys (runState Sql.step (Sql.init sc (.typed n)) ops).abs.data = keys (fieldsOf sc n) :=
  ⟨mem_keys_inv sc n ops h, sql_keys_inv sc n ops h⟩

example : (∀ op ∈ [Op.set "nofield" .null, .setState (.ancestor 0) [("a", .int 5)], .edit [.setKey "zz" .null, .incr "a" 1],
      .setState .same [("a", .int 1), ("c", .null)], .clear],
      opWf [[("a", .int 0)], [("c", .str "c0")]] (.typed 1) op = true) ∧
    keys (fieldsOf [[("a", .int 0)], [("c", .str "c0")]] 1) = ["a", "c"] := ⟨by decide, rfl⟩

/-- the guard is needed in the model (an ill-formed instance replaces the state wholesale) -/
example : keys (runState Mem.step (Mem.init [[("a", .int 0)]] (.typed 0)) [.setState .same [("zz", .null)]]).root.data = ["zz"] := by rfl

/-- set-then-get on the stores themselves, in every state (reachable or not) -/
theorem C19_set_then_get_on_stores (p : String) (v : Json) (d : Option Json) :
    (∀ m : Mem, (Mem.step m (.set p v)).2 = .none → (Mem.step (Mem.step m (.set p v)).1 (.get p d)).2 = .val v) ∧
    (∀ q : Sql, (Sql.step q (.set p v)).2 = .none → (Sql.step (Sql.step q (.set p v)).1 (.get p d)).2 = .val v) :=
  ⟨fun m => mem_set_then_get m p v d, fun q => sql_set_then_get q p v d⟩

example : (Sql.step (Sql.init [] .dict) (.set "l.x.0" (.arr [.null]))).2 = .none := by rfl

/-- a successful `set(p, v)` leaves every path under a *different* top-level key alone: `get(q)`
returns what it returned before, in every state of both stores -/
theorem C19_set_leaves_other_keys (p q : String) (v : Json) (d : Option Json) (hq : q.isEmpty = false)
    (hne : (splitPath p).head? ≠ (splitPath q).head?) :
    (∀ m : Mem, (Mem.step m (.set p v)).2 = .none →
      (Mem.step (Mem.step m (.set p v)).1 (.get q d)).2 = (Mem.step m (.get q d)).2) ∧
    (∀ s : Sql, (Sql.step s (.set p v)).2 = .none →
      (Sql.step (Sql.step s (.set p v)).1 (.get q d)).2 = (Sql.step s (.get q d)).2) :=
  ⟨fun m h => mem_set_frame m p q v d h hq hne, fun s h => sql_set_frame s p q v d h hq hne⟩

example : ("b.c" : String).isEmpty = false ∧ (splitPath "a.0.x").head? ≠ (splitPath "b.c").head? := by decide

/-- persistence round trips — the store object replaced by one restored from its own `to_dict`
payload (memory: `from_dict`; SQLite: reconnect to the row, SQL copy of the row into a new run, or
migration of an in-memory payload into a new run) — can be inserted anywhere in any operation
sequence, snapshot handling and write-backs included: every store operation returns what it returns
without them, and the store (and the snapshot the caller holds) is the same at the end -/
theorem C19_persist_restore_unobservable (ops : List OpP) :
    (∀ m : Mem,
      outsAtOps ops (runOutsP Mem.stepP m ops) = runOuts Mem.step m (ops.filterMap OpP.op?) ∧
      runStateP Mem.stepP m ops = runState Mem.step m (ops.filterMap OpP.op?)) ∧
    (∀ q : Sql,
      outsAtOps ops (runOutsP Sql.stepP q ops) = runOuts Sql.step q (ops.filterMap OpP.op?) ∧
      (runStateP Sql.stepP q ops).abs = (runState Sql.step q (ops.filterMap OpP.op?)).abs ∧
      (runStateP Sql.stepP q ops).held = (runState Sql.step q (ops.filterMap OpP.op?)).held) :=
  ⟨fun m => mem_erase_persist ops m, fun _ => sql_erase_persist ops rfl rfl rfl rfl⟩

/-- the round trips do something to the machine: migrating a store that has no row yet writes the
defaults, copying a run without a row gives a run without a row -/
example :
    (runStateP Sql.stepP (Sql.init [[("a", .int 0)]] (.typed 0)) [.persist .copyRun]).row = none ∧
    (runStateP Sql.stepP (Sql.init [[("a", .int 0)]] (.typed 0)) [.persist .migrate]).row = some [("a", .int 0)] ∧
    runOutsP Sql.stepP (Sql.init [] .dict)
      [.op (.set "a" (.int 1)), .persist .migrate, .op .getState, .persist .copyRun, .op (.mutSnap "a" (.int 2)),
       .persist .reopen, .op .writeBack, .op (.get "a" none)] =
      [.none, .none, .state ⟨.dict, [("a", .int 1)]⟩, .none, .none, .none, .none, .val (.int 2)] := ⟨rfl, rfl, rfl⟩

/-! ## Source shape of the code paths the machines follow -/

/-- the path helpers, `merge_state` / `clear` and the SQLite methods still have the dispatch the
machines `Mem`, `Sql` (and the walkers `child` / `assign` / `setLoop` / `rootSet`) were written
along — branch order of `traverse_path_step` / `assign_path_step`, exception classes that turn a
missing segment into "create `{}`" or "default", depth test, replace / merge / reject order and the
argument-free dumps of `merge_state`, fresh instance on `clear`, `set` = `edit_state` around
`set_by_path`, first read inserts the row, save = upsert, typed rows dumped with `mode="json"` only
(definitions regenerated from the source by `harness/gen/statestore_shape.py` on every run) -/
theorem C19_source_shape_walkers : walkersShape = true ∧ mergeShape = true ∧ sqliteShape = true := by decide

/-- the shapes are tables, not constants `true`: they talk about these lists -/
example : GenStateStoreShape.traverseDispatch.length = 4 ∧ GenStateStoreShape.mergeBranches.length = 3 ∧
    GenStateStoreShape.setCatches.length ≥ 4 := by decide
