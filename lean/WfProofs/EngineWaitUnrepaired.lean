import WfModel.Runner
/-!
The wait replay **before** the repair "the replay of a step suspended in wait_for_event keeps the
attempt record of the suspended invocation" (`_replay_attempt` in `control_loop.py`,
`rehydrate_with_ticks` in `internal_state.py`), kept as a variant so that `WfProps/C08.lean` and
`WfProps/C05.lean` can state what the repair prevents.

Before the repair the three replay sites built a fresh `EventAttempt(event=waiter.event)`
(`Waiter.replayUnrepaired`): no attempts, no first-attempt time, no last exception, **empty
recovery counts**.  The functions that call the replay (`resolveLoop`, `processWaiterTimeout`,
`rehydrateTicks`) and those above them are re-stated with the replay attempt as a parameter;
instantiating the parameter with the model's `Waiter.replay` gives back the model (`…_model`), so
the copies cannot drift.
-/
namespace Engine

/-- the replay attempt as it was: a fresh attempt for the waiter's event -/
def Waiter.replayUnrepaired (w : Waiter) : Attempt := { ev := w.ev }

/-- `processWaiterTimeout` with the replay attempt as a parameter -/
def processWaiterTimeoutWith (rp : Waiter → Attempt) (cfg : Cfg) (step waiter : Nat) (st : State) (now : Int) :
    State × List Cmd :=
  if !cfg.hasStep step then (st, []) else
  let ss := st.workers step
  match ss.waiters.find? (fun w => w.wid == waiter) with
  | none => (st, [])
  | some w =>
    if w.resolved.isSome then (st, [])
    else
      let ws := modifyFirst (fun x => x.wid == waiter) (fun x => { x with timedOut := true }) ss.waiters
      let r := addOrEnqueue (rp w) step { ss with waiters := ws } (cfg.nw step) now
      (st.set step r.1, r.2)

theorem processWaiterTimeoutWith_model :
    processWaiterTimeoutWith Waiter.replay = processWaiterTimeout := rfl

/-- `resolveLoop` with the replay attempt as a parameter -/
def resolveLoopWith (rp : Waiter → Attempt) (ev : Ev) (step nw : Nat) (now : Int) :
    List Waiter → List Waiter → StepState → List Cmd → Bool → StepState × List Cmd × Bool
  | done, [], ss, cmds, h => ({ ss with waiters := done }, cmds, h)
  | done, w :: rest, ss, cmds, h =>
    if waiterMatches w ev then
      let w' := { w with resolved := some ev }
      let r := addOrEnqueue (rp w) step { ss with waiters := done ++ w' :: rest } nw now
      resolveLoopWith rp ev step nw now (done ++ [w']) rest r.1 (cmds ++ r.2) true
    else resolveLoopWith rp ev step nw now (done ++ [w]) rest ss cmds h

theorem resolveLoopWith_model (ev : Ev) (step nw : Nat) (now : Int) :
    ∀ (rest done : List Waiter) (ss : StepState) (cmds : List Cmd) (h : Bool),
      resolveLoopWith Waiter.replay ev step nw now done rest ss cmds h = resolveLoop ev step nw now done rest ss cmds h
  | [], done, ss, cmds, h => rfl
  | w :: rest, done, ss, cmds, h => by
    unfold resolveLoopWith resolveLoop
    split
    · exact resolveLoopWith_model ev step nw now rest _ _ _ _
    · exact resolveLoopWith_model ev step nw now rest _ _ _ _

/-- `rehydrateTicks` with the replay attempt as a parameter -/
def rehydrateTicksWith (rp : Waiter → Attempt) (cfg : Cfg) (st : State) : List Tick :=
  (sortedSteps cfg).flatMap fun c =>
    (((st.workers c.name).waiters.foldr insertWaiter []).filter (fun w => w.hasReq && w.req.isNone && w.resolved.isNone && !w.timedOut)).map
      fun w => Tick.addEvent (rp w) (some c.name)

theorem rehydrateTicksWith_model : rehydrateTicksWith Waiter.replay = rehydrateTicks := rfl

/-- `reduce` with the waiter-timeout branch as a parameter -/
def reduceWithWaitReplay (rp : Waiter → Attempt) (cfg : Cfg) (pol : Policy) (tick : Tick) (st : State) (now : Int) :
    State × List Cmd :=
  match tick with
  | .waiterTimeout step waiter =>
    let r := processWaiterTimeoutWith rp cfg step waiter st now
    if checkIdle cfg r.1 then (r.1, r.2 ++ [.scheduleIdleCheck]) else r
  | t => reduce cfg pol t st now

theorem reduceWithWaitReplay_model (cfg : Cfg) (pol : Policy) (tick : Tick) (st : State) (now : Int) :
    reduceWithWaitReplay Waiter.replay cfg pol tick st now = reduce cfg pol tick st now := by
  cases tick <;> rfl

/-- the reducer as it was on the waiter-timeout path -/
def reduceWaitUnrepaired := reduceWithWaitReplay Waiter.replayUnrepaired

end Engine
