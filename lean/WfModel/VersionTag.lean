import WfModel.Version
import WfModel.GenVersionTag
/-!
M15b — the tag side of the release tooling: how a git tag `<package>@v<version>`
becomes the two version strings that `detect_change_type` compares
(`src/dev_cli/versioning.py`: `strip_refs_prefix`, `infer_tag_metadata`,
`remove_tag_prefix`, `extract_semver`, `compute_suffix_and_version`;
`src/dev_cli/git_utils.py`: `previous_tag`; composed as the command
`compute-tag-metadata` in `src/dev_cli/cli.py` composes them), and what the publish
side does with a `package.json` version (`current_version` normalisation,
`docker_image_tags`).

Strings are `List Char`.  `none` stands for the `ValueError` the Python function
raises.  The constant `refs/tags/` comes from `Gen.VersionTag` (regenerated on every
run).
-/
namespace Version

/-! ## `str.replace(old, "")`, `str.startswith`, `str.split(sep, 1)` -/

/-- `s.replace(pat, "")` for a non-empty `pat`: scan left to right, drop every
non-overlapping occurrence.  `k` = characters of the current occurrence still to skip. -/
def replGo (pat : List Char) : Nat → List Char → List Char
  | _, [] => []
  | k + 1, _ :: cs => replGo pat k cs
  | 0, c :: cs => if pat.isPrefixOf (c :: cs) then replGo pat (pat.length - 1) cs else c :: replGo pat 0 cs

def removeAll (pat s : List Char) : List Char := replGo pat 0 s

/-- `strip_refs_prefix` -/
def stripRefs (tag : List Char) : List Char :=
  if Gen.VersionTag.refsPrefix.isPrefixOf tag then removeAll Gen.VersionTag.refsPrefix tag else tag

structure TagMeta where
  normalized : List Char
  tagPrefix : List Char
  tagGlob : List Char
deriving DecidableEq, Repr

/-- `infer_tag_metadata`; `none` = `ValueError("Invalid tag …")` -/
def inferTagMetadata (tag : List Char) : Option TagMeta :=
  let n := stripRefs tag
  if !n.contains '@' then none
  else
    let pkg := n.takeWhile (· != '@')
    let suffix := (n.dropWhile (· != '@')).drop 1
    if !(['v'].isPrefixOf suffix) then none
    else some { normalized := n, tagPrefix := pkg ++ ['@'], tagGlob := pkg ++ ['@', 'v', '*'] }

/-- `remove_tag_prefix`; `none` = `ValueError("Tag … does not match expected prefix …")` -/
def removeTagPrefix (tag pre : List Char) : Option (List Char) :=
  if pre = [] then some tag
  else if pre.isPrefixOf tag then some (tag.drop pre.length) else none

/-- `suffix[1:] if suffix.startswith("v") else suffix` (lower-case `v` only) -/
def dropLowerV : List Char → List Char
  | 'v' :: t => t
  | s => s

/-- `extract_semver` -/
def extractSemver (tag pre : List Char) : Option (List Char) :=
  (removeTagPrefix (stripRefs tag) pre).map dropLowerV

/-- `compute_suffix_and_version` -/
def computeSuffixAndVersion (tag pre : List Char) : Option (List Char × List Char) :=
  (removeTagPrefix (stripRefs tag) pre).map fun s => (s, dropLowerV s)

/-- `git_utils.previous_tag`: the entry after the first occurrence of the current
tag in the newest-first list; the newest entry when the current tag is not listed. -/
def previousTag (cur : List Char) (tags : List (List Char)) : Option (List Char) :=
  match tags.dropWhile (· != cur) with
  | _ :: rest => rest.head?
  | [] => tags.head?

/-- what `compute-tag-metadata` writes: `tag_suffix`, `semver`, `change_type` -/
structure TagOut where
  suffix : List Char
  semver : List Char
  change : DRes
deriving DecidableEq, Repr

/-- the body of the `compute-tag-metadata` command on a tag and the newest-first tag
list `git_utils.list_tags` returned; `none` = the command fails (`BadParameter` /
`ValueError`). -/
def tagChange (tag : List Char) (tags : List (List Char)) : Option TagOut :=
  match inferTagMetadata tag with
  | none => none
  | some m =>
    match computeSuffixAndVersion tag m.tagPrefix with
    | none => none
    | some (suffix, semver) =>
      match previousTag m.normalized tags with
      | none => some ⟨suffix, semver, detect semver none⟩
      | some p =>
        if p = [] then some ⟨suffix, semver, detect semver none⟩
        else match extractSemver p m.tagPrefix with
          | none => none
          | some pv => some ⟨suffix, semver, detect semver (some pv)⟩

/-! ## the publish side -/

/-- `str.split(".")` -/
def splitDots : List Char → List (List Char)
  | [] => [[]]
  | c :: cs =>
    match splitDots cs with
    | [] => [[]]  -- unreachable: the result is never empty
    | x :: xs => if c = '.' then [] :: x :: xs else (c :: x) :: xs

/-- the tag parts of `docker_image_tags(image, version, is_rc)` (after `repo:`):
the version itself and, for a final release, `latest` and `major.minor`
(`".".join(version.split(".")[:2])`). -/
def dockerTagParts (version : List Char) (isRcFlag : Bool) : List (List Char) :=
  if isRcFlag then [version]
  else [version, ['l', 'a', 't', 'e', 's', 't'], joinDot ((splitDots version).take 2)]

end Version
