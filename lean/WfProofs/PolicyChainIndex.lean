import WfProofs.PolicyLemmas
/-! C06: which link of a `wait_chain` answers for which attempt number, for all chains and all numbers. -/
set_option linter.unusedVariables false
namespace Policy
open Gen.RP

/-- attempt numbers inside the chain select the link of that (0-based) number and pass the number on -/
theorem c06_waitChain_lt (ws : List Wait) (k : Nat) (u : Rat) (hk : k < ws.length) :
    waitChain ws k u = (ws[k]) k u := by
  unfold waitChain
  have : min k (ws.length - 1) = k := by omega
  rw [this, List.getElem?_eq_getElem hk]

/-- attempt numbers at or past the last link select the last link (and still pass the number on) -/
theorem c06_waitChain_ge (ws : List Wait) (k : Nat) (u : Rat) (hne : ws ≠ []) (hk : ws.length - 1 ≤ k) :
    waitChain ws k u = (ws.getLast hne) k u := by
  unfold waitChain
  have hpos : 0 < ws.length := List.length_pos_iff.mpr hne
  have : min k (ws.length - 1) = ws.length - 1 := by omega
  rw [this, List.getElem?_eq_getElem (by omega), List.getLast_eq_getElem]

/-- for a positive attempt number the head of a chain of at least two links is never consulted -/
theorem c06_waitChain_cons_succ (w0 : Wait) (ws : List Wait) (k : Nat) (u : Rat) (hne : ws ≠ []) :
    waitChain (w0 :: ws) (k + 1) u =
      (match ws[min k (ws.length - 1)]? with | some f => f (k + 1) u | none => 0) := by
  unfold waitChain
  have hpos : 0 < ws.length := List.length_pos_iff.mpr hne
  have : min (k + 1) ((w0 :: ws).length - 1) = min k (ws.length - 1) + 1 := by
    simp only [List.length_cons]; omega
  rw [this, List.getElem?_cons_succ]
  rfl

end Policy
