import WfModel.EventSerial
/-! Helper lemmas for M8: association-list dictionaries. -/
namespace EventSerial

theorem dget_append {α : Type} (a b : List (String × α)) (k : String) :
    dget (a ++ b) k = match dget a k with | some v => some v | none => dget b k := by
  induction a with
  | nil => simp [dget]
  | cons x xs ih =>
    obtain ⟨k', v⟩ := x
    simp only [List.cons_append, dget]
    split <;> simp_all

theorem dget_none_of_not_mem {α : Type} (a : List (String × α)) (k : String) (h : k ∉ keys a) :
    dget a k = none := by
  induction a with
  | nil => simp [dget]
  | cons x xs ih =>
    obtain ⟨k', v⟩ := x
    simp only [keys, List.map_cons, List.mem_cons, not_or] at h
    simp only [dget]
    rw [if_neg (fun e => h.1 e.symm)]
    exact ih (by simpa [keys] using h.2)

theorem dget_append_of_not_mem {α : Type} (a b : List (String × α)) (k : String) (h : k ∉ keys a) :
    dget (a ++ b) k = dget b k := by
  rw [dget_append, dget_none_of_not_mem a k h]

theorem dget_of_mem_nodup {α : Type} (a : List (String × α)) (hn : (keys a).Nodup) (kv : String × α)
    (hm : kv ∈ a) : dget a kv.1 = some kv.2 := by
  induction a with
  | nil => simp at hm
  | cons x xs ih =>
    obtain ⟨k', v⟩ := x
    simp only [keys, List.map_cons, List.nodup_cons] at hn
    simp only [dget]
    rcases List.mem_cons.mp hm with h | h
    · subst h; simp
    · have hne : k' ≠ kv.1 := by
        intro e
        apply hn.1
        rw [e]
        exact List.mem_map_of_mem (f := fun p : String × α => p.1) h
      rw [if_neg hne]
      exact ih hn.2 h

theorem dset_of_not_mem {α : Type} (a : List (String × α)) (k : String) (v : α) (h : k ∉ keys a) :
    dset a k v = a ++ [(k, v)] := by
  induction a with
  | nil => simp [dset]
  | cons x xs ih =>
    obtain ⟨k', v'⟩ := x
    simp only [keys, List.map_cons, List.mem_cons, not_or] at h
    simp only [dset, List.cons_append]
    rw [if_neg (fun e => h.1 e.symm), ih (by simpa [keys] using h.2)]

theorem keys_append {α : Type} (a b : List (String × α)) : keys (a ++ b) = keys a ++ keys b := by
  simp [keys]

theorem dupdate_nil {α : Type} (d : List (String × α)) : dupdate d [] = d := rfl

theorem filter_keys_all {α : Type} (a : List (String × α)) (p : String → Bool) (h : ∀ k ∈ keys a, p k = true) :
    a.filter (fun kv => p kv.1) = a := by
  apply List.filter_eq_self.mpr
  intro kv hm
  exact h kv.1 (List.mem_map_of_mem (f := fun p : String × α => p.1) hm)

theorem filter_keys_none {α : Type} (a : List (String × α)) (p : String → Bool) (h : ∀ k ∈ keys a, p k = false) :
    a.filter (fun kv => p kv.1) = [] := by
  apply List.filter_eq_nil_iff.mpr
  intro kv hm
  have := h kv.1 (List.mem_map_of_mem (f := fun p : String × α => p.1) hm)
  simp [this]

end EventSerial
