import WfModel.IterUtils
/-! Invariants of the `merge_generators` transition system (helper lemmas for C29). -/
namespace IterUtils
open Merge

def slotItem : Option (Slot α) → List α
  | some (.item v) => [v]
  | _ => []

def Phase.rest : Phase α → List (Nat × α)
  | .suspended _ r => r
  | _ => []

theorem proj_append (i : Nat) (a b : List (Nat × α)) : proj i (a ++ b) = proj i a ++ proj i b := by
  simp [proj]

@[simp] theorem proj_nil (i : Nat) : proj i ([] : List (Nat × α)) = [] := rfl

theorem proj_cons (i j : Nat) (v : α) (l : List (Nat × α)) :
    proj i ((j, v) :: l) = (if j = i then [v] else []) ++ proj i l := by
  by_cases h : j = i <;> simp [proj, h]

theorem proj_single (i j : Nat) (v : α) : proj i [(j, v)] = if j = i then [v] else [] := by
  by_cases h : j = i <;> simp [proj, h]

theorem mem_of_mem_proj {i : Nat} {v : α} {l : List (Nat × α)} (h : v ∈ proj i l) : (i, v) ∈ l := by
  simp only [proj, List.mem_filterMap] at h
  obtain ⟨p, hp, hq⟩ := h
  by_cases hpi : p.1 = i
  · simp [hpi] at hq
    have : p = (i, v) := by cases p; simp_all
    exact this ▸ hp
  · simp [hpi] at hq

theorem mem_proj_of_mem {i : Nat} {v : α} {l : List (Nat × α)} (h : (i, v) ∈ l) : v ∈ proj i l := by
  simp only [proj, List.mem_filterMap]
  exact ⟨(i, v), h, by simp⟩

/-! ### the invariant -/

structure Core (slots : List (Slot α)) (errs : List (Nat × Nat)) (ends : List Nat) (exc : Option Nat) : Prop where
  excIn : ∀ e, exc = some e → ∃ i, (i, e) ∈ errs
  errSlot : ∀ i e, (i, e) ∈ errs → slots[i]? = some (.failed e)
  endSlot : ∀ i, (slots[i]? = some .ended ∨ slots[i]? = some .gone) → i ∈ ends
  failSlot : ∀ i e, slots[i]? = some (.failed e) → (i, e) ∈ errs

structure MInv (m : Merge α) : Prop where
  conserve : ∀ i, proj i m.out ++ proj i m.phase.rest ++ proj i m.dropped ++ slotItem m.slots[i]? = proj i m.hist
  idle : ∀ j, m.slots[j]? = some .idle →
    m.stopped = true ∨ (∃ i r, m.phase = .suspended i r ∧ (j = i ∨ j ∈ r.map Prod.fst))
  finExc : ∀ r, m.phase = .finished r → r = m.exc
  finClean : m.phase = .finished none → m.stopped = false → ∀ s ∈ m.slots, s.hasTask = false
  stopFlag : m.stopped = true → m.stopFirst = true
  stopFin : m.stopped = true → ∃ r, m.phase = .finished r
  dropNil : m.stopped = false → m.dropped = []
  waitOk : m.phase = .waiting → m.exc = none ∧ m.stopped = false ∧ m.slots.any Slot.hasTask = true
  core : Core m.slots m.errs m.ends m.exc

/-- state just before `yieldNext` -/
structure PInv (m : Merge α) (rest : List (Nat × α)) : Prop where
  conserve : ∀ i, proj i m.out ++ proj i rest ++ slotItem m.slots[i]? = proj i m.hist
  idle : ∀ j, m.slots[j]? = some .idle → j ∈ rest.map Prod.fst
  notStopped : m.stopped = false
  dropNil : m.dropped = []
  core : Core m.slots m.errs m.ends m.exc

theorem core_set {slots : List (Slot α)} {errs ends exc} (h : Core slots errs ends exc) (i : Nat) (new : Slot α)
    (hold : ∀ e, slots[i]? ≠ some (.failed e))
    (hnew1 : new = .ended ∨ new = .gone → i ∈ ends) (hnew2 : ∀ e, new ≠ .failed e) :
    Core (slots.set i new) errs ends exc := by
  obtain ⟨h1, h2, h3, h4⟩ := h
  constructor
  · exact h1
  · intro k e hk
    have := h2 k e hk
    grind
  · intro k hk
    grind
  · intro k e hk
    grind

theorem init_inv (sf : Bool) (n : Nat) : MInv (Merge.init sf n : Merge α) := by
  constructor
  · intro i
    simp only [Merge.init, List.getElem?_replicate]
    by_cases h : i < n <;> by_cases h0 : n = 0 <;> simp [h, h0, Phase.rest, slotItem]
  · intro j h
    simp only [Merge.init, List.getElem?_replicate] at h
    split at h <;> simp at h
  · intro r h
    simp only [Merge.init] at h ⊢
    split at h <;> simp_all
  · intro h _ s hs
    simp only [Merge.init] at h hs
    split at h
    · subst_vars; simp at hs
    · simp at h
  · intro h; simp [Merge.init] at h
  · intro h; simp [Merge.init] at h
  · intro _; simp [Merge.init]
  · intro h
    simp only [Merge.init] at h ⊢
    split at h
    · simp at h
    · refine ⟨trivial, trivial, ?_⟩
      rw [List.any_eq_true]
      refine ⟨.pending, ?_, rfl⟩
      rw [List.mem_replicate]
      exact ⟨by assumption, rfl⟩
  · constructor
    · intro e h; simp [Merge.init] at h
    · intro i e h; simp [Merge.init] at h
    · intro i h
      simp only [Merge.init, List.getElem?_replicate] at h
      rcases h with h | h <;> (split at h <;> simp at h)
    · intro i e h
      simp only [Merge.init, List.getElem?_replicate] at h
      split at h <;> simp at h

theorem yieldNext_inv {m : Merge α} {rest : List (Nat × α)} (h : PInv m rest) :
    MInv (yieldNext m rest).1 := by
  cases rest with
  | nil =>
    simp only [yieldNext, loopTop]
    have hidle : ∀ j, m.slots[j]? ≠ some Slot.idle := fun j hj => by simpa using h.idle j hj
    split
    · rename_i hc
      simp only [Bool.and_eq_true, Bool.not_eq_true', Option.isNone_iff_eq_none] at hc
      constructor
      · intro i; have := h.conserve i; simpa [Phase.rest, h.dropNil] using this
      · intro j hj; exact absurd hj (hidle j)
      · intro r hr; simp at hr
      · intro hr; simp at hr
      · intro hs; simp [h.notStopped] at hs
      · intro hs; simp [h.notStopped] at hs
      · intro _; exact h.dropNil
      · intro _; exact ⟨hc.1.2, hc.2, hc.1.1⟩
      · exact h.core
    · rename_i hc
      constructor
      · intro i; have := h.conserve i; simpa [Phase.rest, h.dropNil] using this
      · intro j hj; exact absurd hj (hidle j)
      · intro r hr; simp at hr; exact hr.symm
      · intro hr _ s hs
        simp only [Phase.finished.injEq] at hr
        simp only [hr, h.notStopped, Option.isNone_none, Bool.and_true, Bool.not_false,
          Bool.not_eq_true] at hc
        cases hst : s.hasTask with
        | false => rfl
        | true =>
          have : m.slots.any Slot.hasTask = true := List.any_eq_true.mpr ⟨s, hs, hst⟩
          simp [this] at hc
      · intro hs; simp [h.notStopped] at hs
      · intro hs; simp [h.notStopped] at hs
      · intro _; exact h.dropNil
      · intro hr; simp at hr
      · exact h.core
  | cons p rest =>
    obtain ⟨i, v⟩ := p
    simp only [yieldNext]
    constructor
    · intro k
      have := h.conserve k
      simp only [Phase.rest, h.dropNil, proj_append, proj_cons, proj_nil, List.append_nil] at this ⊢
      simpa [List.append_assoc] using this
    · intro j hj
      right
      refine ⟨i, rest, rfl, ?_⟩
      have := h.idle j hj
      simpa using this
    · intro r hr; simp at hr
    · intro hr; simp at hr
    · intro hs; simp [h.notStopped] at hs
    · intro hs; simp [h.notStopped] at hs
    · intro _; exact h.dropNil
    · intro hr; simp at hr
    · exact h.core

/-! ### the `for finished in done` loop -/

structure AInv (m : Merge α) (a : Acc α) : Prop where
  conserve : ∀ i, proj i m.out ++ proj i a.res ++ slotItem a.slots[i]? = proj i m.hist
  idle : ∀ j, a.slots[j]? = some .idle → j ∈ a.res.map Prod.fst
  stopFlag : a.stopped = true → m.stopFirst = true
  core : Core a.slots m.errs m.ends a.exc

theorem collect_inv {m : Merge α} {a : Acc α} (h : AInv m a) (i : Nat) :
    AInv m (collect m.stopFirst a i) := by
  unfold collect
  split
  · exact h
  · split
    · -- item
      rename_i v hs
      have hi : i < a.slots.length := (List.getElem?_eq_some_iff.mp hs).1
      constructor
      · intro k
        have := h.conserve k
        simp only [proj_append, proj_single, List.getElem?_set]
        by_cases hk : i = k
        · subst hk
          simp only [hs, slotItem] at this
          simp [hi, slotItem, ← this]
        · simp [hk, this]
      · intro j hj
        simp only [List.getElem?_set] at hj
        by_cases hk : i = j
        · subst hk; simp
        · simp only [hk, if_false] at hj
          have := h.idle j hj
          simp only [List.map_append, List.mem_append]; exact Or.inl this
      · exact h.stopFlag
      · exact core_set h.core i .idle (by simp [hs]) (by simp) (by simp)
    · -- ended
      rename_i hs
      have hi : i < a.slots.length := (List.getElem?_eq_some_iff.mp hs).1
      split
      · rename_i hsf
        exact ⟨h.conserve, h.idle, fun _ => hsf, h.core⟩
      · constructor
        · intro k
          have := h.conserve k
          simp only [List.getElem?_set]
          by_cases hk : i = k
          · subst hk
            simp only [hs, slotItem] at this
            simp [hi, slotItem, this]
          · simp [hk, this]
        · intro j hj
          simp only [List.getElem?_set] at hj
          by_cases hk : i = j
          · subst hk; simp [hi] at hj
          · simp only [hk, if_false] at hj
            exact h.idle j hj
        · exact h.stopFlag
        · exact core_set h.core i .gone (by simp [hs]) (fun _ => h.core.endSlot i (Or.inl hs)) (by simp)
    · -- failed
      rename_i e hs
      refine ⟨h.conserve, h.idle, h.stopFlag, ?_⟩
      constructor
      · intro e' he'
        simp only [Option.some.injEq] at he'
        subst he'
        exact ⟨i, h.core.failSlot i e hs⟩
      · exact h.core.errSlot
      · exact h.core.endSlot
      · exact h.core.failSlot
    · exact h

theorem foldl_collect_inv {m : Merge α} (order : List Nat) {a : Acc α} (h : AInv m a) :
    AInv m (order.foldl (collect m.stopFirst) a) := by
  induction order generalizing a with
  | nil => exact h
  | cons i is ih => exact ih (collect_inv h i)

/-! ### one action preserves the invariant -/

theorem notFinished_stopped {m : Merge α} (h : MInv m) (hn : m.notFinished = true) : m.stopped = false := by
  cases hs : m.stopped with
  | false => rfl
  | true =>
    obtain ⟨r, hr⟩ := h.stopFin hs
    simp [Merge.notFinished, hr] at hn

/-- replacing a pending slot by a finished task -/
theorem set_pending_inv {m : Merge α} (h : MInv m) (hn : m.notFinished = true) {i : Nat}
    (hs : m.slots[i]? = some .pending) (new : Slot α) (hnew : new.hasTask = true)
    (hist' : List (Nat × α)) (errs' : List (Nat × Nat)) (ends' : List Nat)
    (hh : ∀ k, proj k hist' = proj k m.hist ++ (if k = i then slotItem (some new) else []))
    (hc : Core (m.slots.set i new) errs' ends' m.exc) :
    MInv { m with slots := m.slots.set i new, hist := hist', errs := errs', ends := ends' } := by
  have hi : i < m.slots.length := (List.getElem?_eq_some_iff.mp hs).1
  constructor
  · intro k
    have := h.conserve k
    simp only [List.getElem?_set, hh]
    by_cases hk : i = k
    · subst hk
      simp only [hs, slotItem, List.append_nil] at this
      simp [hi, ← this]
    · have hk' : ¬ k = i := fun e => hk e.symm
      simpa [hk, hk', List.append_assoc] using this
  · intro j hj
    have : m.slots[j]? = some .idle := by
      simp only [List.getElem?_set] at hj
      by_cases hk : i = j
      · subst hk; simp [hi] at hj; subst hj; simp [Slot.hasTask] at hnew
      · simpa [hk] using hj
    exact h.idle j this
  · exact h.finExc
  · intro hf
    have hf' : m.phase = .finished none := hf
    simp [Merge.notFinished, hf'] at hn
  · exact h.stopFlag
  · exact h.stopFin
  · exact h.dropNil
  · intro hw
    obtain ⟨h1, h2, _⟩ := h.waitOk hw
    refine ⟨h1, h2, ?_⟩
    rw [List.any_eq_true]
    exact ⟨new, List.mem_iff_getElem?.mpr ⟨i, by simp [hi]⟩, hnew⟩
  · exact hc

theorem step_inv {m m' : Merge α} {a : Act α} {em : Option (Nat × α)} (h : MInv m)
    (hs : m.step a = some (m', em)) : MInv m' := by
  cases a with
  | prod i v =>
    simp only [Merge.step] at hs
    split at hs
    · rename_i hn
      split at hs
      · rename_i hp
        simp only [Option.some.injEq, Prod.mk.injEq] at hs
        rw [← hs.1]
        apply set_pending_inv h hn hp (.item v) rfl
        · intro k
          by_cases hk : k = i
          · subst hk; simp [proj_append, proj_single, slotItem]
          · have : ¬ i = k := fun e => hk e.symm
            simp [proj_append, proj_single, hk, this]
        · exact core_set h.core i (.item v) (by simp [hp]) (by simp) (by simp)
      · simp at hs
    · simp at hs
  | fin i =>
    simp only [Merge.step] at hs
    split at hs
    · rename_i hn
      split at hs
      · rename_i hp
        simp only [Option.some.injEq, Prod.mk.injEq] at hs
        rw [← hs.1]
        apply set_pending_inv h hn hp .ended rfl
        · intro k; by_cases hk : k = i <;> simp [hk, slotItem]
        · have hc : Core m.slots m.errs (m.ends ++ [i]) m.exc :=
            ⟨h.core.excIn, h.core.errSlot, fun k hk => List.mem_append_left _ (h.core.endSlot k hk), h.core.failSlot⟩
          exact core_set hc i .ended (by simp [hp]) (by simp) (by simp)
      · simp at hs
    · simp at hs
  | err i e =>
    simp only [Merge.step] at hs
    split at hs
    · rename_i hn
      split at hs
      · rename_i hp
        have hi : i < m.slots.length := (List.getElem?_eq_some_iff.mp hp).1
        simp only [Option.some.injEq, Prod.mk.injEq] at hs
        rw [← hs.1]
        apply set_pending_inv h hn hp (.failed e) rfl
        · intro k; by_cases hk : k = i <;> simp [hk, slotItem]
        · obtain ⟨h1, h2, h3, h4⟩ := h.core
          constructor
          · intro e' he'
            obtain ⟨k, hk⟩ := h1 e' he'
            exact ⟨k, List.mem_append_left _ hk⟩
          · intro k e' hk
            simp only [List.mem_append, List.mem_singleton, Prod.mk.injEq] at hk
            rcases hk with hk | ⟨rfl, rfl⟩
            · have := h2 k e' hk
              grind
            · simp [hi]
          · intro k hk
            grind
          · intro k e' hk
            simp only [List.mem_append, List.mem_singleton, Prod.mk.injEq]
            grind
      · simp at hs
    · simp at hs
  | batch order =>
    simp only [Merge.step] at hs
    split at hs
    · rename_i hw
      split at hs
      · obtain ⟨hexc, hstop, _⟩ := h.waitOk hw
        have hdrop := h.dropNil hstop
        have ha0 : AInv m { slots := m.slots, exc := m.exc, stopped := m.stopped } := by
          constructor
          · intro i; have := h.conserve i; simpa [hw, Phase.rest, hdrop] using this
          · intro j hj
            rcases h.idle j hj with hst | ⟨i, r, hp, _⟩
            · simp [hstop] at hst
            · simp [hw] at hp
          · intro hst; simp [hstop] at hst
          · exact h.core
        have ha := foldl_collect_inv order ha0
        generalize order.foldl (collect m.stopFirst) { slots := m.slots, exc := m.exc, stopped := m.stopped } = a at ha hs
        split at hs
        · rename_i hst
          simp only [Option.some.injEq, Prod.mk.injEq] at hs
          rw [← hs.1]
          simp only [loopTop, hst, Bool.not_true, Bool.and_false, Bool.false_eq_true, if_false]
          constructor
          · intro i; have := ha.conserve i; simpa [Phase.rest, hdrop] using this
          · intro j _; exact Or.inl rfl
          · intro r hr; simpa using hr.symm
          · intro _ hc; simp at hc
          · intro _; exact ha.stopFlag hst
          · intro _; exact ⟨_, rfl⟩
          · intro hc; simp at hc
          · intro hc; simp at hc
          · exact ha.core
        · rename_i hst
          simp only [Option.some.injEq] at hs
          have hp : PInv { m with slots := a.slots, exc := a.exc, stopped := a.stopped } a.res :=
            ⟨ha.conserve, ha.idle, by simpa using hst, hdrop, ha.core⟩
          have := yieldNext_inv hp
          rw [hs] at this
          exact this
      · simp at hs
    · simp at hs
  | resume =>
    simp only [Merge.step] at hs
    split at hs
    · rename_i i rest hp
      simp only [Option.some.injEq] at hs
      have hn : m.notFinished = true := by simp [Merge.notFinished, hp]
      have hstop := notFinished_stopped h hn
      have hdrop := h.dropNil hstop
      have hpi : PInv { m with slots := (match m.slots[i]? with
          | some .idle => m.slots.set i .pending
          | _ => m.slots) } rest := by
        split
        · rename_i hidle
          have hi : i < m.slots.length := (List.getElem?_eq_some_iff.mp hidle).1
          constructor
          · intro k
            have := h.conserve k
            simp only [hp, Phase.rest, hdrop, proj_nil, List.append_nil] at this
            simp only [List.getElem?_set]
            by_cases hk : i = k
            · subst hk; simp only [hidle, slotItem] at this; simp [hi, slotItem, this]
            · simp [hk, this]
          · intro j hj
            simp only [List.getElem?_set] at hj
            by_cases hk : i = j
            · subst hk; simp [hi] at hj
            · simp only [hk, if_false] at hj
              rcases h.idle j hj with hst | ⟨i', r, hp', hj'⟩
              · simp [hstop] at hst
              · rw [hp] at hp'
                simp only [Phase.suspended.injEq] at hp'
                obtain ⟨rfl, rfl⟩ := hp'
                rcases hj' with rfl | hj'
                · exact absurd rfl hk
                · exact hj'
          · exact hstop
          · exact hdrop
          · exact core_set h.core i .pending (by simp [hidle]) (by simp) (by simp)
        · rename_i hnidle
          constructor
          · intro k
            have := h.conserve k
            simpa [hp, Phase.rest, hdrop] using this
          · intro j hj
            rcases h.idle j hj with hst | ⟨i', r, hp', hj'⟩
            · simp [hstop] at hst
            · rw [hp] at hp'
              simp only [Phase.suspended.injEq] at hp'
              obtain ⟨rfl, rfl⟩ := hp'
              rcases hj' with rfl | hj'
              · exact absurd hj (hnidle)
              · exact hj'
          · exact hstop
          · exact hdrop
          · exact h.core
      have := yieldNext_inv hpi
      exact Eq.mp (congrArg MInv (congrArg Prod.fst hs)) this
    · simp at hs

theorem exec_inv {m m' : Merge α} (h : MInv m) (acts : List (Act α)) (he : m.exec acts = some m') : MInv m' := by
  induction acts generalizing m with
  | nil => simp only [Merge.exec, Option.some.injEq] at he; exact he ▸ h
  | cons a as ih =>
    simp only [Merge.exec] at he
    split at he
    · rename_i m1 em hs
      exact ih (step_inv h hs) he
    · simp at he

end IterUtils
