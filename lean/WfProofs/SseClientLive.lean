import WfProofs.SseClientRun

/-! The log grows while the client streams (`runLive`), the reconnect cursors that were sent, the
client's own line iterator chunk by chunk, and the text of the cursor on its way to the server. -/

namespace SseClient
open Gen.SseClient

/-! ## chunks -/

variable {brk : Char → Bool}

theorem splitLines_append (a b : List Char) :
    splitLines brk (a ++ b) =
      ((splitLines brk a).1 ++ (splitLines brk ((splitLines brk a).2 ++ b)).1,
       (splitLines brk ((splitLines brk a).2 ++ b)).2) := by
  induction a with
  | nil => simp [splitLines]
  | cons c cs ih =>
    simp only [List.cons_append, splitLines]
    rw [ih]
    by_cases hc : brk c = true
    · simp [hc]
    · simp only [hc, Bool.false_eq_true, if_false]
      cases h1 : (splitLines brk cs).1 with
      | nil =>
        simp only [List.nil_append, List.cons_append, splitLines, hc, Bool.false_eq_true, if_false]
      | cons l ls => simp

theorem splitLines_tail_nobreak : ∀ s : List Char, ∀ c ∈ (splitLines brk s).2, brk c = false := by
  intro s
  induction s with
  | nil => simp [splitLines]
  | cons x xs ih =>
    intro c hc
    simp only [splitLines] at hc
    by_cases hx : brk x = true
    · simp only [hx, if_true] at hc
      exact ih c hc
    · simp only [hx, Bool.false_eq_true, if_false] at hc
      cases h1 : (splitLines brk xs).1 with
      | nil =>
        rw [h1] at hc
        simp only [List.mem_cons] at hc
        rcases hc with rfl | hc
        · simpa using hx
        · exact ih c hc
      | cons l ls =>
        rw [h1] at hc
        exact ih c hc

theorem iterLines_eq : ∀ (chunks : List (List Char)) (buf : List Char), (∀ c ∈ buf, brk c = false) →
    iterLines brk buf chunks = splitLines brk (buf ++ chunks.flatten) := by
  intro chunks
  induction chunks with
  | nil => intro buf h; simp [iterLines, splitLines_nobreak h]
  | cons t ts ih =>
    intro buf h
    simp only [iterLines, feedChunk]
    rw [ih _ (splitLines_tail_nobreak _), List.flatten_cons, ← List.append_assoc, splitLines_append (buf ++ t)]

/-- **chunk boundaries do not matter** -/
theorem chunkedLines_eq (eof : Bool) (chunks : List (List Char)) :
    chunkedLines brk eof chunks =
      (let sp := splitLines brk chunks.flatten
       if eof && !sp.2.isEmpty then sp.1 ++ [sp.2] else sp.1) := by
  simp only [chunkedLines]
  rw [iterLines_eq chunks [] (by simp)]
  simp



theorem pyInt_neg_digits {ds : List Char} (hne : ds ≠ []) (h : ∀ c ∈ ds, AsciiDigit c) :
    pyInt? ('-' :: ds) = some (-((valOf ds : Nat) : Int)) := by
  have htr : Trimmed ('-' :: ds) := by
    constructor
    · intro c hc
      simp at hc
      subst hc
      decide
    · intro c hc
      rw [List.getLast?_cons_of_ne_nil hne] at hc   -- may need a different name
      exact (asciiDigit_facts (h c (List.mem_of_getLast? hc))).2.1
  cases ds with
  | nil => exact absurd rfl hne
  | cons c cs =>
    have hc := asciiDigit_facts (h c (by simp))
    have hcs : ∀ x ∈ cs, AsciiDigit x := fun x hx => h x (by simp [hx])
    unfold pyInt?
    rw [stripInt_of_trimmed htr]
    simp only [List.head?_cons, List.tail_cons, beq_self_eq_true, Bool.true_or, if_true]
    simp only [hc.1, digitsTail_digits cs hcs, Bool.and_self, if_true, filter_digits (c :: cs) h]

theorem pyInt_pyStr (n : Int) : pyInt? (pyStr n) = some n := by
  unfold pyStr
  obtain ⟨h1, h2, h3⟩ := decimal_spec n.natAbs
  by_cases hn : n < 0
  · rw [if_pos hn, pyInt_neg_digits h1 h2, h3]
    congr 1
    omega
  · rw [if_neg hn, pyInt_digits h1 h2, h3]
    congr 1
    omega

theorem pyStr_chars (n : Int) : ∀ c ∈ pyStr n, c = '-' ∨ AsciiDigit c := by
  intro c hc
  unfold pyStr at hc
  obtain ⟨_, h2, _⟩ := decimal_spec n.natAbs
  split at hc
  · simp only [List.mem_cons] at hc
    rcases hc with rfl | hc
    · exact Or.inl rfl
    · exact Or.inr (h2 c hc)
  · exact Or.inr (h2 c hc)

/-! ## what any connection does to the request list and to the queue -/

variable {P : Params} {valid : List Char → Bool}

theorem procLine_out (s : RState) (line : List Char) : ∃ more, (procLine valid s line).out = s.out ++ more := by
  unfold procLine
  split
  · exact ⟨[], by simp⟩
  · simp only
    split
    · exact ⟨[], by simp⟩
    · split
      · exact ⟨[], by simp⟩
      · split
        · split
          · exact ⟨_, rfl⟩
          · exact ⟨[], by simp⟩
        · exact ⟨[], by simp⟩

theorem procLines_out : ∀ (ls : List (List Char)) (s : RState), ∃ more, (procLines valid s ls).out = s.out ++ more := by
  intro ls
  induction ls with
  | nil => intro s; exact ⟨[], by simp [procLines]⟩
  | cons l ls ih =>
    intro s
    obtain ⟨m1, h1⟩ := procLine_out (valid := valid) s l
    obtain ⟨m2, h2⟩ := ih (procLine valid s l)
    refine ⟨m1 ++ m2, ?_⟩
    simp only [procLines, List.foldl_cons] at h2 ⊢
    rw [h2, h1, List.append_assoc]

theorem onStatus_reqs (st : CState) (code : Nat) : (onStatus st code).1.reqs = st.reqs ∧ (onStatus st code).1.out = st.out := by
  unfold onStatus
  split
  · simp
  · split
    · simp
    · split <;> simp

/-- every pass through the loop sends exactly one request, carrying the current `last_sequence` -/
theorem connect_reqs (st : CState) (resp : Resp) (f : Fault) :
    (connect P st resp f).1.reqs = st.reqs ++ [st.last] := by
  cases f <;> cases resp <;> simp only [connect, fail] <;> (repeat' split) <;> simp [(onStatus_reqs _ _).1]

theorem connect_out_extends (st : CState) (resp : Resp) (f : Fault) :
    ∃ more, (connect P st resp f).1.out = st.out ++ more := by
  cases resp with
  | status code =>
    refine ⟨[], ?_⟩
    cases f <;> simp [connect, fail, (onStatus_reqs _ _).2]
  | stream body closes =>
    cases f with
    | refuse => exact ⟨[], by simp [connect, fail]⟩
    | timeoutConn => exact ⟨[], by simp [connect]⟩
    | status code => exact ⟨[], by simp [connect, (onStatus_reqs _ _).2]⟩
    | none =>
      simp only [connect]
      (repeat' split) <;> exact procLines_out _ _
    | dropAt n =>
      simp only [connect, fail]
      (repeat' split) <;> exact procLines_out _ _
    | timeoutAt n =>
      simp only [connect]
      (repeat' split) <;> exact procLines_out _ _

/-! ## cursors -/

theorem lastOf_take_mono {l : List Ev} (h : LogOk l) {c : Int} (hall : ∀ e ∈ l, c < (e.seq : Int)) {k k' : Nat} (hk : k ≤ k') :
    lastOf c (l.take k) ≤ lastOf c (l.take k') := by
  obtain ⟨d, rfl⟩ : ∃ d, k' = k + d := ⟨k' - k, by omega⟩
  rw [List.take_add, lastOf_append]
  apply lastOf_ge
  intro e he
  have he' : e ∈ l.drop k := List.mem_of_mem_take he
  rw [← aft_lastOf_take l h c k hall] at he'
  simpa [aft] using (List.mem_filter.mp he').2

theorem streamLast_emit (c0 : Int) (l : List Ev) (k : Nat) : streamLast c0 (emit l) k = lastOf c0 (l.take k) := by
  unfold streamLast lastOf emit
  rw [← List.map_take, List.getLast?_map]
  cases (l.take k).getLast? <;> rfl

theorem streamLast_append (c0 : Int) (out more : List (Int × List Char)) {k : Nat} (hk : k ≤ out.length) :
    streamLast c0 (out ++ more) k = streamLast c0 out k := by
  unfold streamLast
  rw [List.take_append_of_le_length hk]

/-- the reader's cursor is what the consumer will read as `last_sequence` once everything queued has been yielded -/
def Tracks (c0 : Int) (st : CState) : Prop := st.last = streamLast c0 st.out st.out.length

theorem tracks_of_inv {s : Server} {c0 : Int} {st : CState} (h : Inv s c0 st) : Tracks c0 st := by
  obtain ⟨j, ho, hl⟩ := h
  unfold Tracks
  have hlen : (emit ((vis s c0).take j)).length = ((vis s c0).take j).length := by simp [emit]
  rw [ho, streamLast_emit, hlen, List.take_length, hl]

/-- every request carried the `last_sequence` of some earlier moment of the stream, later requests later moments -/
def ReqsOk (c0 : Int) (st : CState) : Prop :=
  ∃ ks : List Nat, ks.Pairwise (· ≤ ·) ∧ (∀ k ∈ ks, k ≤ st.out.length) ∧ st.reqs = ks.map (streamLast c0 st.out)

theorem reqsOk_step {c0 : Int} {st st' : CState} {more : List (Int × List Char)} (h : ReqsOk c0 st) (ht : Tracks c0 st)
    (hr : st'.reqs = st.reqs ++ [st.last]) (ho : st'.out = st.out ++ more) : ReqsOk c0 st' := by
  obtain ⟨ks, h1, h2, h3⟩ := h
  refine ⟨ks ++ [st.out.length], ?_, ?_, ?_⟩
  · rw [List.pairwise_append]
    refine ⟨h1, by simp, ?_⟩
    intro a ha b hb
    simp at hb
    subst hb
    exact h2 a ha
  · intro k hk
    rw [ho, List.length_append]
    rcases List.mem_append.mp hk with hk | hk
    · have := h2 k hk; omega
    · simp at hk; omega
  · rw [hr, h3, ho, List.map_append]
    congr 1
    · apply List.map_congr_left
      intro k hk
      exact (streamLast_append c0 _ _ (h2 k hk)).symm
    · simp only [List.map_cons, List.map_nil]
      rw [streamLast_append c0 _ _ (Nat.le_refl _), ← ht]

/-! ## a growing log -/

theorem later_of_prefix {s s' : Server} (hp : s.log <+: s'.log) (hv : s.inclInternal = s'.inclInternal) (c : Int) :
    ∃ m, vis s' c = vis s c ++ m := by
  obtain ⟨m, hm⟩ := hp
  have hs : s'.shows = s.shows := by funext e; simp [Server.shows, hv]
  exact ⟨(aft c m).filter s.shows, by simp [vis, Server.later, ← hm, aft, hs]⟩

theorem inv_mono {s s' : Server} {c0 : Int} {st : CState} (hp : s.log <+: s'.log) (hv : s.inclInternal = s'.inclInternal)
    (h : Inv s c0 st) : Inv s' c0 st := by
  obtain ⟨j, ho, hl⟩ := h
  obtain ⟨m, hm⟩ := later_of_prefix hp hv c0
  have key : (vis s c0).take j = (vis s' c0).take (min j (vis s c0).length) := by
    rw [hm, List.take_append_of_le_length (Nat.min_le_right _ _)]
    by_cases hj : j ≤ (vis s c0).length
    · rw [Nat.min_eq_left hj]
    · rw [Nat.min_eq_right (by omega), List.take_of_length_le (by omega), List.take_of_length_le (Nat.le_refl _)]
  exact ⟨_, by rw [ho, key], by rw [hl, key]⟩

theorem logOk_of_prefix {l l' : List Ev} (hp : l <+: l') (h : LogOk l') : LogOk l :=
  List.Pairwise.sublist hp.sublist h

theorem Ctx.of_prefix {s top : Server} (h : Ctx P top) (hp : s.log <+: top.log) : Ctx P s :=
  ⟨h.brk, logOk_of_prefix hp h.log, fun e he => h.evs e (hp.subset he)⟩

/-- **Safety for every script over a growing log**: what has been queued is a prefix of the events
pending in the final log, `last` is the sequence of the last one queued, no validation error; the
requests sent so far keep their invariant, one request per scripted connection at most. -/
theorem runLive_inv {top : Server} (h : Ctx P top) (c0 : Int) : ∀ (script : List (Server × Conn)) (st : CState) (prev : Server),
    Inv prev c0 st → prev.log <+: top.log → prev.inclInternal = top.inclInternal → (∀ s ∈ script, prev.log <+: s.1.log) →
    (script.map (·.1.log)).Pairwise (· <+: ·) → (∀ s ∈ script, s.1.log <+: top.log) →
    (∀ s ∈ script, s.1.inclInternal = top.inclInternal) → (∀ s ∈ script, s.2.raw = none) →
    Inv top c0 (runLive P st script).1 ∧ (runLive P st script).2 ≠ .errParse ∧
    (ReqsOk c0 st → ReqsOk c0 (runLive P st script).1) ∧
    (runLive P st script).1.reqs.length ≤ st.reqs.length + script.length := by
  intro script
  induction script with
  | nil => intro st prev hinv hpt hpv _ _ _ _ _; exact ⟨inv_mono hpt hpv hinv, by simp [runLive], fun hq => hq, by simp [runLive]⟩
  | cons sc rest ih =>
    intro st prev hinv hpt hpv hprev hchain hbelow hview hraw
    obtain ⟨s, c⟩ := sc
    have hc : c.raw = none := hraw (s, c) (by simp)
    have hs_top : s.log <+: top.log := hbelow (s, c) (by simp)
    have hs_v : s.inclInternal = top.inclInternal := hview (s, c) (by simp)
    have hinv_s : Inv s c0 st := inv_mono (hprev (s, c) (by simp)) (hpv.trans hs_v.symm) hinv
    have hstep := connect_inv (h.of_prefix hs_top) c0 st hinv_s c.hb c.fault
    have hreqs := connect_reqs (P := P) st (s.serve st.last c.hb) c.fault
    obtain ⟨more, hout⟩ := connect_out_extends (P := P) st (s.serve st.last c.hb) c.fault
    simp only [List.map_cons, List.pairwise_cons] at hchain
    unfold runLive
    simp only [respFor, hc, Option.getD_none]
    cases hr : connect P st (s.serve st.last c.hb) c.fault with
    | mk st' r =>
      rw [hr] at hstep hreqs hout
      simp only at hreqs hout
      have hq : ReqsOk c0 st → ReqsOk c0 st' := fun hq => reqsOk_step hq (tracks_of_inv hinv_s) hreqs hout
      cases r with
      | some r =>
        refine ⟨inv_mono hs_top hs_v hstep.1, ?_, hq, ?_⟩
        · intro he
          simp only at he
          exact hstep.2 (by simp [he])
        · simp only [hreqs, List.length_append, List.length_cons, List.length_nil]
          omega
      | none =>
        obtain ⟨g1, g2, g3, g4⟩ := ih st' s hstep.1 hs_top hs_v
          (fun x hx => hchain.1 x.1.log (List.mem_map.mpr ⟨x, hx, rfl⟩)) hchain.2
          (fun x hx => hbelow x (by simp [hx])) (fun x hx => hview x (by simp [hx])) (fun x hx => hraw x (by simp [hx]))
        refine ⟨g1, g2, fun hq0 => g3 (hq hq0), ?_⟩
        simp only [hreqs, List.length_append, List.length_cons, List.length_nil] at g4
        simp only [List.length_cons]
        omega

theorem prefix_terminal_full {l L : List Ev} (hp : l <+: L) (hL : LogOk L) {t : Ev} (hlast : l.getLast? = some t)
    (ht : t.terminal = true) : l = L := by
  obtain ⟨m, rfl⟩ := hp
  cases m with
  | nil => simp
  | cons x xs =>
    have := (List.pairwise_append.mp hL).2.2 t (List.mem_of_getLast? hlast) x (by simp)
    rw [this.2] at ht
    exact absurd ht (by simp)

theorem complete_settled {s top : Server} (hp : s.log <+: top.log) (hL : LogOk top.log)
    (hs : s.statusDone = true → s.log = top.log) (hc : s.complete = true) : s.log = top.log := by
  unfold Server.complete at hc
  cases hsd : s.statusDone with
  | true => exact hs hsd
  | false =>
    rw [hsd, Bool.false_or] at hc
    cases hl : s.log.getLast? with
    | none => rw [hl] at hc; exact absurd hc (by simp)
    | some t =>
      rw [hl] at hc
      exact prefix_terminal_full hp hL hl hc

/-- one refused or dropped connection within the budget: either the loop goes round again with the
invariant kept and the counter moved as `Fault.counter` says, or the server answered 204 to a
complete run and everything has been delivered -/
theorem drop_step {s : Server} (h : Ctx P s) (c0 : Int) (st : CState) (hinv : Inv s c0 st) (c : Conn)
    (hraw : c.raw = none) (hf : c.fault = .refuse ∨ ∃ n, c.fault = .dropAt n)
    (hb : c.fault.counter st.attempts ≤ P.maxR) :
    ((connect P st (respFor s st c) c.fault).2 = none ∧ Inv s c0 (connect P st (respFor s st c) c.fault).1 ∧
      (connect P st (respFor s st c) c.fault).1.attempts = c.fault.counter st.attempts) ∨
    ((connect P st (respFor s st c) c.fault).2 = some .done ∧ s.complete = true ∧
      (connect P st (respFor s st c) c.fault).1.out = emit (vis s c0) ∧
      (connect P st (respFor s st c) c.fault).1.last = lastOf c0 (vis s c0)) := by
  obtain ⟨j, ho, hl⟩ := hinv
  simp only [respFor, hraw, Option.getD_none]
  rcases serve_cases h c0 st j hl c.hb with ⟨hs, hd, hcomp⟩ | ⟨hs, _⟩
  · rw [hs]
    obtain ⟨h1, h2, _, h4, h5⟩ := connect_204 (P := P) st c.fault
    rcases hf with hf | ⟨n, hf⟩
    · left
      obtain ⟨ha, hr2⟩ := h5 hf
      have hle : st.attempts + 1 ≤ P.maxR := by simpa [hf, Fault.counter] using hb
      have hnot : ¬ (st.attempts + 1 > P.maxR) := by omega
      rw [if_neg hnot] at hr2
      exact ⟨hr2, ⟨j, by rw [h1, ho], by rw [h2, hl]⟩, by rw [ha, hf]; rfl⟩
    · right
      obtain ⟨g1, g2⟩ := inv_full ho hl hd
      exact ⟨h4 (Or.inr ⟨n, hf⟩), hcomp, by rw [h1, g1], by rw [h2, g2]⟩
  · rw [hs]
    left
    have hok : EvsOk P ((vis s c0).drop j) := fun e he => h.later_ok c0 e (List.mem_of_mem_drop he)
    obtain ⟨j', _, h1, h2, _, _, h5, h6⟩ :=
      connect_stream h.brk st _ c.hb ((s.later st.last).any (·.terminal)) hok c.fault
    obtain ⟨g1, g2⟩ := inv_extend ho hl h1 h2
    rcases hf with hf | ⟨n, hf⟩
    · obtain ⟨ha, hr2⟩ := h6 hf
      have hle : st.attempts + 1 ≤ P.maxR := by simpa [hf, Fault.counter] using hb
      have hnot : ¬ (st.attempts + 1 > P.maxR) := by omega
      rw [if_neg hnot] at hr2
      exact ⟨hr2, ⟨j + j', g1, g2⟩, by rw [ha, hf]; rfl⟩
    · obtain ⟨ha, hr2⟩ := h5 n hf
      have hle : 1 ≤ P.maxR := by simpa [hf, Fault.counter] using hb
      have hnot : ¬ (1 > P.maxR) := by omega
      rw [if_neg hnot] at hr2
      exact ⟨hr2, ⟨j + j', g1, g2⟩, by rw [ha, hf]; rfl⟩

theorem runLive_single (st : CState) (top : Server) (c : Conn) : runLive P st [(top, c)] = run P top st [c] := by
  simp only [runLive, run]

/-- **Exactly once over a growing log.** -/
theorem runLive_exact {top : Server} (h : Ctx P top) (c0 : Int) (fin : List Nat) :
    ∀ (script : List (Server × Conn)) (st : CState) (prev : Server),
    Inv prev c0 st → prev.log <+: top.log → prev.inclInternal = top.inclInternal → (∀ s ∈ script, prev.log <+: s.1.log) →
    (script.map (·.1.log)).Pairwise (· <+: ·) → (∀ s ∈ script, s.1.log <+: top.log) →
    (∀ s ∈ script, s.1.inclInternal = top.inclInternal) →
    (∀ s ∈ script, s.1.statusDone = true → s.1.log = top.log) →
    DropsOnly (script.map (·.2)) → peakFailures st.attempts (script.map (·.2.fault)) ≤ P.maxR →
    (runLive P st (script ++ [(top, { fault := .none, hb := fin })])).1.out = emit (vis top c0) ∧
    (runLive P st (script ++ [(top, { fault := .none, hb := fin })])).1.last = lastOf c0 (vis top c0) ∧
    ((runLive P st (script ++ [(top, { fault := .none, hb := fin })])).2 = .done ∨
      (runLive P st (script ++ [(top, { fault := .none, hb := fin })])).2 = .pending) ∧
    (top.log.any (·.terminal) = true → (runLive P st (script ++ [(top, { fault := .none, hb := fin })])).2 = .done) := by
  intro script
  induction script with
  | nil =>
    intro st prev hinv hpt hpv _ _ _ _ _ _ hbud
    rw [List.nil_append, runLive_single]
    exact run_exact h c0 fin [] st (by simp [DropsOnly]) (inv_mono hpt hpv hinv) hbud
  | cons sc rest ih =>
    intro st prev hinv hpt hpv hprev hchain hbelow hview hsettled hdrops hbud
    obtain ⟨s, c⟩ := sc
    have hs_top : s.log <+: top.log := hbelow (s, c) (by simp)
    have hs_v : s.inclInternal = top.inclInternal := hview (s, c) (by simp)
    have hinv_s : Inv s c0 st := inv_mono (hprev (s, c) (by simp)) (hpv.trans hs_v.symm) hinv
    obtain ⟨hraw, hfault⟩ := hdrops c (by simp)
    simp only [List.map_cons] at hbud hchain
    obtain ⟨hb1, hb2⟩ := peak_cons hbud
    have hchain' := List.pairwise_cons.mp hchain
    have hstep := drop_step (h.of_prefix hs_top) c0 st hinv_s c hraw hfault hb1
    simp only [List.cons_append, runLive]
    cases hr : connect P st (respFor s st c) c.fault with
    | mk st' r =>
      rw [hr] at hstep
      simp only at hstep
      rcases hstep with ⟨hnone, hinv', hatt⟩ | ⟨hdone, hcomp, ho, hl⟩
      · subst hnone
        simp only
        apply ih st' s hinv' hs_top hs_v _ hchain'.2 (fun x hx => hbelow x (by simp [hx]))
          (fun x hx => hview x (by simp [hx])) (fun x hx => hsettled x (by simp [hx])) (fun x hx => hdrops x (by simp [hx]))
        · rw [hatt]; exact hb2
        · intro x hx
          exact hchain'.1 x.1.log (List.mem_map.mpr ⟨x, hx, rfl⟩)
      · subst hdone
        have hfull : s.log = top.log := complete_settled hs_top h.log (hsettled (s, c) (by simp)) hcomp
        have hlat : vis s c0 = vis top c0 := by simp [vis, Server.later, Server.shows, hfull, hs_v]
        simp only
        exact ⟨by rw [ho, hlat], by rw [hl, hlat], by simp, by simp⟩

/-! ## the fixed log is the constant history -/

theorem run_eq_runLive (srv : Server) : ∀ (conns : List Conn) (st : CState),
    run P srv st conns = runLive P st (conns.map fun c => (srv, c)) := by
  intro conns
  induction conns with
  | nil => intro st; rfl
  | cons c cs ih =>
    intro st
    simp only [run, List.map_cons, runLive]
    cases connect P st (respFor srv st c) c.fault with
    | mk st' r =>
      cases r with
      | some r => rfl
      | none => exact ih st'

/-! ## the list of requests only grows, and starts with the current cursor -/

theorem runLive_reqs_extends : ∀ (script : List (Server × Conn)) (st : CState),
    ∃ more, (runLive P st script).1.reqs = st.reqs ++ more := by
  intro script
  induction script with
  | nil => intro st; exact ⟨[], by simp [runLive]⟩
  | cons sc rest ih =>
    intro st
    obtain ⟨s, c⟩ := sc
    have hreqs := connect_reqs (P := P) st (respFor s st c) c.fault
    unfold runLive
    cases hr : connect P st (respFor s st c) c.fault with
    | mk st' r =>
      rw [hr] at hreqs
      simp only at hreqs
      cases r with
      | some r => exact ⟨[st.last], hreqs⟩
      | none =>
        obtain ⟨more, hm⟩ := ih st'
        exact ⟨st.last :: more, by simp only; rw [hm, hreqs, List.append_assoc]; rfl⟩

theorem runLive_reqs_head (script : List (Server × Conn)) (hne : script ≠ []) (st : CState) (hst : st.reqs = []) :
    (runLive P st script).1.reqs.head? = some st.last := by
  cases script with
  | nil => exact absurd rfl hne
  | cons sc rest =>
    obtain ⟨s, c⟩ := sc
    have hreqs := connect_reqs (P := P) st (respFor s st c) c.fault
    unfold runLive
    cases hr : connect P st (respFor s st c) c.fault with
    | mk st' r =>
      rw [hr] at hreqs
      simp only at hreqs
      cases r with
      | some r => simp only; rw [hreqs, hst]; rfl
      | none =>
        obtain ⟨more, hm⟩ := runLive_reqs_extends (P := P) rest st'
        simp only
        rw [hm, hreqs, hst]
        rfl

/-- the values of an ordered list of moments of a sorted stream are ordered -/
theorem reqs_monotone {l : List Ev} (hl : LogOk l) {c0 : Int} (hall : ∀ e ∈ l, c0 < (e.seq : Int)) {ks : List Nat}
    (hks : ks.Pairwise (· ≤ ·)) : (ks.map (streamLast c0 (emit l))).Pairwise (· ≤ ·) := by
  rw [List.pairwise_map]
  refine hks.imp ?_
  intro a b hab
  rw [streamLast_emit, streamLast_emit]
  exact lastOf_take_mono hl hall hab

end SseClient
