"""C02 — every emitted event reaches each accepting step exactly once."""
from __future__ import annotations

from ..engine import monitors, suite
from ..runner import Env, Outcome

THEOREMS = ["C02_engine_source_shape", "C02_route_count", "C02_never_unaccepted", "C02_target_only", "C02_waiter_gets_result",
            "C02_unhandled_iff", "C02_outputs_requeued", "C02_queue_command_buffers_once",
            # whole runs of the runner LTS: tick conservation (no loss, no duplication up to the reducer)
            "C02_ticks_conserved", "C02_ticks_conserved_from", "C02_event_reduced_at_most_once_per_creation",
            "C02_unreduced_tick_still_pending", "C02_ended_run_is_frozen", "C02_step_output_reaches_reducer",
            "C02_stop_result_ends_run", "C02_buffered_tick_reaches_reducer",
            # the delivery is made: a queued event waits only for a worker (one reduction, whole runs), and a freed worker
            # goes to the queue head first, in order, whatever made the invocation give it back
            "C02_queued_event_waits_only_for_a_worker", "C02_accepted_event_started_as_soon_as_a_worker_is_free",
            "C02_step_result_hands_queue_over_in_order"]
LEAN_TARGETS = ["WfProps.C02"]
EXPLANATION = (
    "Lean: for every state (with the C01 invariant), every event, target and clock, the add-event tick changes the "
    "number of attempts each step holds by exactly `recipients`: one replay per matching waiter of an addressed step "
    "(which then carry the event as wait result and are not routed to as well), else 1 iff the exact type is accepted "
    "and the step is the target (or no target), else 0; UnhandledEvent is published iff nobody received it and it is "
    "not an InputRequiredEvent, exactly once; step outputs are re-queued exactly once with the lineage's recovery "
    "counts and buffered once by the runner; in every state of every run that has not ended a step holding a queued event has "
    "all its workers taken, and a step-result reduction starts a prefix of the queue in order on the freed worker, whether the "
    "invocation completed, suspended in wait_for_event, failed into a retry or into a handler. Tie: reducer/runner correspondence. "
    "Search: recipients per add-event tick recomputed from the static graph on real runs, ctx.send_event -> mailbox 1:1 with "
    "target, never-unaccepted; every delivery owed is made (CommandRunWorker / step entry) as soon as the step has a free worker, "
    "tracked from the reducer's inputs and commands on saturated steps."
)
ASSUMPTIONS = suite.ENGINE_ASSUMPTIONS + [
    "'unless the run ends first': ticks still in the buffer/mailbox when an exit command is processed are dropped by design",
    "fixed in this tree (F09/F10): resolved waiters are skipped and the target is honoured when matching waiters",
]


def run(env: Env) -> Outcome:
    out = Outcome()
    out.rule = ("direct (state,tick) pairs + live scripted workflows (fan-out via send_event, targeted sends, external sends, waiters, saturated "
                "steps whose invocations suspend / fail into a retry / fail into a handler with events queued behind them); "
                "non-trivial = more than 2 ticks; distinct by (spec, schedule)")
    case = (env.replay or {}).get("payload", {}).get("case") if env.replay is not None else None
    if isinstance(case, dict) and "direct_pair" in case:
        # a (state, tick) pair of the direct stream: regenerated from its generator seed, monitored alone
        dp = case["direct_pair"]
        suite.direct_corr(env, out, dp["index"] + 1, gen_kwargs=dp.get("gen_kwargs") or {}, pair_monitor=monitors.c02_pair_handover,
                          gen_seed=dp["gen_seed"], only_index=dp["index"])
    # the corpus (hand-picked minimal sequences) and a replayed live case run first
    suite.live_runs(env, out, 0, [monitors.mon_c02], extra_specs=suite.load_corpus("C02"))
    suite.direct_corr(env, out, env.budget(3000, 60000), pair_monitor=monitors.c02_pair_handover)
    suite.live_runs(env, out, env.budget(400, 8000), [monitors.mon_c02])
    # waits: responses that are duplicates / non-matching / early / late; request-reply waits that differ only in the requirement value
    suite.live_runs(env, out, env.budget(250, 5000), [monitors.mon_c02], gen_kwargs={"family": "wait"})
    # saturated steps whose running invocations give their worker back without a step result (suspend in wait_for_event, fail into a
    # delayed retry, fail for good into a @catch_error handler) while later events sit in the queue: the hand-over of the freed worker
    suite.live_runs(env, out, env.budget(50, 1000), [monitors.mon_c02], gen_kwargs={"family": "handover"})
    return out
