import WfModel.GenHandlerStore
/-!
# M4b — persistent handler stores (property C24)

Executable model of

* `abstract_workflow_store.py`: `HandlerQuery`, `PersistentHandler` (the fields a query can
  filter on plus the payload fields an upsert must carry), `update_handler_status`;
* `memory_workflow_store.py`: `_matches_query`, `query`, `update`, `delete`,
  `_evict_oldest_completed` with the terminal-id queue (an insertion-ordered set);
* `sqlite/sqlite_workflow_store.py`: `_build_filters` (→ `none` or a list of WHERE clauses),
  `query`, `update` (upsert), `delete`, with SQL's three-valued logic for `IN`, `IS NULL`.

Strings (`handler_id`, `run_id`, `workflow_name`, error text) are abstract tokens (`Nat`): only
equality is ever used.  Statuses are indices into `Gen.HandlerStore.statusNames`; larger
numbers stand for strings that are no status.  Timestamps are abstract naturals.

Which attribute each filter tests, the empty-list behaviour, the `IS [NOT] NULL` polarity and the
terminal set are **not written here**: they are read from `Gen.HandlerStore`, regenerated from the
sources on every run.  The table of a store is a list in insertion order (Python `dict` order /
SQLite rowid order): an upsert of an existing id keeps its place, a new id goes to the end.
-/

namespace HandlerStore

open Gen.HandlerStore

/-- `PersistentHandler` -/
structure Handler where
  handlerId : Nat
  workflowName : Nat
  status : Nat
  runId : Option Nat := none
  error : Option Nat := none
  result : Option Nat := none
  startedAt : Option Nat := none
  updatedAt : Option Nat := none
  completedAt : Option Nat := none
  idleSince : Option Nat := none
  deriving DecidableEq, Repr, Inhabited

/-- `HandlerQuery`: `none` = no filter, `some []` = a filter nothing can pass -/
structure Query where
  handlerIdIn : Option (List Nat) := none
  runIdIn : Option (List Nat) := none
  workflowNameIn : Option (List Nat) := none
  statusIn : Option (List Nat) := none
  isIdle : Option Bool := none
  deriving DecidableEq, Repr, Inhabited

/-- list-valued query field by index (`Gen.HandlerStore.fieldNames`) -/
def Query.field (q : Query) : Nat → Option (List Nat)
  | 0 => q.handlerIdIn
  | 1 => q.runIdIn
  | 2 => q.workflowNameIn
  | 3 => q.statusIn
  | _ => none

/-- handler attribute / table column by index (`Gen.HandlerStore.attrNames`);
`none` is Python `None` / SQL `NULL` -/
def Handler.col (h : Handler) : Nat → Option Nat
  | 0 => some h.handlerId
  | 1 => h.runId
  | 2 => some h.workflowName
  | 3 => some h.status
  | 4 => h.idleSince
  | _ => none

/-- `is_terminal_status` -/
def isTerminal (status : Nat) : Bool := terminalFlags.getD status false

/-- does `update_handler_status(status=…)` stamp `completed_at`? -/
def stampsCompleted (status : Nat) : Bool := completedAtFlags.getD status false

def Handler.terminal (h : Handler) : Bool := isTerminal h.status

/-! ## in-memory matching (`_matches_query`) -/

/-- one `if query.F is not None:` block; `false` = the block returns `False` -/
def memInOk (h : Handler) (q : Query) (f : Nat × Nat × Bool) : Bool :=
  match q.field f.1 with
  | none => true
  | some vs =>
    if f.2.2 && vs.isEmpty then false
    else match h.col f.2.1 with
      | none => false            -- `None not in [str, …]`
      | some v => vs.contains v

def memIdleOk (h : Handler) (q : Query) : Bool :=
  match q.isIdle, memIdle with
  | none, _ => true
  | some _, none => true
  | some b, some (a, notNone) =>
    let handlerIsIdle := if notNone then (h.col a).isSome else (h.col a).isNone
    b == handlerIsIdle

def memMatches (h : Handler) (q : Query) : Bool :=
  memIn.all (memInOk h q) && memIdleOk h q && memFallsThroughTrue

/-! ## SQLite filters (`_build_filters`) and their evaluation -/

inductive Clause where
  | inList (col : Nat) (vals : List Nat)     -- `col IN (?,…,?)`
  | isNull (col : Nat)
  | isNotNull (col : Nat)
  deriving DecidableEq, Repr

/-- the `*_in` part of `_build_filters`; `none` = the function returned `None` -/
def sqlInClauses (q : Query) : List (Nat × Nat × Bool) → Option (List Clause)
  | [] => some []
  | f :: fs =>
    match q.field f.1 with
    | none => sqlInClauses q fs
    | some vs =>
      if f.2.2 && vs.isEmpty then none
      else (sqlInClauses q fs).map (Clause.inList f.2.1 vs :: ·)

def nullClause (c : Nat × Bool) : Clause := if c.2 then .isNotNull c.1 else .isNull c.1

def sqlIdleClauses (q : Query) : List Clause :=
  match q.isIdle with
  | none => []
  | some true => (sqlIdleTrue.map nullClause).toList
  | some false => (sqlIdleFalse.map nullClause).toList

def sqlFilters (q : Query) : Option (List Clause) :=
  (sqlInClauses q sqlIn).map (· ++ sqlIdleClauses q)

/-- SQL truth value of one clause on one row (`none` = NULL).  `x IN ()` is false even for a
NULL `x`; the parameters are never NULL. -/
def Clause.eval (h : Handler) : Clause → Option Bool
  | .inList c vs =>
    if vs.isEmpty then some false
    else match h.col c with
      | none => none
      | some v => some (vs.contains v)
  | .isNull c => some (h.col c).isNone
  | .isNotNull c => some (h.col c).isSome

/-- a row is selected iff the conjunction is TRUE (not FALSE, not NULL) -/
def whereTrue (h : Handler) (cs : List Clause) : Bool := cs.all (fun c => c.eval h == some true)

/-- as a predicate on rows; `none` filters select nothing -/
def sqlMatches (h : Handler) (q : Query) : Bool :=
  match sqlFilters q with
  | none => false
  | some cs => whereTrue h cs

/-! ## stores -/

inductive Backend where
  | mem (maxCompleted : Option Nat)
  | sql
  deriving DecidableEq, Repr

structure Store where
  backend : Backend
  rows : List Handler := []
  /-- `MemoryWorkflowStore._terminal_queue`, oldest first (unused by the SQLite store) -/
  queue : List Nat := []
  deriving Repr

def Store.init (b : Backend) : Store := { backend := b }

/-- `MemoryWorkflowStore(max_completed=v)`: `none` = the constructor raises `ValueError`.  (Without
the guard a negative bound would make `len(queue) > max_completed` always true: every completion is
evicted at once, as with `0`.) -/
def Store.initMem? (maxCompleted : Option Int) : Option Store :=
  match maxCompleted with
  | none => some (Store.init (.mem none))
  | some v =>
    if v < 0 then (if memNegativeMaxRaises then none else some (Store.init (.mem (some 0))))
    else some (Store.init (.mem (some v.toNat)))

/-- `MemoryWorkflowStore()` -/
def Store.initMemDefault? : Option Store := Store.initMem? memMaxCompletedDefault

def hasId (rows : List Handler) (id : Nat) : Bool := rows.any (·.handlerId == id)

/-- `handlers[id] = h` / `INSERT … ON CONFLICT(handler_id) DO UPDATE` -/
def upsert (rows : List Handler) (h : Handler) : List Handler :=
  if hasId rows h.handlerId then rows.map (fun r => if r.handlerId == h.handlerId then h else r)
  else rows ++ [h]

def removeId (rows : List Handler) (id : Nat) : List Handler := rows.filter (·.handlerId != id)

/-- `query` -/
def Store.query (s : Store) (q : Query) : List Handler :=
  match s.backend with
  | .mem _ => s.rows.filter (memMatches · q)
  | .sql =>
    match sqlFilters q with
    | none => []
    | some cs => s.rows.filter (whereTrue · cs)

/-- the `while len(queue) > max_completed` loop of `_evict_oldest_completed` -/
def evict (max : Nat) (rows : List Handler) : List Nat → List Handler × List Nat
  | [] => (rows, [])
  | id :: q =>
    if (id :: q).length > max then
      match rows.find? (·.handlerId == id) with
      | none => evict max rows q                       -- already removed: skip
      | some h =>
        if !h.terminal then evict max rows q           -- stale entry: skip
        else evict max (removeId rows id) q
    else (rows, id :: q)

/-- `update` -/
def Store.update (s : Store) (h : Handler) : Store :=
  match s.backend with
  | .sql => { s with rows := upsert s.rows h }
  | .mem max =>
    let rows := upsert s.rows h
    if h.terminal then
      let queue := if s.queue.contains h.handlerId then s.queue else s.queue ++ [h.handlerId]
      match max with
      | none => { s with rows := rows, queue := queue }
      | some m => let r := evict m rows queue; { s with rows := r.1, queue := r.2 }
    else { s with rows := rows, queue := s.queue.erase h.handlerId }

/-- has the query at least one filter (a list, possibly empty, or `is_idle`)? -/
def Query.hasFilter (q : Query) : Bool :=
  q.handlerIdIn.isSome || q.runIdIn.isSome || q.workflowNameIn.isSome || q.statusIn.isSome || q.isIdle.isSome

/-- `delete`: new store and the returned count -/
def Store.delete (s : Store) (q : Query) : Store × Nat :=
  match s.backend with
  | .mem _ =>
    let gone := s.rows.filter (memMatches · q)
    ({ s with rows := s.rows.filter (fun r => !memMatches r q),
              queue := s.queue.filter (fun id => !(gone.any (·.handlerId == id))) }, gone.length)
  | .sql =>
    match sqlFilters q with
    | none => (s, 0)
    | some cs =>
      if cs.isEmpty && sqlDeleteNoClausesIsZero then (s, 0)
      else ({ s with rows := s.rows.filter (fun r => !whereTrue r cs) }, (s.rows.filter (whereTrue · cs)).length)

/-- the `idle_since` argument of `update_handler_status` -/
inductive IdleArg where
  | unset
  | set (v : Option Nat)
  deriving DecidableEq, Repr

structure StatusUpdate where
  runId : Nat
  status : Option Nat := none
  result : Option Nat := none
  error : Option Nat := none
  idle : IdleArg := .unset
  now : Nat := 0
  deriving Repr

/-- the handler `update_handler_status` writes back, given the one it found -/
def StatusUpdate.apply (u : StatusUpdate) (h : Handler) : Handler :=
  { h with
    status := u.status.getD h.status
    updatedAt := some u.now
    completedAt := match u.status with
      | some st => if stampsCompleted st then some u.now else h.completedAt
      | none => h.completedAt
    result := match u.result with | some r => some r | none => h.result
    error := match u.error with | some e => some e | none => h.error
    idleSince := match u.idle with | .unset => h.idleSince | .set v => v }

/-- `update_handler_status`: first handler with that run id (table order), or nothing -/
def Store.updateStatus (s : Store) (u : StatusUpdate) : Store :=
  match s.query { runIdIn := some [u.runId] } with
  | [] => s
  | h :: _ => s.update (u.apply h)

inductive Op where
  | update (h : Handler)
  | status (u : StatusUpdate)
  | query (q : Query)
  | delete (q : Query)
  deriving Repr

inductive Out where
  | ok
  | rows (hs : List Handler)
  | count (n : Nat)
  deriving Repr

def Store.step (s : Store) : Op → Store × Out
  | .update h => (s.update h, .ok)
  | .status u => (s.updateStatus u, .ok)
  | .query q => (s, .rows (s.query q))
  | .delete q => let r := s.delete q; (r.1, .count r.2)

def Store.run (s : Store) (ops : List Op) : Store := ops.foldl (fun s op => (s.step op).1) s

/-- all outputs of a run, in order -/
def Store.outs (s : Store) : List Op → List Out
  | [] => []
  | op :: ops => let r := s.step op; r.2 :: Store.outs r.1 ops

/-! ## declarative reading of a query -/

/-- `h` passes every filter that is given -/
def Matches (h : Handler) (q : Query) : Prop :=
  (∀ vs, q.handlerIdIn = some vs → h.handlerId ∈ vs) ∧
  (∀ vs, q.runIdIn = some vs → ∃ r, h.runId = some r ∧ r ∈ vs) ∧
  (∀ vs, q.workflowNameIn = some vs → h.workflowName ∈ vs) ∧
  (∀ vs, q.statusIn = some vs → h.status ∈ vs) ∧
  (∀ b, q.isIdle = some b → h.idleSince.isSome = b)

end HandlerStore
