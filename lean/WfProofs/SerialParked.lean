import WfProofs.SerialResume
/-!
Pausing where nothing is in flight.

`Runner.lift k ps pl b` is the runner `b` with `k` more timers already numbered, and with the published
stream / tick log prefixed by `ps` / `pl`.  Every action of the control loop commutes with `lift`
(`step_lift`, `run_lift`): what was published before and how many timers were numbered before do not
influence anything the loop does later.

A live runner that is *parked* (no buffered tick, empty mailbox, no timer, no worker, nothing queued or in
progress, waiters without requirements — a run waiting for external input) is the `lift` of the runner
resumed from its serialised context (`parked_eq_lift`), so both have the same future under every schedule.
-/
set_option linter.unusedVariables false
set_option linter.unusedSimpArgs false

namespace Engine

def Timer.shift (k : Nat) (t : Timer) : Timer := { t with seq := t.seq + k }

def Runner.lift (k : Nat) (ps : List Pub) (pl : List (Tick × Int)) (b : Runner) : Runner :=
  { b with heap := b.heap.map (Timer.shift k), seq := b.seq + k, stream := ps ++ b.stream, log := pl ++ b.log }

theorem push_lift (k : Nat) (ps : List Pub) (pl : List (Tick × Int)) (b : Runner) (t : Tick) (at_ : Int) :
    (b.lift k ps pl).push t at_ = (b.push t at_).lift k ps pl := by
  simp [Runner.push, Runner.lift, Timer.shift, Nat.add_right_comm]

theorem finish_lift (k : Nat) (ps : List Pub) (pl : List (Tick × Int)) (b : Runner) (o : Outcome) :
    (b.lift k ps pl).finish o = (b.finish o).lift k ps pl := rfl

theorem execCmd_lift (k : Nat) (ps : List Pub) (pl : List (Tick × Int)) (b : Runner) (c : Cmd) :
    execCmd (b.lift k ps pl) c = (execCmd b c).lift k ps pl := by
  cases c with
  | queueEvent att step delay =>
    cases delay with
    | none => rfl
    | some d =>
      simp only [execCmd]
      split
      · exact push_lift k ps pl b _ _
      · rfl
  | runWorker s ev w => rfl
  | halt h => rfl
  | completeRun p => rfl
  | failWorkflow s x => rfl
  | publish p => simp [execCmd, Runner.lift, List.append_assoc]
  | scheduleIdleCheck =>
    simp only [execCmd]
    have : (b.lift k ps pl).idlePending = b.idlePending := rfl
    rw [this]
    split <;> rfl
  | scheduleWaiterTimeout s w t => exact push_lift k ps pl b _ _
  | crash => rfl

theorem execCmds_lift (k : Nat) (ps : List Pub) (pl : List (Tick × Int)) :
    ∀ (cmds : List Cmd) (b : Runner), execCmds (b.lift k ps pl) cmds = (execCmds b cmds).lift k ps pl
  | [], b => rfl
  | c :: cs, b => by
    simp only [execCmds]
    rw [execCmd_lift]
    have : ((execCmd b c).lift k ps pl).outcome = (execCmd b c).outcome := rfl
    rw [this]
    split
    · rfl
    · exact execCmds_lift k ps pl cs _

theorem insertTimer_shift (k : Nat) (t : Timer) :
    ∀ us : List Timer, insertTimer (t.shift k) (us.map (Timer.shift k)) = (insertTimer t us).map (Timer.shift k)
  | [] => rfl
  | u :: us => by
    simp only [List.map_cons, insertTimer]
    have e1 : (t.shift k).at_ = t.at_ := rfl
    have e2 : (u.shift k).at_ = u.at_ := rfl
    have e3 : decide ((t.shift k).seq < (u.shift k).seq) = decide (t.seq < u.seq) := by
      simp [Timer.shift]
    rw [e1, e2, e3]
    split
    · rfl
    · simp only [List.map_cons]
      rw [insertTimer_shift k t us]

theorem sortTimers_shift (k : Nat) : ∀ l : List Timer,
    sortTimers (l.map (Timer.shift k)) = (sortTimers l).map (Timer.shift k)
  | [] => rfl
  | t :: ts => by
    simp only [sortTimers, List.map_cons, List.foldr_cons]
    have ih := sortTimers_shift k ts
    simp only [sortTimers] at ih
    rw [ih, insertTimer_shift]

theorem filter_shift (k : Nat) (p : Int → Bool) (l : List Timer) :
    (l.map (Timer.shift k)).filter (fun t => p t.at_) = (l.filter (fun t => p t.at_)).map (Timer.shift k) := by
  induction l with
  | nil => rfl
  | cons t ts ih =>
    simp only [List.map_cons, List.filter_cons]
    have : (t.shift k).at_ = t.at_ := rfl
    rw [this]
    split
    · simp [ih]
    · exact ih

theorem map_tick_shift (k : Nat) (l : List Timer) : (l.map (Timer.shift k)).map (·.tick) = l.map (·.tick) := by
  simp [List.map_map, Function.comp_def, Timer.shift]

/-- every action of the control loop commutes with `lift` -/
theorem step_lift (cfg : Cfg) (pol : Policy) (k : Nat) (ps : List Pub) (pl : List (Tick × Int)) (b : Runner) (a : Act) :
    (b.lift k ps pl).step cfg pol a = (b.step cfg pol a).lift k ps pl := by
  unfold Runner.step
  have ho : (b.lift k ps pl).outcome = b.outcome := rfl
  rw [ho]
  split
  · rfl
  · cases a with
    | drain =>
      have hb : (b.lift k ps pl).buf = b.buf := rfl
      simp only [hb]
      cases hbuf : b.buf with
      | nil => rfl
      | cons t rest =>
        simp only
        have hst : (b.lift k ps pl).st = b.st := rfl
        have hnow : (b.lift k ps pl).now = b.now := rfl
        have hidle : (b.lift k ps pl).idlePending = b.idlePending := rfl
        simp only [hst, hnow, hidle]
        split
        · rfl
        · have := execCmds_lift k ps pl (reduce cfg pol t b.st b.now).2
            { b with buf := rest, idlePending := if t = Tick.idleCheck then false else b.idlePending,
                     st := (reduce cfg pol t b.st b.now).1, log := b.log ++ [(t, b.now)] }
          simpa [Runner.lift, List.append_assoc] using this
    | workerDone s w res =>
      have hb : (b.lift k ps pl).buf = b.buf := rfl
      have hr : (b.lift k ps pl).running = b.running := rfl
      simp only [hb, hr]
      split
      · rfl
      · split <;> rfl
    | pull =>
      have hb : (b.lift k ps pl).buf = b.buf := rfl
      have hm : (b.lift k ps pl).mailbox = b.mailbox := rfl
      simp only [hb, hm]
      split
      · rfl
      · split <;> rfl
    | timer =>
      have hb : (b.lift k ps pl).buf = b.buf := rfl
      simp only [hb]
      split
      · rfl
      · have hnow : (b.lift k ps pl).now = b.now := rfl
        have hheap : (b.lift k ps pl).heap = b.heap.map (Timer.shift k) := rfl
        simp only [hnow, hheap]
        have h1 := filter_shift k (fun x => decide (x ≤ b.now)) b.heap
        have h2 := filter_shift k (fun x => !decide (x ≤ b.now)) b.heap
        simp only [Runner.lift]
        rw [h1, h2, sortTimers_shift, map_tick_shift]
    | advance dt => rfl
    | external t =>
      simp only
      split <;> rfl
    | stepWrite p => simp [Runner.lift, List.append_assoc]

theorem run_lift (cfg : Cfg) (pol : Policy) (k : Nat) (ps : List Pub) (pl : List (Tick × Int)) :
    ∀ (acts : List Act) (b : Runner),
      Runner.run cfg pol (b.lift k ps pl) acts = (Runner.run cfg pol b acts).lift k ps pl
  | [], b => rfl
  | a :: as, b => by
    simp only [Runner.run, List.foldl_cons]
    rw [step_lift]
    exact run_lift cfg pol k ps pl as _

/-! ### parked runners -/

/-- a run in which nothing is in flight: it waits for external input (`ctx.send_event`, a human reply) -/
structure Parked (cfg : Cfg) (r : Runner) : Prop where
  buf : r.buf = []
  mailbox : r.mailbox = []
  heap : r.heap = []
  running : r.running = []
  idle : r.idlePending = false
  outcome : r.outcome = none
  offCfg : ∀ n, cfg.hasStep n = false → r.st.workers n = {}
  quiet : ∀ n, cfg.hasStep n = true → (r.st.workers n).queue = [] ∧ (r.st.workers n).inProg = []
  plainWaiters : ∀ n, ∀ w ∈ (r.st.workers n).waiters, w.req = none ∧ w.hasReq = false

theorem deser_ser_plain_waiter (w : Waiter) (h : w.req = none ∧ w.hasReq = false) :
    deserWaiter (serWaiter w) = w := by
  cases w
  simp only at h
  simp [deserWaiter, serWaiter, h.1, h.2]

theorem roundtrip_parked (cfg : Cfg) (r : Runner) (h : Parked cfg r) : roundtrip cfg r.st = r.st := by
  have hw : (roundtrip cfg r.st).workers = r.st.workers := by
    funext n
    rw [roundtrip_workers]
    by_cases hs : cfg.hasStep n = true
    · rw [if_pos hs]
      obtain ⟨hq, hi⟩ := h.quiet n hs
      have hws : (r.st.workers n).waiters.map (fun w => deserWaiter (serWaiter w)) = (r.st.workers n).waiters :=
        map_eq_self _ _ (fun w hw => deser_ser_plain_waiter w (h.plainWaiters n w hw))
      cases hss : r.st.workers n with
      | mk q ip c ws =>
        rw [hss] at hq hi hws
        simp only at hq hi hws
        subst hq; subst hi
        simp [deserStep, serStep, List.map_map, Function.comp_def, hws]
    · have hs' : cfg.hasStep n = false := by simpa using hs
      simp [hs', h.offCfg n hs']
  have hr : (roundtrip cfg r.st).isRunning = r.st.isRunning := rfl
  cases h1 : roundtrip cfg r.st with
  | mk a b =>
    cases h2 : r.st with
    | mk c d =>
      rw [h1, h2] at hw hr
      simp only at hw hr
      rw [hw, hr]

theorem mem_insertWaiter {w x : Waiter} : ∀ {l : List Waiter}, x ∈ insertWaiter w l → x = w ∨ x ∈ l
  | [], h => by simpa [insertWaiter] using h
  | u :: us, h => by
    simp only [insertWaiter] at h
    split at h
    · simpa using h
    · rcases List.mem_cons.mp h with h | h
      · exact Or.inr (by simp [h])
      · rcases mem_insertWaiter h with h | h
        · exact Or.inl h
        · exact Or.inr (by simp [h])

theorem mem_sortWaiters {x : Waiter} : ∀ {l : List Waiter}, x ∈ l.foldr insertWaiter [] → x ∈ l
  | [], h => by simp at h
  | u :: us, h => by
    simp only [List.foldr_cons] at h
    rcases mem_insertWaiter h with h | h
    · simp [h]
    · exact List.mem_cons_of_mem _ (mem_sortWaiters h)

theorem rehydrate_parked (cfg : Cfg) (st : State)
    (h : ∀ n, ∀ w ∈ (st.workers n).waiters, w.req = none ∧ w.hasReq = false) : rehydrateTicks cfg st = [] := by
  unfold rehydrateTicks
  rw [List.flatMap_eq_nil_iff]
  intro c _
  rw [List.map_eq_nil_iff, List.filter_eq_nil_iff]
  intro w hw
  have := h c.name w (mem_sortWaiters hw)
  simp [this.2]

theorem rewindLoop_quiet (now : Int) : ∀ (cs : List StepCfg) (st : State) (cmds : List Cmd),
    (∀ c ∈ cs, (st.workers c.name).queue = [] ∧ (st.workers c.name).inProg = []) →
    rewindLoop now cs st cmds = (st, cmds)
  | [], st, cmds, _ => rfl
  | c :: cs, st, cmds, h => by
    unfold rewindLoop
    obtain ⟨hq, hi⟩ := h c (by simp)
    have hstep : rewindStep c (st.workers c.name) now = (st.workers c.name, []) := by
      unfold rewindStep
      cases hss : st.workers c.name with
      | mk q ip co ws =>
        rw [hss] at hq hi
        simp only at hq hi
        subst hq; subst hi
        simp [drain]
    simp only [hstep, List.append_nil]
    have hset : st.set c.name (st.workers c.name) = st := by
      cases st with
      | mk r w =>
        simp only [State.set]
        congr
        funext t
        by_cases ht : t = c.name
        · simp [ht]
        · simp [ht]
    rw [hset]
    exact rewindLoop_quiet now cs st cmds (fun d hd => h d (by simp [hd]))

theorem hasStep_of_mem_steps {cfg : Cfg} {c : StepCfg} (hc : c ∈ cfg.steps) : cfg.hasStep c.name = true :=
  (hasStep_iff_mem cfg c.name).mpr (List.mem_map_of_mem hc)

/-- the runner resumed from the serialised context of a parked runner: same state, same clock, nothing else -/
theorem init_parked (cfg : Cfg) (r : Runner) (h : Parked cfg r) :
    Runner.init cfg (roundtrip cfg r.st) r.now none none = { st := r.st, now := r.now } := by
  rw [roundtrip_parked cfg r h]
  unfold Runner.init
  have hre := rehydrate_parked cfg r.st h.plainWaiters
  have hrw : rewind cfg r.st r.now = (r.st, []) := by
    unfold rewind
    exact rewindLoop_quiet r.now (sortedSteps cfg) r.st [] (fun c hc =>
      h.quiet c.name (hasStep_of_mem_steps (mem_sortedSteps_iff.mp hc)))
  simp only [hre, hrw, List.append_nil, execCmds]

/-- a parked runner is its own resumed runner, plus history -/
theorem parked_eq_lift (cfg : Cfg) (r : Runner) (h : Parked cfg r) :
    r = (Runner.init cfg (roundtrip cfg r.st) r.now none none).lift r.seq r.stream r.log := by
  rw [init_parked cfg r h]
  obtain ⟨hb, hm, hh, hr, hi, ho, _, _, _⟩ := h
  cases r
  simp only at hb hm hh hr hi ho
  subst hb; subst hm; subst hh; subst hr; subst hi; subst ho
  simp [Runner.lift]

end Engine
