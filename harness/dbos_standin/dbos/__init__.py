"""Stand-in for the `dbos` package: see `_dbos.py` for the semantics provided."""
from ._dbos import DBOS, SetWorkflowID, WorkflowHandleAsync  # noqa: F401

__all__ = ["DBOS", "SetWorkflowID", "WorkflowHandleAsync"]
