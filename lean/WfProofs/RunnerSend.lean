import WfProofs.RunnerRecovery
/-! `ctx.send_event` from a running invocation (C08): the tick it puts into the mailbox carries the
recovery counts of the invocation's in-progress entry, hence stays within every budget without any
assumption on the sender; schedules with step-side sends keep the invariant of `RunnerRecovery`. -/
set_option linter.unusedSimpArgs false
set_option linter.unusedVariables false

namespace Engine

theorem sendTick_some {st : State} {step wid : Nat} {e : Ev} {target : Option Nat} {t : Tick}
    (h : sendTick st step wid e target = some t) :
    ∃ ip, ip ∈ (st.workers step).inProg ∧ ip.wid = wid ∧ t = .addEvent { ev := e, rc := ip.rc } target := by
  unfold sendTick at h
  cases hf : (st.workers step).inProg.find? (fun ip => ip.wid == wid) with
  | none => simp [hf] at h
  | some ip =>
    simp only [hf, Option.some.injEq] at h
    refine ⟨ip, List.mem_of_find?_eq_some hf, ?_, h.symm⟩
    have := List.find?_some hf
    simpa using this

theorem sendTick_rc (cfg : Cfg) {st : State} (hs : RcInv cfg st) {step wid : Nat} {e : Ev} {target : Option Nat}
    {t : Tick} (h : sendTick st step wid e target = some t) : tickRcOk cfg t := by
  obtain ⟨ip, hmem, _, rfl⟩ := sendTick_some h
  exact (hs step).2.1 ip hmem

/-- admissible schedules with sends: only the ticks of parties OUTSIDE the run are assumed to be
within budget (they carry no counts at all); nothing is assumed of `ctx.send_event` -/
def CtxAct.rcOk (cfg : Cfg) : CtxAct → Prop
  | .act a => Act.rcOk cfg a
  | .stepSend _ _ _ _ => True

theorem stepS_rc (cfg : Cfg) (pol : Policy) (r : Runner) (a : CtxAct) (ha : CtxAct.rcOk cfg a) (h : RunnerRc cfg r) :
    RunnerRc cfg (r.stepS cfg pol a) := by
  cases a with
  | act a => exact step_rc cfg pol r a ha h
  | stepSend s w e tgt =>
    simp only [Runner.stepS]
    cases hst : sendTick r.st s w e tgt with
    | none => exact h
    | some t => exact step_rc cfg pol r (.external t) (sendTick_rc cfg h.1 hst) h

theorem runS_rc (cfg : Cfg) (pol : Policy) : ∀ (acts : List CtxAct) (r : Runner), (∀ a ∈ acts, CtxAct.rcOk cfg a) →
    RunnerRc cfg r → RunnerRc cfg (Runner.runS cfg pol r acts)
  | [], r, _, h => h
  | a :: as, r, ha, h => by
    simp only [Runner.runS, List.foldl_cons]
    exact runS_rc cfg pol as _ (fun x hx => ha x (by simp [hx])) (stepS_rc cfg pol r a (ha a (by simp)) h)

/-- a send by an invocation that is in progress reaches the mailbox (while the run is live) -/
theorem stepS_send_mailbox (cfg : Cfg) (pol : Policy) (r : Runner) (s w : Nat) (e : Ev) (tgt : Option Nat) (t : Tick)
    (hlive : r.outcome = none) (hst : sendTick r.st s w e tgt = some t) :
    (r.stepS cfg pol (.stepSend s w e tgt)).mailbox = r.mailbox ++ [t] ∧
    (r.stepS cfg pol (.stepSend s w e tgt)).st = r.st := by
  obtain ⟨ip, _, _, rfl⟩ := sendTick_some hst
  simp [Runner.stepS, hst, Runner.step, hlive, Tick.isExternal]

end Engine
