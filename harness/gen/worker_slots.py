"""Worker-slot bookkeeping of the engine -> lean/WfModel/GenWorkerSlots.lean (C01).

Re-read from /repo's current `workflows/runtime/control_loop.py` on every run:

* `_add_or_enqueue_event`: `has_space`, the list of candidate ids and the pick are *translated* into Lean functions
  (`hasSpace`, `idCandidates`, `pick`); where the chosen id goes (`InProgressState.worker_id`, `CommandRunWorker.id`,
  the `StepStateChanged` telemetry) is emitted as text;
* every statement anywhere in control_loop.py that changes an `in_progress` list (`<how>@<function>`), every function that
  builds a `CommandRunWorker` with what it passes as `id`, every caller of `_add_or_enqueue_event` (with the number of call
  sites);
* `_process_step_result_tick`: how the finishing execution is found, the first statement of the `AddCollectedEvent` branch
  (the "already scheduled to run again" skip), which slot the collect re-run is issued for, and the guard under which the
  execution's row is removed;
* the runner: who calls `run_worker`, what `run_worker` registers, and every statement that changes `_pending_workers`,
  `worker_tasks` and `_task_keys`.

`C01_slot_choice_is_source` / `C01_source_shape` (WfProps/C01.lean) prove that the model's `addOrEnqueue` IS the translated
choice and pin the rest; an edit of any of these places stops them from checking.  Unrecognised shapes give a sentinel
(a definition of another type / `"<missing>"`) and a note.
"""
from __future__ import annotations

import ast

from ..boot import repo_path
from .idle_shape import _chain, _find_fn, _isinstance_branch, _lean_str, _lst

LEAN_MODULE = "GenWorkerSlots"
CL = "packages/llama-index-workflows/src/workflows/runtime/control_loop.py"
MISSING = "<missing>"
_MUT = ("append", "extend", "insert", "pop", "remove", "clear", "sort", "reverse", "add", "discard", "update", "setdefault", "popitem")


def _ends_with(n: ast.AST, attr: str) -> bool:
    return isinstance(n, ast.Attribute) and n.attr == attr


def _mutators(tree: ast.AST, attr: str, init_ok: bool = True) -> list[str]:
    """every way the attribute `<x>.<attr>` (a list / set / dict) is changed, as `<how>@<function>`"""
    muts: set[str] = set()
    for fn in ast.walk(tree):
        if not isinstance(fn, (ast.FunctionDef, ast.AsyncFunctionDef)):
            continue
        inner = {id(n) for sub in ast.walk(fn) if sub is not fn and isinstance(sub, (ast.FunctionDef, ast.AsyncFunctionDef)) for n in ast.walk(sub)}
        for n in ast.walk(fn):
            if id(n) in inner:
                continue  # reported under the nested function's own name
            if isinstance(n, (ast.Assign, ast.AnnAssign)):
                tgts = n.targets if isinstance(n, ast.Assign) else [n.target]
                for t in tgts:
                    for tt in ([t] if not isinstance(t, (ast.Tuple, ast.List)) else list(t.elts)):
                        if _ends_with(tt, attr):
                            v = n.value
                            empty = v is not None and ((isinstance(v, (ast.List, ast.Dict)) and not (getattr(v, "elts", None) or getattr(v, "keys", None)))
                                                       or (isinstance(v, ast.Call) and isinstance(v.func, ast.Name) and v.func.id in ("set", "list", "dict") and not v.args))
                            if fn.name == "__init__" and empty and init_ok:
                                continue
                            muts.add(("assign[]" if empty else "assign") + f"@{fn.name}")
                        if isinstance(tt, ast.Subscript) and _ends_with(tt.value, attr):
                            muts.add(f"setitem@{fn.name}")
            elif isinstance(n, ast.AugAssign) and (_ends_with(n.target, attr) or (isinstance(n.target, ast.Subscript) and _ends_with(n.target.value, attr))):
                muts.add(f"augassign@{fn.name}")
            elif isinstance(n, ast.Delete):
                for t in n.targets:
                    if _ends_with(t, attr) or (isinstance(t, ast.Subscript) and _ends_with(t.value, attr)):
                        muts.add(f"del@{fn.name}")
            elif isinstance(n, ast.Call) and isinstance(n.func, ast.Attribute) and _ends_with(n.func.value, attr) and n.func.attr in _MUT:
                muts.add(f".{n.func.attr}@{fn.name}")
    return sorted(muts)


def _translate_candidates(v: ast.AST, used_name: str) -> str | None:
    """`[i for i in range(<…>.num_workers) if i not in used]` as a Lean term over (used : List Nat) (numWorkers : Nat)"""
    if not (isinstance(v, ast.ListComp) and len(v.generators) == 1):
        return None
    g = v.generators[0]
    if g.is_async or not isinstance(g.target, ast.Name):
        return None
    i = g.target.id
    it = g.iter
    if not (isinstance(it, ast.Call) and isinstance(it.func, ast.Name) and it.func.id == "range" and len(it.args) == 1 and not it.keywords
            and _chain(it.args[0]) == ".config.num_workers"):
        return None
    conds: list[str] = []
    for c in g.ifs:
        if (isinstance(c, ast.Compare) and len(c.ops) == 1 and isinstance(c.left, ast.Name) and c.left.id == i
                and isinstance(c.comparators[0], ast.Name) and c.comparators[0].id == used_name):
            if isinstance(c.ops[0], ast.NotIn):
                conds.append("!(used.contains i)")
            elif isinstance(c.ops[0], ast.In):
                conds.append("(used.contains i)")
            else:
                return None
        else:
            return None
    term = "(List.range numWorkers)"
    if conds:
        term = f"({term}.filter (fun i => {' && '.join(conds)}))"
    if isinstance(v.elt, ast.Name) and v.elt.id == i:
        return term
    if (isinstance(v.elt, ast.BinOp) and isinstance(v.elt.op, ast.Add) and isinstance(v.elt.left, ast.Name) and v.elt.left.id == i
            and isinstance(v.elt.right, ast.Constant) and isinstance(v.elt.right.value, int) and v.elt.right.value >= 0):
        return f"({term}.map (fun i => i + {v.elt.right.value}))"
    return None


def _translate_pick(v: ast.AST, cands: str) -> str | None:
    """`id_candidates[k]` as a Lean term over (c : List Nat) : Option Nat"""
    if isinstance(v, ast.Subscript) and isinstance(v.value, ast.Name) and v.value.id == cands:
        s = v.slice
        if isinstance(s, ast.Constant) and isinstance(s.value, int) and not isinstance(s.value, bool):
            return f"c[{s.value}]?" if s.value >= 0 else ("c.getLast?" if s.value == -1 else None)
        if isinstance(s, ast.UnaryOp) and isinstance(s.op, ast.USub) and isinstance(s.operand, ast.Constant) and s.operand.value == 1:
            return "c.getLast?"
    if (isinstance(v, ast.Call) and isinstance(v.func, ast.Name) and v.func.id in ("min", "max") and len(v.args) == 1
            and isinstance(v.args[0], ast.Name) and v.args[0].id == cands and not v.keywords):
        return "c.min?" if v.func.id == "min" else "c.max?"
    return None


def _cmp_len(n: ast.AST) -> str | None:
    """`len(<x>.in_progress) <op> <x>.config.num_workers` over (inProgLen numWorkers : Nat)"""
    ops = {ast.Lt: "<", ast.LtE: "≤", ast.Gt: ">", ast.GtE: "≥", ast.Eq: "=", ast.NotEq: "≠"}

    def term(t: ast.AST) -> str | None:
        if isinstance(t, ast.Call) and isinstance(t.func, ast.Name) and t.func.id == "len" and len(t.args) == 1 and _chain(t.args[0]) == ".in_progress":
            return "inProgLen"
        if _chain(t) == ".config.num_workers":
            return "numWorkers"
        if isinstance(t, ast.Constant) and isinstance(t.value, int) and not isinstance(t.value, bool) and t.value >= 0:
            return str(t.value)
        if isinstance(t, ast.BinOp) and isinstance(t.op, (ast.Add, ast.Sub)):
            a, b = term(t.left), term(t.right)
            if a is not None and b is not None:
                return f"({a} {'+' if isinstance(t.op, ast.Add) else '-'} {b})"
        return None

    if isinstance(n, ast.Compare) and len(n.ops) == 1 and type(n.ops[0]) in ops:
        a, b = term(n.left), term(n.comparators[0])
        if a is not None and b is not None:
            return f"decide ({a} {ops[type(n.ops[0])]} {b})"
    return None


def generate(notes: list[str]) -> list[str]:
    L: list[str] = ["namespace GenWorkerSlots", ""]
    try:
        tree = ast.parse(open(repo_path(CL)).read())
    except (OSError, SyntaxError) as e:
        notes.append(f"gen/worker_slots: cannot parse control_loop.py: {e}")
        return L + ["-- control_loop.py unparsed", "end GenWorkerSlots"]

    # ---- _add_or_enqueue_event: capacity test, candidates, pick ---------------------------------------------------------
    ae = _find_fn(tree, "_add_or_enqueue_event")
    hs = cand = pick = None
    used_src = MISSING
    uses: list[str] = [MISSING]
    order: list[str] = [MISSING]
    if ae is None:
        notes.append("gen/worker_slots: _add_or_enqueue_event not found")
    else:
        assigns: dict[str, list[ast.AST]] = {}
        for n in ast.walk(ae):
            if isinstance(n, ast.Assign) and len(n.targets) == 1 and isinstance(n.targets[0], ast.Name):
                assigns.setdefault(n.targets[0].id, []).append(n.value)
            elif isinstance(n, (ast.AugAssign, ast.AnnAssign, ast.NamedExpr)) and isinstance(getattr(n, "target", None), ast.Name):
                assigns.setdefault(n.target.id, []).append(n)  # type: ignore[union-attr]
        top_if = [s for s in ae.body if isinstance(s, ast.If)]  # type: ignore[attr-defined]
        flag = top_if[0].test.id if len(top_if) == 1 and isinstance(top_if[0].test, ast.Name) else None
        if flag is not None and len(assigns.get(flag, [])) == 1:
            hs = _cmp_len(assigns[flag][0])
        # the variable handed to InProgressState(worker_id=…)
        idvar = None
        for n in ast.walk(ae):
            if isinstance(n, ast.Call) and isinstance(n.func, ast.Name) and n.func.id == "InProgressState":
                for k in n.keywords:
                    if k.arg == "worker_id" and isinstance(k.value, ast.Name):
                        idvar = k.value.id
        cands_var = None
        if idvar is not None and len(assigns.get(idvar, [])) == 1:
            v = assigns[idvar][0]
            for nm in (x.id for x in ast.walk(v) if isinstance(x, ast.Name)):
                if nm in assigns and nm != idvar:
                    cands_var = nm
            if cands_var is not None:
                pick = _translate_pick(v, cands_var)
        used_var = None
        if cands_var is not None and len(assigns.get(cands_var, [])) == 1:
            v = assigns[cands_var][0]
            for nm in (x.id for x in ast.walk(v) if isinstance(x, ast.Name)):
                if nm in assigns and nm not in (cands_var, idvar):
                    used_var = nm
            if used_var is not None:
                cand = _translate_candidates(v, used_var)
        if used_var is not None and len(assigns.get(used_var, [])) == 1:
            v = assigns[used_var][0]
            # set(x.worker_id for x in <state>.in_progress) / {x.worker_id for x in …} / [x.worker_id for x in …]
            comp = v.args[0] if isinstance(v, ast.Call) and isinstance(v.func, ast.Name) and v.func.id in ("set", "list", "frozenset") and len(v.args) == 1 else v
            if isinstance(comp, (ast.GeneratorExp, ast.SetComp, ast.ListComp)) and len(comp.generators) == 1 and not comp.generators[0].ifs:
                g = comp.generators[0]
                if isinstance(g.target, ast.Name) and isinstance(comp.elt, ast.Attribute) and isinstance(comp.elt.value, ast.Name) and comp.elt.value.id == g.target.id:
                    used_src = f"{comp.elt.attr} of {_chain(g.iter)}"
        # where the chosen id goes
        if idvar is not None:
            uses = []
            for n in ast.walk(ae):
                if isinstance(n, ast.Call) and isinstance(n.func, ast.Name):
                    for k in n.keywords:
                        if any(isinstance(x, ast.Name) and x.id == idvar for x in ast.walk(k.value)):
                            how = "" if isinstance(k.value, ast.Name) else ":" + ast.unparse(k.value).replace(idvar, "id")
                            uses.append(f"{n.func.id}.{k.arg}{how}")
            uses = sorted(uses)
        # inside the has-space branch: what happens in which order (row appended before the command is issued)
        if len(top_if) == 1:
            order = []
            for st in top_if[0].body:
                for n in ast.walk(st):
                    if isinstance(n, ast.Call) and isinstance(n.func, ast.Attribute) and n.func.attr == "append":
                        arg = n.args[0] if n.args else None
                        what = arg.func.id if isinstance(arg, ast.Call) and isinstance(arg.func, ast.Name) else "?"
                        order.append(f"{_chain(n.func.value) or '<local>'}.append({what})")
            order_else = []
            for st in top_if[0].orelse:
                for n in ast.walk(st):
                    if isinstance(n, ast.Call) and isinstance(n.func, ast.Attribute) and n.func.attr == "append":
                        arg = n.args[0] if n.args else None
                        what = arg.func.id if isinstance(arg, ast.Call) and isinstance(arg.func, ast.Name) else ("event" if isinstance(arg, ast.Name) else "?")
                        order_else.append(f"{_chain(n.func.value) or '<local>'}.append({what})")
            order = ["then:" + ";".join(order), "else:" + ";".join(sorted(order_else))]
    L.append("/-- `_add_or_enqueue_event`: `has_space`, the test under which the event gets a worker slot at once -/")
    if hs is None:
        notes.append("gen/worker_slots: has_space is not a single comparison over (len(in_progress), num_workers) tested by the function's only top-level `if`")
        L.append("def hasSpace : Unit := ()  -- sentinel: shape not recognised")
    else:
        L += ["def hasSpace (inProgLen numWorkers : Nat) : Bool :=", f"  {hs}"]
    L.append("/-- what `used` is built from -/")
    L.append(f"def usedSource : String := {_lean_str(used_src)}")
    L.append("/-- the candidate ids, in the order the code lists them -/")
    if cand is None:
        notes.append("gen/worker_slots: id_candidates is not `[i for i in range(num_workers) if i (not) in used]`")
        L.append("def idCandidates : Unit := ()  -- sentinel: shape not recognised")
    else:
        L += ["def idCandidates (used : List Nat) (numWorkers : Nat) : List Nat :=", f"  {cand}"]
    L.append("/-- which candidate becomes the worker id (`none`: the subscript raises `IndexError`) -/")
    if pick is None:
        notes.append("gen/worker_slots: the worker id is not `id_candidates[<const>]` / `min|max(id_candidates)`")
        L.append("def pick : Unit := ()  -- sentinel: shape not recognised")
    else:
        L += ["def pick (c : List Nat) : Option Nat :=", f"  {pick}"]
    L.append("/-- the keyword arguments the chosen id is passed as -/")
    L.append(f"def slotUses : List String := {_lst(uses)}")
    L.append("/-- what each branch appends to, in order (then-branch) / as a set (else-branch) -/")
    L.append(f"def admissionEffects : List String := {_lst(order)}")
    L.append("")

    # ---- whole file: in_progress mutators, CommandRunWorker sites, admission callers -----------------------------------
    L.append("/-- every statement of control_loop.py that changes an `in_progress` list, as `<how>@<function>` -/")
    L.append(f"def inProgressMutators : List String := {_lst(_mutators(tree, 'in_progress'))}")
    sites: list[str] = []
    callers: dict[str, int] = {}
    for fn in ast.walk(tree):
        if not isinstance(fn, (ast.FunctionDef, ast.AsyncFunctionDef)):
            continue
        inner = {id(n) for sub in ast.walk(fn) if sub is not fn and isinstance(sub, (ast.FunctionDef, ast.AsyncFunctionDef)) for n in ast.walk(sub)}
        for n in ast.walk(fn):
            if id(n) in inner or not isinstance(n, ast.Call) or not isinstance(n.func, ast.Name):
                continue
            if n.func.id == "CommandRunWorker":
                idkw = next((k.value for k in n.keywords if k.arg == "id"), None)
                ch = _chain(idkw) if idkw is not None else None
                sites.append(f"{fn.name}:id={ch if ch is not None else ('<local>' if isinstance(idkw, ast.Name) else (ast.unparse(idkw) if idkw is not None else '?'))}")
            if n.func.id == "_add_or_enqueue_event":
                callers[fn.name] = callers.get(fn.name, 0) + 1
    L.append("/-- every function that builds a `CommandRunWorker`, with what it passes as `id` (attribute chains without their root variable) -/")
    L.append(f"def runWorkerSites : List String := {_lst(sorted(sites))}")
    L.append("/-- every caller of `_add_or_enqueue_event` with its number of call sites -/")
    L.append(f"def admissionCallers : List String := {_lst([f'{k}:{v}' for k, v in sorted(callers.items())])}")
    L.append("")

    # ---- _process_step_result_tick -------------------------------------------------------------------------------------
    sr = _find_fn(tree, "_process_step_result_tick")
    lookup = MISSING
    rerun: list[str] = [MISSING]
    removal: list[str] = [MISSING]
    if sr is None:
        notes.append("gen/worker_slots: _process_step_result_tick not found")
    else:
        look_var = None
        for n in ast.walk(sr):
            if (isinstance(n, ast.Assign) and len(n.targets) == 1 and isinstance(n.targets[0], ast.Name) and isinstance(n.value, ast.Call)
                    and isinstance(n.value.func, ast.Name) and n.value.func.id == "next" and n.value.args
                    and isinstance(n.value.args[0], ast.GeneratorExp)):
                ge = n.value.args[0]
                g = ge.generators[0]
                if _chain(g.iter) == ".in_progress" and len(ge.generators) == 1 and len(g.ifs) == 1 and isinstance(g.ifs[0], ast.Compare):
                    c = g.ifs[0]
                    look_var = n.targets[0].id
                    dflt = ast.unparse(n.value.args[1]) if len(n.value.args) > 1 else "<raises>"
                    lookup = f"first of {_chain(g.iter)} with {_chain(c.left)} {type(c.ops[0]).__name__} tick{_chain(c.comparators[0])} else {dflt}"
        br = _isinstance_branch(sr, "result", "AddCollectedEvent")
        if br is not None and look_var is not None:
            rerun = []
            first = br.body[0] if br.body else None
            flag = None
            if (isinstance(first, ast.If) and isinstance(first.test, ast.UnaryOp) and isinstance(first.test.op, ast.Not) and isinstance(first.test.operand, ast.Name)
                    and len(first.body) == 1 and isinstance(first.body[0], ast.Continue) and not first.orelse):
                flag = first.test.operand.id
                rerun.append("first:if not <flag>: continue")
            else:
                rerun.append("first:" + (type(first).__name__ if first is not None else "none"))
            for n in ast.walk(br):
                if isinstance(n, ast.Call) and isinstance(n.func, ast.Name) and n.func.id == "CommandRunWorker":
                    idkw = next((k.value for k in n.keywords if k.arg == "id"), None)
                    own = isinstance(idkw, ast.Attribute) and isinstance(idkw.value, ast.Name) and idkw.value.id == look_var
                    rerun.append("rerun:id=" + (("<execution>" + (_chain(idkw) or "")) if own else (ast.unparse(idkw) if idkw is not None else "?")))
                if isinstance(n, ast.Assign) and flag is not None and any(isinstance(t, ast.Name) and t.id == flag for t in n.targets):
                    rerun.append("sets:<flag>=" + ast.unparse(n.value))
            # the removal of the execution's row
            removal = []
            for st in sr.body:  # type: ignore[attr-defined]
                if isinstance(st, ast.If):
                    for n in ast.walk(st):
                        if (isinstance(n, ast.Call) and isinstance(n.func, ast.Attribute) and _ends_with(n.func.value, "in_progress")
                                and n.func.attr in _MUT):
                            arg = n.args[0] if n.args else None
                            what = "<execution>" if isinstance(arg, ast.Name) and arg.id == look_var else (ast.unparse(arg) if arg is not None else "")
                            cond = ast.unparse(st.test)
                            if flag is not None:
                                cond = cond.replace(flag, "<flag>")
                            removal.append(f"if {cond}: .in_progress.{n.func.attr}({what})")
                elif isinstance(st, ast.Expr):
                    n = st.value
                    if (isinstance(n, ast.Call) and isinstance(n.func, ast.Attribute) and _ends_with(n.func.value, "in_progress") and n.func.attr in _MUT):
                        removal.append(f"always: .in_progress.{n.func.attr}(…)")
            if flag is not None:
                inits = [ast.unparse(n.value) for n in sr.body  # type: ignore[attr-defined]
                         if isinstance(n, ast.Assign) and any(isinstance(t, ast.Name) and t.id == flag for t in n.targets)]
                rerun.append("init:<flag>=" + ",".join(inits))
        elif br is None:
            notes.append("gen/worker_slots: the AddCollectedEvent branch of _process_step_result_tick not found")
    L.append("/-- `_process_step_result_tick`: how the execution a result tick reports on is found -/")
    L.append(f"def executionLookup : String := {_lean_str(lookup)}")
    L.append("/-- the `AddCollectedEvent` branch: its first statement, the slot the re-run is issued for, what it does to the flag -/")
    L.append(f"def collectRerun : List String := {_lst(rerun)}")
    L.append("/-- where the execution's row leaves `in_progress` -/")
    L.append(f"def executionRemoval : List String := {_lst(removal)}")
    L.append("")

    # ---- the runner ----------------------------------------------------------------------------------------------------
    rw_callers: list[str] = []
    for fn in ast.walk(tree):
        if isinstance(fn, (ast.FunctionDef, ast.AsyncFunctionDef)):
            for n in ast.walk(fn):
                if isinstance(n, ast.Call) and isinstance(n.func, ast.Attribute) and n.func.attr == "run_worker":
                    guard = ""
                    for st in ast.walk(fn):
                        if isinstance(st, ast.If) and any(x is n for b in st.body for x in ast.walk(b)):
                            t = st.test
                            if (isinstance(t, ast.Call) and isinstance(t.func, ast.Name) and t.func.id == "isinstance" and len(t.args) == 2
                                    and isinstance(t.args[1], ast.Name)):
                                guard = t.args[1].id
                    rw_callers.append(f"{fn.name}:{guard}")
    L.append("/-- every caller of `run_worker`, with the command class it dispatches on -/")
    L.append(f"def runWorkerCallers : List String := {_lst(sorted(rw_callers))}")
    reg = MISSING
    rwf = _find_fn(tree, "run_worker")
    if rwf is not None:
        for n in ast.walk(rwf):
            if (isinstance(n, ast.Call) and isinstance(n.func, ast.Attribute) and n.func.attr == "append" and _ends_with(n.func.value, "_pending_workers")
                    and n.args and isinstance(n.args[0], ast.Call) and isinstance(n.args[0].func, ast.Name)):
                c = n.args[0]
                args = [(_chain(a) or ast.unparse(a)) if not isinstance(a, ast.Call) else "<coroutine>" for a in c.args]
                reg = f"{c.func.id}({', '.join(args)})"
    L.append("/-- what `run_worker` registers: the pending entry carries the command's step name and worker id -/")
    L.append(f"def pendingEntry : String := {_lean_str(reg)}")
    L.append("/-- every statement that changes `_pending_workers` / `worker_tasks` / `_task_keys` -/")
    L.append(f"def pendingMutators : List String := {_lst(_mutators(tree, '_pending_workers'))}")
    L.append(f"def workerTaskMutators : List String := {_lst(_mutators(tree, 'worker_tasks'))}")
    L.append(f"def taskKeyMutators : List String := {_lst(_mutators(tree, '_task_keys'))}")
    L += ["", "end GenWorkerSlots"]
    return L
