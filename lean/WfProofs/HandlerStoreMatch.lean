import WfModel.HandlerStore
/-! Matching lemmas for the handler-store model (C24): the interpreted in-memory matcher and the
interpreted SQLite WHERE clauses both decide the declarative predicate `Matches`. -/

namespace HandlerStore
open Gen.HandlerStore

/-- one list filter against one (nullable) value -/
def inOk (v : Option Nat) (f : Option (List Nat)) : Bool :=
  match f with
  | none => true
  | some vs => match v with
    | none => false
    | some x => vs.contains x

/-- Boolean form of `Matches` -/
def matchesB (h : Handler) (q : Query) : Bool :=
  inOk (some h.handlerId) q.handlerIdIn && inOk h.runId q.runIdIn && inOk (some h.workflowName) q.workflowNameIn
    && inOk (some h.status) q.statusIn
    && (match q.isIdle with | none => true | some b => h.idleSince.isSome == b)

theorem inOk_some_iff (x : Nat) (f : Option (List Nat)) : inOk (some x) f = true ↔ ∀ vs, f = some vs → x ∈ vs := by
  cases f with
  | none => simp [inOk]
  | some vs => simp [inOk]

theorem inOk_opt_iff (v : Option Nat) (f : Option (List Nat)) :
    inOk v f = true ↔ ∀ vs, f = some vs → ∃ r, v = some r ∧ r ∈ vs := by
  cases f with
  | none => simp [inOk]
  | some vs => cases v <;> simp [inOk]

theorem matchesB_iff (h : Handler) (q : Query) : matchesB h q = true ↔ Matches h q := by
  unfold matchesB Matches
  simp only [Bool.and_eq_true, inOk_opt_iff, Option.some.injEq, exists_eq_left']
  constructor
  · rintro ⟨⟨⟨⟨h1, h2⟩, h3⟩, h4⟩, h5⟩
    refine ⟨h1, h2, h3, h4, ?_⟩
    intro b hb
    rw [hb] at h5
    simpa using h5
  · rintro ⟨h1, h2, h3, h4, h5⟩
    refine ⟨⟨⟨⟨h1, h2⟩, h3⟩, h4⟩, ?_⟩
    cases hq : q.isIdle with
    | none => rfl
    | some b => simpa using h5 b hq

theorem inOk_nil (v : Option Nat) : inOk v (some []) = false := by
  cases v <;> simp [inOk]

theorem memMatches_eq (h : Handler) (q : Query) : memMatches h q = matchesB h q := by
  unfold memMatches matchesB memIdleOk
  simp only [memIn, memIdle, memFallsThroughTrue, List.all_cons, List.all_nil, memInOk, Query.field, Handler.col,
    Bool.and_true]
  cases q.handlerIdIn <;> cases q.runIdIn <;> cases q.workflowNameIn <;> cases q.statusIn <;> cases q.isIdle <;>
    cases h.runId <;> simp [inOk] <;> grind

theorem inList_eval (h : Handler) (c : Nat) (vs : List Nat) :
    ((Clause.inList c vs).eval h == some true) = inOk (h.col c) (some vs) := by
  cases vs with
  | nil => simp [Clause.eval, inOk_nil]
  | cons a l => cases hc : h.col c <;> simp [Clause.eval, inOk, hc]

theorem whereTrue_append (h : Handler) (a b : List Clause) : whereTrue h (a ++ b) = (whereTrue h a && whereTrue h b) := by
  simp [whereTrue, List.all_append]

theorem whereTrue_cons (h : Handler) (c : Clause) (cs : List Clause) :
    whereTrue h (c :: cs) = ((c.eval h == some true) && whereTrue h cs) := by
  simp [whereTrue]

/-- the `*_in` clauses, for any filter table -/
theorem sqlInClauses_spec (h : Handler) (q : Query) : ∀ fs : List (Nat × Nat × Bool),
    (match sqlInClauses q fs with | none => false | some cs => whereTrue h cs)
      = fs.all (fun f => inOk (h.col f.2.1) (q.field f.1)) := by
  intro fs
  induction fs with
  | nil => simp [sqlInClauses, whereTrue]
  | cons f fs ih =>
    simp only [sqlInClauses, List.all_cons]
    cases hf : q.field f.1 with
    | none => simpa [inOk] using ih
    | some vs =>
      by_cases he : (f.2.2 && vs.isEmpty) = true
      · have : vs = [] := by
          simp only [Bool.and_eq_true, List.isEmpty_iff] at he; exact he.2
        subst this
        have hf2 : f.2.2 = true := by simpa using he
        simp [hf2, inOk_nil]
      · simp only [he, Bool.false_eq_true, ↓reduceIte]
        cases hs : sqlInClauses q fs with
        | none => rw [hs] at ih; simp [← ih]
        | some cs =>
          rw [hs] at ih
          simp only [Option.map_some, whereTrue_cons, inList_eval, ← ih]

theorem sqlIdle_spec (h : Handler) (q : Query) :
    whereTrue h (sqlIdleClauses q) = (match q.isIdle with | none => true | some b => h.idleSince.isSome == b) := by
  unfold sqlIdleClauses
  rcases q.isIdle with _ | _ | _ <;> cases hi : h.idleSince <;>
    simp [sqlIdleTrue, sqlIdleFalse, whereTrue, nullClause, Clause.eval, Handler.col, hi]

theorem sqlMatches_eq (h : Handler) (q : Query) : sqlMatches h q = matchesB h q := by
  have h1 := sqlInClauses_spec h q sqlIn
  unfold sqlMatches sqlFilters matchesB
  cases hs : sqlInClauses q sqlIn with
  | none =>
    rw [hs] at h1
    simp only [Option.map_none]
    simp only [sqlIn, List.all_cons, List.all_nil, Handler.col, Query.field, Bool.and_true] at h1
    rw [← Bool.and_assoc, ← Bool.and_assoc] at h1
    rw [← h1]; simp
  | some cs =>
    rw [hs] at h1
    simp only [Option.map_some, whereTrue_append, sqlIdle_spec]
    simp only [sqlIn, List.all_cons, List.all_nil, Handler.col, Query.field, Bool.and_true] at h1
    rw [← Bool.and_assoc, ← Bool.and_assoc] at h1
    rw [h1]
    all_goals (cases q.isIdle <;> rfl)

theorem memMatches_eq_sqlMatches (h : Handler) (q : Query) : memMatches h q = sqlMatches h q := by
  rw [memMatches_eq, sqlMatches_eq]

/-! ### queries with an empty list, queries without any filter -/

def Query.hasEmptyList (q : Query) : Prop :=
  q.handlerIdIn = some [] ∨ q.runIdIn = some [] ∨ q.workflowNameIn = some [] ∨ q.statusIn = some []

theorem matchesB_emptyList (h : Handler) (q : Query) (he : q.hasEmptyList) : matchesB h q = false := by
  unfold matchesB
  rcases he with he | he | he | he <;> rw [he] <;> simp [inOk_nil]

theorem matchesB_noFilter (h : Handler) (q : Query) (hf : q.hasFilter = false) : matchesB h q = true := by
  unfold Query.hasFilter at hf
  simp only [Bool.or_eq_false_iff, Option.isSome_eq_false_iff, Option.isNone_iff_eq_none] at hf
  obtain ⟨⟨⟨⟨h1, h2⟩, h3⟩, h4⟩, h5⟩ := hf
  simp [matchesB, h1, h2, h3, h4, h5, inOk]

theorem sqlInClauses_ne_nil (q : Query) : ∀ (fs : List (Nat × Nat × Bool)) (cs : List Clause),
    sqlInClauses q fs = some cs → (∃ f ∈ fs, (q.field f.1).isSome = true) → cs ≠ [] := by
  intro fs
  induction fs with
  | nil => intro cs _ ⟨f, hf, _⟩; cases hf
  | cons f fs ih =>
    intro cs hcs hex
    simp only [sqlInClauses] at hcs
    cases hf : q.field f.1 with
    | none =>
      rw [hf] at hcs
      apply ih cs hcs
      obtain ⟨g, hg, hgs⟩ := hex
      rcases List.mem_cons.mp hg with rfl | hg
      · rw [hf] at hgs; cases hgs
      · exact ⟨g, hg, hgs⟩
    | some vs =>
      rw [hf] at hcs
      simp only at hcs
      split at hcs
      · cases hcs
      · cases hs : sqlInClauses q fs with
        | none => rw [hs] at hcs; cases hcs
        | some cs' =>
          rw [hs] at hcs
          simp only [Option.map_some, Option.some.injEq] at hcs
          rw [← hcs]; exact List.cons_ne_nil _ _

theorem sqlFilters_ne_nil (q : Query) (cs : List Clause) (hs : sqlFilters q = some cs) (hf : q.hasFilter = true) :
    cs ≠ [] := by
  unfold sqlFilters at hs
  cases hi : sqlInClauses q sqlIn with
  | none => rw [hi] at hs; cases hs
  | some c1 =>
    rw [hi] at hs
    simp only [Option.map_some, Option.some.injEq] at hs
    subst hs
    by_cases hidle : q.isIdle.isSome = true
    · intro hnil
      have h2 : sqlIdleClauses q = [] := (List.append_eq_nil_iff.mp hnil).2
      unfold sqlIdleClauses at h2
      rcases hq : q.isIdle with _ | _ | _
      · rw [hq] at hidle; cases hidle
      · rw [hq] at h2; simp [sqlIdleFalse] at h2
      · rw [hq] at h2; simp [sqlIdleTrue] at h2
    · have hex : ∃ f ∈ sqlIn, (q.field f.1).isSome = true := by
        unfold Query.hasFilter at hf
        simp only [Bool.or_eq_true] at hf
        rcases hf with (((h1 | h2) | h3) | h4) | h5
        · exact ⟨(0, 0, true), by simp [sqlIn], by simpa [Query.field] using h1⟩
        · exact ⟨(1, 1, true), by simp [sqlIn], by simpa [Query.field] using h2⟩
        · exact ⟨(2, 2, true), by simp [sqlIn], by simpa [Query.field] using h3⟩
        · exact ⟨(3, 3, true), by simp [sqlIn], by simpa [Query.field] using h4⟩
        · exact absurd h5 hidle
      have := sqlInClauses_ne_nil q sqlIn c1 hi hex
      intro hnil
      exact this (List.append_eq_nil_iff.mp hnil).1

theorem sqlFilters_noFilter (q : Query) (hf : q.hasFilter = false) : sqlFilters q = some [] := by
  unfold Query.hasFilter at hf
  simp only [Bool.or_eq_false_iff, Option.isSome_eq_false_iff, Option.isNone_iff_eq_none] at hf
  obtain ⟨⟨⟨⟨h1, h2⟩, h3⟩, h4⟩, h5⟩ := hf
  simp [sqlFilters, sqlIn, sqlInClauses, Query.field, sqlIdleClauses, h1, h2, h3, h4, h5]

theorem sqlMatches_of_filters (h : Handler) (q : Query) (cs : List Clause) (hs : sqlFilters q = some cs) :
    whereTrue h cs = sqlMatches h q := by
  simp [sqlMatches, hs]

theorem sqlMatches_of_none (h : Handler) (q : Query) (hs : sqlFilters q = none) : sqlMatches h q = false := by
  simp [sqlMatches, hs]

end HandlerStore
