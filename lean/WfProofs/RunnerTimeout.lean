import WfProofs.RunnerTerminal
/-!
C31 — the run timeout on the runner LTS: the only `TickTimeout` of a run is the one pushed by
`Runner.init`, it reaches the tick buffer only once the clock has passed its deadline, and a
`halt timeout` is produced by that tick alone.
-/
set_option linter.unusedSimpArgs false
set_option linter.unusedVariables false

namespace Engine

def Cmd.isHalt : Cmd → Bool
  | .halt _ => true
  | _ => false

def Tick.isTimeout : Tick → Bool
  | .timeout _ => true
  | _ => false

theorem plain_not_halt {c : Cmd} (h : plainCmd c = true) : c.isHalt = false := by
  cases c <;> simp_all [plainCmd, Cmd.isExit, Cmd.isHalt]

theorem applyRes_noHalt (cfg : Cfg) (pol : Policy) (step : Nat) (tickEv : Ev) (dc : Bool)
    (acc : ResAcc) (r : Res) (h : ∀ c ∈ acc.cmds, c.isHalt = false) :
    ∀ c ∈ (applyRes cfg pol step tickEv dc acc r).cmds, c.isHalt = false := by
  cases r with
  | result r =>
    cases r with
    | none => simpa [applyRes] using h
    | some ev =>
      simp only [applyRes]
      split
      · intro c hc
        simp only [List.mem_append, List.mem_cons, List.mem_nil_iff, or_false] at hc
        rcases hc with hc | rfl | rfl
        · exact h c hc
        · rfl
        · rfl
      · intro c hc
        simp only [List.mem_append, List.mem_cons, List.mem_nil_iff, or_false] at hc
        rcases hc with (hc | hc) | rfl
        · exact h c hc
        · split at hc
          · simp at hc; subst hc; rfl
          · simp at hc
        · rfl
  | failed exc failedAt =>
    simp only [applyRes]
    split
    · exact h
    split
    · intro c hc
      simp only [List.mem_append, List.mem_cons, List.mem_nil_iff, or_false] at hc
      rcases hc with hc | rfl
      · exact h c hc
      · rfl
    all_goals
      split
      · split
        · intro c hc
          simp only [List.mem_append, List.mem_cons, List.mem_nil_iff, or_false] at hc
          rcases hc with hc | rfl
          · exact h c hc
          · rfl
        · intro c hc
          simp only [List.mem_append, List.mem_cons, List.mem_nil_iff, or_false] at hc
          rcases hc with hc | rfl | rfl
          · exact h c hc
          · rfl
          · rfl
      · intro c hc
        simp only [List.mem_append, List.mem_cons, List.mem_nil_iff, or_false] at hc
        rcases hc with hc | rfl | rfl
        · exact h c hc
        · rfl
        · rfl
  | addCollected buf ev =>
    simp only [applyRes]
    split
    · exact h
    split
    · intro c hc
      simp only [List.mem_append, List.mem_cons, List.mem_nil_iff, or_false] at hc
      rcases hc with hc | rfl
      · exact h c hc
      · rfl
    · exact h
  | deleteCollected buf =>
    simp only [applyRes]
    split <;> exact h
  | addWaiter wid waiterEv req timeout ty =>
    simp only [applyRes]
    split
    · exact h
    · intro c hc
      simp only [List.mem_append] at hc
      rcases hc with (hc | hc) | hc
      · exact h c hc
      · cases waiterEv <;> simp at hc; subst hc; rfl
      · cases timeout <;> simp at hc; subst hc; rfl
  | deleteWaiter wid =>
    simp only [applyRes]
    split <;> exact h

theorem foldl_applyRes_noHalt (cfg : Cfg) (pol : Policy) (step : Nat) (tickEv : Ev) (dc : Bool) :
    ∀ (res : List Res) (acc : ResAcc), (∀ c ∈ acc.cmds, c.isHalt = false) →
      ∀ c ∈ (res.foldl (applyRes cfg pol step tickEv dc) acc).cmds, c.isHalt = false
  | [], acc, h => by simpa using h
  | r :: rs, acc, h => by
    simp only [List.foldl_cons]
    exact foldl_applyRes_noHalt cfg pol step tickEv dc rs _ (applyRes_noHalt cfg pol step tickEv dc acc r h)

theorem processStepResult_noHalt (cfg : Cfg) (pol : Policy) (step worker : Nat) (tickEv : Ev)
    (res : List Res) (st : State) (now : Int) :
    ∀ c ∈ (processStepResult cfg pol step worker tickEv res st now).2, c.isHalt = false := by
  unfold processStepResult
  split
  · simp [Cmd.isHalt]
  · split
    · simp [Cmd.isHalt]
    · rename_i exec _
      have hf := foldl_applyRes_noHalt cfg pol step tickEv (res.any isResult) res
        { st := st, exec := exec } (by simp)
      simp only
      generalize (res.foldl (applyRes cfg pol step tickEv (res.any isResult)) { st := st, exec := exec }) = acc at hf
      have hs : ∀ c ∈ (settle acc step worker tickEv).2, c.isHalt = false := by
        unfold settle; simp only; split
        · exact hf
        · intro c hc
          rcases List.mem_cons.mp hc with rfl | hc
          · rfl
          · exact hf c hc
      split
      · exact hs
      · intro c hc
        rcases List.mem_append.mp hc with hc | hc
        · exact hs c hc
        · exact plain_not_halt (drain_plain _ _ _ _ _ c hc)

/-- **only the timeout tick halts with `timeout`** (and only the cancel tick with `cancelled`) -/
theorem reduce_halt_timeout (cfg : Cfg) (pol : Policy) (tick : Tick) (st : State) (now : Int)
    (h : Cmd.halt .timeout ∈ (reduce cfg pol tick st now).2) : tick.isTimeout = true := by
  have key : ∀ (r : State × List Cmd), (∀ c ∈ r.2, c.isHalt = false) →
      Cmd.halt .timeout ∉ (if checkIdle cfg r.1 then (r.1, r.2 ++ [Cmd.scheduleIdleCheck]) else r).2 := by
    intro r hr hmem
    split at hmem
    · rcases List.mem_append.mp hmem with hm | hm
      · have := hr _ hm; simp [Cmd.isHalt] at this
      · simp at hm
    · have := hr _ hmem; simp [Cmd.isHalt] at this
  unfold reduce at h
  cases tick with
  | stepResult step worker ev res =>
    exact absurd h (key _ (processStepResult_noHalt cfg pol step worker ev res st now))
  | addEvent att target =>
    exact absurd h (key _ (fun c hc => plain_not_halt (processAddEvent_plain cfg att target st now c hc)))
  | cancelRun =>
    simp only at h
    split at h <;> simp at h
  | idleRelease => simp at h
  | publish ev =>
    simp only at h
    split at h <;> simp at h
  | timeout t => rfl
  | waiterTimeout step waiter =>
    refine absurd h (key _ (fun c hc => ?_))
    unfold processWaiterTimeout at hc
    split at hc
    · simp at hc
    · simp only at hc
      split at hc
      · simp at hc
      · split at hc
        · simp at hc
        · exact plain_not_halt (addOrEnqueue_plain _ _ _ _ _ c hc)
  | idleCheck =>
    simp only at h
    split at h <;> simp at h

/-! ### the runner invariant -/

/-- `T` is the deadline of the run's timeout -/
structure TimeoutInv (T : Int) (r : Runner) : Prop where
  heap : ∀ tm ∈ r.heap, tm.tick.isTimeout = true → tm.at_ = T
  buf : (∃ x ∈ r.buf, x.isTimeout = true) → T ≤ r.now
  mailbox : ∀ x ∈ r.mailbox, x.isTimeout = false
  log : ∀ p ∈ r.log, p.1.isTimeout = true → T ≤ p.2
  outcome : r.outcome = some (.halted .timeout) → T ≤ r.now

theorem execCmd_timeoutInv (T : Int) (r : Runner) (c : Cmd) (h : TimeoutInv T r)
    (hc : c = .halt .timeout → T ≤ r.now) : TimeoutInv T (execCmd r c) := by
  obtain ⟨hh, hb, hm, hl, ho⟩ := h
  cases c with
  | queueEvent att step delay =>
    simp only [execCmd]
    have hbuf : TimeoutInv T { r with buf := r.buf ++ [Tick.addEvent att step] } := by
      refine ⟨hh, ?_, hm, hl, ho⟩
      rintro ⟨x, hx, hxt⟩
      rcases List.mem_append.mp hx with hx | hx
      · exact hb ⟨x, hx, hxt⟩
      · simp at hx; subst hx; simp [Tick.isTimeout] at hxt
    cases delay with
    | none => exact hbuf
    | some d =>
      simp only
      split
      · refine ⟨?_, hb, hm, hl, ho⟩
        intro tm htm htt
        simp only [Runner.push, List.mem_append, List.mem_singleton] at htm
        rcases htm with htm | rfl
        · exact hh tm htm htt
        · simp [Tick.isTimeout] at htt
      · exact hbuf
  | runWorker s ev w => exact ⟨hh, hb, hm, hl, ho⟩
  | halt k =>
    refine ⟨hh, hb, hm, hl, ?_⟩
    intro hk
    simp only [execCmd, Runner.finish, Option.some.injEq, Outcome.halted.injEq] at hk
    subst hk
    exact hc rfl
  | completeRun p => exact ⟨hh, hb, hm, hl, by simp [execCmd, Runner.finish]⟩
  | failWorkflow s x => exact ⟨hh, hb, hm, hl, by simp [execCmd, Runner.finish]⟩
  | publish p => exact ⟨hh, hb, hm, hl, ho⟩
  | scheduleIdleCheck =>
    simp only [execCmd]
    split
    · exact ⟨hh, hb, hm, hl, ho⟩
    · refine ⟨hh, ?_, hm, hl, ho⟩
      rintro ⟨x, hx, hxt⟩
      rcases List.mem_append.mp hx with hx | hx
      · exact hb ⟨x, hx, hxt⟩
      · simp at hx; subst hx; simp [Tick.isTimeout] at hxt
  | scheduleWaiterTimeout s w t =>
    refine ⟨?_, hb, hm, hl, ho⟩
    intro tm htm htt
    simp only [execCmd, Runner.push, List.mem_append, List.mem_singleton] at htm
    rcases htm with htm | rfl
    · exact hh tm htm htt
    · simp [Tick.isTimeout] at htt
  | crash => exact ⟨hh, hb, hm, hl, by simp [execCmd, Runner.finish]⟩

theorem execCmd_now (r : Runner) (c : Cmd) : (execCmd r c).now = r.now := by
  cases c with
  | queueEvent att step delay =>
    simp only [execCmd]
    cases delay with
    | none => rfl
    | some d => simp only; split <;> rfl
  | scheduleIdleCheck => simp only [execCmd]; split <;> rfl
  | _ => rfl

theorem execCmds_timeoutInv (T : Int) : ∀ (cmds : List Cmd) (r : Runner), TimeoutInv T r →
    (Cmd.halt .timeout ∈ cmds → T ≤ r.now) → TimeoutInv T (execCmds r cmds)
  | [], r, h, _ => by simpa [execCmds] using h
  | c :: cs, r, h, hc => by
    unfold execCmds
    have h1 := execCmd_timeoutInv T r c h (fun e => hc (by simp [e]))
    simp only
    split
    · exact h1
    · apply execCmds_timeoutInv T cs _ h1
      intro hm
      rw [execCmd_now]
      exact hc (by simp [hm])

theorem step_timeoutInv (cfg : Cfg) (pol : Policy) (T : Int) (r : Runner) (a : Act)
    (h : TimeoutInv T r) : TimeoutInv T (r.step cfg pol a) := by
  unfold Runner.step
  split
  · exact h
  · obtain ⟨hh, hb, hm, hl, ho⟩ := h
    cases a with
    | drain =>
      simp only
      split
      · exact ⟨hh, hb, hm, hl, ho⟩
      · rename_i t rest hbuf
        have hbt : t.isTimeout = true → T ≤ r.now := fun ht => hb ⟨t, by simp [hbuf], ht⟩
        have hbrest : (∃ x ∈ rest, x.isTimeout = true) → T ≤ r.now := by
          rintro ⟨x, hx, hxt⟩; exact hb ⟨x, by simp [hbuf, hx], hxt⟩
        split
        · exact ⟨hh, hbrest, hm, hl, by simp [Runner.finish]⟩
        · apply execCmds_timeoutInv
          · refine ⟨hh, hbrest, hm, ?_, ho⟩
            intro p hp hpt
            rcases List.mem_append.mp hp with hp | hp
            · exact hl p hp hpt
            · simp at hp; subst hp; exact hbt hpt
          · intro hhalt
            exact hbt (reduce_halt_timeout cfg pol t r.st r.now hhalt)
    | workerDone s w res =>
      simp only
      split
      · exact ⟨hh, hb, hm, hl, ho⟩
      · split
        · exact ⟨hh, hb, hm, hl, ho⟩
        · refine ⟨hh, ?_, hm, hl, ho⟩
          rintro ⟨x, hx, hxt⟩
          simp at hx; subst hx; simp [Tick.isTimeout] at hxt
    | pull =>
      simp only
      split
      · exact ⟨hh, hb, hm, hl, ho⟩
      · split
        · exact ⟨hh, hb, hm, hl, ho⟩
        · rename_i t m hmb
          refine ⟨hh, ?_, fun x hx => hm x (by simp [hmb, hx]), hl, ho⟩
          rintro ⟨x, hx, hxt⟩
          simp at hx; subst hx
          have := hm x (by simp [hmb]); simp [this] at hxt
    | timer =>
      simp only
      split
      · exact ⟨hh, hb, hm, hl, ho⟩
      · refine ⟨fun tm htm htt => hh tm (List.mem_filter.mp htm).1 htt, ?_, hm, hl, ho⟩
        rintro ⟨x, hx, hxt⟩
        obtain ⟨tm, htm, rfl⟩ := List.mem_map.mp hx
        have hmem := List.mem_filter.mp (mem_sortTimers htm)
        have hat := hh tm hmem.1 hxt
        have hle : tm.at_ ≤ r.now := by simpa using hmem.2
        show T ≤ r.now
        omega
    | advance dt =>
      refine ⟨hh, fun hx => ?_, hm, hl, fun hx => ?_⟩
      · have := hb hx; simp only; omega
      · have := ho hx; simp only; omega
    | external t =>
      simp only
      split
      · rename_i hext
        refine ⟨hh, hb, ?_, hl, ho⟩
        intro x hx
        rcases List.mem_append.mp hx with hx | hx
        · exact hm x hx
        · simp at hx; subst hx
          cases x <;> simp_all [Tick.isExternal, Tick.isTimeout]
      · exact ⟨hh, hb, hm, hl, ho⟩
    | stepWrite p => exact ⟨hh, hb, hm, hl, ho⟩

theorem run_timeoutInv (cfg : Cfg) (pol : Policy) (T : Int) : ∀ (acts : List Act) (r : Runner),
    TimeoutInv T r → TimeoutInv T (Runner.run cfg pol r acts)
  | [], r, h => h
  | a :: as, r, h => by
    simp only [Runner.run, List.foldl_cons]
    exact run_timeoutInv cfg pol T as _ (step_timeoutInv cfg pol T r a h)

end Engine
