import WfProofs.JournalReplaying
/-! C27, part A over whole histories: any number of process lives of one run, each an arbitrary sequence of
`wait_for_next_task` calls (any in-flight set, any finishing order, timeouts, scheduler choices, even the
"non-deterministic execution" fallback).  The table invariant (`WF`: rows of the run numbered 0,1,2,… in
insertion order) and the mirror invariant (`_entries` = what `load` returns) hold after every call of every
life; the table is exactly the concatenation of the completions handed out by the fresh branch; the orphan
purge never removes a journal row; other runs' rows are never touched; and what a life hands to the control
loop is always the first `_replay_index` entries of the journal (fallback-free lives). -/
namespace Journal

variable {κ : Type}

/-- what a life observes = first `_replay_index` entries of its in-memory journal -/
def Obs (a : Adapter κ) (rets : List κ) : Prop :=
  rets = (a.tj.entries.getD []).take a.tj.idx ∧ a.tj.idx ≤ (a.tj.entries.getD []).length

theorem load_congr (db db' : Db κ) (run : String) (h : db'.rows = db.rows) : db'.load run = db.load run := by
  simp [Db.load, h]

theorem runRows_congr (db db' : Db κ) (run : String) (h : db'.rows = db.rows) : runRows db' run = runRows db run := by
  simp [runRows, h]

theorem WF_congr (db db' : Db κ) (run : String) (h : db'.rows = db.rows) (hw : WF db run) : WF db' run := by
  unfold WF at *; rw [runRows_congr db db' run h]; exact hw

/-- under `WF`, `purge_stale` (with the in-memory journal mirroring the table) deletes no journal row:
`truncate_from(len(entries))` finds nothing at or beyond `len(entries)` -/
theorem purgeStale_rows (j : TJ κ) (db : Db κ) (run : String) (fid : Nat)
    (hw : WF db run) (he : j.entries = some (db.load run)) : (j.purgeStale db run fid).rows = db.rows := by
  unfold TJ.purgeStale
  rw [he]
  simp only
  split
  · rfl
  · simp only [Db.truncateFrom, Db.purgeOpsFrom]
    apply List.filter_eq_self.mpr
    intro r hr
    by_cases hrun : (r.run == run) = true
    · have hm : r ∈ runRows db run := by simp [runRows, hr, hrun]
      have hs : r.seq ∈ (runRows db run).map (·.seq) := List.mem_map.mpr ⟨r, hm, rfl⟩
      rw [hw] at hs
      have hlt : r.seq < (runRows db run).length := List.mem_range.mp hs
      rw [load_length_of_WF db run hw]
      simp [hrun]; omega
    · simp [hrun]

theorem runRows_insert_other (db : Db κ) (run run' : String) (seq : Nat) (key : κ) (h : run' ≠ run) :
    runRows (db.insert run seq key) run' = runRows db run' := by
  have : (run == run') = false := by simpa using fun e => h e.symm
  simp [runRows, Db.insert, List.filter_append, this]

section
variable [DecidableEq κ]

/-- `waitNext` after the load / `next_expected_key` / purge prologue -/
def waitCore (a1 : Adapter κ) (db1 : Db κ) (run : String) (purged : Bool) (expected : Option κ)
    (inflight done : List κ) (timedOut : Bool) (choice : Option κ) : Adapter κ × Db κ × WaitRes κ :=
  if inflight.isEmpty then (a1, db1, ⟨.nothing, false, purged⟩) else
  let freshBranch (fallback : Bool) : Adapter κ × Db κ × WaitRes κ :=
    match choice with
    | some k =>
      if done.contains k && inflight.contains k then
        let (tj', db') := a1.tj.record db1 run k
        ({ a1 with tj := tj' }, db', ⟨.fresh k ((a1.tj.entries.getD []).length), fallback, purged⟩)
      else (a1, db1, ⟨.badChoice, fallback, purged⟩)
    | none =>
      if timedOut then (a1, db1, ⟨.timeout, fallback, purged⟩)
      else (a1, db1, ⟨.blockedFresh, fallback, purged⟩)
  match expected with
  | some k =>
    if inflight.contains k then
      if done.contains k then ({ a1 with tj := a1.tj.advance }, db1, ⟨.replayed k, false, purged⟩)
      else if timedOut then (a1, db1, ⟨.replayTimeout k, false, purged⟩)
      else (a1, db1, ⟨.blocked k, false, purged⟩)
    else freshBranch true
  | none => freshBranch false

theorem waitNext_core (a : Adapter κ) (db : Db κ) (run : String) (fid : Nat)
    (inflight done : List κ) (timedOut : Bool) (choice : Option κ) :
    waitNext a db run fid inflight done timedOut choice =
      waitCore { tj := a.tj.load db run,
                 purgeDone := a.purgeDone || ((a.tj.load db run).nextExpected.isNone && !a.purgeDone) }
        (if (a.tj.load db run).nextExpected.isNone && !a.purgeDone then (a.tj.load db run).purgeStale db run fid else db)
        run (((a.tj.load db run).nextExpected.isNone && !a.purgeDone) && (a.tj.load db run).hasEntries)
        (a.tj.load db run).nextExpected inflight done timedOut choice := rfl

/-- what one call does to the table, the mirror and the observed order -/
def StepGood (a1 : Adapter κ) (db1 : Db κ) (run : String) (rets : List κ) (r : Adapter κ × Db κ × WaitRes κ) : Prop :=
  WF r.2.1 run ∧ r.1.tj.entries = some (r.2.1.load run) ∧
  r.2.1.load run = db1.load run ++ r.2.2.out.freshKey.toList ∧
  (∀ run', run' ≠ run → runRows r.2.1 run' = runRows db1 run') ∧
  (∀ k s, r.2.2.out = .fresh k s → s = (db1.load run).length) ∧
  (r.2.2.fallback = false → Obs a1 rets → Obs r.1 (rets ++ r.2.2.out.returned.toList))

omit [DecidableEq κ] in
theorem good_same (a1 a' : Adapter κ) (db1 : Db κ) (run : String) (rets : List κ) (out : WaitOut κ) (fb p : Bool)
    (hw : WF db1 run) (he : a1.tj.entries = some (db1.load run))
    (h1 : a'.tj = a1.tj) (h2 : out.freshKey = none) (h3 : out.returned = none) (h4 : ∀ k s, out ≠ .fresh k s) :
    StepGood a1 db1 run rets (a', db1, ⟨out, fb, p⟩) := by
  refine ⟨hw, by simp [h1, he], by simp [h2], fun _ _ => rfl, fun k s h => absurd h (h4 k s), ?_⟩
  intro _ ho
  simpa [Obs, h1, h3] using ho

omit [DecidableEq κ] in
theorem good_replayed (a1 : Adapter κ) (db1 : Db κ) (run : String) (rets : List κ) (k : κ) (pd p : Bool)
    (hw : WF db1 run) (he : a1.tj.entries = some (db1.load run)) (hk : a1.tj.nextExpected = some k) :
    StepGood a1 db1 run rets (⟨a1.tj.advance, pd⟩, db1, ⟨.replayed k, false, p⟩) := by
  refine ⟨hw, by simp [TJ.advance, he], by simp [WaitOut.freshKey], fun _ _ => rfl, ?_, ?_⟩
  · intro k' s h; cases h
  · intro _ ho
    unfold TJ.nextExpected at hk
    rw [he] at hk
    simp only at hk
    split at hk
    · rename_i hlt
      obtain ⟨h1, h2⟩ := ho
      rw [he] at h1 h2
      simp only [Option.getD_some] at h1 h2
      simp only [Obs, TJ.advance, he, Option.getD_some, WaitOut.returned, Option.toList_some]
      refine ⟨?_, hlt⟩
      rw [List.take_add_one, hk, h1]
      rfl
    · cases hk

omit [DecidableEq κ] in
theorem good_fresh (a1 : Adapter κ) (db1 : Db κ) (run : String) (rets : List κ) (k : κ) (fb p : Bool)
    (hw : WF db1 run) (he : a1.tj.entries = some (db1.load run)) (hfb : fb = false → a1.tj.nextExpected = none) :
    StepGood a1 db1 run rets
      ({ a1 with tj := (a1.tj.record db1 run k).1 }, (a1.tj.record db1 run k).2,
       ⟨.fresh k ((a1.tj.entries.getD []).length), fb, p⟩) := by
  obtain ⟨hl, hw', hs'⟩ := record_roundtrip a1.tj db1 run k hw he
  refine ⟨hw', hs', by simpa [WaitOut.freshKey] using hl, ?_, ?_, ?_⟩
  · intro run' hne
    simp only [TJ.record]
    exact runRows_insert_other db1 run run' _ k hne
  · intro k' s h
    injection h with _ h2
    rw [← h2, he]; rfl
  · intro hf ho
    have hn := hfb hf
    unfold TJ.nextExpected at hn
    rw [he] at hn
    simp only at hn
    obtain ⟨h1, h2⟩ := ho
    rw [he] at h1 h2
    simp only [Option.getD_some] at h1 h2
    have hge : ¬ a1.tj.idx < (db1.load run).length := by
      intro hlt
      simp only [hlt, if_true] at hn
      have := List.getElem?_eq_getElem hlt
      rw [hn] at this; cases this
    have hidx : a1.tj.idx = (db1.load run).length := by omega
    simp only [Obs, TJ.record, he, Option.getD_some, WaitOut.returned, Option.toList_some, List.length_append,
      List.length_cons, List.length_nil]
    refine ⟨?_, by omega⟩
    rw [h1, hidx, List.take_length]
    have : (db1.load run).length + 1 = (db1.load run ++ [k]).length := by simp
    rw [this, List.take_length]

theorem waitCore_good (a1 : Adapter κ) (db1 : Db κ) (run : String) (purged : Bool)
    (inflight done : List κ) (timedOut : Bool) (choice : Option κ) (rets : List κ)
    (hw : WF db1 run) (he : a1.tj.entries = some (db1.load run)) :
    StepGood a1 db1 run rets (waitCore a1 db1 run purged a1.tj.nextExpected inflight done timedOut choice) := by
  have same : ∀ (out : WaitOut κ) (fb : Bool), out.freshKey = none → out.returned = none → (∀ k s, out ≠ .fresh k s) →
      StepGood a1 db1 run rets (a1, db1, ⟨out, fb, purged⟩) :=
    fun out fb h2 h3 h4 => good_same a1 a1 db1 run rets out fb purged hw he rfl h2 h3 h4
  have fresh : ∀ fb : Bool, (fb = false → a1.tj.nextExpected = none) →
      StepGood a1 db1 run rets
        (match choice with
         | some k =>
           if done.contains k && inflight.contains k then
             ({ a1 with tj := (a1.tj.record db1 run k).1 }, (a1.tj.record db1 run k).2,
              ⟨.fresh k ((a1.tj.entries.getD []).length), fb, purged⟩)
           else (a1, db1, ⟨.badChoice, fb, purged⟩)
         | none =>
           if timedOut then (a1, db1, ⟨.timeout, fb, purged⟩) else (a1, db1, ⟨.blockedFresh, fb, purged⟩)) := by
    intro fb hfb
    cases choice with
    | none =>
      simp only
      split
      · exact same _ _ rfl rfl (fun _ _ h => by cases h)
      · exact same _ _ rfl rfl (fun _ _ h => by cases h)
    | some c =>
      simp only
      split
      · exact good_fresh a1 db1 run rets c fb purged hw he hfb
      · exact same _ _ rfl rfl (fun _ _ h => by cases h)
  unfold waitCore
  split
  · exact same _ _ rfl rfl (fun _ _ h => by cases h)
  · cases hx : a1.tj.nextExpected with
    | none => exact fresh false (fun _ => hx)
    | some k =>
      simp only
      split
      · split
        · exact good_replayed a1 db1 run rets k _ purged hw he hx
        · split
          · exact same _ _ rfl rfl (fun _ _ h => by cases h)
          · exact same _ _ rfl rfl (fun _ _ h => by cases h)
      · exact fresh true (fun h => by cases h)

/-- one call, from any adapter state whose in-memory journal is unloaded or mirrors the table -/
theorem waitNext_good (a : Adapter κ) (db : Db κ) (run : String) (fid : Nat)
    (inflight done : List κ) (timedOut : Bool) (choice : Option κ) (rets : List κ)
    (hw : WF db run) (hs : a.tj.entries = none ∨ a.tj.entries = some (db.load run)) :
    StepGood ⟨a.tj.load db run, a.purgeDone⟩ db run rets (waitNext a db run fid inflight done timedOut choice) := by
  have hj : (a.tj.load db run).entries = some (db.load run) := by
    rcases hs with h | h <;> simp [TJ.load, h]
  rw [waitNext_core]
  generalize hjj : a.tj.load db run = j at *
  have hrows : (if j.nextExpected.isNone && !a.purgeDone then j.purgeStale db run fid else db).rows = db.rows := by
    split
    · exact purgeStale_rows j db run fid hw hj
    · rfl
  generalize (if j.nextExpected.isNone && !a.purgeDone then j.purgeStale db run fid else db) = db1 at *
  have hw1 : WF db1 run := WF_congr db db1 run hrows hw
  have hl1 : db1.load run = db.load run := load_congr db db1 run hrows
  have g := waitCore_good ⟨j, a.purgeDone || (j.nextExpected.isNone && !a.purgeDone)⟩ db1 run
    ((j.nextExpected.isNone && !a.purgeDone) && j.hasEntries) inflight done timedOut choice rets hw1 (by simp [hj, hl1])
  obtain ⟨g1, g2, g3, g4, g5, g6⟩ := g
  refine ⟨g1, g2, by rw [g3, hl1], ?_, ?_, ?_⟩
  · intro run' hne; rw [g4 run' hne]; exact runRows_congr db db1 run' hrows
  · intro k s h; rw [g5 k s h, hl1]
  · intro hf ho; exact g6 hf (by simpa [Obs] using ho)

omit [DecidableEq κ] in
theorem obs_load (a : Adapter κ) (db : Db κ) (run : String) (rets : List κ) (pd : Bool) (h : Obs a rets) :
    Obs ⟨a.tj.load db run, pd⟩ rets := by
  unfold Obs at *
  cases he : a.tj.entries with
  | none =>
    rw [he] at h
    simp at h
    simp [TJ.load, he, h.1, h.2]
  | some es => simpa [TJ.load, he] using h

theorem runCalls_good (run : String) (calls : List (WaitIn κ)) :
    ∀ (a : Adapter κ) (db : Db κ) (rets : List κ), WF db run →
      (a.tj.entries = none ∨ a.tj.entries = some (db.load run)) →
      WF (runCalls run a db calls).2.1 run ∧
      ((runCalls run a db calls).1.tj.entries = none ∨
        (runCalls run a db calls).1.tj.entries = some ((runCalls run a db calls).2.1.load run)) ∧
      (runCalls run a db calls).2.1.load run = db.load run ++ freshKeys (runCalls run a db calls).2.2 ∧
      (∀ run', run' ≠ run → runRows (runCalls run a db calls).2.1 run' = runRows db run') ∧
      ((∀ r, r ∈ (runCalls run a db calls).2.2 → r.fallback = false) → Obs a rets →
        Obs (runCalls run a db calls).1 (rets ++ returnedKeys (runCalls run a db calls).2.2)) := by
  induction calls with
  | nil => intro a db rets hw hs; exact ⟨hw, hs, by simp [runCalls, freshKeys], fun _ _ => rfl,
      fun _ ho => by simpa [runCalls, returnedKeys] using ho⟩
  | cons i is ih =>
    intro a db rets hw hs
    obtain ⟨g1, g2, g3, g4, _, g6⟩ := waitNext_good a db run i.fid i.inflight i.done i.timedOut i.choice rets hw hs
    obtain ⟨h1, h2, h3, h4, h5⟩ := ih (waitNext a db run i.fid i.inflight i.done i.timedOut i.choice).1
      (waitNext a db run i.fid i.inflight i.done i.timedOut i.choice).2.1
      (rets ++ (waitNext a db run i.fid i.inflight i.done i.timedOut i.choice).2.2.out.returned.toList) g1 (Or.inr g2)
    simp only [runCalls]
    refine ⟨h1, h2, ?_, ?_, ?_⟩
    · rw [h3, g3]
      cases hfk : (waitNext a db run i.fid i.inflight i.done i.timedOut i.choice).2.2.out.freshKey <;>
        simp [freshKeys, hfk]
    · intro run' hne; rw [h4 run' hne, g4 run' hne]
    · intro hall ho
      have := h5 (fun r hr => hall r (by simp [hr])) (g6 (hall _ (by simp)) (obs_load a db run rets a.purgeDone ho))
      cases hrk : (waitNext a db run i.fid i.inflight i.done i.timedOut i.choice).2.2.out.returned <;>
        simpa [returnedKeys, List.filterMap_cons, hrk] using this

theorem runCalls_loaded (run : String) (calls : List (WaitIn κ)) :
    ∀ (a : Adapter κ) (db : Db κ), WF db run →
      (a.tj.entries = none ∨ a.tj.entries = some (db.load run)) →
      (a.tj.entries = some (db.load run) ∨ calls ≠ []) →
      Sync (runCalls run a db calls).1.tj (runCalls run a db calls).2.1 run := by
  induction calls with
  | nil =>
    intro a db _ _ h
    rcases h with h | h
    · exact h
    · exact absurd rfl h
  | cons i is ih =>
    intro a db hw hs _
    obtain ⟨g1, g2, _, _, _, _⟩ := waitNext_good a db run i.fid i.inflight i.done i.timedOut i.choice [] hw hs
    simp only [runCalls]
    exact ih _ _ g1 (Or.inr g2) (Or.inl g2)

theorem runLives_good (run : String) (lives : List (List (WaitIn κ))) :
    ∀ (db : Db κ), WF db run →
      WF (runLives run db lives).1 run ∧
      (runLives run db lives).1.load run = db.load run ++ freshKeys (runLives run db lives).2 ∧
      (∀ run', run' ≠ run → runRows (runLives run db lives).1 run' = runRows db run') := by
  induction lives with
  | nil => intro db hw; exact ⟨hw, by simp [runLives, freshKeys], fun _ _ => rfl⟩
  | cons l ls ih =>
    intro db hw
    obtain ⟨g1, _, g3, g4, _⟩ := runCalls_good run l {} db [] hw (Or.inl rfl)
    obtain ⟨h1, h2, h3⟩ := ih (runCalls run {} db l).2.1 g1
    simp only [runLives]
    refine ⟨h1, ?_, ?_⟩
    · rw [h2, g3]; simp [freshKeys, List.filterMap_append]
    · intro run' hne; rw [h3 run' hne, g4 run' hne]

end
end Journal
