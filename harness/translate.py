"""Regenerate lean/WfModel/Generated.lean from /repo's current sources.

Every constant, table or small formula a theorem mentions is re-extracted here
(by `ast` or by parsing SQL) on every run, so the theorems are re-checked
against what the code says *now*.  When an expected shape is not found the
extractor emits a sentinel (0 / empty / "<missing>") and records a note; the
dependent theorem then fails to compile, which names what drifted.
"""
from __future__ import annotations

import ast
import os
import re
from typing import Any, Callable

from .boot import REPO, VERIF

OUT = os.path.join(VERIF, "lean", "WfModel", "Generated.lean")


def _parse(rel: str) -> ast.Module | None:
    try:
        return ast.parse(open(os.path.join(REPO, rel)).read())
    except (OSError, SyntaxError):
        return None


def _func(tree: ast.AST | None, name: str) -> ast.AST | None:
    if tree is None:
        return None
    for n in ast.walk(tree):
        if isinstance(n, (ast.FunctionDef, ast.AsyncFunctionDef, ast.ClassDef)) and n.name == name:
            return n
    return None


def _assign_const(fn: ast.AST | None, var: str) -> Any:
    if fn is None:
        return None
    for n in ast.walk(fn):
        if isinstance(n, ast.Assign) and len(n.targets) == 1 and isinstance(n.targets[0], ast.Name) and n.targets[0].id == var:
            if isinstance(n.value, ast.Constant):
                return n.value.value
        if isinstance(n, ast.AnnAssign) and isinstance(n.target, ast.Name) and n.target.id == var and isinstance(n.value, ast.Constant):
            return n.value.value
    return None


def lean_str(s: str) -> str:
    out = ['"']
    for ch in s:
        if ch == '"':
            out.append('\\"')
        elif ch == "\\":
            out.append("\\\\")
        elif ch == "\n":
            out.append("\\n")
        elif ch == "\t":
            out.append("\\t")
        elif 32 <= ord(ch) < 127:
            out.append(ch)
        else:
            out.append("\\u{%x}" % ord(ch))
    out.append('"')
    return "".join(out)


def lean_nat(v: Any, notes: list[str], what: str) -> str:
    if isinstance(v, bool) or not isinstance(v, int) or v < 0:
        notes.append(f"translate: could not extract {what} (got {v!r})")
        return "0"
    return str(v)


# --------------------------------------------------------------------------
# C32 — deployment ids


def gen_c32(notes: list[str]) -> list[str]:
    rel = "packages/llama-agents-control-plane/src/llama_agents/control_plane/k8s_client.py"
    tree = _parse(rel)
    find = _func(tree, "find_deployment_id")
    suf = _func(tree, "_append_random_suffix")
    subs: list[tuple[str, str]] = []
    prefix = None
    min_len = None
    min_op = None
    count_src = "<missing>"
    if find is not None:
        for n in ast.walk(find):
            if isinstance(n, ast.Call) and isinstance(n.func, ast.Attribute) and n.func.attr == "sub" and len(n.args) >= 2:
                a, b = n.args[0], n.args[1]
                if isinstance(a, ast.Constant) and isinstance(b, ast.Constant):
                    subs.append((a.value, b.value))
            if isinstance(n, ast.BinOp) and isinstance(n.op, ast.Add) and isinstance(n.left, ast.Constant) and isinstance(n.left.value, str):
                prefix = n.left.value
            if isinstance(n, ast.Compare) and len(n.comparators) == 1 and isinstance(n.comparators[0], ast.Constant) \
                    and isinstance(n.comparators[0].value, int):
                left = n.left
                if isinstance(left, ast.Name):
                    # resolve `x = len(re.findall(<pat>, name.lower()))`
                    var = left.id
                    for m in ast.walk(find):
                        if isinstance(m, ast.Assign) and isinstance(m.targets[0], ast.Name) and m.targets[0].id == var:
                            left = m.value
                            break
                src = ast.unparse(left)
                min_len = n.comparators[0].value
                min_op = type(n.ops[0]).__name__
                count_src = src
    subs.sort(key=lambda x: 0)  # keep source order (ast.walk is BFS; re-sort by position below)
    if find is not None:
        calls = [n for n in ast.walk(find) if isinstance(n, ast.Call) and isinstance(n.func, ast.Attribute) and n.func.attr == "sub"]
        calls.sort(key=lambda n: (n.lineno, n.col_offset))
        subs = [(c.args[0].value, c.args[1].value) for c in calls
                if len(c.args) >= 2 and isinstance(c.args[0], ast.Constant) and isinstance(c.args[1], ast.Constant)]
    alphabet = None
    alt = None
    if suf is not None:
        for n in ast.walk(suf):
            if isinstance(n, ast.Call) and isinstance(n.func, ast.Attribute) and n.func.attr == "choices" and n.args and isinstance(n.args[0], ast.Constant):
                alphabet = n.args[0].value
            if isinstance(n, ast.Call) and isinstance(n.func, ast.Attribute) and n.func.attr == "choice" and n.args and isinstance(n.args[0], ast.Constant):
                alt = n.args[0].value
    while len(subs) < 3:
        subs.append(("<missing>", "<missing>"))
        notes.append("translate: C32 expected three re.sub calls in find_deployment_id")
    dns = None
    t2 = _parse("packages/llama-agents-core/src/llama_agents/core/schema/deployments.py")
    if t2 is not None:
        for n in ast.walk(t2):
            if isinstance(n, ast.Assign) and isinstance(n.targets[0], ast.Name) and n.targets[0].id == "_DNS_1035_RE":
                if isinstance(n.value, ast.Call) and n.value.args and isinstance(n.value.args[0], ast.Constant):
                    dns = n.value.args[0].value
    L = ["namespace Gen.C32"]
    L.append(f"def maxLength : Nat := {lean_nat(_assign_const(find, 'max_length'), notes, 'C32 max_length')}")
    L.append(f"def randomness : Nat := {lean_nat(_assign_const(suf, 'randomness'), notes, 'C32 randomness')}")
    L.append(f"def minLength : Nat := {lean_nat(min_len, notes, 'C32 minimum length')}")
    L.append(f"def minLengthOp : String := {lean_str(str(min_op))}")
    L.append(f"def minCountExpr : String := {lean_str(count_src)}")
    for i, (pat, rep) in enumerate(subs[:3]):
        L.append(f"def subPattern{i} : String := {lean_str(pat)}")
        L.append(f"def subRepl{i} : String := {lean_str(rep)}")
    L.append(f"def numSubs : Nat := {len(subs)}")
    L.append(f"def digitPrefix : String := {lean_str(prefix if isinstance(prefix, str) else '<missing>')}")
    L.append(f"def hexAlphabet : String := {lean_str(alphabet if isinstance(alphabet, str) else '<missing>')}")
    L.append(f"def altAlphabet : String := {lean_str(alt if isinstance(alt, str) else '<missing>')}")
    L.append(f"def dnsRegex : String := {lean_str(dns if isinstance(dns, str) else '<missing>')}")
    L.append("end Gen.C32")
    return L


GENERATORS: list[Callable[[list[str]], list[str]]] = [gen_c32]


def generate() -> list[str]:
    notes: list[str] = []
    lines = [
        "/- GENERATED by /verif/harness/translate.py from /repo's current sources.",
        "   Do not edit; regenerated on every check run. -/",
        "",
    ]
    for g in GENERATORS:
        try:
            lines += g(notes)
        except Exception as e:  # extractor crash = drift; theorems depending on it will fail
            notes.append(f"translate: {g.__name__} crashed: {e!r}")
        lines.append("")
    text = "\n".join(lines)
    old = None
    try:
        old = open(OUT).read()
    except OSError:
        pass
    if old != text:
        os.makedirs(os.path.dirname(OUT), exist_ok=True)
        with open(OUT, "w") as f:
            f.write(text)
    return notes


if __name__ == "__main__":
    for n in generate():
        print(n)
