/-!
M11 — SQLite schema migrations of the server store, as the code does them.

* `parseTargetVersion` — `migration_utils.parse_target_version`: the regex
  `--\s*migration:\s*(\d+)` is *searched* in `sql_text.splitlines()[0]` (Python `str`
  semantics: Unicode line breaks, Unicode `\s`, Unicode decimal digits with `int()`).
* `loadMigrations` — `iter_migration_files` (keep names ending in `.sql`, sort by name, code-point
  order) plus `parse_target_version(text) or 0`.
* `applyStmt` — abstract effect of one DDL statement on the schema (`sqlite_master` in creation order,
  without SQLite's internal `sqlite_*` objects and without the `schema_migrations` table, which is the
  flag `Db.hasSM`); `none` = SQLite raises.
* `bootstrap` — `_bootstrap_schema_migrations`: if `schema_migrations` is missing create it and, when
  `PRAGMA user_version > 0`, seed rows `("server", v)` for `v in range(1, user_version + 1)`.
* `runFiles` / `runSources` / `runMigrations` — `run_migrations`: per source, `applied` = versions
  recorded for the package; files in order; skip when `version in applied or version == 0`; otherwise
  `executescript("BEGIN;\n" + text)`; on error `ROLLBACK` and re-raise (`Result.failed`, nothing of that
  file kept); else insert `(package, version)`, `COMMIT`, `applied.add(version)`.
-/
namespace Migrate

/-! ## version header -/

/-- `str.splitlines` boundaries -/
def lineBreaks : List Nat := [10, 11, 12, 13, 28, 29, 30, 133, 8232, 8233]

/-- Python `re` `\s` on `str` (= `str.isspace`) -/
def spaces : List Nat :=
  [9, 10, 11, 12, 13, 28, 29, 30, 31, 32, 133, 160, 5760, 8192, 8193, 8194, 8195, 8196, 8197, 8198,
   8199, 8200, 8201, 8202, 8232, 8233, 8239, 8287, 12288]

/-- code points of the digit zero of every Unicode decimal-digit block (Python 3.12 `\d`; each block is
ten consecutive code points valued 0..9, which is what `int()` reads) -/
def digitZeros : List Nat :=
  [48, 1632, 1776, 1984, 2406, 2534, 2662, 2790, 2918, 3046, 3174, 3302, 3430, 3558, 3664, 3792, 3872,
   4160, 4240, 6112, 6160, 6470, 6608, 6784, 6800, 6992, 7088, 7232, 7248, 42528, 43216, 43264, 43472,
   43504, 43600, 44016, 65296, 66720, 68912, 69734, 69872, 69942, 70096, 70384, 70736, 70864, 71248,
   71360, 71472, 71904, 72016, 72784, 73040, 73120, 73552, 92768, 92864, 93008, 120782, 120792, 120802,
   120812, 120822, 123200, 123632, 124144, 125264, 130032]

def isLineBreak (c : Char) : Bool := lineBreaks.contains c.toNat
def isSpace (c : Char) : Bool := spaces.contains c.toNat

def digitVal? (c : Char) : Option Nat :=
  (digitZeros.find? fun z => z ≤ c.toNat && c.toNat < z + 10).map fun z => c.toNat - z

/-- `text.splitlines()[0] if text else ""` -/
def firstLine (cs : List Char) : List Char := cs.takeWhile fun c => !isLineBreak c

def stripPrefix? : List Char → List Char → Option (List Char)
  | [], cs => some cs
  | _ :: _, [] => none
  | p :: ps, c :: cs => if p = c then stripPrefix? ps cs else none

/-- greedy `(\d+)` then `int(...)`: value of the maximal digit run, `none` when it is empty -/
def readDigits : List Char → Option Nat → Option Nat
  | [], acc => acc
  | c :: cs, acc =>
    match digitVal? c with
    | some d => readDigits cs (some (acc.getD 0 * 10 + d))
    | none => acc

/-- the pattern anchored at the head of `cs` -/
def matchHere (cs : List Char) : Option Nat :=
  match stripPrefix? "--".toList cs with
  | none => none
  | some r =>
    match stripPrefix? "migration:".toList (r.dropWhile isSpace) with
    | none => none
    | some r' => readDigits (r'.dropWhile isSpace) none

/-- `VERSION_PATTERN.search(line)`: leftmost match -/
def searchLine : List Char → Option Nat
  | [] => none
  | c :: cs =>
    match matchHere (c :: cs) with
    | some v => some v
    | none => searchLine cs

def parseTargetVersion (text : List Char) : Option Nat := searchLine (firstLine text)

/-! ## schema and DDL -/

structure Col where
  name : String
  /-- `type|notnull|default|pk` as `PRAGMA table_info` reports it -/
  decl : String
deriving DecidableEq, Repr, Inhabited

inductive Stmt where
  | createTable (ifNotExists : Bool) (name : String) (cols : List Col)
  | addColumn (table : String) (col : Col)
  | createIndex (ifNotExists : Bool) (unique : Bool) (name : String) (table : String) (cols : List String)
  /-- rejected by SQLite whatever the schema (syntax error), or not modelled -/
  | invalid
deriving DecidableEq, Repr, Inhabited

inductive Obj where
  | table (name : String) (cols : List Col)
  | index (name : String) (table : String) (unique : Bool) (cols : List String)
deriving DecidableEq, Repr, Inhabited

abbrev Schema := List Obj

def tableCols? : Schema → String → Option (List Col)
  | [], _ => none
  | .table n cs :: rest, t => if n = t then some cs else tableCols? rest t
  | .index .. :: rest, t => tableCols? rest t

def hasIndex : Schema → String → Bool
  | [], _ => false
  | .index n .. :: rest, i => n == i || hasIndex rest i
  | .table .. :: rest, i => hasIndex rest i

def addCol : Schema → String → Col → Schema
  | [], _, _ => []
  | .table n cs :: rest, t, c => if n = t then .table n (cs ++ [c]) :: rest else .table n cs :: addCol rest t c
  | o :: rest, t, c => o :: addCol rest t c

def nodupNames : List String → Bool
  | [] => true
  | n :: ns => !ns.contains n && nodupNames ns

def applyStmt (s : Schema) : Stmt → Option Schema
  | .createTable ifne n cols =>
    match tableCols? s n with
    | some _ => if ifne then some s else none            -- "table n already exists"
    | none =>
      if hasIndex s n then none                          -- "there is already an index named n"
      else if cols.isEmpty || !nodupNames (cols.map (·.name)) then none
      else some (s ++ [.table n cols])
  | .addColumn t c =>
    match tableCols? s t with
    | none => none                                       -- "no such table"
    | some cs => if (cs.map (·.name)).contains c.name then none else some (addCol s t c)
  | .createIndex ifne uniq n t cols =>
    match tableCols? s t with
    | none => none                                       -- "no such table" (checked first)
    | some cs =>
      if (tableCols? s n).isSome then none               -- "there is already a table named n"
      else if hasIndex s n then (if ifne then some s else none)
      else if cols.all fun c => (cs.map (·.name)).contains c then some (s ++ [.index n t uniq cols])
      else none                                          -- "no such column"
  | .invalid => none

/-- one migration script inside its transaction: all statements or nothing -/
def applyStmts : Schema → List Stmt → Option Schema
  | s, [] => some s
  | s, st :: rest =>
    match applyStmt s st with
    | none => none
    | some s' => applyStmts s' rest

/-! ## loader -/

/-- a directory entry: name, full text, and the abstract effect of the text's statements -/
structure File where
  name : String
  text : List Char
  stmts : List Stmt
deriving Repr, Inhabited

structure Migration where
  name : String
  /-- `parse_target_version(text) or 0` -/
  version : Nat
  stmts : List Stmt
deriving DecidableEq, Repr, Inhabited

def insertByName (f : File) : List File → List File
  | [] => [f]
  | g :: gs => if f.name < g.name then f :: g :: gs else g :: insertByName f gs

def sortByName : List File → List File
  | [] => []
  | f :: fs => insertByName f (sortByName fs)

def isSqlName (n : String) : Bool := ".sql".toList.isSuffixOf n.toList

def loadMigrations (files : List File) : List Migration :=
  (sortByName (files.filter fun f => isSqlName f.name)).map fun f =>
    { name := f.name, version := (parseTargetVersion f.text).getD 0, stmts := f.stmts }

/-! ## database state and `run_migrations` -/

structure Db where
  /-- the `schema_migrations` table exists -/
  hasSM : Bool
  /-- its `(package, version)` rows, insertion order (meaningless while `hasSM = false`) -/
  rows : List (String × Nat)
  schema : Schema
  /-- `PRAGMA user_version` -/
  userVersion : Int
deriving DecidableEq, Repr, Inhabited

inductive Result where
  | ok (db : Db)
  /-- the script of `file` raised; it was rolled back and the exception propagates -/
  | failed (file : String) (db : Db)
deriving DecidableEq, Repr, Inhabited

/-- the package the bootstrap seeds rows for -/
def bootstrapPkg : String := "server"

/-- `[(“server”, v) for v in range(1, legacy + 1)]` -/
def seedRows (legacy : Nat) : List (String × Nat) := (List.range' 1 legacy).map fun v => (bootstrapPkg, v)

def bootstrap (db : Db) : Db :=
  if db.hasSM then db
  else { db with hasSM := true, rows := if 0 < db.userVersion then seedRows db.userVersion.toNat else [] }

/-- `{int(r[0]) for r in SELECT version FROM schema_migrations WHERE package = ?}` -/
def appliedOf (pkg : String) (rows : List (String × Nat)) : List Nat :=
  (rows.filter fun r => r.1 == pkg).map (·.2)

def runFiles (pkg : String) : List Migration → List Nat → Db → Result
  | [], _, db => .ok db
  | m :: ms, applied, db =>
    if applied.contains m.version || m.version == 0 then runFiles pkg ms applied db
    else
      match applyStmts db.schema m.stmts with
      | none => .failed m.name db
      | some s =>
        runFiles pkg ms (m.version :: applied) { db with schema := s, rows := db.rows ++ [(pkg, m.version)] }

def runSources : List (String × List Migration) → Db → Result
  | [], db => .ok db
  | (pkg, ms) :: rest, db =>
    match runFiles pkg ms (appliedOf pkg db.rows) db with
    | .ok db' => runSources rest db'
    | .failed f db' => .failed f db'

/-- `run_migrations(conn, sources)` with each source's directory listing -/
def runMigrations (sources : List (String × List File)) (db : Db) : Result :=
  runSources (sources.map fun s => (s.1, loadMigrations s.2)) (bootstrap db)

/-- the empty database file -/
def fresh : Db := { hasSM := false, rows := [], schema := [], userVersion := 0 }

/-- schema after the scripts of `ms` in order (ignoring bookkeeping) -/
def foldMigs : Schema → List Migration → Option Schema
  | s, [] => some s
  | s, m :: ms =>
    match applyStmts s m.stmts with
    | none => none
    | some s' => foldMigs s' ms

end Migrate
