"""C32 — generated deployment ids are valid DNS-1035 labels."""
from __future__ import annotations

import ast
import asyncio
import re
from typing import Any

from ..boot import repo_path
from ..runner import Divergence, Driver, Env, Outcome, Violation, diff_streams

THEOREMS = [
    "C32_source_shape",
    "C32_valid_label",
    "C32_length_le",
    "C32_derived_or_suffixed",
    "C32_short_name_suffixed",
    "C32_base_from_name",
    "C32_first_try",
    "C32_source_shape_control",
    "C32_loop_closed_form",
    "C32_gives_up_iff",
    "C32_finds_when_free",
    "C32_returned_was_validated",
    "C32_gave_up_after_all_taken",
    "C32_oracle_agrees",
    "C32_oracle_valid_label",
    "C32_words_refinement",
    "C32_base_complete_or_truncated",
    "C32_base_canonical",
    "C32_suffix_shape",
    "C32_reserved_name_gets_fresh_id",
    "C32_reserved_avoided_refuted",
    "C32_reserved_avoided_partial",
    "C32_every_id_from_name",
    "C32_derive_valid_label",
    "C32_label_predicate_is_the_regex",
]
EXPLANATION = (
    "Lean model of find_deployment_id/_append_random_suffix over List Char; theorems hold for every name, "
    "every availability answer sequence and every draw. Tie: constants/regexes regenerated from source "
    "(C32_source_shape) and op-by-op correspondence of the AST-extracted real functions against the model "
    "with scripted randomness; implementation-side monitor checks the real DNS-1035 regex and the "
    "derived/suffixed clause directly. Extension: the retry loop in closed form and with the availability lookup as a "
    "function of (lookup index, id) -- the id returned is the one the last lookup reported free, at most 99 lookups; "
    "the three re.sub passes refine to the hyphen-join of the alphanumeric words; completeness of the derivation "
    "(whole word-join unless cut at 63, then >= 62 chars kept); shape of suffixed ids; reserved names never get a "
    "reserved id (full clause 'no derived id is reserved' refuted: 'list projects' -> 'list-projects'). Tie: loop bounds, "
    "truncation arithmetic, branch tests, reserved table, force_suffix expression regenerated (C32_source_shape_control); "
    "streams cands (ids passed to validate_deployment_id, in order), findo (lookup as a function of index and id), "
    "suffix (_append_random_suffix on arbitrary ids), derive (create_deployment's id choice, AST-extracted)."
)
ASSUMPTIONS = [
    "Python str.lower() (Unicode case mapping) is taken from the runtime; the model starts from name.lower()",
    "validate_deployment_id (Kubernetes lookup) is an adversarial oracle: any sequence of answers",
    "random.choices/choice draw from the alphabets named in the source (regenerated constants)",
    "regex semantics: Lang is the textbook whole-match meaning of the syntax tree Python's re._parser returns for _DNS_1035_RE; "
    "Python's `$` also matches before a final newline (validate_dns_1035_label('abc\\n') passes), which Lang and isDns1035 exclude "
    "and the dns correspondence stream accounts for explicitly",
    "create_deployment: only the statement choosing the id (the `if explicit_id is not None … else …`) is executed, "
    "with explicit_id=None; the Kubernetes object creation after it is outside the model",
]
TRUSTED_EXTRA = ["AST extraction of find_deployment_id and _append_random_suffix (exec'd with re, scripted random, stub validate_deployment_id)",
                 "AST extraction of reserved_deployment_ids and of create_deployment's id-choice statement (wrapped in an async function)"]

K8S = "packages/llama-agents-control-plane/src/llama_agents/control_plane/k8s_client.py"
SCHEMA = "packages/llama-agents-core/src/llama_agents/core/schema/deployments.py"
HEX = "0123456789abcdef"
ALT = "abcdef"


class ScriptedRandom:
    """random.choices / random.choice driven by pre-drawn indices."""

    def __init__(self, draws: list[tuple[list[int], int]]):
        self.draws = draws
        self.i = -1

    def choices(self, population: Any, k: int = 1, **_kw: Any) -> list:
        self.i += 1
        idx = self.draws[self.i % len(self.draws)][0]
        return [population[idx[j % len(idx)] % len(population)] for j in range(k)]

    def choice(self, seq: Any) -> Any:
        alt = self.draws[max(self.i, 0) % len(self.draws)][1]
        return seq[alt % len(seq)]


def load_impl() -> dict[str, Any]:
    src = open(repo_path(K8S)).read()
    tree = ast.parse(src)
    wanted = [n for n in tree.body if isinstance(n, (ast.FunctionDef, ast.AsyncFunctionDef))
              and n.name in ("find_deployment_id", "_append_random_suffix")]
    if len(wanted) != 2:
        raise RuntimeError("find_deployment_id/_append_random_suffix not found in k8s_client.py")
    mod = ast.Module(body=wanted, type_ignores=[])
    ns: dict[str, Any] = {"re": re, "random": None, "validate_deployment_id": None}
    exec(compile(mod, repo_path(K8S), "exec"), ns)
    # reserved ids and the statement of create_deployment that chooses the id
    reserved = [n for n in tree.body if isinstance(n, ast.Assign) and len(n.targets) == 1
                and isinstance(n.targets[0], ast.Name) and n.targets[0].id == "reserved_deployment_ids"]
    create = [n for n in tree.body if isinstance(n, ast.AsyncFunctionDef) and n.name == "create_deployment"]
    choice = None
    if create:
        for st in create[0].body:
            if isinstance(st, ast.If) and any(isinstance(x, ast.Name) and x.id == "explicit_id" for x in ast.walk(st.test)) \
                    and any(isinstance(x, ast.Call) and isinstance(x.func, ast.Name) and x.func.id == "find_deployment_id"
                            for x in ast.walk(st)):
                choice = st
    if len(reserved) != 1 or choice is None:
        raise RuntimeError("reserved_deployment_ids / create_deployment's id choice not found in k8s_client.py")
    wrapper = ast.parse("async def _choose_id(display_name, explicit_id=None):\n    pass\n    return deployment_id\n").body[0]
    wrapper.body[0] = choice  # type: ignore[index]
    mod2 = ast.Module(body=[reserved[0], wrapper], type_ignores=[])
    ast.fix_missing_locations(mod2)
    exec(compile(mod2, repo_path(K8S), "exec"), ns)
    ns["_real_find"] = ns["find_deployment_id"]
    return ns


def real_dns_regex() -> re.Pattern:
    tree = ast.parse(open(repo_path(SCHEMA)).read())
    for n in ast.walk(tree):
        if isinstance(n, ast.Assign) and isinstance(n.targets[0], ast.Name) and n.targets[0].id == "_DNS_1035_RE":
            return re.compile(n.value.args[0].value)  # type: ignore[attr-defined]
    raise RuntimeError("_DNS_1035_RE not found")


def call_impl(ns: dict[str, Any], name: str, force: bool, answers: list[bool], draws: list[tuple[list[int], int]]) -> tuple[str | None, int]:
    it = iter(answers)
    calls = [0]

    async def validate(_id: str) -> bool:
        calls[0] += 1
        try:
            return next(it)
        except StopIteration:
            return False

    ns["random"] = ScriptedRandom(draws)
    ns["validate_deployment_id"] = validate
    try:
        r = asyncio.run(ns["find_deployment_id"](name, force_suffix=force))
    except ValueError:
        return None, calls[0]
    return r, calls[0]


WORDS = ["my", "service", "api", "a", "b", "x1", "42", "prod", "llama", "index", "version", "list-projects",
         "Über", "naïve", "İstanbul", "ǅ", "K", "ß", "日本", "١٢٣", "🚀", "ＡＢＣ"]
SEPS = [" ", "-", "_", "--", ".", "/", "\n", "\t", " - ", "", "__", "!"]


def gen_name(rng) -> str:
    mode = rng.random()
    if mode < 0.08:
        return rng.choice(["", "-", "--", "1", "12", "a", "ab", "a b", "a-b", "1 2", "-a-", "_", "é", "٣", "A", "A B"])
    if mode < 0.16:
        return rng.choice(["validate-repository", "list-projects", "organizations", "version", "Version"])
    if mode < 0.28:
        # long names around the truncation boundary
        n = rng.choice([55, 56, 57, 58, 61, 62, 63, 64, 65, 70, 120])
        chars = [rng.choice("abcxyz019-_ ") for _ in range(n)]
        return "".join(chars)
    if mode < 0.40:
        n = rng.randint(1, 12)
        return "".join(chr(rng.choice([rng.randint(32, 126), rng.randint(0xA0, 0x24F), rng.randint(0x370, 0x3FF),
                                       rng.randint(0x2100, 0x214F), rng.randint(0xFF10, 0xFF5A)])) for _ in range(n))
    k = rng.randint(1, 5)
    parts = []
    for i in range(k):
        w = rng.choice(WORDS)
        if rng.random() < 0.3:
            w = w.upper()
        parts.append(w)
        if i < k - 1:
            parts.append(rng.choice(SEPS))
    s = "".join(parts)
    if rng.random() < 0.2:
        s = rng.choice(SEPS) + s
    if rng.random() < 0.2:
        s = s + rng.choice(SEPS)
    return s


def gen_case(rng) -> dict:
    name = gen_name(rng)
    force = rng.random() < 0.15
    m = rng.random()
    if m < 0.55:
        answers = [True]
    elif m < 0.9:
        k = rng.randint(1, 5)
        answers = [False] * k + [True]
    elif m < 0.95:
        answers = [False] * 98 + [True]
    else:
        answers = [False] * 99 + [True]  # exhausts the loop -> ValueError
    ndraws = len(answers) + 1
    draws = [([rng.randrange(16) for _ in range(5)], rng.randrange(6)) for _ in range(ndraws)]
    if rng.random() < 0.4:
        draws[0][0][0] = rng.randrange(10)  # force a leading digit in the first suffix
    return {"name": name, "force": force, "answers": answers, "draws": draws}


def cps(s: str) -> str:
    return ",".join(str(ord(c)) for c in s)


def op_line(case: dict) -> str:
    lowered = case["name"].lower()
    ds = ";".join(cps("".join(HEX[i] for i in hexidx)) + ":" + str(ord(ALT[alt])) for hexidx, alt in case["draws"])
    return "|".join(["find", "1" if case["force"] else "0", cps(lowered),
                     "".join("1" if a else "0" for a in case["answers"]), ds])


def draws_str(draws: list) -> str:
    return ";".join(cps("".join(HEX[i] for i in hexidx)) + ":" + str(ord(ALT[alt])) for hexidx, alt in draws)


def gen_draws(rng, n: int) -> list:
    return [([rng.randrange(16) for _ in range(5)], rng.randrange(6)) for _ in range(n)]


def run_lookup(ns: dict[str, Any], name: str, force: bool, avail, draws: list) -> tuple[str | None, list[str], list[bool]]:
    """find_deployment_id with validate_deployment_id = avail(lookup index, id); returns the result (None = ValueError),
    the ids it was asked about in order and the answers given."""
    asked: list[str] = []
    answers: list[bool] = []

    async def validate(_id: str) -> bool:
        a = bool(avail(len(asked), _id))
        asked.append(_id)
        answers.append(a)
        return a

    ns["random"] = ScriptedRandom(draws)
    ns["validate_deployment_id"] = validate
    try:
        r = asyncio.run(ns["find_deployment_id"](name, force_suffix=force))
    except ValueError:
        r = None
    return r, asked, answers


def run_choice(ns: dict[str, Any], name: str, answers: list[bool], draws: list) -> tuple[bool | None, str | None]:
    """create_deployment's id choice (explicit_id=None): the force_suffix it passes and the id (None = ValueError)."""
    it = iter(answers)
    forces: list[bool] = []
    real = ns["_real_find"]

    async def validate(_id: str) -> bool:
        return next(it, False)

    async def spy(name: str, force_suffix: bool = False) -> str:
        forces.append(bool(force_suffix))
        return await real(name, force_suffix=force_suffix)

    ns["random"] = ScriptedRandom(draws)
    ns["validate_deployment_id"] = validate
    ns["find_deployment_id"] = spy
    try:
        try:
            r = asyncio.run(ns["_choose_id"](name))
        except ValueError:
            r = None
    finally:
        ns["find_deployment_id"] = real
    return (forces[0] if forces else None), r


RESERVEDISH = ["version", "Version", "VERSION", "version!", " version", "version ", "ver sion", "list-projects", "list projects",
               "List_Projects", "list--projects", "organizations", "Organizations.", "organizations-", "validate-repository",
               "validate repository", "Validate/Repository", "validate-repositor", "versions", "ⅴersion", "versıon", "list-projectſ"]


def spec_join(lowered: str) -> str:
    """the word-join specification, written independently of the code and of the model"""
    return "-".join(w for w in re.split(r"[^a-z0-9]", lowered) if w)


def opt(r: str | None) -> str:
    return "none" if r is None else "some " + cps(r)


def taken_avail(taken: list):
    def avail(k: int, _id: str) -> bool:
        return not any(t == _id and k < n for t, n in taken)
    return avail


def gen_ext_case(rng, kind: str, ns: dict[str, Any]) -> dict:
    if kind == "cands":
        return {"kind": "cands", "name": gen_name(rng), "force": rng.random() < 0.2, "draws": gen_draws(rng, 100)}
    if kind == "findo":
        name, force, draws = gen_name(rng), rng.random() < 0.15, gen_draws(rng, 100)
        if rng.random() < 0.35:  # the same draw again: the same candidate is asked about at two lookups
            for _ in range(rng.randint(1, 3)):
                i, j = rng.randrange(8), rng.randrange(8)
                draws[j] = (list(draws[i][0]), draws[i][1])
        m = rng.random()
        j = 0 if m < 0.4 else rng.randint(1, 6) if m < 0.85 else 98 if m < 0.9 else 99 if m < 0.95 else rng.randint(7, 97)
        _, cand, _ = run_lookup(ns, name, force, lambda k, _i: k >= j + 3, draws)
        taken = [[c, 1000] for c in cand[:j]]
        for c in cand[j:j + 3]:
            x = rng.random()
            if x < 0.25:
                taken.append([c, rng.randint(0, j + 3)])  # taken only for the early lookups
            elif x < 0.35:
                taken.append([c + "x", 1000])
        if rng.random() < 0.2 and cand:
            taken.insert(0, [cand[0], rng.randint(0, 3)])
        rng.shuffle(taken)
        return {"kind": "findo", "name": name, "force": force, "taken": taken, "draws": draws}
    if kind == "suffix":
        m = rng.random()
        if m < 0.15:
            ident = ""
        elif m < 0.45:
            ident = gen_name(rng)
        elif m < 0.75:
            n = rng.choice([1, 2, 5, 30, 55, 56, 57, 58, 62, 63, 64, 80])
            ident = rng.choice("abcxyz") + "".join(rng.choice("abcxyz019-") for _ in range(n - 1))
            ident = ident.rstrip("-") or "a"
        else:
            ident = spec_join(gen_name(rng).lower())
        return {"kind": "suffix", "id": ident, "draw": gen_draws(rng, 1)[0]}
    if kind == "derive":
        name = rng.choice(RESERVEDISH) if rng.random() < 0.55 else gen_name(rng)
        k = 0 if rng.random() < 0.7 else rng.randint(1, 4)
        answers = [False] * k + [True]
        return {"kind": "derive", "name": name, "answers": answers, "draws": gen_draws(rng, len(answers) + 1)}
    raise ValueError(kind)


def run_ext_case(ns: dict[str, Any], case: dict, dns: re.Pattern, out: Outcome) -> tuple[str, str]:
    """One case of the extension streams: (driver line, what the implementation did), monitors applied."""
    kind = case["kind"]
    out.evaluations += 1
    out.count("stream:" + kind)
    if kind == "cands":
        name, force, draws = case["name"], case["force"], [tuple(d) for d in case["draws"]]
        r, asked, _ = run_lookup(ns, name, force, lambda _k, _i: False, draws)
        if len(asked) > 99 or r is not None:
            out.violations.append(Violation("C32/too_many_lookups", f"{len(asked)} lookups (result {r!r}) for name {name!r} "
                                            "with every id reported taken", case))
        for k, c in enumerate(asked[:99]):  # every candidate is the answer of some history: check each as such
            v = monitor({"name": name, "force": force, "answers": [False] * k + [True], "draws": case["draws"]}, c, dns)
            if v is not None:
                out.violations.append(Violation(v.signature, f"lookup #{k} was about an id that breaks the property if reported free: " + v.what, case))
                break
        out.count(f"cands:{len(asked)}")
        out.nontrivial(("cands", name.lower(), force, repr(case["draws"][:3])))
        return ("|".join(["cands", "1" if force else "0", cps(name.lower()), draws_str(draws)]),
                f"{len(asked)} " + ";".join(cps(a) for a in asked))
    if kind == "findo":
        name, force, draws = case["name"], case["force"], [tuple(d) for d in case["draws"]]
        taken = [(t, n) for t, n in case["taken"]]
        r, asked, answers = run_lookup(ns, name, force, taken_avail(taken), draws)
        if len(asked) > 99:
            out.violations.append(Violation("C32/too_many_lookups", f"{len(asked)} lookups for name {name!r}", case))
        if r is not None and (not asked or asked[-1] != r or not answers[-1] or any(answers[:-1])):
            out.violations.append(Violation(
                "C32/validated_other_id", f"returned {r!r} for name {name!r} but the lookups were about {asked[-3:]!r} "
                f"with answers {answers[-3:]!r}: the id returned is not the one last reported free", case))
        if r is not None:
            v = monitor({"name": name, "force": force, "answers": answers, "draws": case["draws"]}, r, dns)
            if v is not None:
                out.violations.append(Violation(v.signature, v.what, case))
            out.nontrivial(("findo", name.lower(), force, repr(taken), repr(case["draws"][:8])))
        out.count("findo:none" if r is None else f"findo:lookups:{min(len(asked), 8)}{'+' if len(asked) > 8 else ''}")
        if len(set(asked)) < len(asked):
            out.count("findo:same_id_asked_twice")
        if any(n < 1000 for _, n in taken):
            out.count("findo:time_varying_oracle")
        return ("|".join(["findo", "1" if force else "0", cps(name.lower()),
                          ";".join(cps(t) + "@" + str(n) for t, n in taken), draws_str(draws)]),
                opt(r) + " " + str(len(asked)))
    if kind == "suffix":
        ident, draw = case["id"], (list(case["draw"][0]), case["draw"][1])
        ns["random"] = ScriptedRandom([draw])
        r = ns["_append_random_suffix"](ident, 63)
        ok_in = ident == "" or bool(dns.match(ident) and not ident.endswith("\n"))
        if ok_in and not (dns.match(r) and len(r) <= 63 and not r.endswith("\n")):
            out.violations.append(Violation("C32/suffix_invalid", f"_append_random_suffix({ident!r}, 63) = {r!r} is not a DNS-1035 label", case))
        hexs = "".join(HEX[i] for i in draw[0])
        if not (r.endswith(hexs[1:]) and (ident == "" or r.endswith("-" + hexs))):
            out.violations.append(Violation("C32/suffix_not_drawn", f"_append_random_suffix({ident!r}, 63) = {r!r} does not end with the drawn {hexs!r}", case))
        out.count("suffix:" + ("empty" if ident == "" else "label" if ok_in else "other") + (":cut" if len(ident) > 57 else ""))
        out.nontrivial(("suffix", ident, repr(draw)))
        return "|".join(["suffix", cps(ident), draws_str([draw])]), cps(r)
    if kind == "derive":
        name, answers, draws = case["name"], case["answers"], [tuple(d) for d in case["draws"]]
        force, r = run_choice(ns, name, answers, draws)
        reserved = list(ns["reserved_deployment_ids"])
        if name.lower() in reserved and r is not None and r in reserved:
            out.violations.append(Violation("C32/reserved_name_reserved_id", f"display name {name!r} is reserved and got the reserved id {r!r}", case))
        if r is not None:
            v = monitor({"name": name, "force": bool(force), "answers": answers, "draws": case["draws"]}, r, dns)
            if v is not None:
                out.violations.append(Violation(v.signature, v.what, case))
            out.nontrivial(("derive", name.lower(), tuple(answers), repr(case["draws"])))
        out.count("derive:" + ("reserved_name" if name.lower() in reserved else "id_reserved" if r in reserved else "other"))
        return ("|".join(["derive", cps(name.lower()), "".join("1" if a else "0" for a in answers), draws_str(draws)]),
                ("none" if force is None else "true" if force else "false") + " " + opt(r))
    raise ValueError(kind)


def monitor(case: dict, result: str | None, dns: re.Pattern) -> Violation | None:
    """Property C32 stated directly on the implementation's answer."""
    if result is None:
        return None  # ValueError: no id derived (all candidates taken)
    name = case["name"]
    if not dns.match(result) or len(result) > 63 or result.endswith("\n"):
        return Violation("C32/invalid_label", f"id {result!r} for name {name!r} is not a DNS-1035 label <= 63 chars", case)
    alnums = re.findall(r"[a-z0-9]", name.lower())
    suffixed = bool(re.search(r"(^|-)[0-9a-f]{5}$", result)) and (
        any(result.endswith("".join(HEX[i] for i in d[0])) or (result[1:] == "".join(HEX[i] for i in d[0])[1:] and len(result) == 5)
            for d in case["draws"]))
    if len(alnums) < 3 or case["force"] or not case["answers"][0]:
        if not suffixed:
            return Violation("C32/missing_suffix", f"id {result!r} for name {name!r} (alnums={len(alnums)}, force={case['force']}, "
                             f"first id taken={not case['answers'][0]}) carries no drawn random suffix", case)
    else:
        got = re.findall(r"[a-z0-9]", result)
        want = (["d"] if alnums[0].isdigit() else []) + alnums
        if got != want[: len(got)] or (len(got) < len(want) and len(result) < 62):
            return Violation("C32/not_derived", f"id {result!r} is not derived from the lowercase alphanumerics of {name!r}", case)
    return None


def run(env: Env) -> Outcome:
    out = Outcome()
    out.rule = ("names drawn from words/separators/Unicode/boundary-length generators x force flag x availability answers x "
                "scripted draws; non-trivial = returned an id; distinct by (name.lower(), force, answers, draws). Extension "
                "streams: cands = every id passed to validate_deployment_id under all-taken (100 draws); findo = lookup answered "
                "from a table (id, in use for lookups < n), repeated draws so one id is asked about twice; suffix = "
                "_append_random_suffix on empty/valid/arbitrary ids around the 57 cut; derive = create_deployment's id choice on "
                "reserved, nearly-reserved and generated names; words = word-join spec vs re.split; malformed lines")
    ns = load_impl()
    dns = real_dns_regex()
    cases: list[dict] = []
    ext_cases: list[dict] = []
    if env.replay is not None:
        rc = env.replay["payload"]["case"]
        (ext_cases if rc.get("kind") in ("cands", "findo", "suffix", "derive") else cases).append(rc)
    corpus = [
        {"name": "a b", "force": False, "answers": [True], "draws": [([1, 2, 3, 4, 5], 0)]},
        {"name": "1", "force": False, "answers": [True], "draws": [([1, 2, 3, 4, 5], 0)]},
        {"name": "12", "force": False, "answers": [True], "draws": [([0, 11, 14, 14, 15], 2)]},
        {"name": "", "force": False, "answers": [False, True], "draws": [([0, 1, 2, 3, 4], 5), ([10, 1, 2, 3, 4], 0)]},
        {"name": "x" * 63 + "-tail", "force": False, "answers": [False, True], "draws": [([0] * 5, 0), ([15] * 5, 0)]},
        {"name": "ab" + "-" * 60 + "cd", "force": False, "answers": [True], "draws": [([0] * 5, 0)]},
        {"name": "version", "force": True, "answers": [True], "draws": [([3] * 5, 0)]},
    ]
    cases += corpus
    n = env.budget(1500, 40000)
    cases += [gen_case(env.rng) for _ in range(n)]
    ops = [op_line(c) for c in cases]
    impl_out: list[str] = []
    for c in cases:
        r, ncalls = call_impl(ns, c["name"], c["force"], c["answers"], c["draws"])
        out.evaluations += 1
        impl_out.append("none" if r is None else "some " + cps(r))
        out.count("result:none" if r is None else "result:id")
        out.count("force" if c["force"] else "noforce")
        out.count(f"validate_calls:{min(ncalls, 7)}{'+' if ncalls > 7 else ''}")
        if r is not None:
            out.nontrivial((c["name"].lower(), c["force"], tuple(c["answers"]), repr(c["draws"])))
            out.count("kind:" + ("suffixed" if re.search(r"(^|-)[0-9a-f]{5}$", r) else "plain"))
            if len(r) >= 57:
                out.count("long>=57")
        v = monitor(c, r, dns)
        if v is not None:
            out.violations.append(v)
        out.sample({"name": c["name"], "force": c["force"], "answers": c["answers"][:4], "id": r})
    # also tie isDns1035 to the real regex on the produced ids and on random strings
    dns_inputs = [o[5:] for o in impl_out if o.startswith("some ")][:500]
    alphabet = "abz09-A_. \n"
    for _ in range(env.budget(400, 5000)):
        k = env.rng.randint(0, 66)
        dns_inputs.append(cps("".join(env.rng.choice(alphabet if env.rng.random() < 0.2 else "abz09-") for _ in range(k))))
    ops2 = ["dns|" + s for s in dns_inputs]
    impl2 = []
    for s in dns_inputs:
        text = "".join(chr(int(x)) for x in s.split(",")) if s else ""
        impl2.append("true" if (dns.match(text) and not text.endswith("\n")) else "false")
    # ---- extension streams: candidates asked about, lookup as a function of (index, id), the suffixer alone,
    # create_deployment's id choice, the word-join specification, malformed lines
    ext_cases += [
        {"kind": "cands", "name": "1", "force": False, "draws": [([i % 16, 1, 2, 3, 4], i % 6) for i in range(100)]},
        {"kind": "cands", "name": "9" * 70, "force": True, "draws": [([i % 16, 1, 2, 3, 4], i % 6) for i in range(100)]},
        {"kind": "findo", "name": "my service", "force": False, "taken": [["my-service", 1000], ["my-service-01234", 1]],
         "draws": [([0, 1, 2, 3, 4], 0)] * 100},
        {"kind": "findo", "name": "my service", "force": False, "taken": [["my-service", 1000], ["my-service-01234", 2]],
         "draws": [([0, 1, 2, 3, 4], 0)] * 100},
        {"kind": "findo", "name": "", "force": False, "taken": [["a1234", 1000]],
         "draws": [([0, 1, 2, 3, 4], 0), ([0, 1, 2, 3, 4], 1)] * 50},
        {"kind": "suffix", "id": "", "draw": ([9, 9, 9, 9, 9], 5)},
        {"kind": "suffix", "id": "a" * 56 + "-bcdefg", "draw": ([10, 0, 0, 0, 0], 0)},
        {"kind": "suffix", "id": "x" * 57, "draw": ([0, 0, 0, 0, 0], 0)},
    ] + [{"kind": "derive", "name": nm, "answers": [True], "draws": [([1, 2, 3, 4, 5], 0), ([5, 4, 3, 2, 1], 1)]} for nm in RESERVEDISH]
    for kind, nq, nt in (("cands", 60, 1200), ("findo", 300, 6000), ("suffix", 300, 6000), ("derive", 250, 5000)):
        n_ext = (nq if env.tier == "quick" else nt) if kind == "cands" else env.budget(nq, nt)  # cands: 99 lookups each, not widened
        ext_cases += [gen_ext_case(env.rng, kind, ns) for _ in range(n_ext)]
    ops3: list[str] = []
    impl3: list[str] = []
    for c in ext_cases:
        line, got = run_ext_case(ns, c, dns, out)
        ops3.append(line)
        impl3.append(got)
        if c["kind"] != "cands":
            out.sample({k: (v[:3] if k == "draws" else v) for k, v in c.items()} | {"impl": got}, cap=14)
    # the clause refuted in Lean (C32_reserved_avoided_refuted), replayed on the real code: recorded, not a verdict
    wf, wr = run_choice(ns, "list projects", [True], [([1, 2, 3, 4, 5], 0)])
    bypass = (wf is False and wr is not None and wr in list(ns["reserved_deployment_ids"]))
    out.count("witness:reserved_id_for_unreserved_name:" + ("reproduced" if bypass else "not_reproduced"))
    out.notes.append(f"display name 'list projects' -> force_suffix={wf}, id {wr!r} "
                     f"({'a reserved id: C32_reserved_avoided_refuted reproduces on this tree' if bypass else 'not a reserved id'})")
    word_names = [c["name"].lower() for c in cases[:env.budget(300, 3000)]]
    ops4 = ["words|" + cps(w) for w in word_names]
    impl4 = [cps(spec_join(w)) for w in word_names]
    bad = ["findo|x", "cands|2|97|", "suffix|97", "derive|97|2|", "findo|0|97|97@x|", "words", "suffix|97|48,49:97:98", "cands|0|9x|"]
    all_ops = ops + ops2 + ops3 + ops4 + bad
    all_impl = impl_out + impl2 + impl3 + impl4 + ["bad-op"] * len(bad)
    out.count("stream:words", len(ops4))
    out.count("stream:malformed", len(bad))
    try:
        model_out = Driver("deployid").run(all_ops)
    except Exception as e:  # model unavailable: correspondence cannot be established
        out.divergences.append(Divergence("deployid", 0, "<driver>", repr(e), ""))
        return out
    out.traces_validated = len(all_ops)
    d = diff_streams("deployid", all_ops, model_out, all_impl)
    out.disagreements_checked = len(all_ops)
    if d is not None:
        if d.index < len(cases):
            d.context = cases[d.index]
        elif len(ops) + len(ops2) <= d.index < len(ops) + len(ops2) + len(ops3):
            d.context = ext_cases[d.index - len(ops) - len(ops2)]
        out.divergences.append(d)
    return out
