import WfModel.GenIterUtils
/-!
# M12b — `llama_agents.core.iter_utils.Debouncer`: the timer arithmetic

The `Dsp` model (`WfModel/IterUtils.lean`) lets the debounce timer fire at any point of the action
list.  This model says WHEN `complete_signal.set()` can happen: the clock is explicit (`Int`, any
unit; the correspondence uses ticks of the virtual loop) and monotone, and there are two actions,
each one await-free section of the class:

* `extend t` — `extend_window()` called at clock value `t`: `complete_time = now + debounce_seconds`;
* `loop t`   — one iteration of `_loop` at clock value `t` (enabled when the `_loop` task is due:
  created in `__init__`, hence due at once, afterwards due when its `asyncio.sleep(remaining)` is
  over; an event loop may resume it late, never early):
  `remaining = min(complete_time, max_complete_time) - now`, then `complete_signal.set()` when
  `remaining <= 0` (comparison regenerated: `Gen.debFireLE`), else `await asyncio.sleep(remaining)`.
-/
namespace IterUtils

/-- the test `if remaining <= 0:` of `Debouncer._loop` (`Gen.debFireLE` is re-extracted from the source) -/
def debFires (remaining : Int) : Bool :=
  if Gen.debFireLE then decide (remaining ≤ 0) else decide (remaining < 0)

structure Deb where
  /-- `debounce_seconds` -/
  d : Int
  /-- `max_window_seconds` -/
  w : Int
  /-- `start_time` -/
  start : Int
  /-- `complete_time` -/
  complete : Int
  /-- `max_complete_time` -/
  maxc : Int
  /-- clock value at which `complete_signal` was set -/
  fired : Option Int := none
  /-- the `_loop` task is due from this clock value on -/
  wakeAt : Int
  /-- ghost: the clock value of the latest action -/
  now : Int
  /-- ghost: clock values of the `extend_window` calls made before the signal was set, latest first
      (frozen once the signal is set) -/
  exts : List Int := []
  /-- ghost: number of iterations of `_loop` -/
  wakes : Nat := 0
  /-- ghost: the largest lateness `t - wakeAt` of an iteration of `_loop` -/
  late : Int := 0
deriving Repr

inductive DebAct where
  | extend (t : Int)
  | loop (t : Int)
deriving Repr

namespace Deb

/-- `Debouncer.__init__` at clock value `start` -/
def init (d w start : Int) : Deb :=
  { d := d, w := w, start := start, complete := start + d, maxc := start + w, wakeAt := start, now := start }

/-- the latest `extend_window` before the signal was set, or the start -/
def lastTouch (s : Deb) : Int := s.exts.headD s.start

def step (s : Deb) : DebAct → Option Deb
  | .extend t =>
    if s.now ≤ t then
      some { s with complete := t + s.d, now := t, exts := if s.fired.isNone then t :: s.exts else s.exts }
    else none
  | .loop t =>
    if s.fired.isNone ∧ s.now ≤ t ∧ s.wakeAt ≤ t then
      let remaining := min s.complete s.maxc - t
      let s1 := { s with now := t, wakes := s.wakes + 1, late := max s.late (t - s.wakeAt) }
      if debFires remaining then some { s1 with fired := some t }
      else some { s1 with wakeAt := t + remaining }
    else none

def exec (s : Deb) : List DebAct → Option Deb
  | [] => some s
  | a :: as => match s.step a with
    | some s' => exec s' as
    | none => none

end Deb

def DebAct.extOf : DebAct → Option Int
  | .extend t => some t
  | .loop _ => none

end IterUtils
