import WfProofs.RunnerIdle
import WfProofs.EngineNoCrash
import WfProps.C02
/-!
C03 on the runner, part 2: every in-progress row is *live*.

C01 (`RunInv.sub`) says every live worker task is backed by an in-progress row.  This file proves
the converse, which is what the first sentence of C03 needs at the level of the loop: a row of an
`in_progress` table is never a stale mark — a worker task for it is alive, or its result tick is
the one in the buffer, or a `StopEvent` result is in the buffer (the run is ending and the runner
has already cancelled everything).

Part 1 (reducer): `Origin` — the rows of the state after a tick are rows of the state before it whose
slot the tick did not free, or rows for which the tick emits `runWorker`.
Part 2 (runner): `LiveInv`, preserved by every action of a run that is still open.
-/
set_option linter.unusedSimpArgs false
set_option linter.unusedVariables false

namespace Engine

/-- where the in-progress rows of the state after a tick come from -/
def Origin (cfg : Cfg) (freed : Nat → Nat → Prop) (st st' : State) (cmds : List Cmd) : Prop :=
  ∀ s ∈ cfg.names, ∀ ip' ∈ (st'.workers s).inProg,
    (∃ ip ∈ (st.workers s).inProg, ip.wid = ip'.wid ∧ ¬ freed s ip.wid) ∨
    (∃ n ∈ workersOf cmds, n.step = s ∧ n.wid = ip'.wid)

theorem Origin.of_track {cfg : Cfg} {freed : Nat → Nat → Prop} {st st' : State} {cmds : List Cmd}
    (hfree : ∀ s w, ¬ freed s w) (ht : Track (fun s => keys (st.workers s)) st' cmds) :
    Origin cfg freed st st' cmds := by
  intro s _ ip' hip'
  have hk : ip'.key ∈ keys (st'.workers s) := List.mem_map_of_mem hip'
  rw [ht s] at hk
  rcases List.mem_append.mp hk with hk | hk
  · obtain ⟨ip, hip, hw, _⟩ := mem_keys.mp hk
    exact Or.inl ⟨ip, hip, hw, hfree _ _⟩
  · have := mem_startK.mp hk
    exact Or.inr ⟨{ step := s, wid := ip'.wid, ev := ip'.ev }, mem_workersOf.mpr this, rfl, rfl⟩

theorem Origin.of_same {cfg : Cfg} {freed : Nat → Nat → Prop} {st st' : State} {cmds : List Cmd}
    (hfree : ∀ s w, ¬ freed s w) (heq : ∀ s, (st'.workers s).inProg = (st.workers s).inProg) :
    Origin cfg freed st st' cmds := by
  intro s _ ip' hip'
  rw [heq s] at hip'
  exact Or.inl ⟨ip', hip', rfl, hfree _ _⟩

theorem Origin.append {cfg : Cfg} {freed : Nat → Nat → Prop} {st st' : State} {cmds extra : List Cmd}
    (h : Origin cfg freed st st' cmds) : Origin cfg freed st st' (cmds ++ extra) := by
  intro s hs ip' hip'
  rcases h s hs ip' hip' with h1 | ⟨n, hn, h2⟩
  · exact Or.inl h1
  · exact Or.inr ⟨n, by rw [workersOf_append]; exact List.mem_append_left _ hn, h2⟩

theorem Origin.withIdle {cfg : Cfg} {freed : Nat → Nat → Prop} {st : State}
    {r : State × List Cmd} (h : Origin cfg freed st r.1 r.2) :
    Origin cfg freed st
      (if checkIdle cfg r.1 then (r.1, r.2 ++ [Cmd.scheduleIdleCheck]) else r).1
      (if checkIdle cfg r.1 then (r.1, r.2 ++ [Cmd.scheduleIdleCheck]) else r).2 := by
  split
  · exact h.append
  · exact h

/-- erasing the first row of a worker id from a table with distinct ids leaves none of that id -/
theorem eraseP_wid_gone (w : Nat) : ∀ (l : List InProg), (l.map (·.wid)).Nodup →
    ∀ y ∈ l.eraseP (fun y => y.wid == w), y ∈ l ∧ y.wid ≠ w
  | [], _, y, hy => by cases hy
  | x :: xs, hnd, y, hy => by
    simp only [List.map_cons, List.nodup_cons] at hnd
    simp only [List.eraseP_cons] at hy
    by_cases hx : (x.wid == w) = true
    · rw [hx, cond_true] at hy
      simp only [beq_iff_eq] at hx
      refine ⟨List.mem_cons_of_mem _ hy, ?_⟩
      intro hyk
      apply hnd.1
      exact List.mem_map.mpr ⟨y, hy, by rw [hyk, hx]⟩
    · have hx' : (x.wid == w) = false := by simpa using hx
      rw [hx', cond_false] at hy
      rcases List.mem_cons.mp hy with h | h
      · subst h
        exact ⟨List.mem_cons_self, by simpa using hx⟩
      · obtain ⟨h1, h2⟩ := eraseP_wid_gone w xs hnd.2 y h
        exact ⟨List.mem_cons_of_mem _ h1, h2⟩

theorem processStepResult_origin (cfg : Cfg) (hwf : cfg.WF) (pol : Policy) (step worker : Nat)
    (tickEv : Ev) (res : List Res) (st : State) (now : Int) (hids : IdsInv cfg st) :
    Origin cfg (fun s w => s = step ∧ w = worker) st
      (processStepResult cfg pol step worker tickEv res st now).1
      (processStepResult cfg pol step worker tickEv res st now).2 := by
  unfold processStepResult
  split
  · rename_i hno
    intro s hs ip' hip'
    refine Or.inl ⟨ip', hip', rfl, ?_⟩
    rintro ⟨rfl, _⟩
    rw [hasStep_of_mem hwf hs] at hno
    simp at hno
  · rename_i hhas
    split
    · rename_i hnone
      intro s hs ip' hip'
      refine Or.inl ⟨ip', hip', rfl, ?_⟩
      rintro ⟨rfl, hw⟩
      have := List.find?_eq_none.mp hnone ip' hip'
      simp [hw] at this
    · rename_i exec hfind
      obtain ⟨c, hc⟩ := hasStep_find hhas
      obtain ⟨hcmem, hcname⟩ := Cfg.mem_of_find hc
      subst hcname
      have hnw : cfg.nw c.name = c.numWorkers := Cfg.nw_of_mem hwf hcmem
      have hexecwid : exec.wid = worker := find?_wid hfind
      have hfold := foldl_applyRes_inProg cfg pol c.name tickEv (res.any isResult) res
        { st := st, exec := exec }
      have hrr := foldl_applyRes_rerun cfg pol c.name tickEv (res.any isResult) res
        { st := st, exec := exec }
      simp only [RerunStep, workersOf, List.filterMap_nil, List.nil_append] at hrr
      simp only at hfold
      generalize (res.foldl (applyRes cfg pol c.name tickEv (res.any isResult))
          { st := st, exec := exec }) = acc at hfold hrr ⊢
      obtain ⟨hfold1, hfold2⟩ := hfold
      obtain ⟨hrr1, hrr2⟩ := hrr
      have hnd : ((st.workers c.name).inProg.map (·.wid)).Nodup := (hids c hcmem).1
      -- the rows of the step after `settle`: old rows of another worker id, or the re-run row
      have hsettle : ∀ ip1 ∈ (settle acc c.name worker tickEv).1.inProg,
          (∃ ip ∈ (st.workers c.name).inProg, ip.wid = ip1.wid ∧ ip.wid ≠ worker) ∨
          (ip1.wid = worker ∧ ∃ e, Worker.mk c.name worker e ∈ workersOf (settle acc c.name worker tickEv).2) := by
        intro ip1 hip1
        unfold settle at hip1 ⊢
        simp only at hip1 ⊢
        cases hs : acc.stillInProgress with
        | true =>
          simp only [hs, ↓reduceIte] at hip1 ⊢
          have hkey : acc.exec.key = exec.key := by simp [InProg.key, hfold2, hrr2]
          have hfind' : (acc.st.workers c.name).inProg.find? (fun w => w.wid == worker) = some exec := by
            rw [hfold1]; exact hfind
          have hk : (modifyFirst (fun w => w.wid == worker) (fun _ => acc.exec)
              (acc.st.workers c.name).inProg).map InProg.key = (st.workers c.name).inProg.map InProg.key := by
            rw [map_key_modifyFirst worker acc.exec exec hkey _ hfind', hfold1]
          have : ip1.key ∈ (st.workers c.name).inProg.map InProg.key := by
            rw [← hk]; exact List.mem_map_of_mem hip1
          obtain ⟨ip, hip, hkk⟩ := List.mem_map.mp this
          have hw : ip.wid = ip1.wid := by
            have := congrArg Prod.fst hkk; simpa [InProg.key] using this
          by_cases hne : ip.wid = worker
          · refine Or.inr ⟨hw ▸ hne, ?_⟩
            rcases hrr1 with ⟨h1, _⟩ | ⟨_, _, b, e, _, hwk⟩
            · rw [hs] at h1; cases h1
            · refine ⟨e, ?_⟩
              have : workersOf acc.cmds = [{ step := c.name, wid := exec.wid, ev := e }] := by
                simpa [workersOf] using hwk
              rw [this, hexecwid]; simp
          · exact Or.inl ⟨ip, hip, hw, hne⟩
        | false =>
          simp only [hs, Bool.false_eq_true, ↓reduceIte] at hip1 ⊢
          rw [hfold1] at hip1
          obtain ⟨h1, h2⟩ := eraseP_wid_gone worker _ hnd ip1 hip1
          exact Or.inl ⟨ip1, h1, rfl, h2⟩
      -- the common tail
      have tail : ∀ (ssF : StepState) (dcmds : List Cmd),
          Ext c.name (settle acc c.name worker tickEv).1 (ssF, dcmds) →
          Origin cfg (fun s w => s = c.name ∧ w = worker) st (acc.st.set c.name ssF)
            ((settle acc c.name worker tickEv).2 ++ dcmds) := by
        intro ssF dcmds hext
        intro s hs ip' hip'
        simp only [State.set] at hip'
        split at hip'
        · rename_i hsc
          subst hsc
          have hk : ip'.key ∈ keys ssF := List.mem_map_of_mem hip'
          rw [hext.1] at hk
          simp only at hk
          rcases List.mem_append.mp hk with hk | hk
          · obtain ⟨ip1, hip1, hw1, _⟩ := mem_keys.mp hk
            rcases hsettle ip1 hip1 with ⟨ip, hip, hw, hne⟩ | ⟨hwk, e, hmem⟩
            · refine Or.inl ⟨ip, hip, hw.trans hw1, ?_⟩
              rintro ⟨_, h⟩; exact hne h
            · refine Or.inr ⟨Worker.mk c.name worker e, ?_, rfl, ?_⟩
              · rw [workersOf_append]; exact List.mem_append_left _ hmem
              · show worker = ip'.wid
                rw [← hwk]; exact hw1
          · have := mem_startK.mp hk
            refine Or.inr ⟨{ step := c.name, wid := ip'.wid, ev := ip'.ev }, ?_, rfl, rfl⟩
            rw [workersOf_append]
            exact List.mem_append_right _ (mem_workersOf.mpr this)
        · rename_i hsc
          rw [hfold1 s] at hip'
          refine Or.inl ⟨ip', hip', rfl, ?_⟩
          rintro ⟨h, _⟩; exact hsc h
      simp only
      split
      · have := tail _ [] (Ext.refl c.name _)
        rw [List.append_nil] at this
        exact this
      · exact tail _ _ (drain_ext c.name _ now _ _)

/-- **origin of one tick's rows**, for every tick, policy and clock value -/
theorem reduce_origin (cfg : Cfg) (hwf : cfg.WF) (pol : Policy) (tick : Tick) (st : State)
    (now : Int) (hids : IdsInv cfg st) :
    Origin cfg tick.freed st (reduce cfg pol tick st now).1 (reduce cfg pol tick st now).2 := by
  unfold reduce
  cases tick with
  | stepResult step worker ev res =>
    simp only [Tick.freed]
    exact Origin.withIdle (processStepResult_origin cfg hwf pol step worker ev res st now hids)
  | addEvent att target =>
    simp only [Tick.freed]
    exact Origin.withIdle (Origin.of_track (fun _ _ h => h) (processAddEvent_track cfg att target st now).1)
  | cancelRun =>
    simp only [Tick.freed]
    exact Origin.withIdle (r := (st, _)) (Origin.of_same (fun _ _ h => h) (fun _ => rfl))
  | idleRelease => exact Origin.of_same (fun _ _ h => h) (fun _ => rfl)
  | publish ev =>
    simp only [Tick.freed]
    exact Origin.withIdle (r := (st, _)) (Origin.of_same (fun _ _ h => h) (fun _ => rfl))
  | timeout t =>
    simp only [Tick.freed]
    exact Origin.withIdle (r := ({ st with isRunning := false }, _))
      (Origin.of_same (fun _ _ h => h) (fun _ => rfl))
  | waiterTimeout step waiter =>
    simp only [Tick.freed]
    exact Origin.withIdle (Origin.of_track (fun _ _ h => h) (processWaiterTimeout_track cfg step waiter st now).1)
  | idleCheck =>
    simp only [Tick.freed]
    split
    · exact Origin.of_same (fun _ _ h => h) (fun _ => rfl)
    · exact Origin.of_same (fun _ _ h => h) (fun _ => rfl)

/-! ## Part 2 — the runner -/

theorem execCmd_running_open (r : Runner) (c : Cmd) (h : (execCmd r c).outcome = none) :
    (execCmd r c).running = r.running ++ (workerOf c).toList := by
  cases c with
  | queueEvent att step delay =>
    simp only [execCmd, workerOf, Option.toList, List.append_nil]
    cases delay with
    | none => rfl
    | some d => simp only; split <;> rfl
  | runWorker s ev w => rfl
  | halt k => simp [execCmd, Runner.finish] at h
  | completeRun p => simp [execCmd, Runner.finish] at h
  | failWorkflow s x => simp [execCmd, Runner.finish] at h
  | publish p => simp [execCmd, workerOf]
  | scheduleIdleCheck =>
    simp only [execCmd, workerOf, Option.toList, List.append_nil]
    split <;> rfl
  | scheduleWaiterTimeout s w t => simp [execCmd, Runner.push, workerOf]
  | crash => simp [execCmd, Runner.finish] at h

/-- a command list that leaves the run open has started every worker it names -/
theorem execCmds_running_open : ∀ (cmds : List Cmd) (r : Runner), (execCmds r cmds).outcome = none →
    (execCmds r cmds).running = r.running ++ workersOf cmds
  | [], r, _ => by simp [execCmds, workersOf]
  | c :: cs, r, h => by
    simp only [execCmds] at h ⊢
    rw [workersOf_cons]
    split
    · rename_i hs
      rw [if_pos hs] at h
      rw [h] at hs; cases hs
    · rename_i hs
      rw [if_neg hs] at h
      have hn : (execCmd r c).outcome = none := by
        cases hx : (execCmd r c).outcome with
        | none => rfl
        | some o => rw [hx] at hs; simp at hs
      rw [execCmds_running_open cs _ h, execCmd_running_open r c hn, List.append_assoc]

/-- every in-progress row of a configured step is live: a worker task runs it, or its result tick
is in the buffer (alone), or a `StopEvent` result is in the buffer (alone) -/
def LiveInv (cfg : Cfg) (r : Runner) : Prop :=
  r.outcome = none →
  ∀ s ∈ cfg.names, ∀ ip ∈ (r.st.workers s).inProg,
    (∃ x ∈ r.running, x.step = s ∧ x.wid = ip.wid) ∨
    (∃ ev res, r.buf = [.stepResult s ip.wid ev res]) ∨
    (∃ s' w ev res, r.buf = [.stepResult s' w ev res] ∧ hasStopResult res = true)

theorem LiveInv.of_buf_ne {cfg : Cfg} {r : Runner} (h : LiveInv cfg r) (ho : r.outcome = none)
    (hb : ∀ s w ev res, r.buf ≠ [.stepResult s w ev res]) :
    ∀ s ∈ cfg.names, ∀ ip ∈ (r.st.workers s).inProg, ∃ x ∈ r.running, x.step = s ∧ x.wid = ip.wid := by
  intro s hs ip hip
  rcases h ho s hs ip hip with h1 | ⟨ev, res, h2⟩ | ⟨s', w, ev, res, h3, _⟩
  · exact h1
  · exact absurd h2 (hb _ _ _ _)
  · exact absurd h3 (hb _ _ _ _)

theorem step_liveInv (cfg : Cfg) (hwf : cfg.WF) (pol : Policy) (P : Prop) (r : Runner) (a : Act)
    (hr : RunInv cfg P r) (h : LiveInv cfg r) : LiveInv cfg (r.step cfg pol a) := by
  cases ho : r.outcome with
  | some o =>
    have : r.step cfg pol a = r := by unfold Runner.step; simp [ho]
    rw [this]; exact h
  | none =>
  cases a with
  | drain =>
    cases hbuf : r.buf with
    | nil =>
      have : r.step cfg pol .drain = r := by unfold Runner.step; simp [ho, hbuf]
      rw [this]; exact h
    | cons t rest =>
      rw [step_drain cfg pol r t rest ho hbuf]
      split
      · intro ho'; simp [Runner.finish] at ho'
      · intro ho' s hs ip' hip'
        rw [execCmds_st] at hip'
        simp only [Runner.logged] at hip'
        left
        rw [execCmds_running_open _ _ ho']
        simp only [Runner.logged]
        rcases reduce_origin cfg hwf pol t r.st r.now hr.ids s hs ip' hip' with
          ⟨ip, hip, hw, hnf⟩ | ⟨n, hn, hns, hnw⟩
        · rcases h ho s hs ip hip with ⟨x, hx, hxs, hxw⟩ | ⟨ev, res, hb⟩ | ⟨s', w, ev, res, hb, hstop⟩
          · exact ⟨x, List.mem_append_left _ hx, hxs, hxw.trans hw⟩
          · rw [hbuf] at hb
            simp only [List.cons.injEq] at hb
            exfalso; apply hnf
            rw [hb.1]; exact ⟨rfl, rfl⟩
          · rw [hbuf] at hb
            simp only [List.cons.injEq] at hb
            exfalso
            have hend := C02_stop_result_ends_run cfg pol r s' w ev res rest ho (by rw [hbuf, hb.1]) hstop
            rw [step_drain cfg pol r t rest ho hbuf] at hend
            rename_i hnc
            rw [if_neg hnc, ho'] at hend
            cases hend
        · exact ⟨n, List.mem_append_right _ hn, hns, hnw⟩
  | workerDone s w res =>
    unfold Runner.step
    simp only [ho, Option.isSome_none, Bool.false_eq_true, ↓reduceIte]
    split
    · exact h
    · split
      · exact h
      · rename_i hbe _ x hfind
        have hbe' : r.buf = [] := by
          cases hx : r.buf with
          | nil => rfl
          | cons a l => rw [hx] at hbe; simp at hbe
        have hxp := List.find?_some hfind
        simp only [Bool.and_eq_true, beq_iff_eq] at hxp
        intro _ s0 hs0 ip hip
        simp only at hip ⊢
        obtain ⟨y, hy, hys, hyw⟩ := h.of_buf_ne ho (by intro _ _ _ _ hb; rw [hbe'] at hb; cases hb) s0 hs0 ip hip
        by_cases hstop : hasStopResult res = true
        · exact Or.inr (Or.inr ⟨s, w, x.ev, res, rfl, hstop⟩)
        · by_cases hk : y.step = s ∧ y.wid = w
          · refine Or.inr (Or.inl ⟨x.ev, res, ?_⟩)
            rw [← hys, ← hyw, hk.1, hk.2]
          · left
            simp only [hstop, Bool.false_eq_true, ↓reduceIte]
            refine ⟨y, ?_, hys, hyw⟩
            rw [List.mem_eraseP_of_neg (by simpa using hk)]
            exact hy
  | pull =>
    unfold Runner.step
    simp only [ho, Option.isSome_none, Bool.false_eq_true, ↓reduceIte]
    split
    · exact h
    · split
      · exact h
      · rename_i hbe _ t m hmb
        have hbe' : r.buf = [] := by
          cases hx : r.buf with
          | nil => rfl
          | cons a l => rw [hx] at hbe; simp at hbe
        intro _ s0 hs0 ip hip
        exact Or.inl (h.of_buf_ne ho (by intro _ _ _ _ hb; rw [hbe'] at hb; cases hb) s0 hs0 ip hip)
  | timer =>
    unfold Runner.step
    simp only [ho, Option.isSome_none, Bool.false_eq_true, ↓reduceIte]
    split
    · exact h
    · rename_i hbe
      have hbe' : r.buf = [] := by
        cases hx : r.buf with
        | nil => rfl
        | cons a l => rw [hx] at hbe; simp at hbe
      intro _ s0 hs0 ip hip
      exact Or.inl (h.of_buf_ne ho (by intro _ _ _ _ hb; rw [hbe'] at hb; cases hb) s0 hs0 ip hip)
  | advance dt =>
    unfold Runner.step
    simp only [ho, Option.isSome_none, Bool.false_eq_true, ↓reduceIte]
    intro _; exact h ho
  | external t =>
    unfold Runner.step
    simp only [ho, Option.isSome_none, Bool.false_eq_true, ↓reduceIte]
    split
    · intro _; exact h ho
    · exact h
  | stepWrite p =>
    unfold Runner.step
    simp only [ho, Option.isSome_none, Bool.false_eq_true, ↓reduceIte]
    intro _; exact h ho

end Engine
