import WfProofs.TimersReload
import WfProofs.TimersStuck
import WfProofs.TimersPartial
import WfProofs.TimersWake
import WfModel.GenEngineShape
/-!
# C14 — pending retries and waiter timeouts across idle release and restart

Model: `WfModel/Timers.lean` — one handler of the in-process server stack (persisted tick log,
handler row with `status` / `idle_since`, at most one in-memory control loop = the runner LTS of
`WfModel/Runner.lean`) with the actions `run` (control loop and its environment, time), `send`
(service → `IdleReleaseExternalRunAdapter.send_event`, reloading on demand), `release` (idle
release), `restart` (process stop) and `resume` (`_on_server_start`).

* `C14_reload_drops_all_timers` (**proved, for every persisted log and clock**): the timer heap of a
  reloaded run holds the workflow timeout, armed from scratch, and nothing else.
* `C14_statement`: whenever a delayed retry or a waiter timeout is pending at an enabled idle
  release or at a restart, and the run is reloaded (by a send or at server start), the system left
  to itself can still process that tick.  **Refuted** on the faithful model — and on the real
  stack, known findings — by four witnesses: retry / waiter timeout × idle release / restart
  (`C14_refuted_*`).  The refutations are not bounded runs: `stuck_forever` shows that after the
  reload *no* continuation — control-loop steps, time, further idle releases, restarts, resumes,
  reloading sends of events nobody accepts — ever processes the lost tick, starts a worker or ends
  the run; the handler stays `running` forever (`C14_retry_lost_forever`,
  `C14_waiter_timeout_lost_forever`).
* `C14_partial`: for every schedule of a run's first control loop after which no retry and no waiter
  timeout is pending (policy independent of elapsed time, no waiter requirements in the log): when
  the run leaves memory, reloading it at *any* clock yields exactly the live reducer state written
  by `to_serialized`, read back and restarted (`Runner.init (roundtrip live.st)`), remembers no exit
  command, and holds the same retry / waiter timers as the live heap: none.  Rests on the
  clock-erasure simulation of the whole reducer (`WfProofs/TimersErase.lean`).
* Inside one incarnation (no cut at all) a pending timer takes effect only if the loop wakes up for it:
  `C14_next_wakeup_is_earliest` (what `next_wakeup_timeout` makes the loop sleep until is the earliest entry of the
  heap, never later than any entry), `C14_timer_pops_exactly_the_due` (`pop_due_ticks` moves exactly the due entries
  to the tick buffer, nothing overdue stays behind, nothing is lost), `C14_every_timer_fires_when_due` (a loop that
  sleeps until its wake-up time and pops has not passed the due time of any pending timer; those due at that instant
  are in the buffer, all others still pending — by induction every timer is delivered exactly when due, whatever the
  order in which the timers were armed).  The model keeps the heap as a bag with `minAt` for `scheduled_wakeups[0]`;
  `C14_timer_heap_source_shape` pins what justifies that: the source changes the list through `heapq` only.
-/
set_option linter.unusedVariables false
open Engine

/-- the retry / waiter-timeout timers pending in the in-memory control loop -/
def Engine.Srv.pendingTimers (s : Srv) : List Timer :=
  match s.live with
  | some r => r.heap.filter (fun t => t.tick.isRetryOrWaiterTimer)
  | none => []

/-- the ticks the in-memory control loop (the current incarnation) has processed -/
def Engine.Srv.processed (s : Srv) : List Tick :=
  match s.live with
  | some r => r.log.map (·.1)
  | none => []

/-! ## what a reload restores — for every log and every clock -/

/-- **a reloaded run has no retry timer and no waiter timeout**: whatever was persisted, the heap
of the reloaded control loop is the workflow timeout, armed from the time of the reload -/
theorem C14_reload_drops_all_timers (c : SrvCfg) (pol : Policy) (ticks : List Tick) (now : Int) (r : Runner)
    (ex : Option Cmd) (h : reload c pol ticks now = .ok r ex) :
    r.heap = (match c.timeout with
              | some t => [{ at_ := now + t, seq := 0, tick := .timeout t }]
              | none => []) ∧
    ∀ tm ∈ r.heap, tm.tick.isRetryOrWaiterTimer = false := by
  unfold reload at h
  split at h
  · cases h
  · split at h
    · cases h
    · dsimp only at h
      split at h
      · cases h
        exact ⟨init_heap _ _ _ _ _, init_heap_no_retry_or_waiter _ _ _ _ _⟩
      · cases h

/-! ## the full statement -/

/-- **C14**: a delayed retry / waiter timeout that is pending when the run is released for idleness
or the process stops still takes effect once the run is reloaded: left to itself (no new external
input) the system can process that tick. -/
def C14_statement : Prop :=
  ∀ (c : SrvCfg) (pol : Policy) (start : Ev) (acts : List SAct) (cut wake : SAct) (tm : Timer),
    let s := Srv.run c pol (Srv.start c start) acts
    tm ∈ s.pendingTimers → cut.isCut = true → (s.step c pol cut).live = none →
    wake.isWake = true → ((s.step c pol cut).step c pol wake).live.isSome = true →
    ∃ cont : List SAct, (∀ a ∈ cont, a.internal = true) ∧
      tm.tick ∈ (Srv.run c pol ((s.step c pol cut).step c pol wake) cont).processed

/-! ## witnesses -/

namespace C14
def startEv : Ev := { ty := 0, kind := .start, uid := 1 }
/-- an event of a type no step accepts and no waiter waits for: sending it only reloads the run -/
def wake : Tick := .addEvent { ev := { ty := 9, kind := .plain, uid := 50 } } none

/-- one step with a retry policy that answers "retry in 5 s"; `idle_timeout = 1` -/
def cfgR : Cfg := { steps := [{ name := 0, accepted := [0], numWorkers := 1, hasRetry := true }] }
def polR : Policy := fun _ _ _ _ => .retry 5
def srvR : SrvCfg := { cfg := cfgR, timeout := none, idleTimeout := 1 }
/-- the step runs and fails at t = 0; the retry is scheduled for t = 5; idleness is announced
(F05); one second passes -/
def actsR : List SAct :=
  [.run .drain, .run (.workerDone 0 0 [.failed 7 0]), .run .drain, .run .drain, .run (.advance 1)]
def retryTick : Tick :=
  .addEvent { ev := startEv, attempts := some 1, firstAt := some 0, lastExc := some 7, lastFailedAt := some 0 } (some 0)
def retryTimer : Timer := { at_ := 5, seq := 0, tick := retryTick }
def baseR : List Tick :=
  [.addEvent { ev := startEv } none, .stepResult 0 0 startEv [.failed 7 0], .idleCheck]
/-- the same run stopped before the idle check was processed (`idle_since` still unset) -/
def actsR0 : List SAct := [.run .drain, .run (.workerDone 0 0 [.failed 7 0]), .run .drain]
def baseR0 : List Tick := [.addEvent { ev := startEv } none, .stepResult 0 0 startEv [.failed 7 0]]

/-- one step that calls `wait_for_event(T11, timeout=5)` (waiter id 1); `idle_timeout = 1` -/
def cfgW : Cfg := { steps := [{ name := 0, accepted := [0], numWorkers := 1, hasRetry := false }] }
def polW : Policy := fun _ _ _ _ => .stop
def srvW : SrvCfg := { cfg := cfgW, timeout := none, idleTimeout := 1 }
def actsW : List SAct :=
  [.run .drain, .run (.workerDone 0 0 [.addWaiter 1 none none (some 5) 11]), .run .drain, .run .drain,
   .run (.advance 1)]
def waiterTimer : Timer := { at_ := 5, seq := 0, tick := .waiterTimeout 0 1 }
def baseW : List Tick :=
  [.addEvent { ev := startEv } none, .stepResult 0 0 startEv [.addWaiter 1 none none (some 5) 11], .idleCheck]

theorem unaccR : Unaccepted cfgR 9 := by intro c hc; simp [cfgR] at hc; subst hc; decide
theorem unaccW : Unaccepted cfgW 9 := by intro c hc; simp [cfgW] at hc; subst hc; decide

theorem tiR : TimeIndep polR := fun _ _ _ _ _ => rfl
theorem tiW : TimeIndep polW := fun _ _ _ _ _ => rfl

/-- the persisted log of the retry witness replays to: running, nothing queued, nothing in
progress, no waiter — the failed attempt is gone, its retry was only a command; that of the waiter
witness to: running, nothing queued or in progress, the waiter (unresolved, not timed out) still
registered.  Checked at clock 0 and carried to every clock by `tmReplayAt_sim`. -/
theorem stuckBaseR : StuckBase srvR polR 9 baseR :=
  { unaccepted := unaccR, noTimeout := rfl, nonempty := by simp [baseR], timeIndep := tiR, replay0 := by decide }
theorem stuckBaseR0 : StuckBase srvR polR 9 baseR0 :=
  { unaccepted := unaccR, noTimeout := rfl, nonempty := by simp [baseR0], timeIndep := tiR, replay0 := by decide }
theorem stuckBaseW : StuckBase srvW polW 9 baseW :=
  { unaccepted := unaccW, noTimeout := rfl, nonempty := by simp [baseW], timeIndep := tiW, replay0 := by decide }

/-- a run that is out of memory with exactly `base` persisted -/
theorem offline_stuck {c : SrvCfg} {base : List Tick} {s : Srv} (hs : s.status = .running) (hst : s.store = base)
    (hl : s.live.isSome = false) : SrvStuck c 9 base s :=
  { status := hs, store := ⟨[], by simp [hst], by simp⟩,
    live := by intro r hr; rw [hr] at hl; cases hl }

/-- the two witnesses right after the idle release -/
def offR : Srv := (Srv.run srvR polR (Srv.start srvR startEv) actsR).step srvR polR .release
def offW : Srv := (Srv.run srvW polW (Srv.start srvW startEv) actsW).step srvW polW .release

theorem internal_quiet {a : SAct} (h : a.internal = true) : a.quietFor 9 = true := by
  cases a with
  | run act => cases act <;> simp_all [SAct.internal, SAct.quietFor, Act.quietFor]
  | send t => simp [SAct.internal] at h
  | _ => rfl

/-- the common part of the four refutations: once the run has left memory with `base` persisted,
a wake-up followed by any internal continuation never processes a non-inert tick -/
theorem never_processed (c : SrvCfg) (pol : Policy) (base : List Tick) (hb : StuckBase c pol 9 base)
    (s1 : Srv) (h1 : SrvStuck c 9 base s1) (wk : SAct) (hw : wk.quietFor 9 = true)
    (cont : List SAct) (hc : ∀ a ∈ cont, a.internal = true) (t : Tick) (ht : inert 9 t = false) :
    t ∉ (Srv.run c pol (s1.step c pol wk) cont).processed := by
  have h2 := srv_step_stuck c pol 9 base hb s1 wk hw h1
  have h3 := stuck_forever c pol 9 base hb cont _ (fun a ha => internal_quiet (hc a ha)) h2
  intro hm
  unfold Srv.processed at hm
  cases hl : (Srv.run c pol (s1.step c pol wk) cont).live with
  | none => simp [hl] at hm
  | some r =>
    simp only [hl, List.mem_map] at hm
    obtain ⟨p, hp, rfl⟩ := hm
    have := (h3.live r hl).log p hp
    rw [ht] at this; cases this
end C14

/-! ## refutations -/

/-- **refuted, retry × idle release (F13)**: the step failed, its retry waits in the heap until
t = 5; idleness was announced at t = 0 and `idle_timeout = 1`, so at t = 1 the run is released.  A
send reloads it; from then on nothing can ever process the retry. -/
theorem C14_refuted_retry : ¬ C14_statement := by
  intro h
  obtain ⟨cont, hc, hm⟩ := h C14.srvR C14.polR C14.startEv C14.actsR .release (.send C14.wake) C14.retryTimer
    (by decide) rfl (by decide) rfl (by decide)
  exact C14.never_processed C14.srvR C14.polR C14.baseR C14.stuckBaseR _
    (C14.offline_stuck (by decide) (by decide) (by decide))
    (.send C14.wake) (by decide) cont hc _ (by decide) hm

/-- **refuted, waiter timeout × idle release**: `wait_for_event(timeout=5)` registered its waiter at
t = 0; the run is idle (it waits for input), released at t = 1, reloaded by a send of an unrelated
event: the waiter is back, its timeout is not, and no continuation delivers it. -/
theorem C14_refuted_waiter_timeout : ¬ C14_statement := by
  intro h
  obtain ⟨cont, hc, hm⟩ := h C14.srvW C14.polW C14.startEv C14.actsW .release (.send C14.wake) C14.waiterTimer
    (by decide) rfl (by decide) rfl (by decide)
  exact C14.never_processed C14.srvW C14.polW C14.baseW C14.stuckBaseW _
    (C14.offline_stuck (by decide) (by decide) (by decide))
    (.send C14.wake) (by decide) cont hc _ (by decide) hm

/-- **refuted, retry × restart**: the process stops while the retry waits; the handler row says
idle, so server start does not resume it; the send that reloads it finds no timer. -/
theorem C14_refuted_retry_restart : ¬ C14_statement := by
  intro h
  obtain ⟨cont, hc, hm⟩ := h C14.srvR C14.polR C14.startEv C14.actsR .restart (.send C14.wake) C14.retryTimer
    (by decide) rfl (by decide) rfl (by decide)
  exact C14.never_processed C14.srvR C14.polR C14.baseR C14.stuckBaseR _
    (C14.offline_stuck (by decide) (by decide) (by decide))
    (.send C14.wake) (by decide) cont hc _ (by decide) hm

/-- **refuted, retry × restart, resumed at server start**: the process stops right after the
failure was processed (before the idle check), so `idle_since` is unset and `_on_server_start`
resumes the run — without the retry. -/
theorem C14_refuted_retry_resume : ¬ C14_statement := by
  intro h
  obtain ⟨cont, hc, hm⟩ := h C14.srvR C14.polR C14.startEv C14.actsR0 .restart .resume C14.retryTimer
    (by decide) rfl (by decide) rfl (by decide)
  exact C14.never_processed C14.srvR C14.polR C14.baseR0 C14.stuckBaseR0 _
    (C14.offline_stuck (by decide) (by decide) (by decide))
    .resume (by decide) cont hc _ (by decide) hm

/-- **refuted, waiter timeout × restart** -/
theorem C14_refuted_waiter_timeout_restart : ¬ C14_statement := by
  intro h
  obtain ⟨cont, hc, hm⟩ := h C14.srvW C14.polW C14.startEv C14.actsW .restart (.send C14.wake) C14.waiterTimer
    (by decide) rfl (by decide) rfl (by decide)
  exact C14.never_processed C14.srvW C14.polW C14.baseW C14.stuckBaseW _
    (C14.offline_stuck (by decide) (by decide) (by decide))
    (.send C14.wake) (by decide) cont hc _ (by decide) hm

/-! ## "the run stays running forever" — over all continuations -/

/-- after the retry witness' idle release, **every** sequence of actions that adds no real input
(control-loop steps, time, further idle releases / restarts / resumes, and sends of events nobody
accepts — each of which reloads the run) leaves the handler `running`, with no worker, an empty
timer heap, and the retry never processed -/
theorem C14_retry_lost_forever (acts : List SAct) (ha : ∀ a ∈ acts, a.quietFor 9 = true) :
    let s := Srv.run C14.srvR C14.polR C14.offR acts
    s.status = .running ∧ C14.retryTick ∉ s.processed ∧ C14.retryTick ∉ s.persisted ∧
      ∀ r, s.live = some r → r.running = [] ∧ r.heap = [] ∧ r.outcome = none := by
  have h := stuck_forever C14.srvR C14.polR 9 C14.baseR C14.stuckBaseR acts C14.offR ha
    (C14.offline_stuck (by decide) (by decide) (by decide))
  intro s
  refine ⟨h.status, ?_, ?_, fun r hr => ⟨(h.live r hr).idle, (h.live r hr).heap, (h.live r hr).live⟩⟩
  · intro hm
    unfold Srv.processed at hm
    split at hm
    · rename_i r hr
      obtain ⟨p, hp, hpe⟩ := List.mem_map.mp hm
      have := (h.live r hr).log p hp
      rw [hpe] at this; revert this; decide
    · simp at hm
  · intro hm
    obtain ⟨tail, hp, ht⟩ := persisted_stuck h
    rw [hp] at hm
    rcases List.mem_append.mp hm with hm | hm
    · revert hm; decide
    · have := ht _ hm; revert this; decide

/-- the same for the waiter timeout: the waiting step never gets its `TimeoutError` -/
theorem C14_waiter_timeout_lost_forever (acts : List SAct) (ha : ∀ a ∈ acts, a.quietFor 9 = true) :
    let s := Srv.run C14.srvW C14.polW C14.offW acts
    s.status = .running ∧ Tick.waiterTimeout 0 1 ∉ s.processed ∧ Tick.waiterTimeout 0 1 ∉ s.persisted ∧
      ∀ r, s.live = some r → r.running = [] ∧ r.heap = [] ∧ r.outcome = none := by
  have h := stuck_forever C14.srvW C14.polW 9 C14.baseW C14.stuckBaseW acts C14.offW ha
    (C14.offline_stuck (by decide) (by decide) (by decide))
  intro s
  refine ⟨h.status, ?_, ?_, fun r hr => ⟨(h.live r hr).idle, (h.live r hr).heap, (h.live r hr).live⟩⟩
  · intro hm
    unfold Srv.processed at hm
    split at hm
    · rename_i r hr
      obtain ⟨p, hp, hpe⟩ := List.mem_map.mp hm
      have := (h.live r hr).log p hp
      rw [hpe] at this; revert this; decide
    · simp at hm
  · intro hm
    obtain ⟨tail, hp, ht⟩ := persisted_stuck h
    rw [hp] at hm
    rcases List.mem_append.mp hm with hm | hm
    · revert hm; decide
    · have := ht _ hm; revert this; decide

/-! ## the part that holds -/

theorem C14.cut_persisted (c : SrvCfg) (pol : Policy) (s : Srv) (r : Runner) (hl : s.live = some r) (cut : SAct)
    (hcut : cut.isCut = true) (hoff : (s.step c pol cut).live = none) :
    (s.step c pol cut).persisted = s.persisted ∧ (s.step c pol cut).status = s.status ∧
      (s.step c pol cut).idleSince = s.idleSince := by
  cases cut with
  | release =>
    simp only [Srv.step, hl] at hoff ⊢
    cases hi : s.idleSince with
    | none => simp [hi, hl] at hoff
    | some t0 =>
      simp only [hi] at hoff ⊢
      split
      · simp [Srv.persisted]
      · rename_i hlt; simp [hlt, hl] at hoff
  | restart => simp [Srv.step, Srv.persisted]
  | run a => simp [SAct.isCut] at hcut
  | send t => simp [SAct.isCut] at hcut
  | resume => simp [SAct.isCut] at hcut

/-- **C14, the part that holds**: take any schedule of a run's first control loop (steps, worker
results, mailbox traffic, timers, time) after which **no retry and no waiter timeout is pending**,
the run is still going, and every logged tick is persisted as it is (no waiter requirements — those
are not written).  If the run then leaves memory — idle release or process stop — reloading it, at
any later clock, yields the live reducer state written by `to_serialized`, read back and
restarted (`Runner.init (roundtrip b)` for a `b` that agrees with the live state up to
`first_attempt_at` values, `Sim b live.st` — a waiter keeps the first-attempt time of the invocation
suspended in it, and for an invocation that the replay started that is the clock of the replay):
every queued and in-progress invocation is queued or
started again, buffers and waiters are kept (C12), no exit command is remembered (the handler is not
finalised), and the reloaded heap holds the same retry / waiter timers as the live one: none.  The
policy must not look at elapsed time (`TimeIndep`), because the replay runs at the clock of the
reload. -/
theorem C14_partial (c : SrvCfg) (pol : Policy) (hp : TimeIndep pol) (start : Ev) (racts : List Act)
    (cut : SAct) (hcut : cut.isCut = true) :
    let s := Srv.run c pol (Srv.start c start) (racts.map SAct.run)
    ∀ r, s.live = some r →
      s.pendingTimers = [] →
      r.outcome = none → r.st.isRunning = true → r.log ≠ [] → (∀ p ∈ r.log, p.1.stored = p.1) →
      (s.step c pol cut).live = none →
      ∀ now, ∃ r', reload c pol (s.step c pol cut).persisted now = .ok r' none ∧
        (∃ b, Sim b r.st ∧ r' = Runner.init c.cfg (roundtrip c.cfg b) now none c.timeout) ∧
        r'.heap.filter (fun t => t.tick.isRetryOrWaiterTimer) = s.pendingTimers ∧
        r'.mailbox = [] ∧ (s.step c pol cut).status = s.status := by
  intro s r hl hpend hout hrun hne hper hoff now
  obtain ⟨hlive, hstore⟩ := srv_run_first c pol racts (Srv.start c start) _ rfl rfl
  have hr : r = Runner.run c.cfg pol (Runner.init c.cfg initState 0 (some start) c.timeout) racts := by
    have : some r = some (Runner.run c.cfg pol (Runner.init c.cfg initState 0 (some start) c.timeout) racts) := by
      rw [← hl]; exact hlive
    exact Option.some.inj this
  obtain ⟨hp1, hp2, _⟩ := C14.cut_persisted c pol s r hl cut hcut hoff
  have hpers : s.persisted = r.log.map (fun p => p.1.stored) := by
    simp only [Srv.persisted, hl]
    have : s.store = [] := hstore
    simp [this]
  have hrel := reload_of_live c hp start 0 racts now
  simp only [← hr] at hrel
  obtain ⟨b, hb, hrel'⟩ := hrel hout hrun hne hper
  refine ⟨_, by rw [hp1, hpers]; exact hrel', ⟨b, hb, rfl⟩, ?_, init_mailbox _ _ _ _ _, hp2⟩
  rw [hpend]
  apply List.filter_eq_nil_iff.mpr
  intro tm htm
  simp [init_heap_no_retry_or_waiter _ _ _ _ _ tm htm]

/-- non-vacuity of `C14_partial`: a two-step workflow whose first step has finished; its output
event is in the second step's in-progress table and a worker runs it (no timer pending apart from
the 45 s workflow timeout); the process stops; server start reloads the run and starts that
invocation again, with the workflow timeout armed from scratch -/
def C14.cfg2 : Cfg := { steps := [{ name := 0, accepted := [0], numWorkers := 1, hasRetry := false },
                                  { name := 1, accepted := [5], numWorkers := 1, hasRetry := false }] }
def C14.srv2 : SrvCfg := { cfg := C14.cfg2, timeout := some 45, idleTimeout := 1 }
def C14.s2 : Srv := Srv.run C14.srv2 C14.polW (Srv.start C14.srv2 C14.startEv)
  ([.drain, .workerDone 0 0 [.result (some { ty := 5, kind := .plain, uid := 2 })], .drain, .drain].map SAct.run)
def C14.s2' : Srv := (C14.s2.step C14.srv2 C14.polW .restart).step C14.srv2 C14.polW .resume
example : C14.s2.pendingTimers = [] := by decide
example : C14.s2.live.map (fun r => (r.outcome.isNone, r.st.isRunning, r.log.length, r.running.length)) =
    some (true, true, 3, 1) := by decide
example : C14.s2'.live.map (fun r => (r.running.map (fun w => w.step), r.heap.map (fun t => t.at_),
      (r.st.workers 1).inProg.map (fun i => i.ev.uid))) = some ([1], [45], [2]) := by decide

/-! ## non-vacuity of the witnesses: what the model computes at the cut -/

example :
    let s := Srv.run C14.srvR C14.polR (Srv.start C14.srvR C14.startEv) C14.actsR
    (s.pendingTimers, s.idleSince, s.now, (s.step C14.srvR C14.polR .release).live.isSome,
      (s.step C14.srvR C14.polR .release).persisted) =
    ([C14.retryTimer], some 0, 1, false, C14.baseR) := by decide
example :
    let s := (Srv.run C14.srvR C14.polR (Srv.start C14.srvR C14.startEv) C14.actsR).step C14.srvR C14.polR .release
    let s' := s.step C14.srvR C14.polR (.send C14.wake)
    (s'.live.isSome, s'.loads, s'.pendingTimers, s'.idleSince, s'.status) = (true, 2, [], none, .running) := by decide
example :
    let s := Srv.run C14.srvW C14.polW (Srv.start C14.srvW C14.startEv) C14.actsW
    (s.pendingTimers, s.idleSince, (s.step C14.srvW C14.polW .release).persisted) =
    ([C14.waiterTimer], some 0, C14.baseW) := by decide
/-- without the release the retry fires at t = 5 and the step runs again -/
example :
    let s := Srv.run C14.srvR C14.polR (Srv.start C14.srvR C14.startEv)
      (C14.actsR ++ [.run (.advance 4), .run .timer, .run .drain])
    (s.processed.contains C14.retryTick, s.pendingTimers) = (true, []) := by decide
/-- a release attempt before `idle_timeout` has elapsed is refused -/
example :
    let s := Srv.run C14.srvR C14.polR (Srv.start C14.srvR C14.startEv) (C14.actsR.take 4)
    ((s.step C14.srvR C14.polR .release).live.isSome) = true := by decide

/-! ## inside one incarnation: the loop wakes up for every pending timer -/

/-- `next_wakeup_timeout`: no timer ⇒ no wake-up; otherwise the loop sleeps until `w`, which is not in the past, is the
due time of a pending timer (or *now*, when one is already due), and is not later than the due time of ANY pending
timer that is still in the future -/
theorem C14_next_wakeup_is_earliest (r : Runner) :
    (r.nextWakeup = none ↔ r.heap = []) ∧
    ∀ w, r.nextWakeup = some w →
      r.now ≤ w ∧ (w = r.now ∨ ∃ t, t ∈ r.heap ∧ t.at_ = w) ∧ (∀ t, t ∈ r.heap → w ≤ t.at_ ∨ (w = r.now ∧ t.at_ ≤ r.now)) := by
  constructor
  · simp only [Runner.nextWakeup, Option.map_eq_none_iff]
    exact minAt_none
  · intro w h
    simp only [Runner.nextWakeup, Option.map_eq_some_iff] at h
    obtain ⟨m, hm, hw⟩ := h
    have hle := minAt_le hm
    obtain ⟨u, hu, hue⟩ := minAt_mem hm
    by_cases hmn : m ≤ r.now
    · rw [if_pos hmn] at hw
      refine ⟨by omega, Or.inl hw.symm, ?_⟩
      intro t ht
      have := hle t ht
      by_cases h2 : t.at_ ≤ r.now
      · exact Or.inr ⟨hw.symm, h2⟩
      · exact Or.inl (by omega)
    · rw [if_neg hmn] at hw
      refine ⟨by omega, Or.inr ⟨u, hu, by omega⟩, ?_⟩
      intro t ht
      have := hle t ht
      exact Or.inl (by omega)

/-- `pop_due_ticks` (the loop's wake-up with nothing else to do): every due timer's tick is in the tick buffer and its
entry is gone from the heap, every other timer is still in the heap, the heap holds nothing else and nothing that is
due, no entry is lost or duplicated, and the next sleep ends strictly in the future -/
theorem C14_timer_pops_exactly_the_due (cfg : Cfg) (pol : Policy) (r : Runner) (hb : r.buf = []) (ho : r.outcome = none) :
    let r' := r.step cfg pol .timer
    (∀ t, t ∈ r.heap → if t.at_ ≤ r.now then t.tick ∈ r'.buf ∧ t ∉ r'.heap else t ∈ r'.heap) ∧
    (∀ t, t ∈ r'.heap → t ∈ r.heap ∧ r.now < t.at_) ∧
    r'.buf.length + r'.heap.length = r.heap.length ∧
    r'.now = r.now ∧
    (∀ w, r'.nextWakeup = some w → r'.now < w) := by
  intro r'
  have hr' : r' = _ := step_timer_eq cfg pol r hb ho
  have hheap : ∀ t, t ∈ r'.heap ↔ t ∈ r.heap ∧ r.now < t.at_ := by
    intro t
    rw [hr']
    simp only [List.mem_filter, Bool.not_eq_true', decide_eq_false_iff_not, Int.not_le]
  have hnow : r'.now = r.now := by rw [hr']
  refine ⟨?_, fun t ht => (hheap t).mp ht, ?_, hnow, ?_⟩
  · intro t ht
    by_cases hd : t.at_ ≤ r.now
    · rw [if_pos hd]
      refine ⟨?_, fun hin => by have := ((hheap t).mp hin).2; omega⟩
      rw [hr']
      exact List.mem_map.mpr ⟨t, mem_sortTimers_iff.mpr (List.mem_filter.mpr ⟨ht, by simpa using hd⟩), rfl⟩
    · rw [if_neg hd]
      exact (hheap t).mpr ⟨ht, by omega⟩
  · rw [hr']
    simp only [List.length_map, (sortTimers_perm _).length_eq]
    have := (List.filter_append_perm (fun t : Timer => decide (t.at_ ≤ r.now)) r.heap).length_eq
    simp only [List.length_append] at this
    exact this
  · intro w hw
    obtain ⟨_, hor, _⟩ := (C14_next_wakeup_is_earliest r').2 w hw
    simp only [Runner.nextWakeup, Option.map_eq_some_iff] at hw
    obtain ⟨m, hm, hwm⟩ := hw
    obtain ⟨u, hu, hue⟩ := minAt_mem hm
    have := ((hheap u).mp hu).2
    by_cases hmn : m ≤ r'.now
    · omega
    · rw [if_neg hmn] at hwm; omega

/-- a control loop with nothing else to do sleeps until its wake-up time and pops (`Runner.sleepAndFire`).  If no timer
is overdue beforehand (which `C14_timer_pops_exactly_the_due` re-establishes after every pop), then for EVERY pending
timer `t`, in whatever order the timers were armed: the clock has not passed `t`'s due time; if it has reached it, `t`'s
tick is in the tick buffer (it fires exactly when due); otherwise `t` is still pending.  And the round does deliver
something -/
theorem C14_every_timer_fires_when_due (cfg : Cfg) (pol : Policy) (r : Runner) (hb : r.buf = []) (ho : r.outcome = none)
    (hfut : ∀ t, t ∈ r.heap → r.now < t.at_) :
    let r' := r.sleepAndFire cfg pol
    (∀ t, t ∈ r.heap → r'.now ≤ t.at_ ∧ (r'.now = t.at_ → t.tick ∈ r'.buf) ∧ (r'.now < t.at_ → t ∈ r'.heap)) ∧
    (r.heap ≠ [] → r'.buf ≠ []) := by
  intro r'
  cases hw : r.nextWakeup with
  | none =>
    have hnil : r.heap = [] := (C14_next_wakeup_is_earliest r).1.mp hw
    refine ⟨fun t ht => by rw [hnil] at ht; simp at ht, fun h => absurd hnil h⟩
  | some w =>
    obtain ⟨hge, hor, hall⟩ := (C14_next_wakeup_is_earliest r).2 w hw
    have hr' : r' = (r.step cfg pol (.advance (w - r.now).toNat)).step cfg pol .timer := by
      show r.sleepAndFire cfg pol = _
      simp only [Runner.sleepAndFire, hw]
    have hadv := step_advance_eq cfg pol r (w - r.now).toNat ho
    let r1 : Runner := { r with now := r.now + ((w - r.now).toNat : Int) }
    have hr1 : r.step cfg pol (.advance (w - r.now).toNat) = r1 := hadv
    have hr1now : r1.now = w := by show r.now + ((w - r.now).toNat : Int) = w; omega
    have hpop := C14_timer_pops_exactly_the_due cfg pol r1 hb ho
    rw [hr1] at hr'
    rw [← hr'] at hpop
    obtain ⟨hdue, _, _, hnow, _⟩ := hpop
    have hnow' : r'.now = w := by rw [hnow, hr1now]
    constructor
    · intro t ht
      have hwt : w ≤ t.at_ := by
        rcases hall t ht with h | ⟨_, h⟩
        · exact h
        · have := hfut t ht; omega
      have h := hdue t ht
      rw [hr1now] at h
      refine ⟨by omega, ?_, ?_⟩
      · intro he
        rw [if_pos (by omega)] at h
        exact h.1
      · intro hl
        rw [if_neg (by omega)] at h
        exact h
    · intro _
      rcases hor with h | ⟨u, hu, hue⟩
      · obtain ⟨m, hm, hwm⟩ := Option.map_eq_some_iff.mp hw
        obtain ⟨u, hu, hue⟩ := minAt_mem hm
        have := hfut u hu
        by_cases hmn : m ≤ r.now
        · omega
        · rw [if_neg hmn] at hwm; omega
      · have h := hdue u hu
        rw [hr1now, if_pos (by omega)] at h
        exact List.ne_nil_of_mem h.1

/-- the source changes `scheduled_wakeups` through `heapq.heappush` / `heapq.heappop` only (re-read from control_loop.py on
every run), so the list is a binary heap and `scheduled_wakeups[0]` — what `next_wakeup_timeout` and the loop condition of
`pop_due_ticks` read — is its earliest entry: the `minAt` of the model -/
theorem C14_timer_heap_source_shape :
    GenEngineShape.wakeupMutators = ["heapq.heappop@pop_due_ticks", "heapq.heappush@schedule_tick"] := by decide

/-- non-vacuity: three timers armed latest-first (waiter timeouts due at 15 and 9, then a retry due at 3), as the runner's
heap holds them after the three pushes; the loop wakes at 3 for the retry, then at 9, then at 15 -/
def C14.heap3 : Runner :=
  { st := initState,
    heap := [{ at_ := 15, seq := 0, tick := .waiterTimeout 2 7 }, { at_ := 9, seq := 1, tick := .waiterTimeout 4 7 },
             { at_ := 3, seq := 2, tick := .addEvent { ev := { ty := 7, kind := .plain, uid := 3 }, attempts := some 1 } (some 6) }],
    seq := 3 }
example : C14.heap3.nextWakeup = some 3 := by decide
example :
    let r1 := C14.heap3.sleepAndFire C14.cfg2 C14.polW
    (r1.now, r1.buf.length, r1.heap.map (·.at_), r1.nextWakeup) = (3, 1, [15, 9], some 9) := by decide
example :
    let r2 := ({ (C14.heap3.sleepAndFire C14.cfg2 C14.polW) with buf := [] }).sleepAndFire C14.cfg2 C14.polW
    (r2.now, r2.buf, r2.heap.map (·.at_), r2.nextWakeup) = (9, [.waiterTimeout 4 7], [15], some 15) := by decide

/-! ## retries that were already granted: the reload does not take them back (any policy, any downtime) -/

/-- **a journaled retry tick carries its own clock**: a `TickAddEvent` that brings `first_attempt_at` along (every retry the
control loop queued: `CommandQueueEvent(first_attempt_at=this_execution.first_attempt_at)`) starts -- or enqueues -- exactly the same
execution whatever the reducer's clock, live or in a replay any time later -/
theorem C14_retry_tick_carries_its_first_attempt (att : Attempt) (f : Int) (hf : att.firstAt = some f) (hf0 : f ≠ 0)
    (step : Nat) (ss : StepState) (nw : Nat) (n n' : Int) :
    addOrEnqueue att step ss nw n = addOrEnqueue att step ss nw n' := by
  unfold addOrEnqueue orInt
  simp [hf, hf0]

/-- **what a failed execution leads to does not depend on when the tick is reduced** -- for EVERY retry policy, time-bounded ones
(`stop_after_delay`, `stop_before_delay`, anything reading `elapsed_time`) included: the elapsed time handed to the policy is
`failed_at - first_attempt_at`, both carried by the journal, so a replay at any later clock issues the very commands the live
loop issued (same retry granted, same delay, same exit), and the states differ at most in the first-attempt stamps of queued
events started by the drain -/
theorem C14_step_result_ignores_reducer_clock (cfg : Cfg) (pol : Policy) (step worker : Nat) (ev : Ev) (res : List Res)
    (st : State) (n n' : Int) :
    (reduce cfg pol (.stepResult step worker ev res) st n).2 = (reduce cfg pol (.stepResult step worker ev res) st n').2 ∧
      SimSt (reduce cfg pol (.stepResult step worker ev res) st n).1 (reduce cfg pol (.stepResult step worker ev res) st n').1 := by
  have key : (processStepResult cfg pol step worker ev res st n).2 = (processStepResult cfg pol step worker ev res st n').2 ∧
      SimSt (processStepResult cfg pol step worker ev res st n).1 (processStepResult cfg pol step worker ev res st n').1 := by
    unfold processStepResult
    split
    · exact ⟨rfl, SimSt.refl _⟩
    · split
      · exact ⟨rfl, SimSt.refl _⟩
      · simp only
        split
        · exact ⟨rfl, SimSt.refl _⟩
        · rename_i exec _ _
          obtain ⟨hd, hc⟩ := drain_sim step (cfg.nw step) n n'
            (settle (res.foldl (applyRes cfg pol step ev (res.any isResult)) { st := st, exec := exec }) step worker ev).1.queue.length
            (SimSS.refl (settle (res.foldl (applyRes cfg pol step ev (res.any isResult)) { st := st, exec := exec }) step worker ev).1)
          exact ⟨by rw [hc], (SimSt.refl _).set step hd⟩
  obtain ⟨kc, ks⟩ := key
  simp only [reduce]
  rw [checkIdle_sim cfg ks]
  split
  · exact ⟨by simp [kc], ks⟩
  · exact ⟨kc, ks⟩

/-- the journaled retry tick followed by the failure of the execution it starts: reduced at clocks `n`, `m` (live) or at
`n'`, `m'` (a replay after any downtime), the same commands come out -- a retry that was granted is granted again -/
theorem C14_granted_retry_regranted_at_any_replay_clock (cfg : Cfg) (pol : Policy) (att : Attempt) (f : Int)
    (hf : att.firstAt = some f) (hf0 : f ≠ 0) (step worker nw : Nat) (res : List Res) (st : State) (n n' m m' : Int) :
    (reduce cfg pol (.stepResult step worker att.ev res) (st.set step (addOrEnqueue att step (st.workers step) nw n).1) m).2 =
      (reduce cfg pol (.stepResult step worker att.ev res) (st.set step (addOrEnqueue att step (st.workers step) nw n').1) m').2 := by
  rw [C14_retry_tick_carries_its_first_attempt att f hf hf0 step (st.workers step) nw n n']
  exact (C14_step_result_ignores_reducer_clock cfg pol step worker att.ev res _ m m').1

namespace C14
def startEvB : Ev := { ty := 0, kind := .start, uid := 1 }
/-- `stop_after_delay(7)`, `wait_fixed(2)` -/
def polD : Policy := fun _ el _ _ => if el < 7 then .retry 2 else .stop
def cfgD : Cfg := { steps := [{ name := 0, accepted := [0], numWorkers := 1, hasRetry := true }] }
def srvD : SrvCfg := { cfg := cfgD, timeout := none, idleTimeout := 1000 }
/-- failures at t = 0 and t = 2 (2 s of the 7 s budget used), retry 2 starts at t = 4 and is executing at t = 5 -/
def actsD : List SAct :=
  [.run .drain, .run (.workerDone 0 0 [.failed 7 1000]), .run .drain, .run .drain, .run (.advance 2), .run .timer, .run .drain,
   .run (.workerDone 0 0 [.failed 7 1002]), .run .drain, .run .drain, .run (.advance 2), .run .timer, .run .drain, .run (.advance 1)]
def sD : Srv := Srv.run srvD polD (Srv.start srvD startEvB 1000) actsD
/-- process stop, 20 s of downtime (the budget is 7 s), next boot -/
def sD' : Srv := Srv.run srvD polD sD [.restart, .run (.advance 20), .resume]
end C14
def C14.wakeB : Tick := .addEvent { ev := { ty := 9, kind := .plain, uid := 50 } } none
def C14.sD2 : Srv := Srv.run C14.srvD C14.polD C14.sD [.restart, .run (.advance 20), .send C14.wakeB]

/-- non-vacuity, on the server model: `stop_after_delay(7)` / `wait_fixed(2)`, failures at t = 1000 and 1002, retry 2 executing at
t = 1005 (2 s of the budget used); process stop, 20 s down, a send reloads the run at t = 1025 -- 25 s after the first attempt:
the replay keeps both granted retries (no `notRunning`, no exit), the run is live again and the step is executing -/
example : (C14.sD.now, C14.sD.status, C14.sD.live.map (fun r => (r.running.map (fun w => w.step),
      (r.st.workers 0).inProg.map (fun i => (i.attempts, i.firstAt))))) = (1005, .running, some ([0], [(2, 1000)])) := by decide
example : (C14.sD2.now, C14.sD2.status, C14.sD2.loads, C14.sD2.err.isNone, C14.sD2.live.map (fun r => (r.outcome.isNone, r.running.map (fun w => w.step)))) =
    (1025, .running, 2, true, some (true, [0])) := by decide
/-- the policy really is time-bounded: asked at the clock of the reload it would give up -/
example : C14.polD 0 (1025 - 1000) 2 7 = .stop ∧ C14.polD 0 (1002 - 1000) 2 7 = .retry 2 := by decide
/-- the two clocks of `C14_granted_retry_regranted_at_any_replay_clock` on that history: retry tick reduced live at 1002 / in a replay at
1025, its failure at 1004 / 1025 -/
example :
    let att : Attempt := { ev := C14.startEvB, attempts := some 1, firstAt := some 1000, lastExc := some 7, lastFailedAt := some 1000 }
    (reduce C14.cfgD C14.polD (.stepResult 0 0 att.ev [.failed 7 1002])
        (initState.set 0 (addOrEnqueue att 0 (initState.workers 0) 1 1025).1) 1025).2.any
      (fun c => match c with | .queueEvent a (some 0) (some 2) => a.attempts == some 2 && a.firstAt == some 1000 | _ => false) = true := by decide
