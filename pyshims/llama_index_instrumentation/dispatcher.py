from __future__ import annotations

from contextlib import contextmanager
from contextvars import ContextVar
from typing import Any, Generator

from . import Dispatcher  # noqa: F401

active_instrument_tags: ContextVar[dict[str, Any]] = ContextVar(
    "instrument_tags", default={}
)


@contextmanager
def instrument_tags(new_tags: dict[str, Any]) -> Generator[None, None, None]:
    token = active_instrument_tags.set(dict(new_tags))
    try:
        yield
    finally:
        active_instrument_tags.reset(token)
