import WfModel.WorkerCleanup
import Driver.Util
open WorkerCleanup Drv

/-! Line protocol for the worker-cleanup model (await shape and grace period = those extracted from the current source).
  `cleanup|<worker>;<worker>;..`   (`cleanup|-`: no worker)   worker = `<seg>,<seg>,..` (empty: a body that is through at once)
  seg = `<len>:<a|s|i>:<0|1>`   (eighths of a second; reaction to a further cancellation: abort / skip / ignore; says a word after it)
answer: `returned=<t> done=<t,..> alive=<w,..> writes=<t:w,..> late=<t:w,..>` (times in eighths from the first cancel; `writes`
by time, then worker), `tie` when a segment would end in the very instant the grace period expires (order of two equal timers:
not modelled), `unmodelled` when the source's await has another shape. -/
namespace Drv.WorkerCleanup

def parseReact? (s : String) : Option React :=
  if s == "a" then some .abort else if s == "s" then some .skip else if s == "i" then some .ignore else none

def parseSeg? (s : String) : Option Seg :=
  match s.splitOn ":" with
  | [l, r, w] =>
    match parseNat? l, parseReact? r, parseBool? w with
    | some l, some r, some w => some ⟨l, r, w⟩
    | _, _, _ => none
  | _ => none

def parseProg? (s : String) : Option Prog :=
  if s.isEmpty then some [] else (s.splitOn ",").mapM parseSeg?

def parseWorkers? (s : String) : Option (List Prog) :=
  if s == "-" then some [] else (s.splitOn ";").mapM parseProg?

def showPairs (l : List (Nat × Nat)) : String := ",".intercalate (l.map fun x => s!"{x.1}:{x.2}")

def step (u : Unit) (line : String) : Unit × String :=
  match line.splitOn "|" with
  | ["cleanup", wsS] =>
    match parseWorkers? wsS with
    | none => (u, "bad-op")
    | some ws =>
      if ws.any (fun p => hasTie p 0 srcGrace) then (u, "tie") else
      match cleanup srcAwait srcGrace ws with
      | none => (u, "unmodelled")
      | some o =>
        (u, s!"returned={o.returned} done={",".intercalate (o.workers.map fun r => toString r.done)} " ++
            s!"alive={",".intercalate (o.alive.map toString)} writes={showPairs o.allWrites} late={showPairs (o.late.foldl (fun acc x => insertPair x acc) [])}")
  | _ => (u, "bad-op")

end Drv.WorkerCleanup
