import WfModel.HandlerStatus
import Driver.Util
open HandlerStatus Drv

/-! Line protocol for the handler status machine (model `handlerstatus`); fields separated by `|`.

  `reset|<idleLayer 0/1>|<backoff ms, comma separated>`         → `ok`
  `arm|uhs/app/upd|n`                                            → `ok`      (next n calls of that store method raise)
  `start|run`                                                    `run_workflow_handler`
  `ev|run|kind|tok|replaying 0/1`                                `_ServerInternalRunAdapter.write_to_event_stream`
  `uhs|run|status or _|result or _|error or _|idle u/n/s`        a bare `update_handler_status`
  `idleclear|run`
  `cancel|purge 0/1`                                             → `<none/cancelled/deleted>,req=<run or _> | …`
  `restart|replay|active 0/1|fault`                              replay: nostate resumable raised:n stop:uid idlereleased fail:n cancel timeout:t
Answer: `<ok/raised/…> | <row> | ev=<n>:<last> pub=<n>:<last> rel=<n> slept=<ms> f=<uhs>,<app>,<upd>`
with `<row>` = `none` or `run=<n> st=<status> err=<_/e<n>/t<n>/nostate/s<n>> res=<_/n> c=<none/now/old> idle=<0/1>`. -/
namespace Drv.HandlerStatus

def showErr : Err → String
  | .exc n => s!"e{n}" | .timeout t => s!"t{t}" | .noState => "nostate" | .store n => s!"s{n}"

def showKind : EvKind → String
  | .stop => "stop" | .failed => "failed" | .timedOut => "timedout" | .cancelled => "cancelled"
  | .idleReleased => "idlereleased" | .idle => "idle" | .other => "other"

def kind? : String → Option EvKind
  | "stop" => some .stop | "failed" => some .failed | "timedout" => some .timedOut | "cancelled" => some .cancelled
  | "idlereleased" => some .idleReleased | "idle" => some .idle | "other" => some .other | _ => none

def showRow : Option Rec → String
  | none => "none"
  | some r =>
    let c := match r.completedAt with
      | none => "none"
      | some t => if t = r.updatedAt then "now" else "old"
    let e := match r.error with | none => "_" | some x => showErr x
    let res := match r.result with | none => "_" | some x => toString x
    s!"run={r.runId} st={r.status.name} err={e} res={res} c={c} idle={if r.idleSince.isSome then 1 else 0}"

def showLast (l : List (Nat × EvKind)) : String :=
  match l.getLast? with
  | none => s!"{l.length}:_"
  | some (run, k) => s!"{l.length}:{run}/{showKind k}"

def showSt (s : St) : String :=
  s!"{showRow s.row} | ev={showLast s.events} pub={showLast s.published} rel={s.releases} slept={s.slept} f={s.failUhs},{s.failApp},{s.failUpd}"

def answer (r : St × Bool) : St × String := (r.1, (if r.2 then "ok" else "raised") ++ " | " ++ showSt r.1)

def optNat? (s : String) : Option (Option Nat) :=
  if s == "_" then some none else (parseNat? s).map some

def err? (s : String) : Option (Option Err) :=
  if s == "_" then some none
  else if s == "nostate" then some (some .noState)
  else if s.startsWith "e" then (parseNat? (s.drop 1).toString).map (fun n => some (.exc n))
  else if s.startsWith "t" then (parseNat? (s.drop 1).toString).map (fun n => some (.timeout n))
  else if s.startsWith "s" then (parseNat? (s.drop 1).toString).map (fun n => some (.store n))
  else none

def status? (s : String) : Option (Option Status) :=
  if s == "_" then some none else (Status.ofName? s).map some

def replay? (s : String) : Option Replay :=
  match s.splitOn ":" with
  | ["nostate"] => some .noState
  | ["resumable"] => some .resumable
  | ["raised", n] => (parseNat? n).map .raised
  | ["stop", n] => (parseNat? n).map (fun u => .exit (.completeStop u))
  | ["idlereleased"] => some (.exit .completeIdleReleased)
  | ["fail", n] => (parseNat? n).map (fun u => .exit (.fail u))
  | ["cancel"] => some (.exit .haltCancel)
  | ["timeout", n] => (parseNat? n).map (fun u => .exit (.haltTimeout u))
  | _ => none

def showCancel : CancelRes → String
  | .none => "none" | .cancelled => "cancelled" | .deleted => "deleted"

def showRestart : RestartRes → String
  | .skipped => "skipped" | .resumed => "resumed" | .finalized => "finalized"
  | .markedFailed => "markedfailed" | .lost => "lost"

def step (s : St) (line : String) : St × String :=
  match line.splitOn "|" with
  | ["reset", il, bs] =>
    match parseBool? il, parseNats? bs with
    | some i, some b => ({ idleLayer := i, backoff := b }, "ok")
    | _, _ => (s, "bad-op")
  | ["arm", m, n] =>
    match parseNat? n with
    | some k =>
      if m == "uhs" then ({ s with failUhs := k }, "ok")
      else if m == "app" then ({ s with failApp := k }, "ok")
      else if m == "upd" then ({ s with failUpd := k }, "ok")
      else (s, "bad-op")
    | none => (s, "bad-op")
  | ["start", r] =>
    match parseNat? r with
    | some run => answer (s.start run)
    | none => (s, "bad-op")
  | ["ev", r, k, t, rp] =>
    match parseNat? r, kind? k, parseNat? t, parseBool? rp with
    | some run, some kind, some tok, some replaying => answer (s.writeEvent run { kind, tok } replaying)
    | _, _, _, _ => (s, "bad-op")
  | ["uhs", r, st, res, e, idle] =>
    match parseNat? r, status? st, optNat? res, err? e with
    | some run, some status, some result, some error =>
      if idle == "u" then answer (s.uhs run { status, result, error })
      else if idle == "n" then answer (s.uhs run { status, result, error, idle := some none })
      else if idle == "s" then answer (s.uhs run { status, result, error, idle := some (some (s.clock + 1)) })
      else (s, "bad-op")
    | _, _, _, _ => (s, "bad-op")
  | ["idleclear", r] =>
    match parseNat? r with
    | some run => answer (s.idleClear run)
    | none => (s, "bad-op")
  | ["cancel", p] =>
    match parseBool? p with
    | some purge =>
      let (s', res, req) := s.cancel purge
      let rq := match req with | none => "_" | some r => toString r
      (s', s!"{showCancel res},req={rq} | {showSt s'}")
    | none => (s, "bad-op")
  | ["restart", rp, a, f] =>
    match replay? rp, parseBool? a, parseNat? f with
    | some replay, some active, some fault =>
      let (s', res) := s.restart replay active fault
      (s', s!"{showRestart res} | {showSt s'}")
    | _, _, _ => (s, "bad-op")
  | _ => (s, "bad-op")

end Drv.HandlerStatus
