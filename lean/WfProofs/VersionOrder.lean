import WfModel.Version
/-!
The PEP 440 order on release + pre-release versions, stated declaratively, and
its relation to the comparison key of `packaging` as modelled in
`WfModel/Version.lean` (`trimZeros`, `tupleLe`, `preKey`, `verLe`) and to the
executable `relCmp` / `verCmp`.
-/
namespace Version

/-! ## the specification order -/

/-- component `i` of a release segment; a missing component reads as 0 -/
def comp (r : List Nat) (i : Nat) : Nat := r.getD i 0

/-- `a` precedes `b`: at the first position where they differ, `a` is smaller -/
def RelLt (a b : List Nat) : Prop := ∃ i, (∀ j, j < i → comp a j = comp b j) ∧ comp a i < comp b i

def RelEq (a b : List Nat) : Prop := ∀ j, comp a j = comp b j

/-- pre-releases precede the final release; `a < b < rc`; then by number -/
def PreLt : Option (Label × Nat) → Option (Label × Nat) → Prop
  | some _, none => True
  | none, _ => False
  | some (l, n), some (m, k) => l.rank < m.rank ∨ (l = m ∧ n < k)

/-- `v` precedes `w` in the PEP 440 order -/
def Ver.Lt (v w : Ver) : Prop :=
  RelLt v.release w.release ∨ (RelEq v.release w.release ∧ PreLt v.pre w.pre)

/-- the name `detect_change_type` gives to release position `i` -/
def changeName : Nat → Change
  | 0 => .major
  | 1 => .minor
  | _ => .patch

/-! ## components -/

@[simp] theorem comp_nil (i : Nat) : comp [] i = 0 := by simp [comp]
@[simp] theorem comp_cons_zero (a : Nat) (as : List Nat) : comp (a :: as) 0 = a := by simp [comp]
@[simp] theorem comp_cons_succ (a : Nat) (as : List Nat) (i : Nat) : comp (a :: as) (i + 1) = comp as i := by
  simp [comp]

theorem comp_of_allZero {r : List Nat} (h : r.all (· == 0) = true) (i : Nat) : comp r i = 0 := by
  induction r generalizing i with
  | nil => simp
  | cons a as ih =>
    simp only [List.all_cons, Bool.and_eq_true, beq_iff_eq] at h
    cases i with
    | zero => simp [h.1]
    | succ i => simpa using ih h.2 i

theorem first_nonzero {r : List Nat} (h : r.all (· == 0) = false) :
    ∃ i, (∀ j, j < i → comp r j = 0) ∧ 0 < comp r i := by
  induction r with
  | nil => simp at h
  | cons a as ih =>
    by_cases ha : a = 0
    · subst ha
      have h' : as.all (· == 0) = false := by simpa using h
      obtain ⟨i, hp, hi⟩ := ih h'
      refine ⟨i + 1, ?_, by simpa using hi⟩
      intro j hj
      cases j with
      | zero => simp
      | succ j => simpa using hp j (by omega)
    · exact ⟨0, by intro j hj; omega, by simp; omega⟩

theorem RelLt.cons {a : Nat} {as bs : List Nat} (h : RelLt as bs) : RelLt (a :: as) (a :: bs) := by
  obtain ⟨i, hp, hi⟩ := h
  refine ⟨i + 1, ?_, by simpa using hi⟩
  intro j hj
  cases j with
  | zero => simp
  | succ j => simpa using hp j (by omega)

theorem RelEq.cons {a : Nat} {as bs : List Nat} (h : RelEq as bs) : RelEq (a :: as) (a :: bs) := by
  intro j
  cases j with
  | zero => simp
  | succ j => simpa using h j

/-- the three outcomes exclude one another -/
theorem RelLt.not_relEq {a b : List Nat} (h : RelLt a b) : ¬ RelEq a b := by
  intro he; obtain ⟨i, _, hi⟩ := h; have := he i; omega

theorem RelLt.asymm {a b : List Nat} (h : RelLt a b) : ¬ RelLt b a := by
  intro h'
  obtain ⟨i, hp, hi⟩ := h
  obtain ⟨k, hq, hk⟩ := h'
  rcases Nat.lt_trichotomy i k with hik | hik | hik
  · have := hq i hik; omega
  · subst hik; omega
  · have := hp k hik; omega

/-! ## `relCmp` decides the specification -/

theorem relCmp_sound (a b : List Nat) :
    (relCmp a b = .lt → RelLt a b) ∧ (relCmp a b = .eq → RelEq a b) ∧ (relCmp a b = .gt → RelLt b a) := by
  induction a generalizing b with
  | nil =>
    cases hz : b.all (· == 0) with
    | true =>
      simp only [relCmp, hz, if_true, reduceCtorEq, false_imp_iff, true_and, and_true, true_imp_iff]
      intro j; simp [comp_of_allZero hz j]
    | false =>
      simp only [relCmp, hz, Bool.false_eq_true, if_false, reduceCtorEq, false_imp_iff, and_true, true_imp_iff]
      obtain ⟨i, hp, hi⟩ := first_nonzero hz
      exact ⟨i, fun j hj => by simp [hp j hj], by simpa using hi⟩
  | cons x as ih =>
    cases b with
    | nil =>
      by_cases hz : x = 0 ∧ as.all (· == 0) = true
      · have hall : (x :: as).all (· == 0) = true := by simp [hz.1, hz.2]
        have hr : relCmp (x :: as) [] = .eq := by simp [relCmp, hz.1, hz.2]
        simp only [hr, reduceCtorEq, false_imp_iff, true_and, and_true, true_imp_iff]
        intro j; simp [comp_of_allZero hall j]
      · have hr : relCmp (x :: as) [] = .gt := by simp only [relCmp, if_neg hz]
        simp only [hr, reduceCtorEq, false_imp_iff, true_and, true_imp_iff]
        have hall : (x :: as).all (· == 0) = false := by
          cases h : (x :: as).all (· == 0) with
          | false => rfl
          | true =>
            simp only [List.all_cons, Bool.and_eq_true, beq_iff_eq] at h
            exact absurd ⟨h.1, h.2⟩ hz
        obtain ⟨i, hp, hi⟩ := first_nonzero hall
        exact ⟨i, fun j hj => by simp [hp j hj], by simpa using hi⟩
    | cons y bs =>
      by_cases hxy : x = y
      · subst hxy
        simp only [relCmp, if_true]
        obtain ⟨h1, h2, h3⟩ := ih bs
        exact ⟨fun h => (h1 h).cons, fun h => (h2 h).cons, fun h => (h3 h).cons⟩
      · by_cases hlt : x < y
        · simp only [relCmp, hxy, hlt, if_true, if_false, reduceCtorEq, false_imp_iff, and_true, true_imp_iff]
          exact ⟨0, by intro j hj; omega, by simpa using hlt⟩
        · simp only [relCmp, hxy, hlt, if_false, reduceCtorEq, false_imp_iff, true_and, true_imp_iff]
          exact ⟨0, by intro j hj; omega, by simp; omega⟩

theorem relCmp_lt_iff (a b : List Nat) : relCmp a b = .lt ↔ RelLt a b := by
  obtain ⟨h1, h2, h3⟩ := relCmp_sound a b
  refine ⟨h1, fun h => ?_⟩
  cases hc : relCmp a b with
  | lt => rfl
  | eq => exact absurd (h2 hc) h.not_relEq
  | gt => exact absurd (h3 hc) h.asymm

theorem relCmp_eq_iff (a b : List Nat) : relCmp a b = .eq ↔ RelEq a b := by
  obtain ⟨h1, h2, h3⟩ := relCmp_sound a b
  refine ⟨h2, fun h => ?_⟩
  cases hc : relCmp a b with
  | lt => exact absurd h (h1 hc).not_relEq
  | eq => rfl
  | gt => exact absurd (fun j => (h j).symm) (h3 hc).not_relEq

theorem relCmp_gt_iff (a b : List Nat) : relCmp a b = .gt ↔ RelLt b a := by
  obtain ⟨h1, h2, h3⟩ := relCmp_sound a b
  refine ⟨h3, fun h => ?_⟩
  cases hc : relCmp a b with
  | lt => exact absurd (h1 hc) h.asymm
  | eq => exact absurd (fun j => (h2 hc j).symm) h.not_relEq
  | gt => rfl

/-! ## the key: trailing zeros stripped, Python tuple comparison -/

/-- three-way form of Python's tuple comparison -/
def cmpT : List Nat → List Nat → Ordering
  | [], [] => .eq
  | [], _ :: _ => .lt
  | _ :: _, [] => .gt
  | a :: as, b :: bs => if a = b then cmpT as bs else if a < b then .lt else .gt

theorem cmpT_eq_iff (a b : List Nat) : cmpT a b = .eq ↔ a = b := by
  induction a generalizing b with
  | nil => cases b <;> simp [cmpT]
  | cons x as ih =>
    cases b with
    | nil => simp [cmpT]
    | cons y bs =>
      by_cases hxy : x = y
      · subst hxy; simp [cmpT, ih]
      · by_cases hlt : x < y <;> simp [cmpT, hxy, hlt]

theorem tupleLe_iff (a b : List Nat) : tupleLe a b = true ↔ cmpT a b ≠ .gt := by
  induction a generalizing b with
  | nil => cases b <;> simp [tupleLe, cmpT]
  | cons x as ih =>
    cases b with
    | nil => simp [tupleLe, cmpT]
    | cons y bs =>
      by_cases hxy : x = y
      · subst hxy; simp [tupleLe, cmpT, ih]
      · by_cases hlt : x < y <;> simp [tupleLe, cmpT, hxy, hlt]

theorem trimZeros_eq_nil_iff (r : List Nat) : trimZeros r = [] ↔ r.all (· == 0) = true := by
  induction r with
  | nil => simp [trimZeros]
  | cons a as ih =>
    by_cases h : a = 0 ∧ trimZeros as = []
    · simp [trimZeros, h, ← ih]
    · simp only [trimZeros, h, if_false, reduceCtorEq, List.all_cons, Bool.and_eq_true, beq_iff_eq, false_iff]
      rw [← ih]; exact h

theorem cmpT_nil_left (t : List Nat) : cmpT [] t = if t = [] then .eq else .lt := by
  cases t <;> simp [cmpT]

theorem cmpT_nil_right (t : List Nat) : cmpT t [] = if t = [] then .eq else .gt := by
  cases t <;> simp [cmpT]

theorem cmpT_trim (a b : List Nat) : cmpT (trimZeros a) (trimZeros b) = relCmp a b := by
  induction a generalizing b with
  | nil =>
    simp only [trimZeros, cmpT_nil_left, relCmp, trimZeros_eq_nil_iff]
  | cons x as ih =>
    cases b with
    | nil =>
      have hiff : trimZeros (x :: as) = [] ↔ (x = 0 ∧ as.all (· == 0) = true) := by
        rw [trimZeros_eq_nil_iff]; simp
      have e : trimZeros ([] : List Nat) = [] := rfl
      rw [e, cmpT_nil_right]
      by_cases h : x = 0 ∧ as.all (· == 0) = true
      · rw [if_pos (hiff.2 h)]; simp only [relCmp, if_pos h]
      · rw [if_neg (fun hh => h (hiff.1 hh))]; simp only [relCmp, if_neg h]
    | cons y bs =>
      have ihb := ih bs
      by_cases hxy : x = y
      · subst hxy
        simp only [relCmp, if_true, ← ihb, trimZeros]
        by_cases hx : x = 0
        · subst hx
          cases hta : trimZeros as with
          | nil =>
            cases htb : trimZeros bs with
            | nil => simp [cmpT]
            | cons b' bs' => simp [cmpT]
          | cons a' as' =>
            cases htb : trimZeros bs with
            | nil => simp [cmpT]
            | cons b' bs' => simp [cmpT]
        · simp [hx, cmpT]
      · simp only [relCmp, hxy, if_false]
        by_cases hx : x = 0 ∧ trimZeros as = []
        · have hy : ¬ (y = 0 ∧ trimZeros bs = []) := fun hh => hxy (hx.1.trans hh.1.symm)
          have hlt : x < y := by omega
          have e1 : trimZeros (x :: as) = [] := by simp only [trimZeros, if_pos hx]
          have e2 : trimZeros (y :: bs) = y :: trimZeros bs := by simp only [trimZeros, if_neg hy]
          rw [e1, e2]; simp [cmpT, hlt]
        · have e1 : trimZeros (x :: as) = x :: trimZeros as := by simp only [trimZeros, if_neg hx]
          by_cases hy : y = 0 ∧ trimZeros bs = []
          · have hlt : ¬ x < y := by omega
            have e2 : trimZeros (y :: bs) = [] := by simp only [trimZeros, if_pos hy]
            rw [e1, e2]; simp [cmpT, hlt]
          · have e2 : trimZeros (y :: bs) = y :: trimZeros bs := by simp only [trimZeros, if_neg hy]
            rw [e1, e2]; simp [cmpT, hxy]

/-- `verLe` in terms of the zero-padded comparison -/
theorem verLe_eq (a b : Ver) :
    verLe a b = match relCmp a.release b.release with
      | .lt => true
      | .gt => false
      | .eq => if (preKey a.pre).1 ≠ (preKey b.pre).1 then decide ((preKey a.pre).1 < (preKey b.pre).1)
               else decide ((preKey a.pre).2 ≤ (preKey b.pre).2) := by
  have h1 := cmpT_eq_iff (trimZeros a.release) (trimZeros b.release)
  have h2 := tupleLe_iff (trimZeros a.release) (trimZeros b.release)
  rw [cmpT_trim] at h1 h2
  unfold verLe
  cases hc : relCmp a.release b.release with
  | lt =>
    have hne : trimZeros a.release ≠ trimZeros b.release := fun h => by simp [hc] at h1; exact h1 h
    have : tupleLe (trimZeros a.release) (trimZeros b.release) = true := h2.2 (by simp [hc])
    simp [hne, this]
  | gt =>
    have hne : trimZeros a.release ≠ trimZeros b.release := fun h => by simp [hc] at h1; exact h1 h
    have : tupleLe (trimZeros a.release) (trimZeros b.release) = false := by
      cases ht : tupleLe (trimZeros a.release) (trimZeros b.release) with
      | false => rfl
      | true => exact absurd hc (h2.1 ht)
    simp [hne, this]
  | eq =>
    have he : trimZeros a.release = trimZeros b.release := h1.1 hc
    simp [he]

/-! ## pre-release keys -/

theorem Label.rank_inj {l m : Label} (h : l.rank = m.rank) : l = m := by
  cases l <;> cases m <;> simp [Label.rank] at h <;> rfl

theorem Label.rank_lt_stable (l : Label) : l.rank < Gen.Version.preRankStable := by
  cases l <;> decide

theorem preLt_iff (x y : Option (Label × Nat)) :
    PreLt x y ↔ (preKey x).1 < (preKey y).1 ∨ ((preKey x).1 = (preKey y).1 ∧ (preKey x).2 < (preKey y).2) := by
  cases x with
  | none =>
    cases y with
    | none => simp [PreLt, preKey]
    | some q =>
      obtain ⟨m, k⟩ := q
      have := m.rank_lt_stable
      simp only [PreLt, preKey, false_iff]; omega
  | some p =>
    obtain ⟨l, n⟩ := p
    cases y with
    | none =>
      have := l.rank_lt_stable
      simp only [PreLt, preKey, true_iff]; omega
    | some q =>
      obtain ⟨m, k⟩ := q
      simp only [PreLt, preKey]
      constructor
      · rintro (h | ⟨h, hn⟩)
        · exact Or.inl h
        · subst h; exact Or.inr ⟨rfl, hn⟩
      · rintro (h | ⟨h, hn⟩)
        · exact Or.inl h
        · exact Or.inr ⟨Label.rank_inj h, hn⟩

/-! ## the key comparison is the PEP 440 order -/

theorem verLe_iff_not_lt (a b : Ver) : verLe a b = true ↔ ¬ Ver.Lt b a := by
  rw [verLe_eq]
  unfold Ver.Lt
  cases hc : relCmp a.release b.release with
  | lt =>
    have hab : RelLt a.release b.release := (relCmp_lt_iff _ _).1 hc
    simp only [true_iff, not_or, not_and]
    exact ⟨hab.asymm, fun he => absurd (fun j => (he j).symm) hab.not_relEq⟩
  | gt =>
    have hba : RelLt b.release a.release := (relCmp_gt_iff _ _).1 hc
    simp only [Bool.false_eq_true, false_iff, Classical.not_not]
    exact Or.inl hba
  | eq =>
    have he : RelEq a.release b.release := (relCmp_eq_iff _ _).1 hc
    have he' : RelEq b.release a.release := fun j => (he j).symm
    have hn : ¬ RelLt b.release a.release := fun h => h.not_relEq he'
    simp only [hn, he', false_or, true_and, preLt_iff]
    split <;> simp only [decide_eq_true_eq] <;> omega

theorem verCmp_lt_iff (a b : Ver) : verCmp a b = .lt ↔ Ver.Lt a b := by
  unfold verCmp Ver.Lt
  cases hc : relCmp a.release b.release with
  | lt =>
    have hab : RelLt a.release b.release := (relCmp_lt_iff _ _).1 hc
    simp [hab]
  | gt =>
    have hba : RelLt b.release a.release := (relCmp_gt_iff _ _).1 hc
    have h1 : ¬ RelLt a.release b.release := fun h => h.asymm hba
    have h2 : ¬ RelEq a.release b.release := fun h => hba.not_relEq (fun j => (h j).symm)
    simp [h1, h2]
  | eq =>
    have he : RelEq a.release b.release := (relCmp_eq_iff _ _).1 hc
    have hn : ¬ RelLt a.release b.release := fun h => h.not_relEq he
    simp only [hn, he, false_or, true_and, preLt_iff, preCmp]
    constructor
    · intro h
      split at h
      · left; assumption
      · split at h
        · simp at h
        · split at h
          · right; constructor <;> omega
          · split at h <;> simp at h
    · intro h
      rcases h with h | ⟨h1, h2⟩
      · simp [h]
      · have h3 : ¬ (preKey a.pre).1 < (preKey b.pre).1 := by omega
        have h4 : ¬ (preKey a.pre).1 > (preKey b.pre).1 := by omega
        simp [h3, h4, h2]

/-! ## `pad3` reads the first three components -/

theorem pad3_getD (r : List Nat) (i : Nat) (hi : i < 3) : (pad3 r).getD i 0 = comp r i := by
  rcases r with _ | ⟨a, _ | ⟨b, _ | ⟨c, rest⟩⟩⟩ <;>
    (have : i = 0 ∨ i = 1 ∨ i = 2 := by omega) <;>
    rcases this with rfl | rfl | rfl <;> simp [pad3, comp]

/-- in a greater version the first differing release component has grown -/
theorem Ver.Lt.first_diff {p c : Ver} (h : Ver.Lt p c) (i : Nat)
    (hpre : ∀ j, j < i → comp c.release j = comp p.release j)
    (hne : comp c.release i ≠ comp p.release i) : comp p.release i < comp c.release i := by
  rcases h with h | ⟨he, _⟩
  · obtain ⟨k, hp, hk⟩ := h
    rcases Nat.lt_trichotomy k i with hki | hki | hki
    · have := hpre k hki; omega
    · subst hki; exact hk
    · have := hp i hki; omega
  · exact absurd (he i).symm hne

end Version
