import WfModel.Archive
/-!
Helper lemmas for C33, part 1: names, suffixes, the classification chain, the
salt‖nonce‖ciphertext framing.
-/
namespace Archive
open GenArchive

/-! ## valid names contain no dot -/

theorem isLabelChar_ne_dot {c : Char} (h : isLabelChar c = true) : c ≠ '.' := by
  intro hc; subst hc; revert h; decide

theorem isLower_ne_dot {c : Char} (h : isLower c = true) : c ≠ '.' := by
  intro hc; subst hc; revert h; decide

theorem validName_dotfree {n : Name} (h : validName n = true) : '.' ∉ n := by
  cases n with
  | nil => simp [validName] at h
  | cons c rest =>
    simp only [validName, Bool.and_eq_true, List.all_eq_true] at h
    obtain ⟨⟨⟨hc, hr⟩, _⟩, _⟩ := h
    intro hm
    rcases List.mem_cons.mp hm with h1 | h1
    · exact isLower_ne_dot hc h1.symm
    · exact isLabelChar_ne_dot (hr _ h1) rfl

theorem validName_length {n : Name} (h : validName n = true) : 1 ≤ n.length ∧ n.length ≤ 63 := by
  cases n with
  | nil => simp [validName] at h
  | cons c rest =>
    simp only [validName, Bool.and_eq_true, decide_eq_true_eq] at h
    exact ⟨by simp, h.2⟩

/-! ## suffixes of `n ++ s` for dot-free `n` -/

theorem suffix_append_dotfree {a n s : Name} (hn : '.' ∉ n)
    (ha : s.length < a.length → '.' ∈ a.take (a.length - s.length)) (h : a <:+ n ++ s) : a <:+ s := by
  by_cases hle : a.length ≤ s.length
  · exact List.suffix_of_suffix_length_le h (List.suffix_append n s) hle
  · exfalso
    have hlt : s.length < a.length := by omega
    have hsa : s <:+ a := List.suffix_of_suffix_length_le (List.suffix_append n s) h (by omega)
    obtain ⟨t, ht⟩ := hsa
    obtain ⟨u, hu⟩ := h
    have hdot := ha hlt
    have htake : a.take (a.length - s.length) = t := by
      rw [← ht]; simp
    rw [htake] at hdot
    rw [← ht, ← List.append_assoc] at hu
    have hn' : u ++ t = n := List.append_cancel_right hu
    exact hn (by rw [← hn']; exact List.mem_append_right _ hdot)

/-! ## the reader's chain on written names -/

abbrev ChainEntry := Bool × List Char × List Char × Nat

/-- does chain entry `e` fire on `n ++ s` (for dot-free `n`)? decided on the constants alone -/
def fires (s : Name) (e : ChainEntry) : Bool := e.1 && e.2.1.isSuffixOf s

/-- side condition under which `fires` is right: a longer suffix literal has a dot in the part
that would have to lie inside the name; an `==` literal does not end with `s` -/
def sideOk (s : Name) (e : ChainEntry) : Bool :=
  if e.1 then
    !(decide (s.length < e.2.1.length)) || (e.2.1.take (e.2.1.length - s.length)).contains '.'
  else !(s.isSuffixOf e.2.1)

theorem test_eq_fires {n s : Name} (hn : '.' ∉ n) {e : ChainEntry} (hs : sideOk s e = true) :
    (if e.1 then e.2.1.isSuffixOf (n ++ s) else (n ++ s) == e.2.1) = fires s e := by
  obtain ⟨isSuf, lit, rm, code⟩ := e
  cases isSuf with
  | true =>
    simp only [fires, Bool.true_and, if_true]
    simp only [sideOk, if_true, Bool.or_eq_true, Bool.not_eq_true', decide_eq_false_iff_not,
      List.contains_iff_mem] at hs
    rw [Bool.eq_iff_iff, List.isSuffixOf_iff_suffix, List.isSuffixOf_iff_suffix]
    constructor
    · intro h
      refine suffix_append_dotfree hn ?_ h
      intro hlt
      rcases hs with h1 | h1
      · exact absurd hlt h1
      · exact h1
    · intro h
      exact h.trans (List.suffix_append n s)
  | false =>
    simp only [fires, Bool.false_and]
    simp only [sideOk, Bool.not_eq_true', Bool.false_eq_true, if_false] at hs
    simp only [Bool.false_eq_true, if_false, beq_eq_false_iff_ne, ne_eq]
    intro h
    have : s.isSuffixOf lit = true := by
      rw [List.isSuffixOf_iff_suffix, ← h]; exact List.suffix_append n s
    rw [this] at hs; exact absurd hs (by decide)

theorem classifyGo_written {n s : Name} (hn : '.' ∉ n) :
    ∀ chain : List ChainEntry, chain.all (sideOk s) = true →
      classifyGo (n ++ s) chain =
        (chain.find? (fires s)).bind fun e =>
          (Cat.ofCode e.2.2.2).map fun c => (c, removeSuffix (n ++ s) e.2.2.1) := by
  intro chain
  induction chain with
  | nil => intro _; rfl
  | cons e rest ih =>
    intro hall
    simp only [List.all_cons, Bool.and_eq_true] at hall
    obtain ⟨isSuf, lit, rm, code⟩ := e
    have ht := test_eq_fires (n := n) hn hall.1
    simp only [classifyGo, List.find?_cons]
    simp only at ht
    rw [ht]
    cases hf : fires s (isSuf, lit, rm, code) with
    | true =>
      have : isSuf = true := by
        simp only [fires, Bool.and_eq_true] at hf; exact hf.1
      subst this
      simp
    | false =>
      simp only [Bool.false_eq_true, if_false]
      exact ih hall.2

theorem removeSuffix_append (n s : Name) : removeSuffix (n ++ s) s = n := by
  have h : s.isSuffixOf (n ++ s) = true := by
    rw [List.isSuffixOf_iff_suffix]; exact List.suffix_append n s
  simp [removeSuffix, h]

/-- a written member name `n ++ s` is classified as `c` with deployment name `n`, provided the
chain, evaluated on the constants alone, says so -/
theorem classify_written {n s : Name} (hn : '.' ∉ n) {code : Nat} {c : Cat}
    (hside : readerChain.all (sideOk s) = true)
    (hfind : readerChain.find? (fires s) = some (true, s, s, code)) (hc : Cat.ofCode code = some c) :
    classify (n ++ s) = some (c, n) := by
  rw [classify, classifyGo_written hn _ hside, hfind]
  simp [hc, removeSuffix_append]

theorem classify_cr {n : Name} (hn : '.' ∉ n) : classify (n ++ crSuffix) = some (.cr, n) :=
  classify_written (code := 4) hn (by decide) (by decide) (by decide)

theorem classify_secEnc {n : Name} (hn : '.' ∉ n) : classify (n ++ secEncSuffix) = some (.secEnc, n) :=
  classify_written (code := 1) hn (by decide) (by decide) (by decide)

theorem classify_secClear {n : Name} (hn : '.' ∉ n) : classify (n ++ secClearSuffix) = some (.secClear, n) :=
  classify_written (code := 3) hn (by decide) (by decide) (by decide)

theorem classify_meta {n : Name} (hn : '.' ∉ n) : classify (n ++ metaSuffix) = some (.gmeta, n) :=
  classify_written (code := 2) hn (by decide) (by decide) (by decide)

theorem classify_manifest : classify manifestName = some (.manifest, manifestName) := by decide

/-! ## framing: decrypt ∘ encrypt -/

theorem slices_gen (salt nonce ct : Bytes) :
    ((salt ++ nonce ++ ct).take salt.length).drop 0 = salt ∧
    ((salt ++ nonce ++ ct).take (salt.length + nonce.length)).drop salt.length = nonce ∧
    (salt ++ nonce ++ ct).drop (salt.length + nonce.length) = ct := by
  refine ⟨by simp, ?_, ?_⟩
  · have : salt.length + nonce.length = (salt ++ nonce).length := by simp
    rw [this, List.take_left, List.drop_left]
  · have : salt.length + nonce.length = (salt ++ nonce).length := by simp
    rw [this, List.drop_left]

theorem slices_of_blob (salt nonce ct : Bytes) (hs : salt.length = encSaltLen) (hn : nonce.length = encNonceLen) :
    pySlice (salt ++ nonce ++ ct) decSaltLo (some decSaltHi) = salt ∧
    pySlice (salt ++ nonce ++ ct) decNonceLo (some decNonceHi) = nonce ∧
    pySlice (salt ++ nonce ++ ct) decCtLo none = ct := by
  have e1 : encSaltLen = 16 := rfl
  have e2 : encNonceLen = 12 := rfl
  rw [e1] at hs; rw [e2] at hn
  have d1 : decSaltLo = 0 := rfl
  have d2 : decSaltHi = salt.length := hs.symm
  have d3 : decNonceLo = salt.length := hs.symm
  have d4 : decNonceHi = salt.length + nonce.length := by rw [hs, hn]; rfl
  have d5 : decCtLo = salt.length + nonce.length := by rw [hs, hn]; rfl
  rw [d1, d2, d3, d4, d5]
  exact slices_gen salt nonce ct

theorem decrypt_encrypt {A : Aead} (hA : A.Lawful) (pw salt nonce m : Bytes)
    (hs : salt.length = encSaltLen) (hn : nonce.length = encNonceLen) :
    decrypt A pw (encrypt A pw salt nonce m) = .ok m := by
  obtain ⟨h1, h2, h3⟩ := slices_of_blob salt nonce (A.lock pw salt nonce m) hs hn
  have hlen : ¬ (encrypt A pw salt nonce m).length < minLength := by
    simp only [encrypt, List.length_append, hs, hn]
    have : minLength ≤ encSaltLen + encNonceLen + tagLength := by decide
    have := hA.seal_length pw salt nonce m
    omega
  simp only [decrypt, hlen, if_false]
  simp only [encrypt, h1, h2, h3, hA.open_seal]

theorem decrypt_encrypt_wrong {A : Aead} (hA : A.Lawful) (pw pw' salt nonce m : Bytes) (hne : pw' ≠ pw)
    (hs : salt.length = encSaltLen) (hn : nonce.length = encNonceLen) :
    decrypt A pw' (encrypt A pw salt nonce m) = .error .invalidTag := by
  obtain ⟨h1, h2, h3⟩ := slices_of_blob salt nonce (A.lock pw salt nonce m) hs hn
  have hlen : ¬ (encrypt A pw salt nonce m).length < minLength := by
    simp only [encrypt, List.length_append, hs, hn]
    have : minLength ≤ encSaltLen + encNonceLen + tagLength := by decide
    have := hA.seal_length pw salt nonce m
    omega
  simp only [decrypt, hlen, if_false]
  simp only [encrypt, h1, h2, h3, hA.auth pw pw' salt nonce m hne]

end Archive
