import WfModel.Runner
import WfModel.HandlerStatus
/-!
M4b × M1 — the server adapter of one run serving what the control loop publishes.

`_ControlLoopRunner.process_command(CommandPublishEvent)` awaits
`adapter.write_to_event_stream(event)`; steps reach the same adapter chain through
`ctx.write_event_to_stream`.  The runner model's `stream` is that sequence.  An exception
leaving `write_to_event_stream` propagates out of `process_command`, the loop cleans up
and re-raises: the run is over and nothing later is written (`serve` stops at the first
`false`).  Before each write the environment may arm transient store faults.
-/
namespace HandlerStatus
open Engine

/-- the class of event a published item is, with the token the status update carries -/
def pubEv : Pub → Ev
  | .event e => if e.kind == .stop then { kind := .stop, tok := e.uid } else { kind := .other, tok := e.uid }
  | .stepState _ _ _ _ _ => { kind := .other }
  | .idle => { kind := .idle }
  | .unhandled _ _ _ => { kind := .other }
  | .cancelled => { kind := .cancelled }
  | .failed _ exc _ _ => { kind := .failed, tok := exc }
  | .timedOut t _ => { kind := .timedOut, tok := t }
  | .idleReleased => { kind := .idleReleased }

/-- transient failures armed before one write: (of `update_handler_status`, of `append_event`) -/
abbrev Faults := Nat × Nat

def St.armed (s : St) (f : Faults) : St := { s with failUhs := f.1, failApp := f.2 }

/-- the live (non-replaying) adapter of run `run` takes the publications in order -/
def serve (run : Nat) : St → List (Pub × Faults) → St × Bool
  | s, [] => (s, true)
  | s, (p, f) :: rest =>
    let r := (s.armed f).writeEvent run (pubEv p) false
    if r.2 then serve run r.1 rest else r

end HandlerStatus
