import WfModel.CliConfigHeld
import WfProofs.CliConfigHistory
/-! Helper lemmas for the held-service statements of C37 (model M16b, `WfModel/CliConfigHeld.lean`). -/
namespace CliConfig

/-- The fresh model is the diagonal of the held one. -/
theorem stepHeld_fresh (c : Cfg) (s : State) (op : Op) : stepHeld c s s.curEnv op = step c s op := by
  cases op <;> rfl

theorem picksAt_fresh (c : Cfg) (s : State) (op : Op) : picksAt c s s.curEnv op = picks c s op := by
  unfold picksAt picks
  rw [stepHeld_fresh]
  cases op <;> rfl

theorem stepH_fresh (c : Cfg) (s : State) (op : Op) : stepH c s (HOp.fresh op) = step c s op :=
  stepHeld_fresh c s op

theorem picksH_fresh (c : Cfg) (s : State) (op : Op) : picksH c s (HOp.fresh op) = picks c s op :=
  picksAt_fresh c s op

theorem runH_fresh (c : Cfg) : ∀ (ops : List Op) (s : State), runH c s (ops.map HOp.fresh) = run c s ops
  | [], _ => rfl
  | op :: ops, s => by
    simp only [List.map_cons, runH, run, stepH_fresh]
    exact runH_fresh c ops _

theorem runH_append (c : Cfg) : ∀ (xs ys : List HOp) (s : State), runH c s (xs ++ ys) = runH c (runH c s xs) ys
  | [], _, _ => rfl
  | x :: xs, ys, s => by simp only [List.cons_append, runH]; exact runH_append c xs ys _

theorem createAndSelectAt_cases (s : State) (e name project : String) (key : Option String) (o : Option Oidc) :
    createAndSelectAt s e name project key o = (s, .errBlankProject) ∨
    createAndSelectAt s e name project key o = (s, .errExists) ∨
    ((createAndSelectAt s e name project key o).2 = .profile s.nextId name ∧
     (createAndSelectAt s e name project key o).1.curProf = some name ∧
     (createAndSelectAt s e name project key o).1.curEnv = s.curEnv ∧
     (createAndSelectAt s e name project key o).1.envs = s.envs) := by
  unfold createAndSelectAt
  split
  · exact Or.inl rfl
  · split
    · exact Or.inr (Or.inl rfl)
    · exact Or.inr (Or.inr ⟨rfl, rfl, rfl, rfl⟩)

theorem picksAt_isPickKind {c : Cfg} {s : State} {e : String} {op : Op} {n : String}
    (h : picksAt c s e op = some n) : isPickKind op = true := by
  cases op <;> first | rfl | (exfalso; revert h; simp [picksAt])

theorem env_change_clearsAt {c : Cfg} (hg : Good c) (s : State) (e : String) (op : Op) :
    (stepHeld c s e op).1.curEnv = s.curEnv ∨ (stepHeld c s e op).1.curProf = none := by
  cases op with
  | createToken project key =>
    simp only [stepHeld]
    rcases createAndSelectAt_cases s e (tokenName key) project key none with h | h | h
    · left; rw [h]
    · left; rw [h]
    · left; exact h.2.2.1
  | createOidc project uid email tok =>
    simp only [stepHeld]; split
    · left; rfl
    · rcases createAndSelectAt_cases s e email project none (some ⟨uid, tok⟩) with h | h | h
      · left; rw [h]
      · left; rw [h]
      · left; exact h.2.2.1
  | select name => left; rfl
  | selectAny => simp only [stepHeld]; split <;> (left; rfl)
  | deleteProfile name => left; rfl
  | setProject name project => left; rfl
  | updateKey name key keyId => simp only [stepHeld]; split <;> (left; rfl)
  | envAdd url ra mv => exact env_change_clears hg s _
  | envUpsert url ra mv => exact env_change_clears hg s _
  | envSwitch url => exact env_change_clears hg s _
  | envDelete url => exact env_change_clears hg s _
  | destroy => exact env_change_clears hg s _
  | probe ra mv => exact env_change_clears hg s _
  | refresh pid uid tok => exact env_change_clears hg s _

/-- Pointer, one step backwards, whatever the binding: a selection present after an operation was
either made by this operation (a pick event of that name) or was there before; and the operation
did not change the current environment. -/
theorem ptr_backAt {c : Cfg} (hg : Good c) (s : State) (e : String) (op : Op) {n : String}
    (h : (stepHeld c s e op).1.curProf = some n) :
    (picksAt c s e op = some n ∨ s.curProf = some n) ∧ (stepHeld c s e op).1.curEnv = s.curEnv := by
  have henv : (stepHeld c s e op).1.curEnv = s.curEnv := by
    rcases env_change_clearsAt hg s e op with h1 | h1
    · exact h1
    · rw [h1] at h; cases h
  refine ⟨?_, henv⟩
  clear henv
  obtain ⟨hsw, had, hdel, _⟩ := hg
  cases op with
  | envAdd url ra mv =>
    simp only [stepHeld, step, had, if_true] at h; cases h
  | envUpsert url ra mv => exact Or.inr h
  | envSwitch url =>
    simp only [stepHeld, step] at h
    split at h
    · exact Or.inr h
    · simp only [hsw, if_true] at h; cases h
  | envDelete url =>
    simp only [stepHeld, step] at h
    split at h
    · exact Or.inr h
    · split at h
      · simp only [hdel, if_true] at h; cases h
      · exact Or.inr h
  | createToken project key =>
    have hpk : picksAt c s e (.createToken project key) =
        match (createAndSelectAt s e (tokenName key) project key none).2 with
        | .profile _ n => some n
        | _ => none := by
      simp only [picksAt, stepHeld]; split <;> simp_all
    simp only [stepHeld] at h
    rw [hpk]
    rcases createAndSelectAt_cases s e (tokenName key) project key none with hc | hc | hc
    · rw [hc] at h; exact Or.inr h
    · rw [hc] at h; exact Or.inr h
    · rw [hc.2.1] at h
      simp only [Option.some.injEq] at h
      rw [hc.1, h]; exact Or.inl rfl
  | createOidc project uid email tok =>
    simp only [stepHeld] at h
    split at h
    · rename_i ex hex
      simp only [Option.some.injEq] at h
      left
      simp only [picksAt, stepHeld, hex, h]
    · rename_i hnone
      have hpk : picksAt c s e (.createOidc project uid email tok) =
          match (createAndSelectAt s e email project none (some ⟨uid, tok⟩)).2 with
          | .profile _ n => some n
          | _ => none := by
        simp only [picksAt, stepHeld, hnone]; split <;> simp_all
      rw [hpk]
      rcases createAndSelectAt_cases s e email project none (some ⟨uid, tok⟩) with hc | hc | hc
      · rw [hc] at h; exact Or.inr h
      · rw [hc] at h; exact Or.inr h
      · rw [hc.2.1] at h
        simp only [Option.some.injEq] at h
        rw [hc.1, h]; exact Or.inl rfl
  | select name =>
    simp only [stepHeld, Option.some.injEq] at h
    exact Or.inl (by simp only [picksAt, h])
  | selectAny =>
    simp only [stepHeld] at h
    split at h
    · exact Or.inr h
    · rename_i q hq
      simp only [Option.some.injEq] at h
      exact Or.inl (by simp only [picksAt, hq, Option.map_some, h])
  | deleteProfile name =>
    simp only [stepHeld] at h
    right
    split at h
    · cases h
    · exact h
  | setProject name project => exact Or.inr h
  | updateKey name key keyId =>
    simp only [stepHeld] at h
    split at h <;> exact Or.inr h
  | destroy => simp only [stepHeld, step, init] at h; cases h
  | probe ra mv =>
    simp only [stepHeld, step] at h
    split at h <;> exact Or.inr h
  | refresh pid uid tok =>
    simp only [stepHeld, step] at h
    split at h <;> exact Or.inr h

/-- When every picking operation goes through a service of the then-current environment: a
selection present after the history was made by a pick event of that name, through a service of
the now-current environment, while that environment was current — or it was there at the start
and the environment never changed. -/
theorem ptr_since {c : Cfg} (hg : Good c) : ∀ (hops : List HOp) (s : State), FreshPicks c s hops → ∀ n,
    (runH c s hops).curProf = some n →
    pickedHere c n (runH c s hops).curEnv s hops = true ∨ (s.curProf = some n ∧ s.curEnv = (runH c s hops).curEnv)
  | [], s, _, n, h => Or.inr ⟨h, rfl⟩
  | hd :: tl, s, hf, n, h => by
    rcases ptr_since hg tl _ hf.2 n h with hp | ⟨hptr, henv⟩
    · left
      simp only [pickedHere, runH, hp, Bool.or_true]
    · obtain ⟨hcase, hcur⟩ := ptr_backAt hg s (boundOf s hd) hd.op hptr
      rcases hcase with hpick | hold
      · left
        have hb := hf.1 (picksAt_isPickKind hpick)
        have hpk : picksH c s hd = some n := hpick
        have hce : s.curEnv = (runH c (stepH c s hd).1 tl).curEnv := by rw [← henv]; exact hcur.symm
        simp only [pickedHere, runH, hpk, hb, hce, decide_true, Bool.and_self, Bool.true_or]
      · right
        exact ⟨hold, by simp only [runH]; rw [← henv]; exact hcur.symm⟩

/-! ## Known-or-default, for held services too -/

def EnvKnown (c : Cfg) (s : State) : Prop := s.curEnv = c.defaultUrl ∨ ∃ r ∈ s.envs, r.url = s.curEnv

theorem envKnown_of_same {c : Cfg} {s s' : State} (h : EnvKnown c s) (he : s'.envs = s.envs) (hc : s'.curEnv = s.curEnv) :
    EnvKnown c s' := by
  unfold EnvKnown at *
  rw [he, hc]; exact h

theorem envKnown_step {c : Cfg} (hg : Good c) {s : State} (h : EnvKnown c s) (op : Op) : EnvKnown c (step c s op).1 := by
  obtain ⟨_, _, _, hseed⟩ := hg
  cases op with
  | envAdd url ra mv => exact Or.inr ⟨⟨url, ra, mv⟩, by simp [step, upsertEnv], rfl⟩
  | envUpsert url ra mv => exact envKnown_upsert _ h
  | envSwitch url =>
    simp only [step]; split
    · exact h
    · rename_i r hr
      exact Or.inr ⟨r, (getEnv_some hr).1, (getEnv_some hr).2⟩
  | envDelete url =>
    simp only [step]; split
    · exact h
    · split
      · exact Or.inl rfl
      · rename_i hne
        rcases h with hd | ⟨r, hr, hru⟩
        · exact Or.inl hd
        · refine Or.inr ⟨r, ?_, hru⟩
          simp only [List.mem_filter, decide_eq_true_eq]
          exact ⟨hr, by rw [hru]; exact hne⟩
  | createToken project key =>
    simp only [step]
    unfold createAndSelect
    split
    · exact h
    · split
      · exact h
      · exact envKnown_of_same h rfl rfl
  | createOidc project uid email tok =>
    simp only [step]; split
    · exact envKnown_of_same h rfl rfl
    · unfold createAndSelect
      split
      · exact h
      · split
        · exact h
        · exact envKnown_of_same h rfl rfl
  | select name => exact envKnown_of_same h rfl rfl
  | selectAny => simp only [step]; split <;> first | exact h | exact envKnown_of_same h rfl rfl
  | deleteProfile name => exact envKnown_of_same h rfl rfl
  | setProject name project => exact envKnown_of_same h rfl rfl
  | updateKey name key keyId => simp only [step]; split <;> first | exact h | exact envKnown_of_same h rfl rfl
  | destroy =>
    rcases hseed with hs | hs
    · exact Or.inl hs
    · exact Or.inr ⟨c.seedEnv, by simp [step, init], hs⟩
  | probe ra mv =>
    simp only [step]; split
    · exact h
    · exact envKnown_upsert _ h
  | refresh pid uid tok => simp only [step]; split <;> first | exact h | exact envKnown_of_same h rfl rfl

theorem envKnown_stepHeld {c : Cfg} (hg : Good c) {s : State} (h : EnvKnown c s) (e : String) (op : Op) :
    EnvKnown c (stepHeld c s e op).1 := by
  cases op with
  | createToken project key =>
    simp only [stepHeld]
    rcases createAndSelectAt_cases s e (tokenName key) project key none with hc | hc | hc
    · rw [hc]; exact h
    · rw [hc]; exact h
    · exact envKnown_of_same h hc.2.2.2 hc.2.2.1
  | createOidc project uid email tok =>
    simp only [stepHeld]; split
    · exact envKnown_of_same h rfl rfl
    · rcases createAndSelectAt_cases s e email project none (some ⟨uid, tok⟩) with hc | hc | hc
      · rw [hc]; exact h
      · rw [hc]; exact h
      · exact envKnown_of_same h hc.2.2.2 hc.2.2.1
  | select name => exact envKnown_of_same h rfl rfl
  | selectAny => simp only [stepHeld]; split <;> first | exact h | exact envKnown_of_same h rfl rfl
  | deleteProfile name => exact envKnown_of_same h rfl rfl
  | setProject name project => exact envKnown_of_same h rfl rfl
  | updateKey name key keyId => simp only [stepHeld]; split <;> first | exact h | exact envKnown_of_same h rfl rfl
  | envAdd url ra mv => exact envKnown_step hg h _
  | envUpsert url ra mv => exact envKnown_step hg h _
  | envSwitch url => exact envKnown_step hg h _
  | envDelete url => exact envKnown_step hg h _
  | destroy => exact envKnown_step hg h _
  | probe ra mv => exact envKnown_step hg h _
  | refresh pid uid tok => exact envKnown_step hg h _

theorem envKnown_runH {c : Cfg} (hg : Good c) : ∀ (hops : List HOp) (s : State), EnvKnown c s → EnvKnown c (runH c s hops)
  | [], _, h => h
  | hd :: tl, _, h => envKnown_runH hg tl _ (envKnown_stepHeld hg h _ hd.op)

/-! ## `pickedHere`, spelled out -/

theorem pickedHere_iff (c : Cfg) (n e : String) : ∀ (hops : List HOp) (s : State),
    pickedHere c n e s hops = true ↔
      ∃ pre h post, hops = pre ++ h :: post ∧ picksH c (runH c s pre) h = some n ∧
        boundOf (runH c s pre) h = e ∧ (runH c s pre).curEnv = e
  | [], s => by
    constructor
    · intro h; simp [pickedHere] at h
    · rintro ⟨pre, h, post, hh, _⟩
      exact absurd hh (by simp)
  | hd :: tl, s => by
    constructor
    · intro h
      simp only [pickedHere, Bool.or_eq_true, Bool.and_eq_true, decide_eq_true_eq] at h
      rcases h with ⟨⟨h1, h2⟩, h3⟩ | h
      · exact ⟨[], hd, tl, rfl, h1, h2, h3⟩
      · obtain ⟨pre, x, post, hh, h1, h2, h3⟩ := (pickedHere_iff c n e tl _).mp h
        exact ⟨hd :: pre, x, post, by rw [hh]; rfl, h1, h2, h3⟩
    · rintro ⟨pre, x, post, hh, h1, h2, h3⟩
      simp only [pickedHere, Bool.or_eq_true, Bool.and_eq_true, decide_eq_true_eq]
      cases pre with
      | nil =>
        simp only [List.nil_append, List.cons.injEq] at hh
        obtain ⟨rfl, _⟩ := hh
        exact Or.inl ⟨⟨h1, h2⟩, h3⟩
      | cons p pre' =>
        simp only [List.cons_append, List.cons.injEq] at hh
        obtain ⟨rfl, hh'⟩ := hh
        exact Or.inr ((pickedHere_iff c n e tl _).mpr ⟨pre', x, post, hh', h1, h2, h3⟩)

instance freshPicksDec (c : Cfg) : ∀ (s : State) (hops : List HOp), Decidable (FreshPicks c s hops)
  | _, [] => by unfold FreshPicks; infer_instance
  | s, h :: hs => by
    unfold FreshPicks
    exact @instDecidableAnd _ _ _ (freshPicksDec c _ hs)

end CliConfig
