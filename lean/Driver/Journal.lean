import WfModel.Journal
import Driver.Util
open Journal Drv

/-! Line protocol for M17 (fields separated by `|`, key lists by `,`, empty list `-`).
  `new`                                   → `ok`            (empty table, no process)
  `boot|run`                              → `ok`            (new process: fresh TaskJournal for `run`; the table survives)
  `load` `next` `replaying` `has` `advance` `record|key` `purge|fid`      (TaskJournal methods)
  `areplaying`                            → `InternalDBOSAdapter.is_replaying()` of the current process
  `insert|run|seq|key` `rawload|run` `delete|run` `truncate|run|seq` `purgeops|run|fid` `addop|run|fid|name`  (crud)
  `dump`                                  → every row and op
  `wait|fid|inflight|done|timedOut|choice` → one `wait_for_next_task` call
  `c27xhist`                              → the history observables of the current process life (the vocabulary of
                                            `C27_journal_table_all_lives` / `C27_observed_order_is_journal_prefix`):
                                            `returnedKeys`, `freshKeys` of the calls since `boot`, the row-numbering
                                            invariant of the run, "no fallback so far", "returned = first idx entries"
Outputs are canonical one-liners; malformed input → `bad-op`. -/
namespace Drv.Journal

structure St where
  db : Db String := {}
  run : String := ""
  a : Adapter String := {}
  hist : List (WaitRes String) := []   -- results of the `wait` calls of the current life, in order

def showKeys (ks : List String) : String := if ks.isEmpty then "-" else ",".intercalate ks

def parseKeys (s : String) : List String := if s == "-" then [] else s.splitOn ","

def goodKey (k : String) : Bool := !k.isEmpty && !(k.contains ',') && !(k.contains '|') && k != "-"

def showTJ (j : TJ String) : String :=
  match j.entries with
  | none => s!"entries=unloaded idx={j.idx}"
  | some es => s!"entries={showKeys es} idx={j.idx}"

def showDb (db : Db String) : String :=
  let rows := db.rows.map fun r => s!"{r.id}:{r.run}:{r.seq}:{r.key}"
  let ops := db.ops.map fun o => s!"{o.run}:{o.fid}:{o.name}"
  s!"rows={if rows.isEmpty then "-" else ";".intercalate rows} ops={if ops.isEmpty then "-" else ";".intercalate ops}"

def showOut : WaitOut String → String
  | .replayed k => s!"replayed {k}"
  | .replayTimeout k => s!"replay-timeout {k}"
  | .blocked k => s!"blocked {k}"
  | .fresh k seq => s!"fresh {k} seq={seq}"
  | .timeout => "timeout"
  | .blockedFresh => "blocked-fresh"
  | .nothing => "nothing"
  | .badChoice => "bad-choice"

def b (x : Bool) : String := if x then "1" else "0"

def step (s : St) (line : String) : St × String :=
  match line.splitOn "|" with
  | ["new"] => ({}, "ok")
  | ["boot", run] => if run.isEmpty then (s, "bad-op") else ({ s with run := run, a := {}, hist := [] }, "ok")
  | ["load"] =>
    let tj := s.a.tj.load s.db s.run
    ({ s with a := { s.a with tj := tj } }, showTJ tj)
  | ["next"] => (s, match s.a.tj.nextExpected with | none => "none" | some k => s!"some {k}")
  | ["replaying"] => (s, b s.a.tj.isReplaying)
  | ["has"] => (s, b s.a.tj.hasEntries)
  | ["areplaying"] => (s, b s.a.isReplaying)
  | ["advance"] =>
    let tj := s.a.tj.advance
    ({ s with a := { s.a with tj := tj } }, showTJ tj)
  | ["record", key] =>
    if !goodKey key then (s, "bad-op") else
    let seq := (s.a.tj.entries.getD []).length
    let (tj, db) := s.a.tj.record s.db s.run key
    ({ s with a := { s.a with tj := tj }, db := db }, s!"seq={seq} {showTJ tj}")
  | ["purge", fid] =>
    match parseNat? fid with
    | some f => let db := s.a.tj.purgeStale s.db s.run f; ({ s with db := db }, showDb db)
    | none => (s, "bad-op")
  | ["insert", run, seq, key] =>
    match parseNat? seq with
    | some n => if !goodKey key || run.isEmpty then (s, "bad-op") else ({ s with db := s.db.insert run n key }, "ok")
    | none => (s, "bad-op")
  | ["rawload", run] => (s, showKeys (s.db.load run))
  | ["delete", run] => ({ s with db := s.db.delete run }, "ok")
  | ["truncate", run, seq] =>
    match parseNat? seq with
    | some n => ({ s with db := s.db.truncateFrom run n }, "ok")
    | none => (s, "bad-op")
  | ["purgeops", run, fid] =>
    match parseNat? fid with
    | some n => ({ s with db := s.db.purgeOpsFrom run n }, "ok")
    | none => (s, "bad-op")
  | ["addop", run, fid, name] =>
    match parseNat? fid with
    | some n => ({ s with db := { s.db with ops := s.db.ops ++ [⟨run, n, name⟩] } }, "ok")
    | none => (s, "bad-op")
  | ["dump"] => (s, showDb s.db)
  | ["wait", fid, inflight, done, timedOut, choice] =>
    match parseNat? fid, parseBool? timedOut with
    | some f, some t =>
      let ch := if choice == "-" then none else some choice
      let (a, db, r) := waitNext s.a s.db s.run f (parseKeys inflight) (parseKeys done) t ch
      ({ s with a := a, db := db, hist := s.hist ++ [r] },
       s!"{showOut r.out} fallback={b r.fallback} purged={b r.purged} {showTJ a.tj} journal={showKeys (db.load s.run)}")
    | _, _ => (s, "bad-op")
  | ["c27xhist"] =>
    let rets := returnedKeys s.hist
    let jr := s.db.load s.run
    let seqs := (s.db.rows.filter (·.run == s.run)).map (·.seq)
    (s, s!"returned={showKeys rets} fresh={showKeys (freshKeys s.hist)} wf={b (seqs == List.range seqs.length)} nofallback={b (s.hist.all (fun r => !r.fallback))} prefix={b (rets == jr.take s.a.tj.idx)} idx={s.a.tj.idx} journal={showKeys jr}")
  | _ => (s, "bad-op")

end Drv.Journal
