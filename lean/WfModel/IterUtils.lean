import WfModel.GenIterUtils
/-!
# M12 — `llama_agents.core.iter_utils`: `merge_generators`, `Debouncer`, `debounced_sorted_prefix`

Both utilities are labelled transition systems.  One action = one await-free section of
the Python code, so every interleaving the event loop can produce, and every timing of the
sources relative to the debounce window, is an action list.

`merge_generators` (n sources, one `anext` task per source):

* `prod i v` / `fin i` / `err i e` — the pending `anext` task of source `i` finishes with a value /
  `StopAsyncIteration` / an exception (environment actions; any time the task is pending);
* `batch order` — `asyncio.wait(..., FIRST_COMPLETED)` returns; `order` is the iteration order of
  the returned `done` *set* (arbitrary, hence a parameter).  The whole `for finished in done`
  loop, the `stopped_on_first_completion` test and the code up to the first `yield` are one
  section;
* `resume` — the consumer asks for the next item: the code after `yield value`
  (`create_task(anext(...))`), then either the next `yield` or back to the `while` test.

Slots: `pending` (task running), `item/ended/failed` (task done, still in `next_item_tasks`),
`idle` (no task, generator active: its value sits in `completed_results` or was just yielded),
`gone` (task and generator popped).

`debounced_sorted_prefix` = that merge over two sources (0 = `inner`, 1 = `Debouncer.aiter()`)
plus the consumer loop; additional actions `fire` (`complete_signal.set()`: `is_complete` flips),
`mark` (`aiter` yields the marker; only after `fire`), `dfin` (`aiter` returns; only after `mark`).
The timer may fire at any point of the action list: the debounce arithmetic
(`extend_window`, `max_window_seconds`) only decides *when*, which the property quantifies over.
-/
namespace IterUtils

/-! ## merge_generators -/

inductive Slot (α : Type) where
  | pending
  | item (v : α)
  | ended
  | failed (e : Nat)
  | idle
  | gone
deriving DecidableEq, Repr

namespace Slot
def isDone : Slot α → Bool
  | item _ => true | ended => true | failed _ => true | _ => false
/-- the source still has an entry in `next_item_tasks` -/
def hasTask : Slot α → Bool
  | pending => true | item _ => true | ended => true | failed _ => true | _ => false
end Slot

inductive Phase (α : Type) where
  /-- suspended in `asyncio.wait` -/
  | waiting
  /-- suspended at `yield value` for source `i`; `rest` = unyielded tail of `completed_results` -/
  | suspended (i : Nat) (rest : List (Nat × α))
  /-- returned (`none`) or raised `exception_to_raise` (`some e`) -/
  | finished (err : Option Nat)
deriving DecidableEq, Repr

structure Merge (α : Type) where
  stopFirst : Bool
  slots : List (Slot α)
  phase : Phase α
  exc : Option Nat := none
  stopped : Bool := false
  /-- everything yielded so far, tagged with the source index -/
  out : List (Nat × α) := []
  /-- ghost: every value a source has produced, in production order -/
  hist : List (Nat × α) := []
  /-- ghost: every exception a source has raised -/
  errs : List (Nat × Nat) := []
  /-- ghost: sources that have ended -/
  ends : List Nat := []
  /-- ghost: `completed_results` discarded by the `stop_on_first_completion` break -/
  dropped : List (Nat × α) := []
deriving Repr

inductive Act (α : Type) where
  | prod (i : Nat) (v : α)
  | fin (i : Nat)
  | err (i : Nat) (e : Nat)
  | batch (order : List Nat)
  | resume
deriving Repr

namespace Merge

/-- `if not generators: return`; otherwise one primed task per generator and the first `wait`. -/
def init (stopFirst : Bool) (n : Nat) : Merge α :=
  { stopFirst := stopFirst, slots := List.replicate n .pending,
    phase := if n = 0 then .finished none else .waiting }

/-- state of the `for finished in done` loop -/
structure Acc (α : Type) where
  slots : List (Slot α)
  res : List (Nat × α) := []
  exc : Option Nat := none
  stopped : Bool := false
  halt : Bool := false

/-- one iteration of `for finished in done` -/
def collect (stopFirst : Bool) (a : Acc α) (i : Nat) : Acc α :=
  if a.halt then a else
  match a.slots[i]? with
  | some (.item v) => { a with slots := a.slots.set i .idle, res := a.res ++ [(i, v)] }
  | some .ended =>
    if stopFirst then { a with stopped := true, halt := true }
    else { a with slots := a.slots.set i .gone }
  | some (.failed e) => { a with exc := some e, halt := true }
  | _ => a

/-- the `while next_item_tasks and exception_to_raise is None` test (and the `break` on stop);
    leaving the loop runs the `finally` block and then raises / returns -/
def loopTop (m : Merge α) : Merge α :=
  if m.slots.any Slot.hasTask && m.exc.isNone && !m.stopped then { m with phase := .waiting }
  else { m with phase := .finished m.exc }

/-- `for task_index, value in completed_results: pop; yield value` up to the next suspension -/
def yieldNext (m : Merge α) : List (Nat × α) → Merge α × Option (Nat × α)
  | [] => (loopTop m, none)
  | (i, v) :: rest => ({ m with phase := .suspended i rest, out := m.out ++ [(i, v)] }, some (i, v))

/-- `order` is the iteration order of the `done` set: exactly the finished tasks, each once -/
def validOrder (m : Merge α) (order : List Nat) : Bool :=
  !order.isEmpty && decide order.Nodup
    && order.all (fun i => match m.slots[i]? with | some s => s.isDone | none => false)
    && (List.range m.slots.length).all
         (fun i => match m.slots[i]? with | some s => !s.isDone || order.contains i | none => true)

def notFinished (m : Merge α) : Bool :=
  match m.phase with | .finished _ => false | _ => true

/-- One action; `none` = not enabled.  The second component is the value handed to the consumer. -/
def step (m : Merge α) : Act α → Option (Merge α × Option (Nat × α))
  | .prod i v =>
    if m.notFinished then
      match m.slots[i]? with
      | some .pending => some ({ m with slots := m.slots.set i (.item v), hist := m.hist ++ [(i, v)] }, none)
      | _ => none
    else none
  | .fin i =>
    if m.notFinished then
      match m.slots[i]? with
      | some .pending => some ({ m with slots := m.slots.set i .ended, ends := m.ends ++ [i] }, none)
      | _ => none
    else none
  | .err i e =>
    if m.notFinished then
      match m.slots[i]? with
      | some .pending => some ({ m with slots := m.slots.set i (.failed e), errs := m.errs ++ [(i, e)] }, none)
      | _ => none
    else none
  | .batch order =>
    match m.phase with
    | .waiting =>
      if m.validOrder order then
        let a := order.foldl (collect m.stopFirst) { slots := m.slots, exc := m.exc, stopped := m.stopped }
        let m1 := { m with slots := a.slots, exc := a.exc, stopped := a.stopped }
        if a.stopped then
          -- `if stopped_on_first_completion: break` precedes the yield loop: results are discarded
          some (loopTop { m1 with dropped := m1.dropped ++ a.res }, none)
        else some (yieldNext m1 a.res)
      else none
    | _ => none
  | .resume =>
    match m.phase with
    | .suspended i rest =>
      -- `active_generators.get(task_index)` is present exactly when the slot is idle
      let slots := match m.slots[i]? with
        | some .idle => m.slots.set i .pending
        | _ => m.slots
      some (yieldNext { m with slots := slots } rest)
    | _ => none

/-- run an action list; `none` as soon as one action is not enabled -/
def exec (m : Merge α) : List (Act α) → Option (Merge α)
  | [] => some m
  | a :: as => match m.step a with
    | some (m', _) => exec m' as
    | none => none

end Merge

/-- the subsequence of a tagged list that belongs to source `i` -/
def proj (i : Nat) (l : List (Nat × α)) : List α :=
  l.filterMap (fun p => if p.1 = i then some p.2 else none)

/-! ## stable sort by key (`list.sort(key=key)`) -/

def insertByKey (key : β → Nat) (x : β) : List β → List β
  | [] => [x]
  | y :: ys => if key x ≤ key y then x :: y :: ys else y :: insertByKey key x ys

def sortByKey (key : β → Nat) : List β → List β
  | [] => []
  | x :: xs => insertByKey key x (sortByKey key xs)

/-! ## debounced_sorted_prefix -/

inductive Tok (β : Type) where
  | val (x : β)
  | marker
deriving DecidableEq, Repr

def Tok.val? : Tok β → Option β
  | .val x => some x
  | .marker => none

structure Dsp (β : Type) where
  mode : PassMode
  m : Merge (Tok β)
  /-- `debouncer.is_complete` -/
  fired : Bool := false
  /-- `Debouncer.aiter` has yielded the marker -/
  marked : Bool := false
  buffer : List β := []
  /-- the marker has been consumed (the local flag of the repaired code; ghost otherwise) -/
  flushed : Bool := false
  /-- everything yielded to the caller -/
  dout : List β := []
  /-- ghost: number of items consumed before the marker -/
  burst : Nat := 0
  /-- ghost: an item was passed through although the buffer had not been flushed -/
  early : Bool := false
deriving Repr

inductive DAct (β : Type) where
  | prod (x : β)
  | fin
  | err (e : Nat)
  | fire
  | mark
  | dfin
  | batch (order : List Nat)
  | resume
deriving Repr

namespace Dsp

def init (mode : PassMode) : Dsp β :=
  { mode := mode, m := Merge.init Gen.dspMergeStop Gen.dspSources }

/-- items of `inner` the consumer loop has received so far, in order -/
def arrived (s : Dsp β) : List β := s.m.out.filterMap (fun p => p.2.val?)

/-- items `inner` has produced so far, in order -/
def produced (s : Dsp β) : List β := s.m.hist.filterMap (fun p => p.2.val?)

def passes (s : Dsp β) : Bool :=
  match s.mode with
  | .onIsComplete => s.fired
  | .onMarkerConsumed => s.flushed
  | .unknown => false

/-- body of `async for item in merged` for one item; returns what is yielded to the caller -/
def consume (key : β → Nat) (s : Dsp β) : Tok β → Dsp β × List β
  | .marker =>
    let b := sortByKey key s.buffer
    ({ s with dout := s.dout ++ b, buffer := [], flushed := true,
              burst := if s.flushed then s.burst else s.arrived.length }, b)
  | .val x =>
    if s.passes then ({ s with dout := s.dout ++ [x], early := s.early || !s.flushed }, [x])
    else ({ s with buffer := s.buffer ++ [x] }, [])

def afterMerge (key : β → Nat) (s : Dsp β) : Merge (Tok β) × Option (Nat × Tok β) → Dsp β × List β
  | (m', none) => ({ s with m := m' }, [])
  | (m', some (_, tok)) => consume key { s with m := m' } tok

def step (key : β → Nat) (s : Dsp β) : DAct β → Option (Dsp β × List β)
  | .prod x => (s.m.step (.prod 0 (.val x))).map (afterMerge key s)
  | .fin => (s.m.step (.fin 0)).map (afterMerge key s)
  | .err e => (s.m.step (.err 0 e)).map (afterMerge key s)
  | .fire => if s.fired then none else some ({ s with fired := true }, [])
  | .mark =>
    if s.fired && !s.marked then
      (s.m.step (.prod 1 .marker)).map (afterMerge key { s with marked := true })
    else none
  | .dfin => if s.marked then (s.m.step (.fin 1)).map (afterMerge key s) else none
  | .batch order => (s.m.step (.batch order)).map (afterMerge key s)
  | .resume => (s.m.step .resume).map (afterMerge key s)

def exec (key : β → Nat) (s : Dsp β) : List (DAct β) → Option (Dsp β)
  | [] => some s
  | a :: as => match s.step key a with
    | some (s', _) => exec key s' as
    | none => none

end Dsp

end IterUtils
