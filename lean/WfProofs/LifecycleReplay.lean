import WfProps.C11
import WfProofs.EngineTelemetry
/-!
M7 × M1: what a reload rebuilds.  `context_from_ticks` replays the persisted ticks
(`replay_ticks_stream`), the control loop then applies `rewind_in_progress`; on a quiescent reducer
state the latter is the identity, so a run released while idle continues from exactly the reducer
state it was aborted in.
-/
set_option linter.unusedVariables false
open Engine

theorem rewindStep_quiet (c : StepCfg) (ss : StepState) (now : Int) (h : stepQuiet ss = true) :
    rewindStep c ss now = (ss, []) := by
  simp only [stepQuiet, Bool.and_eq_true, List.isEmpty_iff] at h
  obtain ⟨hq, hp⟩ := h
  unfold rewindStep
  simp only [hq, hp, List.map_nil, List.reverse_nil, List.append_nil, List.length_nil]
  unfold drain
  cases ss; simp_all

theorem set_self (st : State) (s : Nat) : st.set s (st.workers s) = st := by
  cases st with
  | mk r w =>
    simp only [State.set, State.mk.injEq, true_and]
    funext t
    split
    · rename_i e; rw [e]
    · rfl

theorem rewindLoop_quiet (now : Int) (cs : List StepCfg) (st : State) (cmds : List Cmd)
    (h : ∀ c ∈ cs, stepQuiet (st.workers c.name) = true) : rewindLoop now cs st cmds = (st, cmds) := by
  induction cs generalizing st cmds with
  | nil => rfl
  | cons c cs ih =>
    unfold rewindLoop
    simp only
    rw [rewindStep_quiet c _ now (h c (by simp))]
    simp only [set_self, List.append_nil]
    exact ih st cmds (fun d hd => h d (by simp [hd]))

/-- a quiescent reducer state is a fixed point of `rewind_in_progress` -/
theorem rewind_of_idle (cfg : Cfg) (st : State) (now : Int) (h : checkIdle cfg st = true) :
    rewind cfg st now = (st, []) := by
  unfold rewind
  apply rewindLoop_quiet
  intro c hc
  simp only [checkIdle, Bool.and_eq_true, List.all_eq_true] at h
  apply h.2
  simp only [Cfg.names, List.mem_map]
  exact ⟨c, mem_sortedSteps_iff.mp hc, rfl⟩
