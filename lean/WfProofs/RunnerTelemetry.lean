import WfProofs.RunnerNoCrash
import WfProofs.EngineTelemetry
/-!
Lifecycle telemetry on the runner LTS (C35).

`WfProofs/EngineTelemetry.lean` shows that the command list of one tick is a valid run of the
open-slot automaton *provided the reducer does not reject the tick* (`Cmd.crash ∉ …`).  Here the
proviso is discharged: on the runner LTS — `Runner.init` (fresh or restored state, with the
rewind of in-progress work) followed by any action list — the runner invariant `RunInv`
(`WfProofs/RunnerWorkers.lean`) makes every tick handed to the reducer acceptable
(`reduce_no_crash`), so the *published stream itself* (`Runner.stream`, what `execCmds` writes in
command order, cut at an exit command) is a valid run of the automaton from "no slot open", and
while the run is live the open slots are exactly the in-progress table.

Step bodies can write arbitrary events to the stream (`Act.stepWrite`); the theorems assume they
do not forge a `StepStateChanged(RUNNING/NOT_RUNNING)` with a worker id (`Act.noForge`).
-/
set_option linter.unusedSimpArgs false
set_option linter.unusedVariables false

namespace Engine

/-- the published stream read as a command list (so that `Valid` applies to it) -/
def pubs (s : List Pub) : List Cmd := s.map Cmd.publish

theorem pubs_append (a b : List Pub) : pubs (a ++ b) = pubs a ++ pubs b := by simp [pubs]

/-- `StepStateChanged(RUNNING | NOT_RUNNING, worker_id = some _)` -/
def Pub.isSlotChange : Pub → Bool
  | .stepState .running _ _ _ (some _) => true
  | .stepState .notRunning _ _ _ (some _) => true
  | _ => false

theorem neutral_publish {p : Pub} (h : p.isSlotChange = false) : Neutral (.publish p) := by
  constructor
  · intro s i o w heq
    cases heq
    simp [Pub.isSlotChange] at h
  · intro s i o w heq
    cases heq
    simp [Pub.isSlotChange] at h

/-- a step body does not forge lifecycle telemetry -/
def Act.noForge : Act → Bool
  | .stepWrite p => !p.isSlotChange
  | _ => true

/-! ### what `execCmds` writes -/

theorem execCmd_stream (r : Runner) (c : Cmd) :
    (execCmd r c).stream = r.stream ++ (match c with | .publish p => [p] | _ => []) := by
  cases c with
  | queueEvent att step delay =>
    cases delay with
    | none => simp [execCmd]
    | some d => simp only [execCmd]; split <;> simp [Runner.push]
  | scheduleIdleCheck => simp only [execCmd]; split <;> simp
  | _ => simp [execCmd, Runner.finish, Runner.push]

theorem execCmds_st_tel : ∀ (cmds : List Cmd) (r : Runner), (execCmds r cmds).st = r.st
  | [], r => by simp [execCmds]
  | c :: cs, r => by
    simp only [execCmds]
    split
    · exact execCmd_st r c
    · rw [execCmds_st_tel cs _, execCmd_st r c]

/-- executing a valid command list extends a valid stream to a valid stream; if no exit command cut
the execution short, the automaton ends where the command list ends -/
theorem execCmds_tel (o0 : Open) : ∀ (cmds : List Cmd) (r : Runner) (o o1 : Open),
    Valid o cmds o1 → Valid o0 (pubs r.stream) o →
    ∃ o', Valid o0 (pubs (execCmds r cmds).stream) o' ∧ ((execCmds r cmds).outcome = none → o' = o1)
  | [], r, o, o1, hv, hs => by
    cases hv
    exact ⟨o, by simpa [execCmds] using hs, fun _ => rfl⟩
  | c :: cs, r, o, o1, hv, hs => by
    simp only [execCmds]
    have hstream := execCmd_stream r c
    cases hv with
    | running _ _ s inTy out w _ hclosed hrest =>
      have hs' : Valid o0 (pubs (execCmd r (.publish (.stepState .running s inTy out (some w)))).stream)
          (o.upd s w true) := by
        rw [hstream, pubs_append]
        exact hs.append (Valid.running _ _ _ _ _ _ _ hclosed (Valid.nil _))
      split
      · exact ⟨_, hs', fun hn => by simp_all⟩
      · exact execCmds_tel o0 cs _ _ _ hrest hs'
    | notRunning _ _ s inTy out w _ hopen hrest =>
      have hs' : Valid o0 (pubs (execCmd r (.publish (.stepState .notRunning s inTy out (some w)))).stream)
          (o.upd s w false) := by
        rw [hstream, pubs_append]
        exact hs.append (Valid.notRunning _ _ _ _ _ _ _ hopen (Valid.nil _))
      split
      · exact ⟨_, hs', fun hn => by simp_all⟩
      · exact execCmds_tel o0 cs _ _ _ hrest hs'
    | other _ _ _ _ hn1 hn2 hrest =>
      have hs' : Valid o0 (pubs (execCmd r c).stream) o := by
        rw [hstream, pubs_append]
        apply hs.append
        cases c with
        | publish p => exact Valid.other _ _ _ _ hn1 hn2 (Valid.nil _)
        | _ => exact Valid.nil _
      split
      · exact ⟨_, hs', fun hn => by simp_all⟩
      · exact execCmds_tel o0 cs _ _ _ hrest hs'

/-! ### the invariant -/

/-- runner invariant + "the stream so far is a valid run of the open-slot automaton, ending — while
the run is live — at the in-progress table" -/
structure TelInv (cfg : Cfg) (r : Runner) : Prop where
  run : RunInv cfg False r
  tel : ∃ o, Valid (fun _ _ => false) (pubs r.stream) o ∧ (r.outcome = none → Agree cfg o r.st)

theorem init_telInv (cfg : Cfg) (hwf : cfg.WF) (st0 : State) (h0 : IdsInv cfg st0) (now : Int)
    (start : Option Ev) (timeout : Option Nat) : TelInv cfg (Runner.init cfg st0 now start timeout) := by
  refine ⟨init_runInv cfg hwf False st0 h0 now start timeout, ?_⟩
  obtain ⟨o1, hv, ha⟩ := rewind_valid cfg hwf st0 now
  unfold Runner.init
  simp only
  have key : ∀ r1 : Runner, r1.stream = [] → r1.st = (rewind cfg st0 now).1 →
      ∃ o, Valid (fun _ _ => false) (pubs (execCmds r1 (rewind cfg st0 now).2).stream) o ∧
        ((execCmds r1 (rewind cfg st0 now).2).outcome = none →
          Agree cfg o (execCmds r1 (rewind cfg st0 now).2).st) := by
    intro r1 hs hst
    obtain ⟨o', hv', heq⟩ := execCmds_tel (fun _ _ => false) _ r1 _ _ hv (by rw [hs]; exact Valid.nil _)
    refine ⟨o', hv', fun hn => ?_⟩
    rw [heq hn, execCmds_st_tel, hst]
    exact ha
  apply key
  · cases timeout <;> rfl
  · rfl

theorem step_telInv (cfg : Cfg) (hwf : cfg.WF) (pol : Policy) (r : Runner) (a : Act)
    (hf : a.noForge = true) (h : TelInv cfg r) : TelInv cfg (r.step cfg pol a) := by
  refine ⟨step_runInv cfg hwf pol False r a (fun hf => hf.elim) h.run, ?_⟩
  have htel := h.tel
  unfold Runner.step
  split
  · exact htel
  rename_i hlive
  have hnone : r.outcome = none := by
    cases ho : r.outcome with
    | none => rfl
    | some x => simp [ho] at hlive
  cases a with
  | drain =>
    simp only
    cases hbuf : r.buf with
    | nil => simp only; exact htel
    | cons t rest =>
      simp only
      have hnc := reduce_no_crash cfg hwf pol t r.st r.now h.run.ids (h.run.slotOk hbuf)
      rw [if_neg (by simpa using hnc)]
      obtain ⟨o, hv, hag⟩ := htel
      obtain ⟨o1, hv1, ha1⟩ := reduce_valid cfg hwf pol t r.st r.now o h.run.ids (hag hnone) hnc
      obtain ⟨o', hv', heq⟩ := execCmds_tel (fun _ _ => false) (reduce cfg pol t r.st r.now).2
        { r with buf := rest, idlePending := if t = Tick.idleCheck then false else r.idlePending,
                 st := (reduce cfg pol t r.st r.now).1, log := r.log ++ [(t, r.now)] } o o1 hv1 hv
      refine ⟨o', hv', fun hn => ?_⟩
      rw [heq hn, execCmds_st_tel]
      exact ha1
  | workerDone s w res =>
    simp only
    split
    · exact htel
    · split <;> exact htel
  | pull =>
    simp only
    split
    · exact htel
    · split <;> exact htel
  | timer => simp only; split <;> exact htel
  | advance dt => exact htel
  | external t => simp only; split <;> exact htel
  | stepWrite p =>
    obtain ⟨o, hv, hag⟩ := htel
    refine ⟨o, ?_, hag⟩
    simp only [pubs_append]
    have hp : p.isSlotChange = false := by simpa [Act.noForge] using hf
    exact hv.append (Valid.other _ _ _ _ (neutral_publish hp).1 (neutral_publish hp).2 (Valid.nil _))

theorem run_telInv (cfg : Cfg) (hwf : cfg.WF) (pol : Policy) :
    ∀ (acts : List Act) (r : Runner), (∀ a ∈ acts, a.noForge = true) → TelInv cfg r →
      TelInv cfg (Runner.run cfg pol r acts)
  | [], r, _, h => h
  | a :: as, r, hf, h => by
    simp only [Runner.run, List.foldl_cons]
    exact run_telInv cfg hwf pol as _ (fun b hb => hf b (by simp [hb]))
      (step_telInv cfg hwf pol r a (hf a (by simp)) h)

/-! ### counting -/

def Pub.isRun (s w : Nat) : Pub → Bool
  | .stepState .running s' _ _ (some w') => s' == s && w' == w
  | _ => false

def Pub.isNotRun (s w : Nat) : Pub → Bool
  | .stepState .notRunning s' _ _ (some w') => s' == s && w' == w
  | _ => false

/-- number of `RUNNING(step, worker)` / `NOT_RUNNING(step, worker)` in a stream -/
def runCount (s w : Nat) (l : List Pub) : Nat := l.countP (Pub.isRun s w)
def notRunCount (s w : Nat) (l : List Pub) : Nat := l.countP (Pub.isNotRun s w)

def b2n (b : Bool) : Nat := if b then 1 else 0

theorem Valid.prefix : ∀ (a b : List Cmd) (o o' : Open), Valid o (a ++ b) o' → ∃ om, Valid o a om
  | [], b, o, o', _ => ⟨o, Valid.nil o⟩
  | c :: a, b, o, o', h => by
    rw [List.cons_append] at h
    cases h with
    | running _ _ s inTy out w _ hc hr =>
      obtain ⟨om, hm⟩ := Valid.prefix a b _ _ hr
      exact ⟨om, Valid.running _ _ _ _ _ _ _ hc hm⟩
    | notRunning _ _ s inTy out w _ hc hr =>
      obtain ⟨om, hm⟩ := Valid.prefix a b _ _ hr
      exact ⟨om, Valid.notRunning _ _ _ _ _ _ _ hc hm⟩
    | other _ _ _ _ h1 h2 hr =>
      obtain ⟨om, hm⟩ := Valid.prefix a b _ _ hr
      exact ⟨om, Valid.other _ _ _ _ h1 h2 hm⟩

theorem neutral_counts {p : Pub} (h : Neutral (.publish p)) (s w : Nat) :
    p.isRun s w = false ∧ p.isNotRun s w = false := by
  cases p with
  | stepState k s' i out wo =>
    cases k <;> cases wo <;> simp [Pub.isRun, Pub.isNotRun]
    · exact absurd rfl (h.1 s' i out _)
    · exact absurd rfl (h.2 s' i out _)
  | _ => simp [Pub.isRun, Pub.isNotRun]

theorem runCount_cons (s w : Nat) (p : Pub) (l : List Pub) :
    runCount s w (p :: l) = runCount s w l + b2n (p.isRun s w) := by
  simp only [runCount, List.countP_cons, b2n]

theorem notRunCount_cons (s w : Nat) (p : Pub) (l : List Pub) :
    notRunCount s w (p :: l) = notRunCount s w l + b2n (p.isNotRun s w) := by
  simp only [notRunCount, List.countP_cons, b2n]

theorem upd_same (o : Open) (s w : Nat) (b : Bool) : o.upd s w b s w = b := by simp [Open.upd]

theorem upd_other (o : Open) (s w s0 w0 : Nat) (b : Bool) (h : ¬ (s0 = s ∧ w0 = w)) :
    o.upd s0 w0 b s w = o s w := by
  have h' : ¬ (s = s0 ∧ w = w0) := fun hh => h ⟨hh.1.symm, hh.2.symm⟩
  simp [Open.upd, h']

theorem beq_pair_false {s0 s w0 w : Nat} (h : ¬ (s0 = s ∧ w0 = w)) : (s0 == s && w0 == w) = false := by
  cases h1 : (s0 == s && w0 == w) with
  | false => rfl
  | true => simp only [Bool.and_eq_true, beq_iff_eq] at h1; exact absurd h1 h

/-- the automaton counts: `#RUNNING + [open before] = #NOT_RUNNING + [open after]` per slot -/
theorem valid_count (s w : Nat) : ∀ (l : List Pub) (o o' : Open), Valid o (pubs l) o' →
    runCount s w l + b2n (o s w) = notRunCount s w l + b2n (o' s w)
  | [], o, o', h => by
    cases h
    simp [runCount, notRunCount]
  | p :: l, o, o', h => by
    simp only [pubs, List.map_cons] at h
    rw [runCount_cons, notRunCount_cons]
    cases h with
    | running _ _ s0 inTy out w0 _ hc hr =>
      have ih := valid_count s w l _ _ hr
      have e2 : (Pub.stepState SS.running s0 inTy out (some w0)).isNotRun s w = false := rfl
      have e1 : (Pub.stepState SS.running s0 inTy out (some w0)).isRun s w = (s0 == s && w0 == w) := rfl
      rw [e1, e2]
      by_cases hsw : s0 = s ∧ w0 = w
      · obtain ⟨rfl, rfl⟩ := hsw
        rw [upd_same] at ih
        simp only [beq_self_eq_true, Bool.and_self, hc, b2n, Bool.false_eq_true, ↓reduceIte] at ih ⊢
        omega
      · rw [upd_other _ _ _ _ _ _ hsw] at ih
        rw [beq_pair_false hsw]
        simp only [b2n, Bool.false_eq_true, ↓reduceIte] at ih ⊢
        omega
    | notRunning _ _ s0 inTy out w0 _ hc hr =>
      have ih := valid_count s w l _ _ hr
      have e2 : (Pub.stepState SS.notRunning s0 inTy out (some w0)).isRun s w = false := rfl
      have e1 : (Pub.stepState SS.notRunning s0 inTy out (some w0)).isNotRun s w = (s0 == s && w0 == w) := rfl
      rw [e1, e2]
      by_cases hsw : s0 = s ∧ w0 = w
      · obtain ⟨rfl, rfl⟩ := hsw
        rw [upd_same] at ih
        simp only [beq_self_eq_true, Bool.and_self, hc, b2n, Bool.false_eq_true, ↓reduceIte] at ih ⊢
        omega
      · rw [upd_other _ _ _ _ _ _ hsw] at ih
        rw [beq_pair_false hsw]
        simp only [b2n, Bool.false_eq_true, ↓reduceIte] at ih ⊢
        omega
    | other _ _ _ _ h1 h2 hr =>
      have ih := valid_count s w l _ _ hr
      obtain ⟨n1, n2⟩ := neutral_counts (p := p) ⟨h1, h2⟩ s w
      rw [n1, n2]
      simp only [b2n, Bool.false_eq_true, ↓reduceIte] at ih ⊢
      omega

/-! ### start-up never crashes -/

theorem rewind_no_crash (cfg : Cfg) (st : State) (now : Int) : Cmd.crash ∉ (rewind cfg st now).2 := by
  have hloop : ∀ (cs : List StepCfg) (st : State) (cmds : List Cmd), Cmd.crash ∉ cmds →
      Cmd.crash ∉ (rewindLoop now cs st cmds).2 := by
    intro cs
    induction cs with
    | nil => intro st cmds h; simpa [rewindLoop] using h
    | cons d ds ih =>
      intro st cmds h
      unfold rewindLoop
      apply ih
      intro hc
      rcases List.mem_append.mp hc with hc | hc
      · exact h hc
      · unfold rewindStep at hc
        exact drain_no_crash d.name d.numWorkers now _ _ (by simp [IdsOk, usedIds]) hc
  unfold rewind
  exact hloop _ _ _ (by simp)

theorem init_not_crashed (cfg : Cfg) (st0 : State) (now : Int) (start : Option Ev) (timeout : Option Nat) :
    (Runner.init cfg st0 now start timeout).outcome ≠ some .crashed := by
  unfold Runner.init
  simp only
  apply execCmds_not_crashed _ _ (rewind_no_crash cfg st0 now)
  cases timeout <;> simp [Runner.push]

end Engine
