"""Generator for lean/WfModel/GenResource.lean (property C22).

Re-extracted from /repo's *current* sources on every run
(`workflows/resource.py`, `workflows/runtime/types/step_function.py`):

* the *shape* of `ResourceManager._get`, `get`, `resolution_scope`,
  `_Resource.call` / `_resolve_dependencies` and of the scope block of `partial`: each
  statement is classified into a tag (locals are alpha-renamed first, adjacent
  independent stores are sorted), anything unrecognised becomes an `<unknown ...>`
  tag and a note -- `C22_source_shape` pins the tag lists the model transcribes;
* which scope discipline the tree implements: `scopesExclusive` (the scope is an
  async context manager that takes the manager's lock, re-entrant through the
  task-local `_held_scopes`), `getAlwaysScoped`, `partialSkipsEmpty`;
* the cycle error message prefix.

The concurrent theorem `C22_concurrent` is stated for the configuration built from
these constants, so it only checks on a tree whose scopes are exclusive.
"""
from __future__ import annotations

import ast
import copy
import re

from ..boot import repo_path

LEAN_MODULE = "GenResource"

RESOURCE = "packages/llama-index-workflows/src/workflows/resource.py"
STEPFN = "packages/llama-index-workflows/src/workflows/runtime/types/step_function.py"


def lean_str(s: str) -> str:
    out = ['"']
    for ch in s:
        if ch == '"':
            out.append('\\"')
        elif ch == "\\":
            out.append("\\\\")
        elif ch == "\n":
            out.append("\\n")
        elif 32 <= ord(ch) < 127:
            out.append(ch)
        else:
            out.append("\\u{%x}" % ord(ch))
    out.append('"')
    return "".join(out)


def lean_list(xs: list[str]) -> str:
    return "[" + ", ".join(lean_str(x) for x in xs) + "]"


def lean_bool(b: bool) -> str:
    return "true" if b else "false"


class _Rename(ast.NodeTransformer):
    def __init__(self, env: dict[str, str]):
        self.env = env

    def visit_Name(self, node: ast.Name):
        if node.id in self.env:
            return ast.copy_location(ast.Name(id=self.env[node.id], ctx=node.ctx), node)
        return node


def _alpha(fn: ast.AST) -> ast.AST:
    """Rename the function's locals (assignment targets, not parameters) to v0, v1, ..."""
    fn = copy.deepcopy(fn)
    params = {a.arg for a in fn.args.args + fn.args.kwonlyargs}  # type: ignore[attr-defined]
    env: dict[str, str] = {}
    for n in ast.walk(fn):
        targets = []
        if isinstance(n, ast.Assign):
            targets = n.targets
        elif isinstance(n, (ast.AnnAssign, ast.AugAssign)):
            targets = [n.target]
        elif isinstance(n, (ast.For, ast.AsyncFor)):
            targets = [n.target]
        elif isinstance(n, (ast.With, ast.AsyncWith)):
            targets = [i.optional_vars for i in n.items if i.optional_vars is not None]
        for t in targets:
            for m in ast.walk(t):
                if isinstance(m, ast.Name) and m.id not in params and m.id not in env:
                    env[m.id] = f"v{len(env)}"
    return _Rename(env).visit(fn)


def _src(n: ast.AST) -> str:
    return re.sub(r"\s+", " ", ast.unparse(n)).strip()


def _is_doc(st: ast.stmt) -> bool:
    return isinstance(st, ast.Expr) and isinstance(st.value, ast.Constant) and isinstance(st.value.value, str)


def _find(tree: ast.AST, cls: str | None, name: str):
    scope = tree
    if cls is not None:
        scope = next((n for n in ast.walk(tree) if isinstance(n, ast.ClassDef) and n.name == cls), None)
        if scope is None:
            return None
    return next((n for n in scope.body if isinstance(n, (ast.FunctionDef, ast.AsyncFunctionDef)) and n.name == name), None)


# ---------------------------------------------------------------------------- _get

_GET_RULES: list[tuple[str, str]] = [
    (r"if resource\.name in self\._resolving: v\d+ = ' -> '\.join\(self\._resolving\) \+ f' -> \{resource\.name\}' raise ValueError\(f'(?P<msg>[^{]*)\{v\d+\}'\)", "cycle-check"),
    (r"if resource\.cache and resource\.name in self\.resources: return self\.resources\[resource\.name\]", "cached-hit"),
    (r"if resource\.name in self\._resolution_cache: return self\._resolution_cache\[resource\.name\]", "scoped-hit"),
    (r"self\._resolving\.append\(resource\.name\)", "mark"),
    (r"v\d+ = await resource\.resolve\(self\)", "resolve"),
    (r"if resource\.cache: await self\.set\(resource\.name, v\d+\)", "store-cached"),
    (r"self\._resolution_cache\[resource\.name\] = v\d+", "store-scoped"),
    (r"return v\d+", "return"),
    (r"if resource\.name in self\._resolving: self\._resolving\.remove\(resource\.name\)", "unmark"),
]


def _classify(st: ast.stmt, rules, notes: list[str], where: str, found: dict) -> str:
    s = _src(st)
    for pat, tag in rules:
        m = re.fullmatch(pat, s)
        if m:
            found.update({k: v for k, v in m.groupdict().items() if v is not None})
            return tag
    notes.append(f"translate: gen/resource: unrecognised statement in {where}: {s[:100]}")
    return f"<unknown {s[:80]}>"


def _sort_adjacent(tags: list[str], group: set[str]) -> list[str]:
    out = list(tags)
    i = 0
    while i < len(out):
        j = i
        while j < len(out) and out[j] in group:
            j += 1
        out[i:j] = sorted(out[i:j])
        i = max(j, i + 1)
    return out


def get_shape(fn, notes: list[str], found: dict) -> list[str]:
    fn = _alpha(fn)
    tags: list[str] = []
    for st in fn.body:
        if _is_doc(st):
            continue
        if isinstance(st, ast.Try) and not st.handlers and not st.orelse:
            inner = [_classify(x, _GET_RULES, notes, "_get", found) for x in st.body]
            fin = [_classify(x, _GET_RULES, notes, "_get", found) for x in st.finalbody]
            tags += ["try:" + t for t in _sort_adjacent(inner, {"store-cached", "store-scoped"})]
            tags += ["finally:" + t for t in fin]
        else:
            tags.append(_classify(st, _GET_RULES, notes, "_get", found))
    return tags


# ------------------------------------------------------------------- scope / get

def scope_shape(fn, notes: list[str]) -> list[str]:
    if fn is None:
        notes.append("translate: gen/resource: ResourceManager.resolution_scope not found")
        return ["<missing>"]
    deco = [_src(d) for d in fn.decorator_list]
    tags = [("async " if isinstance(fn, ast.AsyncFunctionDef) else "sync ") + "@" + ",".join(deco)]
    rules = [
        (r"self\._resolution_depth \+= 1", "depth+=1"),
        (r"self\._resolution_depth -= 1", "depth-=1"),
        (r"if self\._resolution_depth == 0: self\._resolution_cache\.clear\(\)", "clear-if-zero"),
        (r"yield", "yield"),
        (r"return", "return"),
        (r"v\d+ = _held_scopes\.get\(\)", "held-read"),
        (r"v\d+ = _held_scopes\.set\(v\d+ \+ \(self,\)\)", "held-add"),
        (r"_held_scopes\.reset\(v\d+\)", "held-reset"),
    ]

    def walk(body: list[ast.stmt], prefix: str) -> None:
        for st in body:
            if _is_doc(st):
                continue
            if isinstance(st, ast.Try) and not st.handlers and not st.orelse:
                walk(st.body, prefix + "try:")
                walk(st.finalbody, prefix + "finally:")
            elif isinstance(st, ast.AsyncWith) and len(st.items) == 1 and _src(st.items[0].context_expr) == "self._get_scope_lock()":
                tags.append(prefix + "lock{")
                walk(st.body, prefix + "lock:")
            elif isinstance(st, ast.If) and re.fullmatch(r"any\(\(\w+ is self for \w+ in v\d+\)\)", _src(st.test)) and not st.orelse:
                tags.append(prefix + "if-held{")
                walk(st.body, prefix + "held:")
            else:
                tags.append(prefix + _classify(st, rules, notes, "resolution_scope", {}))

    walk(_alpha(fn).body, "")
    return tags


def lock_shape(fn, notes: list[str]) -> list[str]:
    if fn is None:
        return ["<none>"]
    rules = [
        (r"v\d+ = asyncio\.get_running_loop\(\)", "loop"),
        (r"if self\._scope_lock is None or self\._scope_lock_loop is not v\d+: self\._scope_lock = asyncio\.Lock\(\) self\._scope_lock_loop = v\d+", "lock-per-loop"),
        (r"return self\._scope_lock", "return-lock"),
    ]
    return [_classify(st, rules, notes, "_get_scope_lock", {}) for st in _alpha(fn).body if not _is_doc(st)]


def mget_shape(fn, notes: list[str]) -> list[str]:
    if fn is None:
        notes.append("translate: gen/resource: ResourceManager.get not found")
        return ["<missing>"]
    rules = [
        (r"if self\._resolution_depth == 0: with self\.resolution_scope\(\): return await self\._get\(resource\)", "if-depth-0:scope{_get}"),
        (r"return await self\._get\(resource\)", "_get"),
        (r"async with self\.resolution_scope\(\): return await self\._get\(resource\)", "async-scope{_get}"),
    ]
    return [_classify(st, rules, notes, "get", {}) for st in fn.body if not _is_doc(st)]


def call_shape(cls_tree, notes: list[str]) -> list[str]:
    dep = _find(cls_tree, "_Resource", "_resolve_dependencies")
    call = _find(cls_tree, "_Resource", "call")
    res = _find(cls_tree, "_Resource", "resolve")
    if dep is None or call is None or res is None:
        notes.append("translate: gen/resource: _Resource.call/_resolve_dependencies/resolve not found")
        return ["<missing>"]
    tags: list[str] = []
    rules_dep = [
        (r"v\d+: dict\[str, Any\] = \{\}", "args={}"),
        (r"for \(?v\d+, v\d+, v\d+\)? in self\.get_dependencies\(\): v\d+\.set_type_annotation\(v\d+\) v\d+\.set_localns\(self\._localns\) v\d+\[v\d+\] = await resource_manager\.get\(v\d+\)", "for-dep-in-order:await-manager.get"),
        (r"return v\d+", "return-args"),
    ]
    tags += ["deps:" + _classify(st, rules_dep, notes, "_resolve_dependencies", {}) for st in _alpha(dep).body if not _is_doc(st)]
    rules_call = [
        (r"v\d+ = await self\._resolve_dependencies\(resource_manager\)", "resolve-deps-first"),
        (r"if self\._is_async: v\d+ = await cast\(Callable\[\.\.\., Awaitable\[T\]\], self\._factory\)\(\*\*v\d+\) else: v\d+ = cast\(Callable\[\.\.\., T\], self\._factory\)\(\*\*v\d+\)", "factory(**args)-await-if-async"),
        (r"return v\d+", "return-result"),
    ]
    tags += ["call:" + _classify(st, rules_call, notes, "_Resource.call", {}) for st in _alpha(call).body if not _is_doc(st)]
    rules_res = [(r"return await self\.call\(manager\)", "resolve=call")]
    tags += [_classify(st, rules_res, notes, "_Resource.resolve", {}) for st in res.body if not _is_doc(st)]
    return tags


def partial_shape(fn, notes: list[str]) -> tuple[list[str], bool, bool]:
    """Tags of the resource block of `partial`, whether the scope is `async with`, whether an
    empty resource list skips the scope."""
    if fn is None:
        notes.append("translate: gen/resource: step_function.partial not found")
        return ["<missing>"], False, False
    loop_pat = (r"for v\d+ in step_config\.resources: v\d+ = v\d+\.resource v\d+\.set_type_annotation\(v\d+\.type_annotation\) "
                r"v\d+ = await workflow\._resource_manager\.get\(resource=v\d+\) v\d+\[v\d+\.name\] = v\d+")
    fn = _alpha(fn)
    tags: list[str] = []
    is_async = False
    skips = False

    def scope_block(st: ast.stmt, prefix: str) -> bool:
        nonlocal is_async
        if isinstance(st, (ast.With, ast.AsyncWith)) and len(st.items) == 1 and \
                _src(st.items[0].context_expr) == "workflow._resource_manager.resolution_scope()":
            is_async = isinstance(st, ast.AsyncWith)
            body = " ".join(_src(x) for x in st.body)
            ok = re.fullmatch(loop_pat, body) is not None
            tags.append(prefix + ("async-scope{" if is_async else "scope{") + ("for-resource-in-order:await-manager.get" if ok else "<unknown body>") + "}")
            if not ok:
                notes.append("translate: gen/resource: unrecognised scope body in partial: " + body[:100])
            return True
        return False

    for st in fn.body:
        if _is_doc(st):
            continue
        if scope_block(st, ""):
            continue
        if isinstance(st, ast.If) and _src(st.test) == "step_config.resources" and not st.orelse and len(st.body) == 1 \
                and scope_block(st.body[0], "if-resources:"):
            skips = True
            continue
        s = _src(st)
        if "resource" in s.lower():
            tags.append(f"<unknown {s[:80]}>")
            notes.append("translate: gen/resource: unrecognised resource statement in partial: " + s[:100])
    return tags, is_async, skips


def generate(notes: list[str]) -> list[str]:
    L: list[str] = ["namespace Gen.Resource", ""]
    try:
        rtree = ast.parse(open(repo_path(RESOURCE)).read())
    except (OSError, SyntaxError) as e:
        notes.append(f"translate: gen/resource: cannot read {RESOURCE}: {e!r}")
        rtree = ast.parse("")
    try:
        stree = ast.parse(open(repo_path(STEPFN)).read())
    except (OSError, SyntaxError) as e:
        notes.append(f"translate: gen/resource: cannot read {STEPFN}: {e!r}")
        stree = ast.parse("")

    found: dict = {}
    g = _find(rtree, "ResourceManager", "_get")
    gshape = get_shape(g, notes, found) if g is not None else ["<missing>"]
    if g is None:
        notes.append("translate: gen/resource: ResourceManager._get not found")
    sshape = scope_shape(_find(rtree, "ResourceManager", "resolution_scope"), notes)
    lshape = lock_shape(_find(rtree, "ResourceManager", "_get_scope_lock"), notes)
    mshape = mget_shape(_find(rtree, "ResourceManager", "get"), notes)
    cshape = call_shape(rtree, notes)
    pshape, p_async, p_skips = partial_shape(_find(stree, None, "partial"), notes)

    exclusive = (
        sshape[:1] == ["async @asynccontextmanager"]
        and "lock{" in sshape and "if-held{" in sshape and "held:yield" in sshape and "held:return" in sshape
        and "lock:held-add" in sshape and "lock:finally:held-reset" in sshape and "lock:try:yield" in sshape
        and lshape == ["loop", "lock-per-loop", "return-lock"]
        and p_async
    )
    held_var = any(isinstance(n, (ast.Assign, ast.AnnAssign)) and "_held_scopes" in _src(n) and "ContextVar(" in _src(n)
                   for n in rtree.body)
    exclusive = exclusive and held_var

    L.append("/-- statements of `ResourceManager._get`, classified, in source order -/")
    L.append(f"def getShape : List String := {lean_list(gshape)}")
    L.append("/-- `ResourceManager.resolution_scope` -/")
    L.append(f"def scopeShape : List String := {lean_list(sshape)}")
    L.append("/-- `ResourceManager._get_scope_lock` (absent before the repair) -/")
    L.append(f"def lockShape : List String := {lean_list(lshape)}")
    L.append("/-- `ResourceManager.get` -/")
    L.append(f"def managerGetShape : List String := {lean_list(mshape)}")
    L.append("/-- `_Resource._resolve_dependencies`, `_Resource.call`, `_Resource.resolve` -/")
    L.append(f"def callShape : List String := {lean_list(cshape)}")
    L.append("/-- the resource block of `step_function.partial` -/")
    L.append(f"def partialShape : List String := {lean_list(pshape)}")
    L.append(f"def cycleMessage : String := {lean_str(found.get('msg', '<missing>'))}")
    L.append("/-- scopes take the manager's lock (async context manager, re-entrant via the task-local `_held_scopes`) -/")
    L.append(f"def scopesExclusive : Bool := {lean_bool(exclusive)}")
    L.append("/-- `get` always resolves inside a scope (instead of `if self._resolution_depth == 0`) -/")
    L.append(f"def getAlwaysScoped : Bool := {lean_bool(mshape == ['async-scope{_get}'])}")
    L.append("/-- `partial` enters no scope for a step without resources -/")
    L.append(f"def partialSkipsEmpty : Bool := {lean_bool(p_skips)}")
    L += ["", "end Gen.Resource"]
    return L
