import WfProofs.IterUtilsMergeThm
/-! Second invariant of the merge (C29 extension): what `stop_on_first_completion` leaves behind, and
    the collected-but-unyielded results (one per source at most, their sources idle). -/
namespace IterUtils
open Merge

theorem proj_nil_of_not_mem {i : Nat} {l : List (Nat × α)} (h : i ∉ l.map Prod.fst) : proj i l = [] := by
  induction l with
  | nil => rfl
  | cons p ps ih =>
    obtain ⟨j, v⟩ := p
    simp only [List.map_cons, List.mem_cons, not_or] at h
    rw [proj_cons, ih h.2]
    have : j ≠ i := fun e => h.1 e.symm
    simp [this]

theorem proj_length_le_one {i : Nat} {l : List (Nat × α)} (h : (l.map Prod.fst).Nodup) : (proj i l).length ≤ 1 := by
  induction l with
  | nil => simp
  | cons p ps ih =>
    obtain ⟨j, v⟩ := p
    simp only [List.map_cons, List.nodup_cons] at h
    rw [proj_cons]
    by_cases hj : j = i
    · subst hj
      simp [proj_nil_of_not_mem h.1]
    · simp only [hj, if_false, List.nil_append]
      exact ih h.2

structure XInv (m : Merge α) : Prop where
  stopEnded : m.stopped = true → ∃ i : Nat, m.slots[i]? = some Slot.ended
  goneFlag : ∀ i : Nat, m.slots[i]? = some Slot.gone → m.stopFirst = false
  restIdle : ∀ (i : Nat) (r : List (Nat × α)), m.phase = .suspended i r →
    (i :: r.map Prod.fst).Nodup ∧ ∀ j ∈ r.map Prod.fst, m.slots[j]? = some Slot.idle

theorem init_xinv (sf : Bool) (n : Nat) : XInv (Merge.init sf n : Merge α) := by
  refine ⟨by simp [Merge.init], ?_, ?_⟩
  · intro i hi
    simp only [Merge.init, List.getElem?_replicate] at hi
    split at hi <;> simp at hi
  · intro i r hp
    simp only [Merge.init] at hp
    split at hp <;> cases hp

/-- fold invariant of `for finished in done` -/
structure BInv (sf : Bool) (a : Acc α) : Prop where
  stopEnded : a.stopped = true → ∃ i : Nat, a.slots[i]? = some Slot.ended
  stopFlag : a.stopped = true → sf = true
  goneFlag : ∀ i : Nat, a.slots[i]? = some Slot.gone → sf = false
  resNodup : (a.res.map Prod.fst).Nodup
  resIdle : ∀ j ∈ a.res.map Prod.fst, a.slots[j]? = some Slot.idle

theorem set_other {slots : List (Slot α)} {i k : Nat} {s new : Slot α} (hk : slots[k]? = some s)
    (hne : slots[i]? ≠ some s) : (slots.set i new)[k]? = some s := by
  have : i ≠ k := fun e => hne (e ▸ hk)
  rw [List.getElem?_set_ne this]; exact hk

theorem collect_binv {sf : Bool} {a : Acc α} (h : BInv sf a) (i : Nat) : BInv sf (collect sf a i) := by
  unfold collect
  split
  · exact h
  · split
    · rename_i v hs
      have hi : i < a.slots.length := (List.getElem?_eq_some_iff.mp hs).1
      refine ⟨?_, h.stopFlag, ?_, ?_, ?_⟩
      · intro hst
        obtain ⟨k, hk⟩ := h.stopEnded hst
        exact ⟨k, set_other hk (by rw [hs]; simp)⟩
      · intro k hk
        by_cases hik : i = k
        · subst hik; simp [List.getElem?_set_self hi] at hk
        · rw [List.getElem?_set_ne hik] at hk; exact h.goneFlag k hk
      · simp only [List.map_append, List.map_cons, List.map_nil]
        rw [List.nodup_append]
        refine ⟨h.resNodup, by simp, ?_⟩
        intro x hx y hy
        simp only [List.mem_singleton] at hy
        subst hy
        intro e; subst e
        have := h.resIdle x hx
        rw [hs] at this; simp at this
      · intro j hj
        simp only [List.map_append, List.map_cons, List.map_nil, List.mem_append, List.mem_singleton] at hj
        rcases hj with hj | rfl
        · exact set_other (h.resIdle j hj) (by rw [hs]; simp)
        · simp [List.getElem?_set_self hi]
    · rename_i hs
      split
      · rename_i hsf
        exact ⟨fun _ => ⟨i, hs⟩, fun _ => hsf, h.goneFlag, h.resNodup, h.resIdle⟩
      · rename_i hsf
        have hsf' : sf = false := by cases sf <;> simp_all
        have hi : i < a.slots.length := (List.getElem?_eq_some_iff.mp hs).1
        refine ⟨?_, h.stopFlag, ?_, h.resNodup, ?_⟩
        · intro hst
          have := h.stopFlag hst
          simp [hsf'] at this
        · intro _ _; exact hsf'
        · intro j hj
          exact set_other (h.resIdle j hj) (by rw [hs]; simp)
    · exact ⟨h.stopEnded, h.stopFlag, h.goneFlag, h.resNodup, h.resIdle⟩
    · exact h

theorem foldl_collect_binv {sf : Bool} (order : List Nat) {a : Acc α} (h : BInv sf a) :
    BInv sf (order.foldl (collect sf) a) := by
  induction order generalizing a with
  | nil => exact h
  | cons i is ih => exact ih (collect_binv h i)

theorem loopTop_xinv {m : Merge α} (hs : m.stopped = true → ∃ i : Nat, m.slots[i]? = some Slot.ended)
    (hg : ∀ i : Nat, m.slots[i]? = some Slot.gone → m.stopFirst = false) : XInv (loopTop m) := by
  unfold loopTop
  split
  · exact ⟨hs, hg, fun i r hp => by cases hp⟩
  · exact ⟨hs, hg, fun i r hp => by cases hp⟩

theorem yieldNext_xinv {m : Merge α} {rest : List (Nat × α)}
    (hs : m.stopped = true → ∃ i : Nat, m.slots[i]? = some Slot.ended)
    (hg : ∀ i : Nat, m.slots[i]? = some Slot.gone → m.stopFirst = false)
    (hn : (rest.map Prod.fst).Nodup) (hidle : ∀ j ∈ rest.map Prod.fst, m.slots[j]? = some Slot.idle) :
    XInv (yieldNext m rest).1 := by
  cases rest with
  | nil => exact loopTop_xinv hs hg
  | cons p r =>
    obtain ⟨i, v⟩ := p
    refine ⟨hs, hg, ?_⟩
    intro i' r' hp
    simp only [yieldNext, Phase.suspended.injEq] at hp
    obtain ⟨rfl, rfl⟩ := hp
    simp only [List.map_cons] at hn hidle
    exact ⟨hn, fun j hj => hidle j (List.mem_cons_of_mem _ hj)⟩

theorem step_xinv {m m' : Merge α} {a : Act α} {em : Option (Nat × α)} (hm : MInv m) (h : XInv m)
    (hs : m.step a = some (m', em)) : XInv m' := by
  have env : ∀ (i : Nat) (new : Slot α), m.slots[i]? = some Slot.pending → new ≠ Slot.gone → new ≠ Slot.idle →
      XInv ({ m with slots := m.slots.set i new } : Merge α) ∧ True := by
    intro i new hp hng hni
    refine ⟨⟨?_, ?_, ?_⟩, trivial⟩
    · intro hst
      obtain ⟨k, hk⟩ := h.stopEnded hst
      exact ⟨k, set_other hk (by rw [hp]; simp)⟩
    · intro k hk
      by_cases hik : i = k
      · subst hik
        have hi : i < m.slots.length := (List.getElem?_eq_some_iff.mp hp).1
        simp only [List.getElem?_set_self hi, Option.some.injEq] at hk
        exact absurd hk hng
      · simp only at hk
        rw [List.getElem?_set_ne hik] at hk; exact h.goneFlag k hk
    · intro k r hph
      obtain ⟨h1, h2⟩ := h.restIdle k r hph
      exact ⟨h1, fun j hj => set_other (h2 j hj) (by rw [hp]; simp)⟩
  cases a with
  | prod i v =>
    simp only [Merge.step] at hs
    split at hs
    · split at hs
      · rename_i hp
        simp only [Option.some.injEq, Prod.mk.injEq] at hs
        obtain ⟨rfl, _⟩ := hs
        have := (env i (.item v) hp (by simp) (by simp)).1
        exact ⟨this.stopEnded, this.goneFlag, this.restIdle⟩
      · cases hs
    · cases hs
  | fin i =>
    simp only [Merge.step] at hs
    split at hs
    · split at hs
      · rename_i hp
        simp only [Option.some.injEq, Prod.mk.injEq] at hs
        obtain ⟨rfl, _⟩ := hs
        have := (env i .ended hp (by simp) (by simp)).1
        exact ⟨this.stopEnded, this.goneFlag, this.restIdle⟩
      · cases hs
    · cases hs
  | err i e =>
    simp only [Merge.step] at hs
    split at hs
    · split at hs
      · rename_i hp
        simp only [Option.some.injEq, Prod.mk.injEq] at hs
        obtain ⟨rfl, _⟩ := hs
        have := (env i (.failed e) hp (by simp) (by simp)).1
        exact ⟨this.stopEnded, this.goneFlag, this.restIdle⟩
      · cases hs
    · cases hs
  | batch order =>
    simp only [Merge.step] at hs
    split at hs
    · split at hs
      · have hb : BInv m.stopFirst
            (order.foldl (collect m.stopFirst) { slots := m.slots, exc := m.exc, stopped := m.stopped }) :=
          foldl_collect_binv order
            ⟨h.stopEnded, hm.stopFlag, h.goneFlag, by simp, by simp⟩
        split at hs
        · simp only [Option.some.injEq, Prod.mk.injEq] at hs
          obtain ⟨rfl, _⟩ := hs
          exact loopTop_xinv hb.stopEnded hb.goneFlag
        · simp only [Option.some.injEq] at hs
          have := yieldNext_xinv (m := { m with
              slots := (order.foldl (collect m.stopFirst) { slots := m.slots, exc := m.exc, stopped := m.stopped }).slots,
              exc := (order.foldl (collect m.stopFirst) { slots := m.slots, exc := m.exc, stopped := m.stopped }).exc,
              stopped := (order.foldl (collect m.stopFirst) { slots := m.slots, exc := m.exc, stopped := m.stopped }).stopped })
            hb.stopEnded hb.goneFlag hb.resNodup hb.resIdle
          rw [hs] at this
          exact this
      · cases hs
    · cases hs
  | resume =>
    simp only [Merge.step] at hs
    split at hs
    · rename_i i rest hp
      simp only [Option.some.injEq] at hs
      obtain ⟨hnd, hid⟩ := h.restIdle i rest hp
      have hnd' := List.nodup_cons.mp hnd
      have hm' : (m', em).1 = m' := rfl
      rw [← hs] at hm'
      rw [← hm']
      apply yieldNext_xinv
      · intro hst
        obtain ⟨k, hk⟩ := h.stopEnded hst
        refine ⟨k, ?_⟩
        simp only
        split
        · rename_i hidle; exact set_other hk (by rw [hidle]; simp)
        · exact hk
      · intro k hk
        simp only at hk
        split at hk
        · rename_i hidle
          by_cases hik : i = k
          · subst hik
            have hi : i < m.slots.length := (List.getElem?_eq_some_iff.mp hidle).1
            simp [List.getElem?_set_self hi] at hk
          · rw [List.getElem?_set_ne hik] at hk; exact h.goneFlag k hk
        · exact h.goneFlag k hk
      · exact hnd'.2
      · intro j hj
        simp only
        split
        · have hij : i ≠ j := fun e => hnd'.1 (e ▸ hj)
          rw [List.getElem?_set_ne hij]; exact hid j hj
        · exact hid j hj
    · cases hs

theorem exec_xinv {m m' : Merge α} (hm : MInv m) (h : XInv m) (acts : List (Act α))
    (he : m.exec acts = some m') : XInv m' := by
  induction acts generalizing m with
  | nil => simp only [Merge.exec, Option.some.injEq] at he; exact he ▸ h
  | cons a as ih =>
    simp only [Merge.exec] at he
    split at he
    · rename_i m1 em hs
      exact ih (step_inv hm hs) (step_xinv hm h hs) he
    · cases he

/-- collected-but-unyielded results and the value of a finished task never belong to the same source,
    and there is at most one of them per source -/
theorem lag_of_inv {m : Merge α} (h : XInv m) (i : Nat) :
    (proj i m.phase.rest).length + (slotItem m.slots[i]?).length ≤ 1 := by
  cases hp : m.phase with
  | waiting => simp only [Phase.rest, proj_nil, List.length_nil, Nat.zero_add]; unfold slotItem; split <;> simp
  | finished r => simp only [Phase.rest, proj_nil, List.length_nil, Nat.zero_add]; unfold slotItem; split <;> simp
  | suspended k r =>
    obtain ⟨hnd, hid⟩ := h.restIdle k r hp
    have hnd' := (List.nodup_cons.mp hnd).2
    simp only [Phase.rest]
    by_cases hmem : i ∈ r.map Prod.fst
    · rw [hid i hmem]
      have := proj_length_le_one (i := i) hnd'
      simp [slotItem]; exact this
    · rw [proj_nil_of_not_mem hmem]
      simp only [List.length_nil, Nat.zero_add]; unfold slotItem; split <;> simp

end IterUtils
