"""C17 — the client's auto-reconnecting event stream delivers each event once."""
from __future__ import annotations

import glob
import json
import os
import random
from typing import Any

from .. import sse
from ..boot import VERIF
from ..runner import Divergence, Driver, Env, Outcome, Violation, diff_streams

THEOREMS = [
    "C17_source_shape",
    "C17_exactly_once",
    "C17_never_duplicates",
    "C17_last_sequence_tracks_yield",
    "C17_gives_up_only_over_budget",
    "C17_exactly_once_any_splitter",
    "C17_httpx_splitter_refuted",
    "C17_run_is_live",
    "C17_live_never_duplicates",
    "C17_live_exactly_once",
    "C17_reconnect_cursors",
    "C17_last_sequence_at_every_yield",
    "C17_chunking_irrelevant",
    "C17_cursor_text_roundtrip",
    "C17_reader_source_shape",
    "C17_internal_filter",
    "C17_serve_source_shape",
]
LEAN_TARGETS = ["WfProps.C17"]
EXPLANATION = (
    "Lean model SseClient: the server's SSE rendering of the events after a cursor exactly as _stream_events frames it "
    "(literal pieces regenerated from _api.py; heartbeat comments in between; 204 when nothing is left and the run is "
    "complete), a connection = that rendering cut after an arbitrary number of UTF-8 bytes (or a refusal / timeout / status "
    "code), the client's line reader (split characters regenerated from client.py), its id:/data: frame parser and the "
    "reconnect loop with its failure counter. Theorems, for every log with increasing sequences whose terminal event is "
    "last, every start cursor, every heartbeat schedule and every script of refusals and drops at any byte offset whose "
    "failure counter stays within max_reconnect_attempts: the stream yields exactly the events after the cursor, in order, "
    "once each, each one showing its own sequence as last_sequence, and ends normally; for every script whatsoever "
    "(timeouts, status codes, exhausted budget) what was yielded so far is a prefix of that list with last_sequence = the "
    "last yielded sequence. The httpx splitlines reader of the pre-fix client is refuted on a U+2028 payload (F29). "
    "Tie: the REAL WorkflowClient.get_workflow_events over a scripted httpx transport that serves what the REAL "
    "_stream_events coroutine yields (real MemoryWorkflowStore, starlette name shim), cut at scripted byte offsets with "
    "httpx.ReadError and re-chunked at random sizes, compared run by run with the model driver (yielded sequence/event "
    "pairs, final last_sequence, cursors sent, result kind); the framing alone compared byte for byte; hand-written "
    "malformed bodies compared likewise. Search: exactly-once / order / last_sequence / cursor monitors stated directly "
    "on the observed real runs. "
    "Extension: (a) the log may GROW while the client streams -- runLive plays each scripted connection against the log as the server "
    "knows it when that connection ends; C17_live_never_duplicates / C17_live_exactly_once / C17_last_sequence_at_every_yield hold for "
    "every history of appends (between connections and while one is open) and every script, run being the constant history "
    "(C17_run_is_live); (b) C17_reconnect_cursors: one request per connection, the first with the start cursor, each later one with the "
    "last_sequence of a moment of the stream that only moves forward, never going back; (c) the include_internal filter of "
    "_resolve_event_stream is inside the model (204 test on all remaining events, frames for the shown ones): every theorem now "
    "quantifies over logs with InternalDispatchEvents and both flag values, C17_internal_filter says hidden events are never yielded and "
    "cost no shown event; (d) the client's line iterator chunk by chunk (iterLines; C17_chunking_irrelevant: any chunking, empty chunks "
    "included, gives the lines of the whole text), str(last_sequence) -> int(after_sequence) (C17_cursor_text_roundtrip), the consumer "
    "(streamLast); (e) regenerated and pinned: statement shapes of _iter_sse_lines, EventStream, the reconnect loop in source order, "
    "status dispatch, except clauses, request parameter / header keys, the 204 of _stream_events, the normalised source of "
    "_resolve_event_stream from the 204 test on, the set of characters int() skips (measured on the runtime: not U+001C..U+001F). "
    "New correspondence streams: live (real MemoryWorkflowStore revealed step by step, appends GROW_AT virtual seconds into an open "
    "connection), internal (real UnhandledEvents and hand-built envelopes, include_internal_events false/true on the real client), "
    "framing with hidden events, _iter_sse_lines alone on arbitrary chunkings with and without a clean end, int() / str() alone."
)
ASSUMPTIONS = [
    "EventEnvelopeWithMetadata.model_validate_json is the model parameter `valid`; theorems assume it accepts every payload the server sends "
    "(checked on every generated run: the re-dumped event equals the stored payload)",
    "payload hypothesis EnvelopeJson (text starts with '{', ends with '}', no character below U+0020: RFC 8259 output of pydantic's "
    "model_dump_json) is checked on every generated payload, not proved",
    "log hypothesis (sequences strictly increasing, a terminal event only in last position) belongs to C16; generated logs satisfy it",
    "UTF-8 incremental decoding (httpx TextDecoder: an incomplete trailing character never reaches the reader) is modelled by takeBytes",
    "the 'now' cursor and aclose()/cancellation are outside the model",
    "a growing log is modelled by one snapshot per connection (the log and status the server knows when that connection ends); the 204 "
    "decision, taken when the connection starts, is read off the same snapshot: exact for appends between connections, and for appends "
    "while a connection is open as long as the run's status turns terminal no earlier than its last append (how the harness scripts it)",
    "the include_internal flag is a field of the server snapshot (the reader sends the same flag on every connection: hypothesis Grows.view, "
    "pinned by the generated requestParams / loop shape)",
    "starlette's StreamingResponse (str chunk -> UTF-8 bytes, chunked transfer) is replaced by the scripted transport",
    "asyncio scheduling between the reader task and the consumer is exercised only on the virtual-time loop",
]
TRUSTED_EXTRA = [
    "pyshims/starlette (name-only: Request/Response classes, HTTPException, Route, ...): _api.py is imported for real, only the endpoint coroutine "
    "_stream_events is called with a fake request",
    "harness/sse.py scripted httpx.AsyncBaseTransport (re-chunking, fault injection) and ScriptedStore (MemoryWorkflowStore + virtual-time pauses)",
    "httpx 0.28 (AsyncClient, Response.aiter_text, TextDecoder)",
]

CORPUS_GLOB = os.path.join(VERIF, "harness", "corpus", "c17_*.json")

# --------------------------------------------------------------------------
# generators

ASCII_WORDS = ["hello", "a", "", "step done", "{\"nested\": [1, 2]}", "id: 7", "data: {}", ": heartbeat", "x" * 40,
               "tab\there", "quote\"back\\slash", "  padded  ", "}{", "\\u2028"]
UNI_WORDS = ["wörld ✓", "日本語テキスト", "😀🚀", "naïve café", "ǅ", " nbsp ", "　wide　", "ﬃ", "\U0001F468‍\U0001F469"]
BREAKS = [" ", " ", "\x85", "\x0b", "\x0c", "\x1c", "\x1d", "\x1e", "\r", "\n", "\r\n"]


def gen_msg(rng: random.Random) -> tuple[str, str]:
    """(message, class)"""
    m = rng.random()
    if m < 0.30:
        return rng.choice(ASCII_WORDS), "ascii"
    if m < 0.50:
        return rng.choice(UNI_WORDS) + rng.choice(["", " ", "!"]) + rng.choice(UNI_WORDS + [""]), "multibyte"
    if m < 0.78:
        parts = []
        for _ in range(rng.randint(1, 3)):
            parts.append(rng.choice(ASCII_WORDS + UNI_WORDS))
            parts.append(rng.choice(BREAKS))
        if rng.random() < 0.5:
            parts.append(rng.choice(["id: 99", "data: {\"x\":1}", "tail", ""]))
        if rng.random() < 0.15:
            parts.insert(0, rng.choice(BREAKS))
        return "".join(parts), "linebreak"
    if m < 0.86:
        n = rng.choice([1000, 4097, 9000, 20000])
        unit = rng.choice(["x", "é", "日", "😀", "ab ", "line\n"])
        return (unit * (n // len(unit) + 1))[:n], "long"
    k = rng.randint(1, 12)
    return "".join(chr(rng.choice([rng.randint(32, 126), rng.randint(0x80, 0x24F), rng.randint(0x2000, 0x206F),
                                   rng.randint(0x1, 0x1F), rng.randint(0x1F300, 0x1F64F)])) for _ in range(k)), "random"


def gen_events(rng: random.Random, internal_p: float = 0.0) -> tuple[list[dict], str]:
    """internal_p > 0: that share of the non-final events are InternalDispatchEvents (real
    `UnhandledEvent`s, or hand-built envelopes naming the class as their type / among their types)"""
    n = rng.choice([0, 1, 1, 2, 2, 3, 3, 4, 5, 6]) if not internal_p else rng.choice([1, 2, 3, 3, 4, 4, 5, 6, 7, 8])
    seq = 0 if rng.random() < 0.8 else rng.randint(1, 30)
    gaps = rng.random() < 0.2
    terminated = rng.random() < 0.75 and n > 0
    evs = []
    for i in range(n):
        msg, cls = gen_msg(rng)
        kind = "stop" if (terminated and i == n - 1) else rng.choice(["ev", "ev", "ev", "custom"])
        ev: dict = {"seq": seq, "k": i, "kind": kind, "msg": msg, "cls": cls}
        if rng.random() < 0.1:
            ev["key"] = rng.choice(["m k", "ключ", "a b", "data:"])
        if kind == "custom":
            ev["type"] = rng.choice(["Custom", "Évént", "Stop", "StopEventX"])
            ev["types"] = rng.choice([None, ["Base"], ["Événement"]])
            ev["qn"] = rng.choice([None, "pkg.mod.Custom"])
        if internal_p and kind != "stop" and rng.random() < internal_p:
            v = rng.random()
            if v < 0.6:
                ev["kind"] = "internal"
            else:
                ev["kind"] = "custom"
                ev["type"] = "InternalDispatchEvent" if v < 0.7 else rng.choice(["StepStateChanged", "Custom", "InternalDispatchEventX"])
                ev["types"] = None if v < 0.7 else rng.choice([["InternalDispatchEvent"], ["Base", "InternalDispatchEvent"],
                                                                ["InternalDispatchEvent", "Base"]])
                ev["qn"] = None
        evs.append(ev)
        seq += 1 + (rng.randint(0, 4) if gaps else 0)
    if terminated:
        status = rng.choice(["completed", "completed", "running"])
    else:
        status = rng.choice(["running", "running", "running", "failed", "cancelled"])
    return evs, status


def frame_len(ev: dict, payload: str) -> tuple[int, int, int]:
    """byte offsets inside one frame, used only to aim drops: (end of id line, start of JSON, total)"""
    a = len(f"id: {ev['seq']}\n".encode())
    b = a + len(b"data: ")
    return a, b, b + len(payload.encode("utf-8")) + 2


def gen_conns(rng: random.Random, evs: list[dict], payloads: list[str], c0: int, hb_on: bool, family: str) -> list[dict]:
    """Scripted connections.  Progress is tracked roughly (complete frames before the cut) only to
    aim the next drop; nothing is checked against this estimate."""
    conns: list[dict] = []
    remaining = [i for i, e in enumerate(evs) if e["seq"] > c0]
    n = rng.choice([0, 1, 2, 3, 4, 5, 6, 8]) if family != "budget" else rng.randint(2, 9)
    for _ in range(n):
        r = rng.random()
        conn: dict = {}
        chunks = [rng.choice([1, 2, 3, 5, 7, 16, 64, 1000, 1 << 20]) for _ in range(rng.randint(1, 4))]
        hb = [rng.choice([0, 0, 0, 1, 2]) for _ in range(len(remaining) + 1)] if hb_on and rng.random() < 0.7 else []
        beat = len(b": heartbeat\n\n")
        refuse_p = 0.25 if family != "budget" else 0.55
        if r < refuse_p:
            conn = {"f": "refuse"}
        elif r < 0.90 or family == "drops":
            # aim
            lens = [frame_len(evs[i], payloads[i]) for i in remaining]
            starts = []
            pos = 0
            for j, (a, b, t) in enumerate(lens):
                pos += (hb[j] if j < len(hb) else 0) * beat
                starts.append(pos)
                pos += t
            total = pos
            mode = rng.random()
            if not lens or mode < 0.08:
                off = rng.choice([0, 0, 1, 3])
            elif mode < 0.25:
                off = rng.randint(0, total + 30)
            else:
                j = rng.randrange(min(len(lens), 3)) if rng.random() < 0.8 else rng.randrange(len(lens))
                a, b, t = lens[j]
                where = rng.choice(["in-id", "after-id", "in-tag", "json-start", "in-json", "in-json", "before-nl", "between-nl",
                                    "frame-end", "next-first", "in-beat"])
                off = starts[j] + {
                    "in-id": rng.randint(1, max(1, a - 2)),
                    "after-id": a,
                    "in-tag": a + rng.randint(1, 5),
                    "json-start": b,
                    "in-json": rng.randint(b + 1, max(b + 1, t - 3)),
                    "before-nl": t - 2,
                    "between-nl": t - 1,
                    "frame-end": t,
                    "next-first": t + 1,
                    "in-beat": -rng.randint(1, beat) if (j < len(hb) and hb[j]) else 0,
                }[where]
                off = max(0, off)
                conn["aim"] = where
            conn.update({"f": "drop", "n": min(off, total + 40), "chunks": chunks, "hb": hb})
            # rough progress: frames wholly before the cut (their data line complete)
            done = 0
            for j, (a, b, t) in enumerate(lens):
                if starts[j] + t - 1 <= conn["n"]:
                    done = j + 1
            remaining = remaining[done:]
        elif r < 0.93:
            conn = {"f": "none", "chunks": chunks, "hb": hb}
        elif r < 0.95:
            conn = {"f": "tconn"}
        elif r < 0.97:
            conn = {"f": "tread", "n": rng.randint(0, 200), "chunks": chunks, "hb": hb}
        else:
            conn = {"f": "status", "code": rng.choice([204, 404, 400, 500, 503, 301])}
        conns.append(conn)
    conns.append({"f": "none", "chunks": [rng.choice([1, 4, 13, 100, 1 << 20]) for _ in range(rng.randint(1, 3))],
                  "hb": [rng.choice([0, 0, 1]) for _ in range(len(remaining) + 1)] if hb_on else []})
    return conns


def gen_case(rng: random.Random, family: str = "mixed") -> dict:
    if family == "internal":
        # the include_internal filter: logs with hidden events at the start, between shown ones, at the end
        evs, status = gen_events(rng, internal_p=rng.choice([0.3, 0.5, 0.8]))
        incl = rng.random() < 0.3
        case = _case_around(rng, evs, status, rng.choice(["mixed", "drops", "drops", "budget"]),
                            shown=None if incl else [i for i, e in enumerate(evs) if not sse.is_internal(e)])
        case["family"] = "internal"
        case["incl"] = incl
        return case
    evs, status = gen_events(rng)
    return _case_around(rng, evs, status, family)


def _case_around(rng: random.Random, evs: list[dict], status: str, family: str, shown: list[int] | None = None) -> dict:
    """shown: indices of the events that produce a frame (drops are aimed at those frames)"""
    payloads = [sse.payload_of(e) for e in evs]
    seqs = [e["seq"] for e in evs]
    r = rng.random()
    if r < 0.55 or not seqs:
        c0: Any = -1 if rng.random() < 0.9 else "D"
    elif r < 0.85:
        c0 = rng.choice(seqs)
    else:
        c0 = rng.randint(-3, max(seqs) + 2)
    c0n = -1 if c0 == "D" else c0
    hb_on = rng.random() < 0.35
    if family == "budget":
        mx: Any = rng.choice([0, 1, 1, 2, 2, 3])
    else:
        mx = rng.choice([0, 1, 2, 3, 3, 4, 5, 5, "D"])
    aim_evs = evs if shown is None else [evs[i] for i in shown]
    aim_payloads = payloads if shown is None else [payloads[i] for i in shown]
    return {"events": evs, "status": status, "c0": c0, "max": mx, "hb": 5.0 if hb_on else None,
            "conns": gen_conns(rng, aim_evs, aim_payloads, c0n, hb_on, family), "family": family}


# ---- a log that grows while the client streams


def gen_live_case(rng: random.Random) -> dict:
    """The run appends its events between the scripted connections ("vis": how many events are in the
    store when the connection is made) and, on some connections, while the connection is open ("vis2":
    how many there are after the append, which happens GROW_AT virtual seconds after the response
    started).  Only the last connection is undisturbed, and it sees the whole log."""
    while True:
        evs, status = gen_events(rng)
        if len(evs) >= 2:
            break
    n = len(evs)
    payloads = [sse.payload_of(e) for e in evs]
    seqs = [e["seq"] for e in evs]
    r = rng.random()
    c0: Any = (-1 if rng.random() < 0.85 else "D") if r < 0.6 else (rng.choice(seqs[:-1]) if r < 0.9 else rng.randint(-3, seqs[-1] + 1))
    c0n = -1 if c0 == "D" else c0
    mid = rng.random() < 0.6          # appends while a connection is open (heartbeats off then)
    hb_on = (not mid) and rng.random() < 0.3
    beat = len(b": heartbeat\n\n")
    conns: list[dict] = []
    vis = rng.choice([0, 0, 1, 1, 2]) if n > 2 else rng.choice([0, 1])
    cursor = c0n                      # rough estimate of the client's cursor, only to aim the drops
    for _ in range(rng.choice([1, 2, 2, 3, 3, 4, 5, 6])):
        vis = min(n, vis + rng.choice([0, 0, 1, 1, 2, 3]))
        conn: dict = {"vis": vis}
        vend = vis
        if mid and vis < n and c0n < seqs[vis] and rng.random() < 0.6:
            vend = min(n, vis + rng.choice([1, 1, 2, 3]))
            conn["vis2"] = vend
        x = rng.random()
        if x < 0.22:
            conn["f"] = "refuse"
        elif x < 0.90:
            rem = [i for i in range(vend) if seqs[i] > cursor]
            hb = [rng.choice([0, 0, 0, 1, 2]) for _ in range(len(rem) + 1)] if hb_on and rng.random() < 0.7 else []
            lens = [frame_len(evs[i], payloads[i]) for i in rem]
            starts, pos = [], 0
            for j, (a, b, t) in enumerate(lens):
                pos += (hb[j] if j < len(hb) else 0) * beat
                starts.append(pos)
                pos += t
            if not lens or rng.random() < 0.15:
                off = rng.choice([0, 1, 3, pos + 5])
                conn["aim"] = "any"
            else:
                j = rng.randrange(len(lens))
                a, b, t = lens[j]
                where = rng.choice(["in-id", "after-id", "in-tag", "json-start", "in-json", "in-json", "before-nl", "between-nl",
                                    "frame-end", "next-first"])
                off = starts[j] + {"in-id": rng.randint(1, max(1, a - 2)), "after-id": a, "in-tag": a + rng.randint(1, 5),
                                   "json-start": b, "in-json": rng.randint(b + 1, max(b + 1, t - 3)), "before-nl": t - 2,
                                   "between-nl": t - 1, "frame-end": t, "next-first": t + 1}[where]
                conn["aim"] = where
            conn.update({"f": "drop" if x < 0.84 else "tread", "n": max(0, off),
                         "chunks": [rng.choice([1, 2, 3, 5, 7, 16, 64, 1000, 1 << 20]) for _ in range(rng.randint(1, 4))], "hb": hb})
            for j, (a, b, t) in enumerate(lens):
                if starts[j] + t - 1 <= conn["n"]:
                    cursor = seqs[rem[j]]
        elif x < 0.94:
            conn["f"] = "tconn"
        else:
            conn.update({"f": "status", "code": rng.choice([404, 500, 503])})
        conns.append(conn)
        vis = vend
    rem = [i for i in range(n) if seqs[i] > cursor]
    conns.append({"f": "none", "vis": n, "chunks": [rng.choice([1, 4, 13, 100, 1 << 20]) for _ in range(rng.randint(1, 3))],
                  "hb": [rng.choice([0, 0, 1]) for _ in range(len(rem) + 1)] if hb_on else []})
    mx: Any = rng.choice([1, 2, 3, 3, 4, 5, "D"]) if rng.random() < 0.8 else rng.choice([0, 1])
    return {"events": evs, "status": status, "c0": c0, "max": mx, "hb": 5.0 if hb_on else None, "conns": conns,
            "family": "live", "live": True}


# ---- the line iterator, int() and str() on their own

LINE_PIECES = ["id: 5", "data: {\"k\":1}", "data: {\"m\":\"a\u2028b\"}", ": heartbeat", "", "x", " ", "\r", "é", "日本", "😀", "\x85", "\x0b", "\x0c",
               "\x1c", "\u2029", "id:", "tail"]


def gen_chunks(rng: random.Random) -> tuple[list[str], bool]:
    text = ""
    for _ in range(rng.randint(0, 8)):
        text += rng.choice(LINE_PIECES)
        if rng.random() < 0.75:
            text += rng.choice(["\n", "\n", "\n\n", "\r\n"])
    chunks: list[str] = []
    pos = 0
    while pos < len(text):
        if rng.random() < 0.12:
            chunks.append("")
        k = rng.choice([1, 1, 2, 3, 5, 8, 20, 1000])
        chunks.append(text[pos:pos + k])
        pos += k
    if rng.random() < 0.2:
        chunks.append("")
    return chunks, rng.random() < 0.6


INT_DIGITS = "0123456789" + "٠١٢٣٤٥٦٧٨٩" + "०१२" + "０１９" + "𝟘𝟡"
INT_OTHER = ["_", "_", "+", "-", " ", "\t", "\n", "\u2028", "\xa0", "\x1c", "x", ".", "e", "²", "Ⅷ", "__", "٫", ""]


def gen_int_text(rng: random.Random) -> str:
    r = rng.random()
    if r < 0.15:
        return rng.choice(ID_TEXTS)
    if r < 0.45:
        return rng.choice(["", "", " ", "-", "+"]) + "".join(rng.choice(INT_DIGITS[:10]) for _ in range(rng.randint(1, 25))) + rng.choice(["", "", " ", "\n"])
    parts = [rng.choice(["", "", " ", "\t", "\u3000"]), rng.choice(["", "", "-", "+", "- ", "+-"])]
    for _ in range(rng.randint(0, 6)):
        parts.append(rng.choice(INT_DIGITS) if rng.random() < 0.75 else rng.choice(INT_OTHER))
    parts.append(rng.choice(["", "", " ", "\r\n", "\x85"]))
    return "".join(parts)


# ---- hand-written bodies (malformed-stream correspondence)

VALID_JSON = [
    '{"value":{"k":0},"qualified_name":null,"type":"A","types":null}',
    '{"value":{"k":1,"m":"x y"},"qualified_name":"q.B","type":"B","types":["Base"]}',
    '{"value":{"k":2,"m":"é😀"},"qualified_name":null,"type":"StopEvent","types":null}',
    '{ "value" : {"k": 3}, "qualified_name": null, "type": "C", "types": null }',
]
JUNK_JSON = ["{}", "nope", "{", '{"type":1}', "[1,2]", '{"value":{},"type":"A"}', "", "null", '{"value":{"k":0},"qualified_name":null,"type":"A","types":null}x']
ID_TEXTS = ["0", "1", "5", "12", " 7 ", "+3", "-2", "1_0", "007", "x", "", "1__0", "_1", "1_", "3.0", "1e3", "0x10", "- 4", "４"]
OTHER_LINES = [": heartbeat", ":", "event: message", "retry: 1000", "id", "data", "idx: 4", "datax: {}", " ", " ", "　 ", "   ",
               "ID: 9", "Data: {}", ":id: 4"]
EOLS = ["\n", "\n", "\n", "\r\n", "\n\n"]


def gen_raw_case(rng: random.Random) -> dict:
    conns = []
    nconn = rng.randint(1, 4)
    for ci in range(nconn):
        lines = []
        for _ in range(rng.randint(0, 9)):
            r = rng.random()
            if r < 0.30:
                sp = rng.choice(["", " ", "  ", "\t", " "])
                lines.append(rng.choice(["", " ", "\t"]) + "id:" + sp + rng.choice(ID_TEXTS) + rng.choice(["", " ", "\r"]))
            elif r < 0.62:
                sp = rng.choice(["", " ", "   ", "\t"])
                js = rng.choice(VALID_JSON) if rng.random() < 0.85 else rng.choice(JUNK_JSON)
                lines.append(rng.choice(["", "", " "]) + "data:" + sp + js + rng.choice(["", "", " ", " "]))
            elif r < 0.80:
                lines.append("")
            else:
                lines.append(rng.choice(OTHER_LINES))
        body = "".join(l + rng.choice(EOLS) for l in lines)
        if rng.random() < 0.35:
            # unterminated tail: only a clean end of stream flushes it
            body += rng.choice(["data: " + VALID_JSON[0], "id: 44", "data: " + VALID_JSON[2] + " ", "data: {", ": tail", "\r", " "])
        last = ci == nconn - 1
        r = rng.random()
        nbytes = len(body.encode("utf-8"))
        chunks = [rng.choice([1, 2, 3, 7, 50, 1 << 20]) for _ in range(rng.randint(1, 3))]
        if last or r < 0.12:
            conn = {"f": "none", "body": body, "closes": rng.random() < 0.85, "chunks": chunks}
        elif r < 0.70:
            conn = {"f": "drop", "n": rng.randint(0, nbytes + 2), "body": body, "closes": True, "chunks": chunks}
        elif r < 0.82:
            conn = {"f": "refuse"}
        elif r < 0.88:
            conn = {"f": "tread", "n": rng.randint(0, nbytes), "body": body, "closes": True, "chunks": chunks}
        elif r < 0.94:
            conn = {"f": "none", "body": "", "status": rng.choice([204, 404, 500, 200, 201]), "closes": True}
        else:
            conn = {"f": "status", "code": rng.choice([204, 404, 500, 302])}
        conns.append(conn)
    return {"raw": True, "c0": rng.choice([-1, -1, 0, 3, "D"]), "max": rng.choice([0, 1, 2, 3, "D"]), "conns": conns,
            "family": "raw"}


# --------------------------------------------------------------------------
# op lines and canonical forms


def cps(s: str) -> str:
    return ",".join(str(ord(c)) for c in s)


def fault_tok(conn: dict) -> str:
    f = conn.get("f", "none")
    return {"none": "n", "refuse": "r", "tconn": "tc"}.get(f) or (
        f"d{conn['n']}" if f == "drop" else f"tr{conn['n']}" if f == "tread" else f"s{conn['code']}")


def conn_tok(conn: dict) -> str:
    raw = ""
    if "body" in conn:
        if conn.get("status") is not None:
            raw = f"S{conn['status']}"
        else:
            raw = f"B{1 if conn.get('closes', True) else 0}:{cps(conn['body'])}"
    return f"{fault_tok(conn)}~{','.join(map(str, conn.get('hb', [])))}~{raw}"


def live_conn_tok(case: dict, conn: dict) -> str:
    """the snapshot of that connection: the events in the store by the time it ends, and whether the
    handler's status is terminal by then"""
    vend = conn.get("vis2", conn["vis"])
    sd = 1 if (vend >= len(case["events"]) and status_done(case)) else 0
    return f"{conn_tok(conn)}~{vend}:{sd}"


def status_done(case: dict) -> bool:
    return case.get("status", "running") in ("completed", "failed", "cancelled")


def op_line(case: dict, payloads: list[str], terminals: list[bool]) -> str:
    if case.get("raw"):
        evs = ""
        valid = ";".join(cps(v) for v in VALID_JSON)
        sd = "0"
    else:
        evs = ev_tokens(case["events"], payloads, terminals)
        valid = ""
        sd = "1" if status_done(case) else "0"
    # the trailing field is the include_internal flag the real client sends (its default: false)
    incl = ["1" if case["incl"] else "0"] if "incl" in case else []
    if case.get("live"):
        return "|".join(["live", str(case["max"]), str(case["c0"]), evs, valid, ";".join(live_conn_tok(case, c) for c in case["conns"])] + incl)
    return "|".join(["run", str(case["max"]), str(case["c0"]), sd, evs, valid, ";".join(conn_tok(c) for c in case["conns"])] + incl)


def ev_tokens(evs: list[dict], payloads: list[str], terminals: list[bool]) -> str:
    """`seq:terminal:codepoints`, with a fourth field `I` for an InternalDispatchEvent"""
    return ";".join(f"{e['seq']}:{1 if t else 0}:{cps(p)}" + (":I" if sse.is_internal(e) else "")
                    for e, p, t in zip(evs, payloads, terminals))


def impl_line(case: dict, obs: dict, payloads: list[str]) -> str:
    items = []
    for ls, dump in obs["yielded"]:
        if case.get("raw"):
            tag = "?"
            for i, v in enumerate(VALID_JSON):
                if _same_json(v, dump):
                    tag = f"v{i}"
                    break
        else:
            tag = str(payloads.index(dump)) if dump in payloads else "?"
        items.append(f"{ls}@{tag}")
    return f"res={obs['res']} last={obs['final_last']} out={','.join(items)} reqs={','.join(str(r) for r in obs['reqs'])}"


def _same_json(a: str, b: str) -> bool:
    try:
        return json.loads(a) == json.loads(b)
    except ValueError:
        return False


# --------------------------------------------------------------------------
# monitors (stated on the real run only)


def budget_ok(case: dict) -> bool:
    """The failure counter as the property describes it: +1 per refused connection, back to 1 at a
    connection that was established and then dropped; within budget iff it never exceeds the limit."""
    mx = 3 if case["max"] == "D" else case["max"]
    a = 0
    for c in case["conns"]:
        f = c.get("f", "none")
        if f == "refuse":
            a += 1
        elif f == "drop":
            a = 1
        if a > mx:
            return False
    return True


def monitor(case: dict, obs: dict, payloads: list[str], terminals: list[bool]) -> list[Violation]:
    res: list[Violation] = []
    evs = case["events"]
    c0 = -1 if case["c0"] == "D" else case["c0"]
    later = [i for i, e in enumerate(evs) if e["seq"] > c0]
    # the consumer asked for internal events or not (client default: not); hidden ones must never be yielded
    incl = bool(case.get("incl", False))
    expected: list[int] = []
    for i in later:
        if incl or not sse.is_internal(evs[i]):
            expected.append(i)
        if terminals[i]:
            break
    got: list[int] = []
    fam = "linebreak" if any(ch in p for p in payloads for ch in "\x85\u2028\u2029") else "plain"
    for pos, (ls, dump) in enumerate(obs["yielded"]):
        idx = payloads.index(dump) if dump in payloads else None
        if idx is None:
            res.append(Violation("C17/foreign-event", f"yielded an event that is not in the log: {dump[:120]!r}", case))
            return res
        if not incl and sse.is_internal(evs[idx]):
            res.append(Violation("C17/internal-event-yielded", f"include_internal_events=False but the stream yielded the internal event "
                                 f"with sequence {evs[idx]['seq']}", case))
            return res
        got.append(idx)
        if ls != evs[idx]["seq"]:
            res.append(Violation("C17/last-sequence-mismatch",
                                 f"after yielding the event with sequence {evs[idx]['seq']} last_sequence was {ls!r}", case))
            return res
    if got != expected[: len(got)]:
        kind = "duplicate" if len(set(got)) < len(got) else ("reordered" if sorted(got) != got else "skipped")
        if kind == "skipped" and any(g not in expected for g in got):
            kind = "outside-range"
        res.append(Violation(f"C17/not-exactly-once[{kind}]",
                             f"expected the events at log positions {expected} (after cursor {c0}), got {got}", case))
        return res
    want_last = evs[got[-1]]["seq"] if got else c0
    if obs["final_last"] != want_last or obs["initial_last"] != c0:
        res.append(Violation("C17/last-sequence-mismatch",
                             f"final last_sequence {obs['final_last']!r} (initial {obs['initial_last']!r}); last yielded sequence {want_last}", case))
    if obs["res"] == "parse":
        res.append(Violation(f"C17/stream-died-validation[{fam}]",
                             f"the stream raised a validation error after {len(got)} of {len(expected)} events: {obs.get('exc', '')[:160]}", case))
        return res
    if obs["res"].startswith("other:"):
        res.append(Violation(f"C17/unexpected-error[{obs['res']}]", obs.get("exc", "")[:200], case))
        return res
    seqs = {str(e["seq"]) for e in evs} | {str(c0)}
    reqs = obs["reqs"]
    if reqs and (reqs[0] != str(c0) or any(r not in seqs for r in reqs)
                 or any(int(a) > int(b) for a, b in zip(reqs, reqs[1:]))):
        res.append(Violation("C17/bad-reconnect-cursor", f"after_sequence values sent: {reqs}; start cursor {c0}", case))
    only_drops = all(c.get("f", "none") in ("refuse", "drop", "none") for c in case["conns"])
    if only_drops and budget_ok(case):
        if obs["res"] == "conn":
            res.append(Violation("C17/gave-up-within-budget", f"ConnectionError although the failure counter stays within "
                                 f"max_reconnect_attempts={case['max']}: {[c.get('f') for c in case['conns']]}", case))
        elif got != expected:
            res.append(Violation("C17/incomplete-within-budget", f"ended with {obs['res']} after {got}, expected {expected}", case))
        elif obs["res"] == "pending" and (any(terminals) or status_done(case) and not later):
            res.append(Violation("C17/never-finishes", "all events delivered, the run is over, but the stream did not end", case))
    if only_drops and not budget_ok(case) and obs["res"] in ("done", "pending") and got != expected:
        res.append(Violation("C17/incomplete-without-error", f"ended {obs['res']} with {got}, expected {expected}", case))
    return res


def payload_hypothesis(payload: str) -> bool:
    return len(payload) >= 2 and payload[0] == "{" and payload[-1] == "}" and all(ord(ch) >= 0x20 for ch in payload)


# --------------------------------------------------------------------------


def load_corpus() -> list[dict]:
    cases = []
    for fp in sorted(glob.glob(CORPUS_GLOB)):
        data = json.load(open(fp))
        cases.append(data["payload"]["case"])
    return cases


def classify_conn_count(obs: dict) -> str:
    n = len(obs["reqs"])
    return f"connections:{n if n < 6 else '6+'}"


def run(env: Env) -> Outcome:
    out = Outcome()
    out.rule = ("logs of 0-6 events (ASCII / multi-byte / str.splitlines characters / 1-20 kB payloads, gaps in sequences, with and "
                "without a terminal event) x start cursor x max_reconnect_attempts 0..5 or default x scripts of refusals, drops aimed at "
                "every part of a frame, timeouts, status codes x heartbeat schedules x random re-chunking; plus hand-written malformed "
                "bodies; plus logs that grow between the scripted connections and while a connection is open; plus logs with "
                "InternalDispatchEvents (real UnhandledEvents, hand-built envelopes naming the class) under include_internal false/true; "
                "plus the line iterator alone on arbitrary chunkings, int() and str() alone; "
                "non-trivial = at least one reconnect and one event; distinct by case")
    rng = random.Random(env.rng.randrange(1 << 30))
    cases: list[dict] = []
    if env.replay is not None:
        cases.append(env.replay["payload"]["case"])
    cases += load_corpus()
    n = env.budget(800, 16000)
    for i in range(n):
        fam = "mixed" if i % 4 < 2 else ("drops" if i % 4 == 2 else "budget")
        cases.append(gen_case(rng, fam))
    for _ in range(env.budget(350, 6000)):
        cases.append(gen_raw_case(rng))
    rng_live = random.Random(rng.randrange(1 << 30))
    for _ in range(env.budget(300, 6000)):
        cases.append(gen_live_case(rng_live))
    for _ in range(env.budget(300, 5000)):
        cases.append(gen_case(rng_live, "internal"))

    ops: list[str] = []
    impl: list[str] = []
    ctx: list[dict] = []
    for case in cases:
        if case.get("raw"):
            payloads: list[str] = []
            terminals: list[bool] = []
        else:
            payloads = [sse.payload_of(e) for e in case["events"]]
            terminals = [sse.is_terminal(e) for e in case["events"]]
            for p in payloads:
                if not payload_hypothesis(p):
                    out.violations.append(Violation("C17/payload-hypothesis",
                                                    f"model_dump_json produced a payload outside the theorem's hypothesis: {p[:80]!r}", case))
        obs = sse.run_real(case)
        out.evaluations += 1
        ops.append(op_line(case, payloads, terminals))
        impl.append(impl_line(case, obs, payloads))
        ctx.append(case)
        fam = case.get("family", "corpus")
        out.count("family:" + fam)
        out.count("result:" + obs["res"].split(":")[0])
        out.count(classify_conn_count(obs))
        for c in case["conns"]:
            out.count("fault:" + c.get("f", "none"))
            if c.get("aim"):
                out.count("drop-aim:" + c["aim"])
        if not case.get("raw"):
            for e in case["events"]:
                out.count("payload:" + e.get("cls", "corpus"))
            if case.get("hb"):
                out.count("heartbeats:on")
            if "incl" in case:
                hid = [sse.is_internal(e) for e in case["events"]]
                out.count("internal:include_internal=" + ("true" if case["incl"] else "false"))
                out.count("internal:internal-events-in-log:%s" % (sum(hid) if sum(hid) < 4 else "4+"))
                if hid and hid[-1]:
                    out.count("internal:log-ends-with-internal-event")
                if any(a and not b for a, b in zip(hid, hid[1:])):
                    out.count("internal:internal-before-shown")
            if case.get("live"):
                vs = [c["vis"] for c in case["conns"]]
                out.count("live:appends-between-connections:%d" % min(3, sum(1 for a, b in zip(vs, vs[1:]) if b > a)))
                out.count("live:appends-while-open:%d" % min(3, sum(1 for c in case["conns"] if c.get("vis2") is not None)))
                out.count("live:first-connection-sees:%s" % ("nothing" if vs[0] == 0 else "part"))
            out.violations += monitor(case, obs, payloads, terminals)
        if len(obs["reqs"]) > 1 and obs["yielded"]:
            out.nontrivial(json.dumps(case, sort_keys=True, default=repr))
        out.sample({"family": fam, "c0": case["c0"], "max": case["max"], "faults": [fault_tok(c) for c in case["conns"]][:8],
                    "events": len(case.get("events", [])), "result": impl[-1][:160]})

    # ---- framing alone: the body the real endpoint produces vs the model's rendering
    ops2: list[str] = []
    impl2: list[str] = []
    for _ in range(env.budget(200, 3000)):
        evs, status = gen_events(rng)
        case = {"events": evs, "status": status, "hb": 5.0 if rng.random() < 0.4 else None}
        seqs = [e["seq"] for e in evs]
        cur = rng.choice([-1, -1] + seqs + [rng.randint(-2, (max(seqs) if seqs else 0) + 2)])
        payloads = [sse.payload_of(e) for e in evs]
        terminals = [sse.is_terminal(e) for e in evs]
        nlater = len([s for s in seqs if s > cur])
        hb = [rng.choice([0, 0, 1, 2]) for _ in range(nlater)] if case["hb"] else []
        # trailing heartbeats of a stream that never closes are timing, not framing: compare with hb off
        if not any(t and s > cur for t, s in zip(terminals, seqs)) and not (nlater == 0 and (status != "running" or (terminals and terminals[-1]))):
            case["hb"] = None
            hb = []
        st, body, closed = sse.run_serve(case, str(cur), hb)
        out.evaluations += 1
        out.count("framing:" + ("204" if st == 204 else "stream"))
        evtok = ";".join(f"{e['seq']}:{1 if t else 0}:{cps(p)}" for e, p, t in zip(evs, payloads, terminals))
        ops2.append("|".join(["serve", str(cur), "1" if status_done(case) else "0", evtok, ",".join(map(str, hb))]))
        impl2.append(f"status={st}" if body is None else f"stream closes={1 if closed else 0} body={cps(body)}")
        ctx.append({"framing": True, "events": evs, "status": status, "cursor": cur, "hb": hb, "hb_interval": case["hb"]})

    # ---- framing with hidden events: what is framed, when the answer is 204, when the stream closes
    rng_f = random.Random(rng.randrange(1 << 30))
    for _ in range(env.budget(150, 2500)):
        evs, status = gen_events(rng_f, internal_p=rng_f.choice([0.3, 0.5, 0.8]))
        case = {"events": evs, "status": status, "hb": 5.0 if rng_f.random() < 0.4 else None, "incl": rng_f.random() < 0.3}
        seqs = [e["seq"] for e in evs]
        cur = rng_f.choice([-1, -1] + seqs + [rng_f.randint(-2, max(seqs) + 2)])
        payloads = [sse.payload_of(e) for e in evs]
        terminals = [sse.is_terminal(e) for e in evs]
        nlater = len([s for s in seqs if s > cur])
        nshown = len([e for e in evs if e["seq"] > cur and (case["incl"] or not sse.is_internal(e))])
        hb = [rng_f.choice([0, 0, 1, 2]) for _ in range(nshown)] if case["hb"] else []
        if not any(t and s > cur for t, s in zip(terminals, seqs)) and not (nlater == 0 and (status != "running" or terminals[-1])):
            case["hb"] = None
            hb = []
        st, body, closed = sse.run_serve(case, str(cur), hb)
        out.evaluations += 1
        out.count("framing-internal:" + ("204" if st == 204 else ("empty-stream" if not body else "stream")))
        out.count("framing-internal:include_internal=" + ("true" if case["incl"] else "false"))
        ops2.append("|".join(["serve", str(cur), "1" if status_done(case) else "0", ev_tokens(evs, payloads, terminals),
                              ",".join(map(str, hb)), "1" if case["incl"] else "0"]))
        impl2.append(f"status={st}" if body is None else f"stream closes={1 if closed else 0} body={cps(body)}")
        ctx.append({"framing": True, "events": evs, "status": status, "cursor": cur, "hb": hb, "hb_interval": case["hb"], "incl": case["incl"]})

    # ---- the client's line iterator alone: arbitrary chunkings, with and without a clean end
    ops3: list[str] = []
    impl3: list[str] = []
    rng3 = random.Random(rng.randrange(1 << 30))
    for i in range(env.budget(300, 5000)):
        chunks, eof = gen_chunks(rng3)
        ops3.append("|".join(["lines", "1" if eof else "0", ";".join("c" + cps(c) for c in chunks)]))
        impl3.append(sse.run_iter_lines(chunks, eof))
        out.evaluations += 1
        out.count("lines:" + ("clean-end" if eof else "cut"))
        out.count("lines:chunks:%s" % (len(chunks) if len(chunks) < 4 else "4+"))
        if any(c == "" for c in chunks):
            out.count("lines:has-empty-chunk")
        ctx.append({"lines": True, "chunks": chunks, "eof": eof})
    # ---- int() as the server / the frame parser apply it, str() as the reader applies it
    for i in range(env.budget(400, 6000)):
        t = gen_int_text(rng3)
        try:
            got = f"int={int(t)}"
        except ValueError:
            got = "int=error"
        ops3.append("int|" + cps(t))
        impl3.append(got)
        out.count("int:" + ("ok" if got != "int=error" else "error"))
        ctx.append({"int": True, "text": t})
    for i in range(env.budget(100, 1500)):
        nn = rng3.choice([-1, 0, 1, 9, 10, -10, 99, 100, 12345678901234567890]) if rng3.random() < 0.3 else rng3.randint(-2000, 10 ** rng3.randint(1, 12))
        txt = str(nn)
        ops3.append(f"cursor|{nn}")
        impl3.append(f"text={cps(txt)} back={int(txt)}")
        out.count("cursor:" + ("negative" if nn < 0 else "non-negative"))
        ctx.append({"cursor": True, "n": nn})
    out.evaluations += env.budget(500, 7500)

    # ---- malformed protocol lines
    bad_ops = ["", "run", "run|x|-1|0|||", "run|3|-1|0|0:2:65||n~~", "run|3|-1|0|||q~~", "serve|a|0||", "run|3|-1|0|||d~~", "nonsense|1",
               "live|3|-1|||n~~", "live|3|-1|||n~~~1", "lines|2|", "lines|1|105", "int|x", "cursor|1.5"]
    bad_exp = ["bad-op"] * len(bad_ops)

    try:
        model_out = Driver("sseclient").run(ops + ops2 + ops3 + bad_ops)
    except Exception as e:  # noqa: BLE001
        out.divergences.append(Divergence("sseclient", 0, "<driver>", repr(e), ""))
        return out
    all_ops = ops + ops2 + ops3 + bad_ops
    all_impl = impl + impl2 + impl3 + bad_exp
    out.traces_validated = len(all_ops)
    out.disagreements_checked = len(all_ops)
    d = diff_streams("sseclient", [o[:400] for o in all_ops], model_out, all_impl)
    if d is not None:
        d.model_out = d.model_out[:600]
        d.impl_out = d.impl_out[:600]
        if d.index < len(ctx):
            d.context = ctx[d.index]
            # a correspondence failure on a well-formed case is also reported as a replayable input
            if not any(ctx[d.index].get(k) for k in ("framing", "lines", "int", "cursor")):
                out.violations.append(Violation("C17/model-disagrees", f"model: {d.model_out[:200]} / implementation: {d.impl_out[:200]}",
                                                ctx[d.index]))
        out.divergences.append(d)
    return out
