import WfProofs.Version
/-!
`is_rc_version` (`isRc`) on the two printed spellings: it answers exactly whether
the version carries a pre-release.
-/
namespace Version

theorem rcAt_false_of_head {c : Char} {cs : List Char} (h1 : c ≠ '-') (h2 : c ≠ 'r') (h3 : c ≠ 'a') (h4 : c ≠ 'b') :
    rcAt (c :: cs) = false := by
  have e1 : ('-' == c) = false := by simpa using Ne.symm h1
  have e2 : ('r' == c) = false := by simpa using Ne.symm h2
  have e3 : ('a' == c) = false := by simpa using Ne.symm h3
  have e4 : ('b' == c) = false := by simpa using Ne.symm h4
  simp [rcAt, digitAfter, List.isPrefixOf, e1, e2, e3, e4]

theorem rcAt_false_of_dig_or_dot {c : Char} {cs : List Char} (h : isDig c = true ∨ c = '.') : rcAt (c :: cs) = false := by
  apply rcAt_false_of_head <;> intro hc <;> subst hc <;> rcases h with h | h <;> simp [isDig] at h

theorem isRc_false_of_plain (s : List Char) (h : ∀ c ∈ s, isDig c = true ∨ c = '.') : isRc s = false := by
  induction s with
  | nil => rfl
  | cons c cs ih =>
    simp only [isRc, Bool.or_eq_false_iff]
    exact ⟨rcAt_false_of_dig_or_dot (h c (by simp)), ih (fun d hd => h d (by simp [hd]))⟩

theorem isRc_append_of_rcAt (x y : List Char) (h : rcAt y = true) : isRc (x ++ y) = true := by
  induction x with
  | nil =>
    cases y with
    | nil => simp [rcAt, digitAfter] at h
    | cons c cs => simp [isRc, h]
  | cons a x ih => simp [isRc, ih]

theorem plain_dotTail (xs : List (List Char)) (h : ∀ x ∈ xs, DigRun x) : ∀ c ∈ dotTail xs, isDig c = true ∨ c = '.' := by
  induction xs with
  | nil => simp [dotTail]
  | cons x xs ih =>
    intro c hc
    simp only [dotTail, List.mem_cons, List.mem_append] at hc
    rcases hc with (hc | hc) | hc
    · exact Or.inr hc
    · exact Or.inl ((h x (by simp)).2 c hc)
    · exact ih (fun y hy => h y (by simp [hy])) c hc

theorem plain_joinDot (xs : List (List Char)) (h : ∀ x ∈ xs, DigRun x) : ∀ c ∈ joinDot xs, isDig c = true ∨ c = '.' := by
  cases xs with
  | nil => simp [joinDot]
  | cons x xs =>
    intro c hc
    simp only [joinDot, List.mem_append] at hc
    rcases hc with hc | hc
    · exact Or.inl ((h x (by simp)).2 c hc)
    · exact plain_dotTail xs (fun y hy => h y (by simp [hy])) c hc

theorem rcAt_label_num (l : Label) (num : List Char) (h : DigRun num) : rcAt (l.chars ++ num) = true := by
  cases num with
  | nil => exact absurd rfl h.1
  | cons d t =>
    have hd : isDecimal d = true := isDecimal_of_isDig (h.2 d (by simp))
    cases l <;> simp [rcAt, digitAfter, Label.chars, List.isPrefixOf, hd]

theorem rcAt_dash_label (l : Label) (rest : List Char) : rcAt ('-' :: l.chars ++ rest) = true := by
  cases l <;> simp [rcAt, Label.chars, List.isPrefixOf]

theorem isRc_pep (r : Raw) (h : r.WF) : isRc r.pep = r.pre.isSome := by
  obtain ⟨_, hc, hp⟩ := h
  unfold Raw.pep
  cases hpre : r.pre with
  | none => simpa using isRc_false_of_plain _ (plain_joinDot r.comps hc)
  | some p =>
    obtain ⟨l, num⟩ := p
    simpa using isRc_append_of_rcAt _ _ (rcAt_label_num l num (hp (l, num) (by simp [hpre])))

theorem isRc_semver (r : Raw) (h : r.WF) : isRc r.semver = r.pre.isSome := by
  obtain ⟨_, hc, hp⟩ := h
  unfold Raw.semver
  cases hpre : r.pre with
  | none => simpa using isRc_false_of_plain _ (plain_joinDot r.comps hc)
  | some p =>
    obtain ⟨l, num⟩ := p
    simpa using isRc_append_of_rcAt _ _ (rcAt_dash_label l ('.' :: num))

end Version
