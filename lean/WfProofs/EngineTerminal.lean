import WfModel.Runner
/-!
Terminal events (C04): in every command list the reducer emits, a terminal publish
(`StopEvent`-kind event, `WorkflowFailedEvent`, `WorkflowCancelledEvent`,
`WorkflowTimedOutEvent`) is immediately followed by the matching exit command, and an
exit command occurs only immediately after its terminal publish.
-/
set_option linter.unusedSimpArgs false
set_option linter.unusedVariables false

namespace Engine

def isTerminalPub : Pub → Bool
  | .event e => e.kind == .stop
  | .failed _ _ _ _ => true
  | .cancelled => true
  | .timedOut _ _ => true
  | .idleReleased => true
  | _ => false

/-- the terminal publish `p` is the one that belongs to exit command `c` -/
def pubMatches (p : Pub) : Cmd → Bool
  | .completeRun q => p == q && isTerminalPub p
  | .failWorkflow s x => match p with | .failed s' x' _ _ => s == s' && x == x' | _ => false
  | .halt .cancelledByUser => p == .cancelled
  | .halt .timeout => match p with | .timedOut _ _ => true | _ => false
  | _ => false

def termOk : List Cmd → Bool
  | [] => true
  | [c] => match c with
    | .publish p => !isTerminalPub p
    | c => !c.isExit
  | c :: d :: cs =>
    match c with
    | .publish p =>
      if isTerminalPub p then d.isExit && pubMatches p d && termOk cs
      else termOk (d :: cs)
    | c => !c.isExit && termOk (d :: cs)

def plainCmd (c : Cmd) : Bool :=
  !c.isExit && (match c with | .publish p => !isTerminalPub p | _ => true)

theorem termOk_cons_plain (c : Cmd) (cs : List Cmd) (hc : plainCmd c = true) :
    termOk (c :: cs) = termOk cs := by
  cases cs with
  | nil =>
    cases c <;> simp_all [termOk, plainCmd, Cmd.isExit]
  | cons d ds =>
    cases c <;> simp_all [termOk, plainCmd, Cmd.isExit]

theorem termOk_pair (p : Pub) (d : Cmd) (cs : List Cmd) (hp : isTerminalPub p = true)
    (hd : d.isExit = true) (hm : pubMatches p d = true) :
    termOk (.publish p :: d :: cs) = termOk cs := by
  simp [termOk, hp, hd, hm]

theorem termOk_append : ∀ (a b : List Cmd), termOk a = true → termOk b = true → termOk (a ++ b) = true
  | [], b, _, hb => by simpa using hb
  | [c], b, ha, hb => by
    have hc : plainCmd c = true := by
      cases c <;> simp_all [termOk, plainCmd, Cmd.isExit]
    simp only [List.singleton_append]
    rw [termOk_cons_plain c b hc]; exact hb
  | c :: d :: cs, b, ha, hb => by
    by_cases hc : plainCmd c = true
    · rw [termOk_cons_plain c _ hc] at ha
      simp only [List.cons_append]
      rw [termOk_cons_plain c _ hc]
      exact termOk_append (d :: cs) b ha hb
    · -- `c` is a terminal publish (an exit cannot come first)
      cases c with
      | publish p =>
        have hp : isTerminalPub p = true := by
          simp only [plainCmd, Cmd.isExit, Bool.not_false, Bool.true_and, Bool.not_eq_true',
            Bool.not_eq_false] at hc
          exact hc
        simp only [termOk, hp, ↓reduceIte, Bool.and_eq_true] at ha
        simp only [List.cons_append]
        rw [termOk_pair p d _ hp ha.1.1 ha.1.2]
        exact termOk_append cs b ha.2 hb
      | _ => simp_all [termOk, plainCmd, Cmd.isExit]

theorem termOk_of_all_plain : ∀ (l : List Cmd), (∀ c ∈ l, plainCmd c = true) → termOk l = true
  | [], _ => rfl
  | c :: cs, h => by
    rw [termOk_cons_plain c cs (h c (by simp))]
    exact termOk_of_all_plain cs (fun d hd => h d (by simp [hd]))

theorem addOrEnqueue_plain (att : Attempt) (step : Nat) (ss : StepState) (nw : Nat) (now : Int) :
    ∀ c ∈ (addOrEnqueue att step ss nw now).2, plainCmd c = true := by
  unfold addOrEnqueue
  split
  · split <;> simp [plainCmd, Cmd.isExit, isTerminalPub]
  · simp [plainCmd, Cmd.isExit, isTerminalPub]

theorem drain_plain (step nw : Nat) (now : Int) :
    ∀ (fuel : Nat) (ss : StepState), ∀ c ∈ (drain step nw now fuel ss).2, plainCmd c = true
  | 0, ss => by simp [drain]
  | fuel + 1, ss => by
    unfold drain
    split
    · simp
    · split
      · intro c hc
        rcases List.mem_append.mp hc with hc | hc
        · exact addOrEnqueue_plain _ _ _ _ _ c hc
        · exact drain_plain step nw now fuel _ c hc
      · simp

theorem resolveLoop_plain (ev : Ev) (step nw : Nat) (now : Int) :
    ∀ (rest done : List Waiter) (ss : StepState) (cmds : List Cmd) (hd : Bool),
      (∀ c ∈ cmds, plainCmd c = true) →
      ∀ c ∈ (resolveLoop ev step nw now done rest ss cmds hd).2.1, plainCmd c = true
  | [], done, ss, cmds, hd, h => by simpa [resolveLoop] using h
  | w :: rest, done, ss, cmds, hd, h => by
    unfold resolveLoop
    split
    · apply resolveLoop_plain
      intro c hc
      rcases List.mem_append.mp hc with hc | hc
      · exact h c hc
      · exact addOrEnqueue_plain _ _ _ _ _ c hc
    · exact resolveLoop_plain ev step nw now rest _ ss cmds hd h

theorem addEventWaiters_plain (cfg : Cfg) (ev : Ev) (target : Option Nat) (now : Int) :
    ∀ (cs : List StepCfg) (acc : AddAcc), (∀ c ∈ acc.cmds, plainCmd c = true) →
      ∀ c ∈ (addEventWaiters cfg ev target now cs acc).cmds, plainCmd c = true
  | [], acc, h => by simpa [addEventWaiters] using h
  | c :: cs, acc, h => by
    unfold addEventWaiters
    split
    · exact addEventWaiters_plain cfg ev target now cs acc h
    · apply addEventWaiters_plain cfg ev target now cs
      split
      · intro x hx
        rcases List.mem_append.mp hx with hx | hx
        · exact h x hx
        · exact resolveLoop_plain ev c.name c.numWorkers now _ [] _ [] false (by simp) x hx
      · exact h

theorem addEventRoute_plain (att : Attempt) (target : Option Nat) (now : Int) :
    ∀ (cs : List StepCfg) (acc : AddAcc), (∀ c ∈ acc.cmds, plainCmd c = true) →
      ∀ c ∈ (addEventRoute att target now cs acc).cmds, plainCmd c = true
  | [], acc, h => by simpa [addEventRoute] using h
  | c :: cs, acc, h => by
    unfold addEventRoute
    split
    · exact addEventRoute_plain att target now cs acc h
    · split
      · apply addEventRoute_plain att target now cs
        intro x hx
        rcases List.mem_append.mp hx with hx | hx
        · exact h x hx
        · exact addOrEnqueue_plain _ _ _ _ _ x hx
      · exact addEventRoute_plain att target now cs acc h

theorem processAddEvent_plain (cfg : Cfg) (att : Attempt) (target : Option Nat) (st : State) (now : Int) :
    ∀ c ∈ (processAddEvent cfg att target st now).2, plainCmd c = true := by
  unfold processAddEvent
  intro c hc
  rcases List.mem_append.mp hc with hc | hc
  · exact addEventRoute_plain att target now cfg.steps _
      (addEventWaiters_plain cfg att.ev target now cfg.steps _ (by simp)) c hc
  · unfold unhandledCmds at hc
    split at hc
    · simp at hc
    · split at hc
      · simp at hc
      · simp only [List.mem_singleton] at hc; subst hc; simp [plainCmd, Cmd.isExit, isTerminalPub]

/-- results whose published waiter events are not `StopEvent`s -/
def Res.ok : Res → Bool
  | .addWaiter _ (some e) _ _ _ => !(e.kind == .stop)
  | _ => true

theorem applyRes_termOk (cfg : Cfg) (pol : Policy) (step : Nat) (tickEv : Ev) (dc : Bool)
    (acc : ResAcc) (r : Res) (hr : r.ok = true) (h : termOk acc.cmds = true) :
    termOk (applyRes cfg pol step tickEv dc acc r).cmds = true := by
  cases r with
  | result r =>
    cases r with
    | none => simpa [applyRes] using h
    | some ev =>
      simp only [applyRes]
      split
      · rename_i hk
        apply termOk_append _ _ h
        simp [termOk, isTerminalPub, hk, Cmd.isExit, pubMatches]
      · rename_i hk
        simp only [List.append_assoc]
        apply termOk_append _ _ h
        apply termOk_of_all_plain
        intro c hc
        simp only [List.mem_append, List.mem_singleton] at hc
        rcases hc with hc | hc
        · split at hc
          · simp only [List.mem_singleton] at hc; subst hc
            simp only [plainCmd, Cmd.isExit, isTerminalPub, Bool.not_false, Bool.true_and, Bool.not_eq_true',
              beq_eq_false_iff_ne, ne_eq]
            exact hk
          · simp at hc
        · subst hc; simp [plainCmd, Cmd.isExit]
  | failed exc failedAt =>
    simp only [applyRes]
    split
    · exact h
    split
    · apply termOk_append _ _ h
      simp [termOk, Cmd.isExit]
    all_goals
      split
      · split
        · apply termOk_append _ _ h
          simp [termOk, Cmd.isExit]
        · apply termOk_append _ _ h
          simp [termOk, isTerminalPub, Cmd.isExit, pubMatches]
      · apply termOk_append _ _ h
        simp [termOk, isTerminalPub, Cmd.isExit, pubMatches]
  | addCollected buf ev =>
    simp only [applyRes]
    split
    · exact h
    split
    · apply termOk_append _ _ h
      simp [termOk, Cmd.isExit]
    · exact h
  | deleteCollected buf => simp only [applyRes]; split <;> exact h
  | addWaiter wid waiterEv req timeout ty =>
    simp only [applyRes]
    split
    · exact h
    · simp only [List.append_assoc]
      apply termOk_append _ _ h
      apply termOk_of_all_plain
      intro c hc
      simp only [List.mem_append] at hc
      rcases hc with hc | hc
      · cases waiterEv with
        | none => simp at hc
        | some e =>
          simp only [List.mem_singleton] at hc; subst hc
          simp only [Res.ok, Bool.not_eq_true', beq_eq_false_iff_ne, ne_eq] at hr
          simp only [plainCmd, Cmd.isExit, isTerminalPub, Bool.not_false, Bool.true_and, Bool.not_eq_true',
            beq_eq_false_iff_ne, ne_eq]
          exact hr
      · cases timeout with
        | none => simp at hc
        | some t => simp only [List.mem_singleton] at hc; subst hc; simp [plainCmd, Cmd.isExit]
  | deleteWaiter wid => simp only [applyRes]; split <;> exact h

theorem foldl_applyRes_termOk (cfg : Cfg) (pol : Policy) (step : Nat) (tickEv : Ev) (dc : Bool) :
    ∀ (res : List Res) (acc : ResAcc), (∀ r ∈ res, r.ok = true) → termOk acc.cmds = true →
      termOk (res.foldl (applyRes cfg pol step tickEv dc) acc).cmds = true
  | [], acc, _, h => by simpa using h
  | r :: rs, acc, hr, h => by
    simp only [List.foldl_cons]
    exact foldl_applyRes_termOk cfg pol step tickEv dc rs _ (fun x hx => hr x (by simp [hx]))
      (applyRes_termOk cfg pol step tickEv dc acc r (hr r (by simp)) h)

/-- ticks whose user-supplied publishes are not `StopEvent`s, and which are not the server's
internal idle release -/
def Tick.ok : Tick → Bool
  | .stepResult _ _ _ res => res.all Res.ok
  | .publish e => !(e.kind == .stop)
  | .idleRelease => false
  | _ => true

theorem processStepResult_termOk (cfg : Cfg) (pol : Policy) (step worker : Nat) (tickEv : Ev)
    (res : List Res) (st : State) (now : Int) (hres : ∀ r ∈ res, r.ok = true) :
    termOk (processStepResult cfg pol step worker tickEv res st now).2 = true := by
  unfold processStepResult
  split
  · simp [termOk, Cmd.isExit]
  · split
    · simp [termOk, Cmd.isExit]
    · rename_i exec _
      have hf := foldl_applyRes_termOk cfg pol step tickEv (res.any isResult) res
        { st := st, exec := exec } hres (by simp [termOk])
      simp only
      generalize (res.foldl (applyRes cfg pol step tickEv (res.any isResult)) { st := st, exec := exec }) = acc at hf
      have hs : termOk (settle acc step worker tickEv).2 = true := by
        unfold settle; simp only; split
        · exact hf
        · rw [termOk_cons_plain _ _ (by simp [plainCmd, Cmd.isExit, isTerminalPub])]; exact hf
      split
      · exact hs
      · exact termOk_append _ _ hs (termOk_of_all_plain _ (drain_plain _ _ _ _ _))

theorem termOk_snoc_idle (cs : List Cmd) (h : termOk cs = true) :
    termOk (cs ++ [Cmd.scheduleIdleCheck]) = true :=
  termOk_append _ _ h (by simp [termOk, Cmd.isExit])

/-- **C04, one tick**: the command list of any well-formed tick pairs every terminal publish
with its exit command and has no other exit command. -/
theorem reduce_termOk (cfg : Cfg) (pol : Policy) (tick : Tick) (st : State) (now : Int)
    (hok : tick.ok = true) : termOk (reduce cfg pol tick st now).2 = true := by
  unfold reduce
  cases tick with
  | stepResult step worker ev res =>
    have hres : ∀ r ∈ res, r.ok = true := by simpa [Tick.ok, List.all_eq_true] using hok
    simp only
    split
    · exact termOk_snoc_idle _ (processStepResult_termOk cfg pol step worker ev res st now hres)
    · exact processStepResult_termOk cfg pol step worker ev res st now hres
  | addEvent att target =>
    simp only
    split
    · exact termOk_snoc_idle _ (termOk_of_all_plain _ (processAddEvent_plain cfg att target st now))
    · exact termOk_of_all_plain _ (processAddEvent_plain cfg att target st now)
  | cancelRun => simp only; split <;> simp [termOk, isTerminalPub, Cmd.isExit, pubMatches]
  | idleRelease => simp [Tick.ok] at hok
  | publish ev =>
    have hk : (ev.kind == Kind.stop) = false := by simpa [Tick.ok] using hok
    simp only; split <;> simp [termOk, isTerminalPub, Cmd.isExit, hk]
  | timeout t => simp only; split <;> simp [termOk, isTerminalPub, Cmd.isExit, pubMatches]
  | waiterTimeout step waiter =>
    have key : ∀ c ∈ (processWaiterTimeout cfg step waiter st now).2, plainCmd c = true := by
      unfold processWaiterTimeout
      split
      · simp
      · dsimp only
        split
        · simp
        · split
          · simp
          · exact addOrEnqueue_plain _ _ _ _ _
    simp only
    split
    · exact termOk_snoc_idle _ (termOk_of_all_plain _ key)
    · exact termOk_of_all_plain _ key
  | idleCheck => simp only; split <;> simp [termOk, isTerminalPub, Cmd.isExit]

end Engine
