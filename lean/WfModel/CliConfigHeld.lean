import WfModel.CliConfig
/-!
# M16b — `AuthService` objects held across environment changes

`AuthService(config_manager, env)` is bound to the environment it was constructed for: every
configuration method passes `self.env.api_url`, not the *current* environment, to
`ConfigManager`.  `WfModel/CliConfig.lean` models each profile operation on a fresh
`EnvService.current_auth_service()`, i.e. with the binding equal to the current environment
(what every `llamactl` command does).  Here the binding is a parameter: `stepHeld c s e op`
is `op` performed through a service bound to `e` while `s.curEnv` is current — an object kept
across an environment change, or a second `llamactl` process that constructed its service
before another process switched the environment.

`stepHeld c s s.curEnv op = step c s op` (`WfProofs/CliConfigHeld.lean`): the fresh model is
the diagonal of this one.  The ghost field still records `(name, environment current at the
time)`; the statements about held services do not use it, they speak about the events of the
history (`pickedHere`).
-/
namespace CliConfig

/-- `ConfigManager.create_profile(name, e, …)` + `set_settings_current_profile(name)`. -/
def createAndSelectAt (s : State) (e name project : String) (key : Option String) (oidc : Option Oidc) : State × Res :=
  if isBlank project then (s, .errBlankProject)
  else if (getProfile s name e).isSome then (s, .errExists)
  else
    let p : Profile := { pid := s.nextId, name := name, env := e, project := project,
                         apiKey := key, apiKeyId := none, oidc := oidc }
    ({ s with profiles := s.profiles ++ [p], nextId := s.nextId + 1,
              curProf := some name, pick := some (name, s.curEnv) }, .profile p.pid name)

/-- One operation through an `AuthService` bound to environment `e`.  The environment
operations, `destroy`, `probe` and `refresh` do not go through the binding. -/
def stepHeld (c : Cfg) (s : State) (e : String) : Op → State × Res
  | .createToken project key => createAndSelectAt s e (tokenName key) project key none
  | .createOidc project uid email tok =>
    match s.profiles.find? (fun p => decide (p.env = e ∧ p.oidc.map (·.uid) = some uid)) with
    | some ex =>
      ({ s with profiles := s.profiles.map (fun p => if p.pid = ex.pid then { p with oidc := some ⟨uid, tok⟩ } else p),
                curProf := some ex.name, pick := some (ex.name, s.curEnv) }, .profile ex.pid ex.name)
    | none => createAndSelectAt s e email project none (some ⟨uid, tok⟩)
  | .select name => ({ s with curProf := some name, pick := some (name, s.curEnv) }, .ok)
  | .selectAny =>
    match firstByName (profilesOf s e) with
    | none => (s, .ok)
    | some p => ({ s with curProf := some p.name, pick := some (p.name, s.curEnv) }, .ok)
  | .deleteProfile name =>
    let found := (getProfile s name e).isSome
    ({ s with profiles := s.profiles.filter (fun p => !hasKey name e p),
              curProf := if s.curProf = some name then none else s.curProf }, .bool found)
  | .setProject name project =>
    ({ s with profiles := s.profiles.map (fun p => if hasKey name e p then { p with project := project } else p) }, .ok)
  | .updateKey name key keyId =>
    match getProfile s name e with
    | none => (s, .noProfile)
    | some ex =>
      ({ s with profiles := s.profiles.map (fun p => if p.pid = ex.pid then { p with apiKey := key, apiKeyId := keyId } else p) }, .ok)
  | op => step c s op

/-- The name an operation through a service bound to `e` selects or creates, if it does. -/
def picksAt (c : Cfg) (s : State) (e : String) (op : Op) : Option String :=
  match op, (stepHeld c s e op).2 with
  | .createToken _ _, .profile _ n => some n
  | .createOidc _ _ _ _, .profile _ n => some n
  | .select n, _ => some n
  | .selectAny, _ => (firstByName (profilesOf s e)).map (·.name)
  | _, _ => none

/-- the operations that can select or create -/
def isPickKind : Op → Bool
  | .createToken _ _ => true
  | .createOidc _ _ _ _ => true
  | .select _ => true
  | .selectAny => true
  | _ => false

/-- An operation together with the service it goes through: `bound = none` is a fresh
`current_auth_service()`, `bound = some e` a service constructed for `e` earlier. -/
structure HOp where
  bound : Option String
  op : Op
deriving DecidableEq, Repr

def HOp.fresh (op : Op) : HOp := ⟨none, op⟩

/-- the environment the service of `h` is bound to, in state `s` -/
def boundOf (s : State) (h : HOp) : String := h.bound.getD s.curEnv

def stepH (c : Cfg) (s : State) (h : HOp) : State × Res := stepHeld c s (boundOf s h) h.op

def picksH (c : Cfg) (s : State) (h : HOp) : Option String := picksAt c s (boundOf s h) h.op

def runH (c : Cfg) (s : State) : List HOp → State
  | [] => s
  | h :: hs => runH c (stepH c s h).1 hs

/-- Some operation of the history selected or created the name `n` through a service of
environment `e` while `e` was the current environment (computed from the events alone). -/
def pickedHere (c : Cfg) (n e : String) : State → List HOp → Bool
  | _, [] => false
  | s, h :: hs =>
    (decide (picksH c s h = some n) && decide (boundOf s h = e) && decide (s.curEnv = e))
      || pickedHere c n e (stepH c s h).1 hs

/-- Every operation that can select or create goes through a service of the environment that is
current at that moment (held services are used for deleting and updating only). -/
def FreshPicks (c : Cfg) : State → List HOp → Prop
  | _, [] => True
  | s, h :: hs => (isPickKind h.op = true → boundOf s h = s.curEnv) ∧ FreshPicks c (stepH c s h).1 hs

end CliConfig
