"""Shared driver for the engine-group checks (C01–C05, C08–C14, C31, C35).

(K) correspondence: (1) direct reducer pairs, (2) whole live runs replayed as
runner-LTS actions on the Lean model (tick by tick: buffer, timer heap, workers,
stream length, commands, state).  (S) monitors of the given property on every
live trace, on the corpus and on the known-finding witnesses.
"""
from __future__ import annotations

import json
import os
import random
from typing import Any, Callable, Iterable

from ..boot import VERIF
from ..runner import Divergence, Driver, Env, Outcome, Violation, diff_streams
from . import corr, direct, live, specgen
from .live import Trace

ENGINE_ASSUMPTIONS = [
    "event payloads are abstracted to (class id, kind, uid, field k); exceptions, step/waiter/buffer names to ids",
    "times are integral virtual seconds (floats are not modelled); retry-policy decisions enter the engine model as an oracle (policy modelled separately, M2)",
    "asyncio task scheduling, cancellation delivery and executor threads are exercised only by the monitors under the virtual-time loop (harness/vloop.py)",
    "module-level clocks (`time`) of control_loop/step_function/basic/internal_context are replaced by the virtual clock in the harness process",
]

CORPUS_DIR = os.path.join(VERIF, "harness", "corpus")


def load_corpus(prop: str) -> list[dict]:
    out = []
    if os.path.isdir(CORPUS_DIR):
        for fn in sorted(os.listdir(CORPUS_DIR)):
            if fn.endswith(".json"):
                d = json.load(open(os.path.join(CORPUS_DIR, fn)))
                if prop in d.get("props", []) or "*" in d.get("props", []):
                    out.append(d)
    return out


def direct_corr(env: Env, out: Outcome, n: int, gen_kwargs: dict | None = None,
                pair_monitor: Callable[[Any, Any, Any, list], list[tuple[str, str]]] | None = None,
                gen_seed: int | None = None, only_index: int | None = None) -> None:
    """`pair_monitor(state, tick, state', commands)` states a property directly on each real reducer step (independent
    of the model); its violations replay through (gen_seed, index): the generator is deterministic per seed."""
    if gen_seed is None:
        gen_seed = env.rng.randrange(1 << 30)
    g = direct.Gen(random.Random(gen_seed), **(gen_kwargs or {}))
    ops: list[str] = []
    exp: list[str] = []
    for idx in range(n):
        o, e, info = direct.run_pair(g, illformed=(g.rng.random() < 0.15))
        if pair_monitor is not None and "pair" in info and (only_index is None or idx == only_index):
            st0, tk, st2, cmds = info["pair"]
            for sig, what in pair_monitor(st0, tk, st2, cmds):
                out.violations.append(Violation(sig, "direct reducer pair: " + what,
                                                {"direct_pair": {"gen_seed": gen_seed, "index": idx, "gen_kwargs": gen_kwargs or {},
                                                                 "cfg": o[0][:3000], "state": o[1][:6000], "reduce": o[-1][:3000]}}))
            if isinstance(tk, direct.T.TickStepResult) and st2 is not None:
                from . import monitors as _m
                ex = _m.c09_stale_rerun_expectation(st0, tk)
                if ex is not None:
                    olds = next(ip for ip in st0.workers[tk.step_name].in_progress if ip.worker_id == tk.worker_id).shared_state.collected_events
                    out.count("direct:stale_add:" + ("snapshot_is_prefix" if _m.c09_snapshot_is_prefix(olds, ex[2]) else "snapshot_from_earlier_round"))
        if only_index is not None:
            continue
        ops += o
        exp += e
        out.evaluations += 1
        out.count("direct:" + info["tick"] + (":crash" if info.get("out") == "crash" else ""))
        for r in info.get("res", []):
            out.count("direct:res:" + r)
        for c in set(info.get("cmds", [])):
            out.count("direct:cmd:" + c)
        if info.get("policy_raised"):
            # the oracle policy raised inside this reduction: no retry, the exhausted path (or, before the repair, a crash)
            out.count("direct:policy_raised:" + ("escaped" if info.get("policy_escaped") else "caught"))
        if "multi_collect" in info:
            out.count("direct:multi_collect_same_buffer:" + info["multi_collect"])
        if info.get("out") != "crash":
            out.nontrivial(o[-1])
    if only_index is not None:
        return
    try:
        mo = Driver("engine").run(ops)
    except Exception as ex:
        out.divergences.append(Divergence("engine-direct", 0, "<driver>", repr(ex), ""))
        return
    out.traces_validated += n
    out.disagreements_checked += len(ops)
    d = diff_streams("engine-direct", ops, mo, exp)
    if d is not None:
        d.context = {"state_op": ops[d.index - 1][:4000] if d.index > 0 else None}
        d.op = d.op[:4000]
        d.model_out = d.model_out[:4000]
        d.impl_out = d.impl_out[:4000]
        out.divergences.append(d)


def live_runs(env: Env, out: Outcome, n: int, monitors: list[Callable[[Trace], list[Violation]]],
              gen_kwargs: dict | None = None, extra_specs: Iterable[dict] = (), mutate_spec: Callable[[dict, random.Random], dict] | None = None,
              check_runner: bool = True, lifecycle: bool = False) -> list[Trace]:
    rng = random.Random(env.rng.randrange(1 << 30))
    traces: list[Trace] = []
    ops: list[str] = []
    exp: list[str] = []
    owner: list[int] = []
    jobs: list[tuple[dict, int, list[int] | None]] = []
    if env.replay is not None and isinstance(env.replay.get("payload", {}).get("case"), dict) and "spec" in env.replay["payload"]["case"]:
        case = env.replay["payload"]["case"]
        jobs.append((case["spec"], 0, case.get("actions")))
    for item in extra_specs:
        jobs.append((item["spec"], item.get("seed", 0), item.get("actions")))
    for _ in range(n):
        spec = specgen.gen_spec(rng, **(gen_kwargs or {}))
        if mutate_spec is not None:
            spec = mutate_spec(spec, rng)
        jobs.append((spec, rng.randrange(1 << 30), None))
    for spec, seed, actions in jobs:
        tr = live.run_spec(spec, seed=seed, replay_actions=actions)
        traces.append(tr)
        out.evaluations += 1
        out.count("live:outcome:" + tr.outcome[0])
        out.count("live:steps", len(spec["steps"]))
        for s in spec["steps"]:
            for a in s["script"]:
                out.count("live:script:" + a[0])
            if s.get("retry"):
                out.count("live:retry:" + s["retry"]["kind"])
            if s.get("role") == "handler":
                out.count("live:handler:" + ("scoped" if s.get("for_steps") else "wildcard"))
        ncalls = len([c for c in tr.calls if c.caller == "_process_tick"])
        out.count("live:ticks", ncalls)
        if ncalls > 2:
            out.nontrivial((json.dumps(spec, sort_keys=True), tuple(tr.actions)))
        for m in monitors:
            try:
                vs = m(tr)
            except Exception as ex:  # a monitor crash must not pass silently
                raise RuntimeError(f"monitor {m.__name__} crashed: {type(ex).__name__}: {ex}") from ex
            out.violations += vs
        if len(out.samples) < 4 and ncalls > 4:
            out.sample({"spec": spec, "outcome": tr.outcome[0], "ticks": ncalls,
                        "stream": [enc_pub(e) for (e, *_r) in tr.stream][:40]})
        if check_runner and spec.get("drain_after_end") and not all(float(c.now).is_integer() for c in tr.calls):
            # slow-teardown specs (opt-in): the engine model's clock is integral; a run whose reducer is called again after a
            # used-up cancel grace (+0.5 s) cannot be encoded.  Any other spec with a fractional time still fails to encode.
            out.count("live:runner_correspondence_skipped_fractional_time")
        elif check_runner and tr.outcome[0] not in ("invalid",):
            try:
                o, e = corr.runner_lines(tr, lifecycle=lifecycle)
            except Exception as ex:
                o, e = [], []
                out.notes.append(f"runner_lines failed: {type(ex).__name__}: {ex}")
                out.divergences.append(Divergence("engine-runner", 0, "<encode>", "", f"{type(ex).__name__}: {ex}", {"spec": spec}))
            ops += o
            exp += e
            owner += [len(traces) - 1] * len(o)
    if ops:
        try:
            mo = Driver("engine").run(ops)
        except Exception as ex:
            out.divergences.append(Divergence("engine-runner", 0, "<driver>", repr(ex), ""))
            return traces
        out.traces_validated += len(traces)
        out.disagreements_checked += len(ops)
        d = diff_streams("engine-runner", ops, mo, exp)
        if d is not None:
            t = traces[owner[d.index]] if d.index < len(owner) else None
            a, b = d.model_out, d.impl_out
            i = 0
            while i < min(len(a), len(b)) and a[i] == b[i]:
                i += 1
            d.model_out = a[max(0, i - 300): i + 400]
            d.impl_out = b[max(0, i - 300): i + 400]
            d.op = d.op[:1500]
            d.context = {"spec": t.spec, "actions": t.actions} if t is not None else None
            out.divergences.append(d)
    return traces


def runner_corr(out: Outcome, traces: list[Trace], label: str = "engine-runner", lifecycle: bool = False, rebuild: bool = False) -> None:
    """runner-LTS correspondence for traces produced outside `live_runs` (resumed runs: `rinit` without a start event);
    `rebuild`: also `rebuild_state_from_ticks` on each run's start state and tick log against the model's `rebuildAt`"""
    ops: list[str] = []
    exp: list[str] = []
    owner: list[int] = []
    for i, tr in enumerate(traces):
        if tr.outcome[0] in ("invalid",):
            continue
        try:
            o, e = corr.runner_lines(tr, lifecycle=lifecycle)
            if rebuild and o:
                o2, e2 = corr.rebuild_lines(tr)
                o, e = o + o2, e + e2
                out.count(label + ":rebuild:" + ("none" if not o2 else "crash" if e2[0] == "crash" else "state"))
        except Exception as ex:
            out.divergences.append(Divergence(label, 0, "<encode>", "", f"{type(ex).__name__}: {ex}", {"spec": tr.spec}))
            continue
        ops += o
        exp += e
        owner += [i] * len(o)
    if not ops:
        return
    try:
        mo = Driver("engine").run(ops)
    except Exception as ex:
        out.divergences.append(Divergence(label, 0, "<driver>", repr(ex), ""))
        return
    out.traces_validated += len(traces)
    out.disagreements_checked += len(ops)
    d = diff_streams(label, ops, mo, exp)
    if d is not None:
        t = traces[owner[d.index]] if d.index < len(owner) else None
        a, b = d.model_out, d.impl_out
        i = 0
        while i < min(len(a), len(b)) and a[i] == b[i]:
            i += 1
        d.model_out = a[max(0, i - 300): i + 400]
        d.impl_out = b[max(0, i - 300): i + 400]
        d.op = d.op[:1500]
        d.context = {"spec": t.spec, "actions": t.actions, "resumed": bool(t.spec.get("_resumed"))} if t is not None else None
        out.divergences.append(d)


def enc_pub(e: Any) -> str:
    from . import enc

    try:
        return enc.pub(e)
    except Exception:
        return type(e).__name__


def serde_corr(env: Env, out: Outcome, n: int, stability_sig: str | None = None) -> None:
    """BrokerState.to_serialized -> JSON text -> from_serialized on generated states, twice (stability),
    against the model's `serde` op."""
    from workflows.context.context_types import SerializedContext
    from workflows.context.serializers import JsonSerializer
    from workflows.runtime.types.internal_state import BrokerState, InternalStepWorkerState

    from . import enc

    g = direct.Gen(random.Random(env.rng.randrange(1 << 30)))
    ops: list[str] = []
    exp: list[str] = []
    ser = JsonSerializer()
    orig = BrokerState.from_workflow
    try:
        for _ in range(n):
            st = g.state(illformed=False)
            if g.rng.random() < 0.3:
                # an invocation RUNNING and another QUEUED for the same step with equal events (repeated batch items,
                # payload-less ticks): two invocations, both must survive the round trip
                from workflows.runtime.types.internal_state import EventAttempt
                cands = [w for w in st.workers.values() if w.in_progress]
                if cands:
                    w = g.rng.choice(cands)
                    ip = g.rng.choice(w.in_progress)
                    w.queue.insert(g.rng.randrange(len(w.queue) + 1), EventAttempt(event=ip.event))
                    out.count("serde:queued_equals_running")

            def base(_wf: Any, st: Any = st) -> Any:
                return BrokerState(is_running=False, config=st.config,
                                   workers={nm: InternalStepWorkerState(queue=[], config=w.config, in_progress=[], collected_events={},
                                                                        collected_waiters=[]) for nm, w in st.workers.items()})

            BrokerState.from_workflow = staticmethod(base)  # type: ignore[method-assign]
            ops += ["cfg " + enc.cfg(st), "state " + enc.state(st)]
            exp += ["ok", enc.state(st)]
            cur = st
            rts = []
            for _rt in range(2):
                text = cur.to_serialized(ser).model_dump_json()
                cur = BrokerState.from_serialized(SerializedContext.model_validate_json(text), None, ser)  # type: ignore[arg-type]
                ops.append("serde")
                exp.append(enc.state(cur))
                rts.append(exp[-1])
            lost = sum(len(w.queue) + len(w.in_progress) for w in st.workers.values()) - sum(len(w.queue) + len(w.in_progress) for w in cur.workers.values())
            if stability_sig is not None and lost != 0:
                out.violations.append(Violation("C12/pending_invocation_count_changed",
                                                f"{lost} queued/in-progress invocation(s) disappeared across to_serialized -> from_serialized",
                                                {"state": ops[-3][:6000], "cfg": ops[-4][:2000]}))
            if stability_sig is not None and lost == 0:
                # every QUEUED invocation keeps its retry count and its recovery budget (in-progress ones: known finding F-inprogress-reset)
                def _ent(nm: str, a: Any) -> tuple:
                    return (nm, enc.ev(a.event), a.attempts or 0, tuple(sorted((a.recovery_counts or {}).items())))
                after = [_ent(nm, a) for nm, w in cur.workers.items() for a in w.queue]
                missing = []
                for nm, w in st.workers.items():
                    for a in w.queue:
                        e = _ent(nm, a)
                        if e in after:
                            after.remove(e)
                        else:
                            missing.append(e)
                if missing:
                    out.violations.append(Violation("C12/queued_invocation_budget_changed",
                                                    f"queued invocations whose retry count / recovery budget changed across the round trip: {missing[:3]}",
                                                    {"state": ops[-3][:6000], "cfg": ops[-4][:2000]}))
            if stability_sig is not None and direct.WAITER_HAS_RECORD:
                # ... and so does every invocation SUSPENDED in wait_for_event: the attempt record its waiter keeps
                def _went(nm: str, w: Any) -> tuple:
                    return (nm, w.waiter_id, enc.ev(w.event), w.attempts, w.first_attempt_at, w.last_failed_at,
                            None if w.last_exception is None else str(w.last_exception), tuple(sorted(w.recovery_counts.items())))
                b4 = sorted(_went(nm, w) for nm, ws in st.workers.items() for w in ws.collected_waiters)
                af = sorted(_went(nm, w) for nm, ws in cur.workers.items() for w in ws.collected_waiters)
                if b4 != af:
                    out.violations.append(Violation("C12/waiting_invocation_budget_changed",
                                                    f"the attempt record kept in a waiter changed across the round trip: {[x for x in b4 if x not in af][:2]} -> {[x for x in af if x not in b4][:2]}",
                                                    {"state": ops[-3][:6000], "cfg": ops[-4][:2000]}))
            if stability_sig is not None:
                # ... and what the steps had buffered through ctx.collect_events is all still there, whatever the event types
                # (a step may collect events it built itself, of types it does not accept)
                b4c = {(nm, b): [enc.ev(e) for e in evs] for nm, ws in st.workers.items() for b, evs in ws.collected_events.items() if evs}
                afc = {(nm, b): [enc.ev(e) for e in evs] for nm, ws in cur.workers.items() for b, evs in ws.collected_events.items() if evs}
                if b4c != afc:
                    bad = sorted(k for k in set(b4c) | set(afc) if b4c.get(k) != afc.get(k))[:2]
                    acc = {nm: sorted(t.__name__ for t in st.config.steps[nm].accepted_events) for nm, _b in bad if nm in st.config.steps}
                    out.violations.append(Violation("C12/collect_buffer_changed_by_round_trip",
                                                    f"collect_events buffers changed across to_serialized -> from_serialized: "
                                                    f"{[(k, b4c.get(k), afc.get(k)) for k in bad]}; accepted event types of the step(s): {acc}",
                                                    {"state": ops[-3][:6000], "cfg": ops[-4][:2000]}))
            if stability_sig is not None and rts[0] != rts[1]:
                # the property's own clause, on the implementation alone: one round trip must be a fixed point
                i = 0
                while i < min(len(rts[0]), len(rts[1])) and rts[0][i] == rts[1][i]:
                    i += 1
                out.violations.append(Violation(stability_sig, "deserialize(serialize(x)) changes again under a second round trip: "
                                                f"...{rts[0][max(0, i - 60): i + 60]}... vs ...{rts[1][max(0, i - 60): i + 60]}...",
                                                {"state": ops[-3][:6000], "cfg": ops[-4][:2000]}))
            out.evaluations += 1
            nip = sum(len(w.in_progress) for w in st.workers.values())
            nw_ = sum(len(w.collected_waiters) for w in st.workers.values())
            out.count(f"serde:inprog:{min(nip, 3)}")
            out.count(f"serde:waiters:{min(nw_, 3)}")
            if nip or nw_:
                out.nontrivial(ops[-3])
    finally:
        BrokerState.from_workflow = orig  # type: ignore[method-assign]
    try:
        mo = Driver("engine").run(ops)
    except Exception as ex:
        out.divergences.append(Divergence("engine-serde", 0, "<driver>", repr(ex), ""))
        return
    out.traces_validated += n
    out.disagreements_checked += len(ops)
    d = diff_streams("engine-serde", ops, mo, exp)
    if d is not None:
        d.op, d.model_out, d.impl_out = d.op[:3000], d.model_out[:3000], d.impl_out[:3000]
        out.divergences.append(d)
