import WfProofs.EngineIds
/-! Every reducer branch preserves the worker-slot invariant `IdsInv` (C01). -/
set_option linter.unusedSimpArgs false
set_option linter.unusedVariables false

namespace Engine

/-! ### add-event -/

theorem addEventWaiters_idsInv (cfg : Cfg) (hwf : cfg.WF) (ev : Ev) (target : Option Nat) (now : Int) :
    ∀ (cs : List StepCfg) (acc : AddAcc), (∀ c ∈ cs, c ∈ cfg.steps) → IdsInv cfg acc.st →
      IdsInv cfg (addEventWaiters cfg ev target now cs acc).st
  | [], acc, _, h => by simp only [addEventWaiters]; exact h
  | c :: cs, acc, hsub, h => by
    have hc : c ∈ cfg.steps := hsub c (by simp)
    have hsub' : ∀ d ∈ cs, d ∈ cfg.steps := fun d hd => hsub d (by simp [hd])
    unfold addEventWaiters
    split
    · exact addEventWaiters_idsInv cfg hwf ev target now cs acc hsub' h
    · apply addEventWaiters_idsInv cfg hwf ev target now cs _ hsub'
      split
      · apply IdsInv.set hwf h hc
        apply resolveLoop_idsOk
        exact h c hc
      · exact h

theorem addEventRoute_idsInv (cfg : Cfg) (hwf : cfg.WF) (att : Attempt) (target : Option Nat) (now : Int) :
    ∀ (cs : List StepCfg) (acc : AddAcc), (∀ c ∈ cs, c ∈ cfg.steps) → IdsInv cfg acc.st →
      IdsInv cfg (addEventRoute att target now cs acc).st
  | [], acc, _, h => by simp only [addEventRoute]; exact h
  | c :: cs, acc, hsub, h => by
    have hc : c ∈ cfg.steps := hsub c (by simp)
    have hsub' : ∀ d ∈ cs, d ∈ cfg.steps := fun d hd => hsub d (by simp [hd])
    unfold addEventRoute
    split
    · exact addEventRoute_idsInv cfg hwf att target now cs acc hsub' h
    · split
      · apply addEventRoute_idsInv cfg hwf att target now cs _ hsub'
        apply IdsInv.set hwf h hc
        apply addOrEnqueue_idsOk
        exact h c hc
      · exact addEventRoute_idsInv cfg hwf att target now cs acc hsub' h

theorem processAddEvent_fst (cfg : Cfg) (att : Attempt) (target : Option Nat) (st : State) (now : Int) :
    (processAddEvent cfg att target st now).1 =
      (addEventRoute att target now cfg.steps
        (addEventWaiters cfg att.ev target now cfg.steps { st := addEventStart att st })).st := rfl

theorem processAddEvent_idsInv (cfg : Cfg) (hwf : cfg.WF) (att : Attempt) (target : Option Nat)
    (st : State) (now : Int) (h : IdsInv cfg st) :
    IdsInv cfg (processAddEvent cfg att target st now).1 := by
  rw [processAddEvent_fst]
  have h0 : IdsInv cfg (addEventStart att st) := by
    unfold addEventStart
    split
    · exact h
    · exact h
  have h1 := addEventWaiters_idsInv cfg hwf att.ev target now cfg.steps
    { st := addEventStart att st } (fun _ hc => hc) h0
  exact addEventRoute_idsInv cfg hwf att target now cfg.steps _ (fun _ hc => hc) h1

/-! ### step results: no `Res` touches any `inProg` list or the executing worker's id -/

theorem applyRes_inProg (cfg : Cfg) (pol : Policy) (step : Nat) (tickEv : Ev) (dc : Bool)
    (acc : ResAcc) (r : Res) :
    (∀ s, ((applyRes cfg pol step tickEv dc acc r).st.workers s).inProg = (acc.st.workers s).inProg) ∧
      (applyRes cfg pol step tickEv dc acc r).exec.wid = acc.exec.wid := by
  cases r with
  | result r =>
    cases r with
    | none => simp [applyRes]
    | some ev =>
      simp only [applyRes]
      split <;> simp [clearAll]
  | failed exc failedAt =>
    simp only [applyRes]
    split
    · simp
    split
    · simp
    all_goals
      split
      · split <;> simp
      · simp
  | addCollected buf ev =>
    simp only [applyRes]
    split
    · simp
    split
    · refine ⟨?_, rfl⟩
      intro s; simp only [State.set]; split
      · rename_i h; subst h; rfl
      · rfl
    · refine ⟨?_, rfl⟩
      intro s; simp only [State.set]; split
      · rename_i h; subst h; rfl
      · rfl
  | deleteCollected buf =>
    simp only [applyRes]
    split
    · refine ⟨?_, rfl⟩
      intro s; simp only [State.set]; split
      · rename_i h; subst h; rfl
      · rfl
    · simp
  | addWaiter wid waiterEv req timeout ty =>
    simp only [applyRes]
    split
    · refine ⟨?_, rfl⟩
      intro s; simp only [State.set]; split
      · rename_i h; subst h; rfl
      · rfl
    · refine ⟨?_, rfl⟩
      intro s; simp only [State.set]; split
      · rename_i h; subst h; rfl
      · rfl
  | deleteWaiter wid =>
    simp only [applyRes]
    split
    · refine ⟨?_, rfl⟩
      intro s; simp only [State.set]; split
      · rename_i h; subst h; rfl
      · rfl
    · simp

theorem foldl_applyRes_inProg (cfg : Cfg) (pol : Policy) (step : Nat) (tickEv : Ev) (dc : Bool) :
    ∀ (res : List Res) (acc : ResAcc),
      (∀ s, (((res.foldl (applyRes cfg pol step tickEv dc) acc)).st.workers s).inProg
          = (acc.st.workers s).inProg) ∧
        (res.foldl (applyRes cfg pol step tickEv dc) acc).exec.wid = acc.exec.wid
  | [], acc => by simp
  | r :: rs, acc => by
    simp only [List.foldl_cons]
    have h1 := applyRes_inProg cfg pol step tickEv dc acc r
    have h2 := foldl_applyRes_inProg cfg pol step tickEv dc rs (applyRes cfg pol step tickEv dc acc r)
    exact ⟨fun s => (h2.1 s).trans (h1.1 s), h2.2.trans h1.2⟩

/-- removing one entry keeps ids distinct and bounded -/
theorem idsOk_eraseP (ss : StepState) (nw : Nat) (p : InProg → Bool) (h : IdsOk ss nw) :
    IdsOk { ss with inProg := ss.inProg.eraseP p } nw := by
  have hsub : (ss.inProg.eraseP p).map (·.wid) |>.Sublist (ss.inProg.map (·.wid)) :=
    (List.eraseP_sublist).map _
  exact ⟨hsub.nodup h.1, fun i hi => h.2 i (hsub.subset hi)⟩

theorem map_wid_modifyFirst (worker : Nat) (e : InProg) (he : e.wid = worker) :
    ∀ l : List InProg, (modifyFirst (fun w => w.wid == worker) (fun _ => e) l).map (·.wid) = l.map (·.wid)
  | [] => rfl
  | x :: xs => by
    simp only [modifyFirst]
    split
    · rename_i hx
      simp only [beq_iff_eq] at hx
      simp [he, hx]
    · simp [map_wid_modifyFirst worker e he xs]

theorem find?_wid {l : List InProg} {worker : Nat} {e : InProg}
    (h : l.find? (fun w => w.wid == worker) = some e) : e.wid = worker := by
  have := List.find?_some h
  simpa using this

theorem settle_idsOk (acc : ResAcc) (step worker : Nat) (tickEv : Ev) (nw : Nat)
    (hwid : acc.exec.wid = worker) (h : IdsOk (acc.st.workers step) nw) :
    IdsOk (settle acc step worker tickEv).1 nw := by
  unfold settle
  simp only
  split
  · simp only [IdsOk, usedIds]
    rw [map_wid_modifyFirst worker acc.exec hwid]
    exact h
  · exact idsOk_eraseP _ nw _ h

theorem hasStep_find {cfg : Cfg} {step : Nat} (h : ¬ ((!cfg.hasStep step) = true)) :
    ∃ c, cfg.find step = some c := by
  simp only [Cfg.hasStep, Bool.not_eq_true', Bool.not_eq_false] at h
  exact Option.isSome_iff_exists.mp h

theorem processStepResult_idsInv (cfg : Cfg) (hwf : cfg.WF) (pol : Policy) (step worker : Nat)
    (tickEv : Ev) (res : List Res) (st : State) (now : Int) (h : IdsInv cfg st) :
    IdsInv cfg (processStepResult cfg pol step worker tickEv res st now).1 := by
  unfold processStepResult
  split
  · exact h
  · rename_i hhas
    split
    · exact h
    · rename_i exec hfind
      obtain ⟨c, hc⟩ := hasStep_find hhas
      obtain ⟨hcmem, hcname⟩ := Cfg.mem_of_find hc
      subst hcname
      have hnw : cfg.nw c.name = c.numWorkers := Cfg.nw_of_mem hwf hcmem
      have hfold := foldl_applyRes_inProg cfg pol c.name tickEv (res.any isResult) res
        { st := st, exec := exec }
      have hinv : IdsInv cfg (res.foldl (applyRes cfg pol c.name tickEv (res.any isResult))
          { st := st, exec := exec }).st := IdsInv.of_inProg_eq h hfold.1
      have hwid : (res.foldl (applyRes cfg pol c.name tickEv (res.any isResult))
          { st := st, exec := exec }).exec.wid = worker := by
        rw [hfold.2]; exact find?_wid hfind
      simp only
      generalize (res.foldl (applyRes cfg pol c.name tickEv (res.any isResult))
          { st := st, exec := exec }) = acc at hinv hwid
      have hss1 := settle_idsOk acc c.name worker tickEv c.numWorkers hwid (hinv c hcmem)
      split
      · exact IdsInv.set hwf hinv hcmem hss1
      · apply IdsInv.set hwf hinv hcmem
        rw [hnw]
        exact drain_idsOk _ _ _ _ _ hss1

theorem processWaiterTimeout_idsInv (cfg : Cfg) (hwf : cfg.WF) (step waiter : Nat) (st : State)
    (now : Int) (h : IdsInv cfg st) : IdsInv cfg (processWaiterTimeout cfg step waiter st now).1 := by
  unfold processWaiterTimeout
  split
  · exact h
  · rename_i hhas
    simp only
    split
    · exact h
    · split
      · exact h
      · obtain ⟨c, hc⟩ := hasStep_find hhas
        obtain ⟨hcmem, hcname⟩ := Cfg.mem_of_find hc
        subst hcname
        have hnw : cfg.nw c.name = c.numWorkers := Cfg.nw_of_mem hwf hcmem
        apply IdsInv.set hwf h hcmem
        rw [hnw]
        apply addOrEnqueue_idsOk
        exact h c hcmem

/-- **C01, reducer level**: any tick whatsoever preserves the worker-slot invariant. -/
theorem reduce_idsInv (cfg : Cfg) (hwf : cfg.WF) (pol : Policy) (tick : Tick) (st : State) (now : Int)
    (h : IdsInv cfg st) : IdsInv cfg (reduce cfg pol tick st now).1 := by
  unfold reduce
  cases tick with
  | stepResult step worker ev res =>
    simp only
    split
    · exact processStepResult_idsInv cfg hwf pol step worker ev res st now h
    · exact processStepResult_idsInv cfg hwf pol step worker ev res st now h
  | addEvent att target =>
    simp only
    split
    · exact processAddEvent_idsInv cfg hwf att target st now h
    · exact processAddEvent_idsInv cfg hwf att target st now h
  | cancelRun => simp only; split <;> exact h
  | idleRelease => exact h
  | publish ev => simp only; split <;> exact h
  | timeout t => simp only; split <;> exact h
  | waiterTimeout step waiter =>
    simp only
    split
    · exact processWaiterTimeout_idsInv cfg hwf step waiter st now h
    · exact processWaiterTimeout_idsInv cfg hwf step waiter st now h
  | idleCheck => simp only; split <;> exact h

/-! ### rewind -/

theorem mem_insertSorted {c d : StepCfg} : ∀ {l : List StepCfg}, d ∈ insertSorted c l → d = c ∨ d ∈ l
  | [], h => by simp [insertSorted] at h; exact Or.inl h
  | e :: es, h => by
    unfold insertSorted at h
    split at h
    · simpa using h
    · rcases List.mem_cons.mp h with h | h
      · exact Or.inr (by simp [h])
      · rcases mem_insertSorted h with h | h
        · exact Or.inl h
        · exact Or.inr (by simp [h])

theorem mem_foldr_insertSorted {d : StepCfg} :
    ∀ (l : List StepCfg), d ∈ l.foldr insertSorted [] → d ∈ l
  | [], h => by simp at h
  | c :: cs, h => by
    simp only [List.foldr_cons] at h
    rcases mem_insertSorted h with h | h
    · simp [h]
    · simp [mem_foldr_insertSorted cs h]

theorem mem_sortedSteps {cfg : Cfg} {d : StepCfg} (h : d ∈ sortedSteps cfg) : d ∈ cfg.steps :=
  mem_foldr_insertSorted cfg.steps h

theorem rewindStep_idsOk (c : StepCfg) (ss : StepState) (now : Int) :
    IdsOk (rewindStep c ss now).1 c.numWorkers := by
  unfold rewindStep
  apply drain_idsOk
  simp [IdsOk, usedIds]

theorem rewindLoop_idsInv (cfg : Cfg) (hwf : cfg.WF) (now : Int) :
    ∀ (cs : List StepCfg) (st : State) (cmds : List Cmd), (∀ c ∈ cs, c ∈ cfg.steps) →
      IdsInv cfg st → IdsInv cfg (rewindLoop now cs st cmds).1
  | [], st, cmds, _, h => by simpa [rewindLoop] using h
  | c :: cs, st, cmds, hsub, h => by
    unfold rewindLoop
    apply rewindLoop_idsInv cfg hwf now cs _ _ (fun d hd => hsub d (by simp [hd]))
    exact IdsInv.set hwf h (hsub c (by simp)) (rewindStep_idsOk c _ now)

theorem rewind_idsInv (cfg : Cfg) (hwf : cfg.WF) (st : State) (now : Int) (h : IdsInv cfg st) :
    IdsInv cfg (rewind cfg st now).1 := by
  unfold rewind
  exact rewindLoop_idsInv cfg hwf now _ st [] (fun c hc => mem_sortedSteps hc) h

end Engine
