import WfProofs.SerialLemmas
import WfProofs.EngineIds
/-!
# C12 — pausing to a serialised context and resuming

Model: `Serial` (`BrokerState.to_serialized` → JSON → `from_serialized`), tied to the real code by
the `serde` correspondence (two consecutive round trips on generated states).

* **stable after one round trip**: `roundtrip (roundtrip st) = roundtrip st`, for every state;
* **what is resumed**: every queued and every in-progress invocation is in the resumed queue
  (queued ones first, in order, then the in-progress ones), nothing is in progress (so the worker
  limit invariant holds trivially and `rewind_in_progress` starts them again), buffers and
  waiters (id, replay event, awaited type, resolved event, timed-out mark) are kept;
* **existing retry count and recovery budget**: kept for *queued* invocations
  (`C12_queued_keep_retry_state`); for invocations that were *in progress* the statement is
  refuted — they are written as bare events and restart with `attempts = 0` and empty recovery
  counts (`C12_refuted_inprogress_budget`, known finding F11); it holds for in-progress
  invocations that had not failed yet (`C12_inprogress_budget_partial`);
* **work that only exists as a timer** (a retry waiting out its delay) is not part of the
  serialised context at all (`C12_refuted_scheduled_retry`, known finding) — `C12_same_result` is
  therefore checked on the implementation for snapshot points with no pending retry timer.
-/
set_option linter.unusedVariables false
open Engine

/-- **the serialised form is stable after one round trip** -/
theorem C12_roundtrip_stable (cfg : Cfg) (st : State) :
    roundtrip cfg (roundtrip cfg st) = roundtrip cfg st := by
  have hw : (roundtrip cfg (roundtrip cfg st)).workers = (roundtrip cfg st).workers := by
    funext n
    rw [roundtrip_workers cfg (roundtrip cfg st) n, roundtrip_workers cfg st n]
    by_cases h : cfg.hasStep n = true
    · simp only [h, if_true]
      apply deser_ser_deserStep
      intro a ha
      simp only [serStep, List.mem_map] at ha
      obtain ⟨b, _, rfl⟩ := ha
      exact serAttempt_idem b
    · simp [h]
  have hr : (roundtrip cfg (roundtrip cfg st)).isRunning = (roundtrip cfg st).isRunning := rfl
  cases h1 : roundtrip cfg (roundtrip cfg st) with
  | mk r1 w1 =>
    cases h2 : roundtrip cfg st with
    | mk r2 w2 =>
      rw [h1, h2] at hw hr
      simp only at hw hr
      rw [hw, hr]

/-- **nothing is lost from the queues**: the resumed queue is the queued invocations followed by
the in-progress ones; nothing is in progress; buffers are kept -/
theorem C12_resumed_step (cfg : Cfg) (st : State) (n : Nat) (h : cfg.hasStep n = true) :
    let ss := st.workers n
    let rs := (roundtrip cfg st).workers n
    rs.queue.map (·.ev) = ss.queue.map (·.ev) ++ ss.inProg.map (·.ev) ∧
    rs.inProg = [] ∧ rs.collected = ss.collected ∧
    rs.waiters.map (fun w => (w.wid, w.ev, w.waitTy, w.resolved, w.timedOut)) =
      ss.waiters.map (fun w => (w.wid, w.ev, w.waitTy, w.resolved, w.timedOut)) := by
  simp only [roundtrip_workers, h, if_true, deserStep, serStep, List.map_append, List.map_map]
  refine ⟨?_, trivial, trivial, ?_⟩
  · congr 1 <;> (apply List.map_congr_left; intro a _; rfl)
  · apply List.map_congr_left; intro w _; rfl

/-- a resumed state has no in-progress entries, so the worker-slot invariant (C01) holds in it
and `rewind_in_progress` + the queue drain start the invocations again within the limits -/
theorem C12_resumed_slots_ok (cfg : Cfg) (st : State) : IdsInv cfg (roundtrip cfg st) := by
  intro c _
  rw [roundtrip_workers]
  split
  · simp [deserStep, IdsOk, usedIds]
  · exact idsOk_empty _

/-- **queued invocations keep their retry count and recovery budget** (and first-attempt time,
last exception, last failure time) -/
theorem C12_queued_keep_retry_state (cfg : Cfg) (st : State) (n : Nat) (h : cfg.hasStep n = true)
    (i : Nat) (a : Attempt) (ha : (st.workers n).queue[i]? = some a) :
    ∃ b, ((roundtrip cfg st).workers n).queue[i]? = some b ∧ b.ev = a.ev ∧
      orNat b.attempts 0 = orNat a.attempts 0 ∧ b.firstAt = a.firstAt ∧ b.lastExc = a.lastExc ∧
      b.lastFailedAt = a.lastFailedAt ∧ b.rc = a.rc := by
  refine ⟨serAttempt a, ?_, rfl, by simp [serAttempt, orNat_orNat], rfl, rfl, rfl, rfl⟩
  simp only [roundtrip_workers, h, if_true, deserStep, serStep]
  have hi : i < ((st.workers n).queue.map serAttempt).length := by
    have := (List.getElem?_eq_some_iff.mp ha).1
    simpa using this
  rw [List.getElem?_append_left hi]
  simp [ha]

/-- **invocations suspended in `wait_for_event` keep their retry count and recovery budget**: the
waiter comes back at the same position with the same id and replays the same attempt (event,
attempts, first-attempt time, last exception, last failure time, recovery counts) -/
theorem C12_waiting_keep_retry_state (cfg : Cfg) (st : State) (n : Nat) (h : cfg.hasStep n = true)
    (i : Nat) (w : Waiter) (hw : (st.workers n).waiters[i]? = some w) :
    ∃ v, ((roundtrip cfg st).workers n).waiters[i]? = some v ∧ v.wid = w.wid ∧ v.replay = w.replay ∧
      v.resolved = w.resolved ∧ v.timedOut = w.timedOut := by
  refine ⟨deserWaiter (serWaiter w), ?_, rfl, rfl, rfl, rfl⟩
  simp [roundtrip_workers, h, deserStep, serStep, hw]

/-- the full statement for in-progress invocations: each comes back with its retry count and
recovery counts -/
def C12_statement_inprogress_budget : Prop :=
  ∀ (ss : StepState) (ip : InProg), ip ∈ ss.inProg →
    ∃ a ∈ (deserStep (serStep ss)).queue, a.ev = ip.ev ∧ orNat a.attempts 0 = ip.attempts ∧ a.rc = ip.rc

/-- refuted (F11): an invocation on its third attempt, with one recovery spent, restarts from 0 -/
theorem C12_refuted_inprogress_budget : ¬ C12_statement_inprogress_budget := by
  intro h
  let ip : InProg := { ev := { ty := 5, kind := .plain, uid := 1 }, wid := 0, snapEvents := [], snapWaiters := [],
                       attempts := 2, firstAt := 10, rc := [(12, 1)] }
  obtain ⟨a, ha, _, h2, _⟩ := h { inProg := [ip] } ip (by simp)
  simp only [deserStep, serStep, List.map_nil, List.nil_append, List.map_cons, List.mem_singleton] at ha
  subst ha
  simp [orNat, ip] at h2

/-- it holds for in-progress invocations that had not failed yet and carry no recovery count -/
theorem C12_inprogress_budget_partial (ss : StepState) (ip : InProg) (hm : ip ∈ ss.inProg)
    (h0 : ip.attempts = 0) (hrc : ip.rc = []) :
    ∃ a ∈ (deserStep (serStep ss)).queue, a.ev = ip.ev ∧ orNat a.attempts 0 = ip.attempts ∧ a.rc = ip.rc := by
  refine ⟨{ ev := ip.ev, attempts := some 0, firstAt := none }, ?_, rfl, by simp [orNat, h0], by simp [hrc]⟩
  simp only [deserStep, serStep, List.mem_append, List.mem_map]
  exact Or.inr ⟨ip.ev, ⟨ip, hm, rfl⟩, rfl⟩

/-! ## work that exists only as a timer -/

/-- full statement: an event whose delivery is scheduled (a retry waiting out its delay) is part
of what `ctx.to_dict()` writes -/
def C12_statement_scheduled_retry (cfg : Cfg) (pol : Policy) (r : Runner) : Prop :=
  ∀ tm ∈ r.heap, ∀ att tgt, tm.tick = .addEvent att tgt →
    ∃ p ∈ (ser cfg r.st).workers, att.ev ∈ p.2.queue.map (·.ev) ∨ att.ev ∈ p.2.inProg

def C12.cfg : Cfg := { steps := [{ name := 0, accepted := [0], numWorkers := 1, hasRetry := true }] }
def C12.pol : Policy := fun _ _ _ _ => .retry 5
def C12.run : Runner :=
  Runner.run C12.cfg C12.pol (Runner.init C12.cfg initState 0 (some { ty := 0, kind := .start, uid := 1 }) none)
    [.drain, .workerDone 0 0 [.failed 7 0], .drain]

/-- refuted: after a failure with a 5 s retry delay the event sits in the timer heap only; the
serialised context has an empty queue and nothing in progress -/
theorem C12_refuted_scheduled_retry : ¬ C12_statement_scheduled_retry C12.cfg C12.pol C12.run := by
  intro h
  have hheap : C12.run.heap.map (·.tick) =
      [.addEvent { ev := { ty := 0, kind := .start, uid := 1 }, attempts := some 1, firstAt := some 0,
                   lastExc := some 7, lastFailedAt := some 0 } (some 0)] := by decide
  cases hh : C12.run.heap with
  | nil => rw [hh] at hheap; simp at hheap
  | cons tm rest =>
    rw [hh] at hheap
    simp only [List.map_cons, List.cons.injEq] at hheap
    obtain ⟨p, hp, hq⟩ := h tm (by rw [hh]; simp) _ _ hheap.1
    have hser : (ser C12.cfg C12.run.st).workers = [(0, { queue := [], inProg := [], collected := [], waiters := [] })] := by
      decide
    rw [hser] at hp
    simp only [List.mem_singleton] at hp
    subst hp
    simp at hq

/-! ## non-vacuity -/

example : (roundtrip C12.cfg
    { isRunning := true, workers := fun _ =>
        { queue := [{ ev := { ty := 0, kind := .start, uid := 3 }, attempts := some 2, rc := [(9, 1)] }],
          inProg := [{ ev := { ty := 0, kind := .start, uid := 4 }, wid := 0, snapEvents := [], snapWaiters := [],
                       attempts := 1, firstAt := 5 }] } }).workers 0 =
    { queue := [{ ev := { ty := 0, kind := .start, uid := 3 }, attempts := some 2, rc := [(9, 1)] },
                { ev := { ty := 0, kind := .start, uid := 4 }, attempts := some 0 }] } := by decide
