"""C26 — idle release and resume never lose an event or double-run a workflow."""
from __future__ import annotations

from ..runner import Env, Outcome, Violation
from ..server import idle_check as IC
from ..server import lifecycle_props as LP

THEOREMS = ["C26_source_shape", "C26_single_loop", "C26_tick_accounting", "C26_no_lost_send", "C26_released_only_when_quiet", "C26_no_lost_send_atomic_store",
            "C26_refuted_premature_idle", "C26_refuted_premature_idle_lost", "C26_refuted_send_window", "C26_refuted",
            "C26_idleSound_is_C03", "C26_lifecycle_constants", "C26_cas_unique_owner", "C26_crash_timeout",
            "C26_dbos_check_then_send_window", "C26_dbos_tick_accounting", "C26_dbos_stranding_only_in_windows"]
LEAN_TARGETS = ["WfProps.C26"]
EXPLANATION = (
    "Lean (model M7, WfModel/Lifecycle.lean; schedules = arbitrary lists of the code's await-free sections, any number of senders / release "
    "tasks / releasers / resumers): for every schedule — live loops = started - aborted <= 1, active set = runtime registry, no failing reload or "
    "delivery (C26_single_loop); every tick is persisted, in the live loop's memory, or counted lost — exactly one of them (C26_tick_accounting); "
    "CAS wins of the lifecycle row strictly alternate release / activate, a losing CAS changes nothing, the releasing row has exactly one holder "
    "(C26_cas_unique_owner); takeovers only later than CRASH_TIMEOUT_SECONDS and, if live releasers are prompt, only of crashed releasers "
    "(C26_crash_timeout). Under the schedule hypotheses IdleSound (= C03's statement, refuted there) and WindowFree: nothing lost, released only "
    "when quiet (C26_no_lost_send, C26_released_only_when_quiet). Both hypotheses are necessary: C26_refuted_premature_idle (F14) and "
    "C26_refuted_send_window are machine-checked witnesses that replay on the real server stack (known findings). Tie: every action the real "
    "IdleReleaseDecorator stack performs (observed through pass-through wrappers under the virtual-time loop, with scheduler-controlled "
    "suspension of lock holders after store calls) is fed to the compiled model and the complete observable state is compared after each "
    "action; the real SqliteRunLifecycleLock is compared with the row model on random concurrent CAS streams; the real "
    "DBOSIdleReleaseDecorator's release/resume cycle runs over a stand-in inner runtime. Constants, SQL and control shapes are re-extracted "
    "from the sources on every run (GenLifecycle). Search: monitors on the observation log only (single loop, lock sections, busy releases "
    "classified by the truthfulness of the last idle announcement, every accepted send processed, no step twice). "
    "DBOS half under latency (harness/server/dbos_gated.py, shared with C36): the real DBOSIdleReleaseDecorator + SqliteRunLifecycleLock with virtual-time "
    "latency before / after every lifecycle CAS (so that begin_release, complete_release and try_begin_resume really suspend their caller, as a PostgreSQL "
    "round trip does) and on every delivery to the run, client sends placed on the instants of the first release and in bursts on a released / releasing "
    "run, steps that take time, every open send followed past the 120 s crash timeout. K: every observed protocol action against machine B of M7 (row, "
    "incarnation, mailbox, reduced ticks, stranded ticks, releaser / sender positions, releaser task ended early). Lean for B: every finished send's tick is "
    "in exactly one of reduced / mailbox / stranded and nothing else is (C26_dbos_tick_accounting); only the two check-then-send windows strand a tick "
    "(C26_dbos_stranding_only_in_windows). C26's monitors there: no control loop is started while another loop of the run is live; try_begin_resume gives the "
    "resume away only from `released` or from `releasing` older than the crash timeout, once per release, and only an owner reloads; from the commit of "
    "active->releasing to complete_release the releaser's task is alive (no crash is injected) or the row has left that `releasing`; when TickIdleRelease ends "
    "a loop the run has no client tick in its mailbox, no running step and an idle announcement later than its last tick; every accepted event is worked off "
    "to the end of its step when the execution ends. What the unchanged tree does to a tick that is in flight while the run is released / resumed "
    "(causes `tick_arrived_during_release`, `tick_sent_during_resume`) is classified apart, reproduced by three witnesses and counted."
)
LEVEL_TEXT = ("proof (Lean 4) over the lifecycle model M7 — in-process IdleReleaseDecorator and the DBOS lifecycle row/protocol — "
              "+ per-action correspondence with the real in-process server stack and the real SqliteRunLifecycleLock + monitors; "
              "PARTIAL for the DBOS half: dbos/asyncpg/sqlalchemy are absent (DBOSIdleReleaseDecorator runs over a stand-in inner runtime, "
              "the PostgreSQL lock is extracted, not run)")
ASSUMPTIONS = LP.COMMON_ASSUMPTIONS + [
    "C26_dbos_check_then_send_window is a model-only witness (a message sent to a workflow that has exited is assumed dropped when _do_resume purges its DBOS state); not claimed as a finding",
    "DBOS half under latency: what DBOS adds to the decorator is taken to be latency (and suspension of the calling task) on the lifecycle statements and on deliveries; "
    "a message delivered to a workflow that has exited is gone when _do_resume purges that workflow (same rule as the model's `stranded`); no process crash is injected there "
    "(releaser crashes: Lean, C26_crash_timeout / C26_cas_unique_owner, and the row-level correspondence) — so a releaser task that ends between its CAS and complete_release did so "
    "by the code's own doing; `eventually processed` is judged when the execution ends: after the case's quiet period and, for a send that is still open, 120 s + the case's latencies later",
    "unchanged-tree behaviour classified apart on the gated DBOS stack, not claimed by this check (counted on every run, witnesses in harness/corpus/c26_dbos_*.json): a tick that passed "
    "try_begin_resume while the row said `active` and reaches the run after that release's timer fired does not stop the release — TickIdleRelease is reduced unconditionally, so the run is "
    "released with the tick's step running (step cancelled; re-run only if some later send reloads the run) or with the tick left in / delivered to the exited workflow's mailbox "
    "(`...:tick_arrived_during_release`); a tick admitted after a resumer's CAS set the row to `active` and before the new workflow exists goes to the exited workflow "
    "(`...:tick_sent_during_resume`). Any other way of releasing a busy run or losing an accepted event has its own signature",
]
TRUSTED_EXTRA = LP.TRUSTED_EXTRA + [
    "harness/server/dbos_gated.py: the stand-in engine under DBOSIdleReleaseDecorator (BasicRuntime; ticks delivered by run id after a virtual-time latency, "
    "as DBOS.send is; DBOS.retrieve_workflow_async / delete_workflow_async emulated by hooks), the latency wrapper around the real SqliteRunLifecycleLock, the "
    "task bookkeeping that attributes lock calls to releasers / senders, the lifecycle row inserted by the harness",
]

WITNESSES = [
    ("premature_idle(F14)", IC.WITNESS_PREMATURE_IDLE, "C26/released_while_busy:premature_idle"),
    ("send_window", IC.WITNESS_SEND_WINDOW, "C26/released_while_busy:send_window"),
]


def run(env: Env) -> Outcome:
    out = Outcome()
    out.rule = ("generated idle workflows (1-5 external events + optional final, durations and send times on a grid around idle_timeout, 1-2 workers, "
                "memory/sqlite store, 1/3 with scheduler-controlled store suspension, 1/4 with work longer than idle_timeout and retries); "
                "non-trivial = at least one release and one reload; distinct by (case, schedule). DBOS half under latency: idle_timeout, latencies of the eight "
                "round trips from {0,1,10,...,300} ms (per-call cycles), 0-4 sends on the instants of the first release or in a burst on the released run, "
                "step work 0/30/120/400 ms; non-trivial = TickIdleRelease sent and a reload")
    LP.run_malformed(out)
    LP.run_inprocess(env, out, "C26", env.budget(24, 2400), WITNESSES)
    LP.run_row_corr(env, out, env.budget(300, 40000))
    o = LP.run_dbos_standin(out, create_row=True)
    tl = {t["tag"]: t for t in o["timeline"]}
    if not (tl.get("after_idle", {}).get("row", "").startswith("row=released") and tl.get("after_send_99", {}).get("result") == [1, 99]
            and o.get("idle_release_ticks") == 1):
        out.violations.append(Violation("C26/dbos_standin_cycle", f"with the lifecycle row present the stand-in release/resume cycle did not complete: {o['timeline']}",
                                        {"kind": "dbos_standin", "create_row": True}))
    o0 = LP.run_dbos_standin(out, create_row=False)
    begins = [c for c in o0["lock_calls"] if c[0] == "begin_release"]
    if o0.get("idle_release_ticks", 0) > 0 and not any(c[1] == "True" for c in begins):
        out.violations.append(Violation("C26/dbos_release_without_cas",
                                        f"TickIdleRelease was sent although no begin_release won the CAS: lock calls {o0['lock_calls']}",
                                        {"kind": "dbos_standin", "create_row": False}))
    # DBOS half under latency: a lifecycle lock whose calls really suspend, sends placed on the instants of a release / a resume
    LP.run_dbos_gated(env, out, "C26", env.budget(40, 1500))
    return out
