import WfProofs.ValidateDfs
/-!
Helper lemmas for C23, part 2: what each check of `_validate_workflow` decides, stated without
reference to the executable definitions' list plumbing.
-/
namespace Validate

/-! ### the regenerated tuples of root classes -/

theorem subAny_start (H : Hier) (c : Cls) : subAny H Gen.C23.startRoots c = isSub H c cStart := by
  simp [subAny, Gen.C23.startRoots, cStart]

theorem subAny_stop (H : Hier) (c : Cls) : subAny H Gen.C23.stopRoots c = isSub H c cStop := by
  simp [subAny, Gen.C23.stopRoots, cStop]

theorem subAny_acceptStop (H : Hier) (c : Cls) : subAny H Gen.C23.acceptStopRoots c = isSub H c cStop := by
  simp [subAny, Gen.C23.acceptStopRoots, cStop]

theorem subAny_seed (H : Hier) (c : Cls) : subAny H Gen.C23.seedRoots c = isSub H c cHumanResponse := by
  simp [subAny, Gen.C23.seedRoots, cHumanResponse]

theorem subAny_consumedBoundary (H : Hier) (c : Cls) :
    subAny H Gen.C23.consumedBoundary c = true ↔
      isSub H c cInputRequired = true ∨ isSub H c cHumanResponse = true ∨ isSub H c cStop = true ∨
        isSub H c cStepFailed = true := by
  simp [subAny, Gen.C23.consumedBoundary, cInputRequired, cHumanResponse, cStop, cStepFailed]

theorem subAny_producedBoundary (H : Hier) (c : Cls) :
    subAny H Gen.C23.producedBoundary c = true ↔
      isSub H c cInputRequired = true ∨ isSub H c cHumanResponse = true ∨ isSub H c cStop = true := by
  simp [subAny, Gen.C23.producedBoundary, cInputRequired, cHumanResponse, cStop]

theorem subAny_output (H : Hier) (c : Cls) :
    subAny H Gen.C23.outputRoots c = true ↔ isSub H c cStop = true ∨ isSub H c cInputRequired = true := by
  simp [subAny, Gen.C23.outputRoots, cInputRequired, cStop]

theorem subAny_terminal (H : Hier) (c : Cls) :
    subAny H Gen.C23.terminalRoots c = true ↔ isSub H c cStop = true ∨ isSub H c cInputRequired = true := by
  simp [subAny, Gen.C23.terminalRoots, cInputRequired, cStop]

/-! ### membership in the collected sets -/

theorem mem_allAccepted {W : List Step} {c : Cls} : c ∈ allAccepted W ↔ ∃ s ∈ W, c ∈ s.accepted := by
  simp [allAccepted, List.mem_flatMap]

theorem mem_allReturns {W : List Step} {c : Cls} : c ∈ allReturns W ↔ ∃ s ∈ W, c ∈ s.returns := by
  simp [allReturns, List.mem_flatMap]

theorem mem_produced {W : List Step} {start c : Cls} :
    c ∈ produced W start ↔ c = start ∨ ((∃ s ∈ W, c ∈ s.returns) ∧ c ≠ cNone) := by
  simp [produced, mem_allReturns]

theorem mem_eventTypes {W : List Step} {c : Cls} :
    c ∈ eventTypes W ↔ (∃ s ∈ W, c ∈ s.accepted) ∨ ((∃ s ∈ W, c ∈ s.returns) ∧ c ≠ cNone) := by
  simp only [eventTypes, mem_dedup, List.mem_flatMap, List.mem_append, List.mem_filter, bne_iff_ne, ne_eq]
  constructor
  · rintro ⟨s, hs, h | ⟨h, hn⟩⟩
    · exact Or.inl ⟨s, hs, h⟩
    · exact Or.inr ⟨⟨s, hs, h⟩, hn⟩
  · rintro (⟨s, hs, h⟩ | ⟨⟨s, hs, h⟩, hn⟩)
    · exact ⟨s, hs, Or.inl h⟩
    · exact ⟨s, hs, Or.inr ⟨h, hn⟩⟩

theorem mem_names {W : List Step} {n : Nat} : n ∈ names W ↔ ∃ s ∈ W, s.name = n := by
  simp [names]

/-- dict keys are distinct: a name determines its step -/
theorem step_of_name {W : List Step} (hnd : (names W).Nodup) {s t : Step} (hs : s ∈ W) (ht : t ∈ W)
    (h : s.name = t.name) : s = t := by
  induction W with
  | nil => simp at hs
  | cons a W ih =>
    simp only [names, List.map_cons, List.nodup_cons, List.mem_map, not_exists, not_and] at hnd
    rcases List.mem_cons.mp hs with rfl | hs' <;> rcases List.mem_cons.mp ht with rfl | ht'
    · rfl
    · exact absurd h.symm (hnd.1 t ht')
    · exact absurd h (hnd.1 s hs')
    · exact ih hnd.2 hs' ht'

/-! ### start / stop inference -/

theorem unique_of_list {l : List Nat} :
    (∃ c, dedup l = [c]) ∨ dedup l = [] ∨ ∃ a b r, dedup l = a :: b :: r := by
  match dedup l with
  | [] => exact Or.inr (Or.inl rfl)
  | [c] => exact Or.inl ⟨c, rfl⟩
  | a :: b :: r => exact Or.inr (Or.inr ⟨a, b, r, rfl⟩)

theorem ensureStart_ok {H : Hier} {W : List Step} {c : Cls} :
    ensureStart H W = .ok c ↔
      ((∃ s ∈ W, c ∈ s.accepted) ∧ isSub H c cStart = true) ∧
        ∀ d, (∃ s ∈ W, d ∈ s.accepted) → isSub H d cStart = true → d = c := by
  have key : ensureStart H W = .ok c ↔ startsFound H W = [c] := by
    unfold ensureStart
    split <;> rename_i h <;> simp [h]
  rw [key, startsFound, dedup_eq_singleton]
  simp only [List.mem_filter, subAny_start, mem_allAccepted, and_imp]

theorem ensureStart_noStart {H : Hier} {W : List Step} :
    ensureStart H W = .error .noStart ↔ ∀ d, (∃ s ∈ W, d ∈ s.accepted) → isSub H d cStart = false := by
  have key : ensureStart H W = .error .noStart ↔ startsFound H W = [] := by
    unfold ensureStart
    split <;> rename_i h <;> simp [h]
  rw [key, startsFound, dedup_eq_nil, List.filter_eq_nil_iff]
  simp only [subAny_start, mem_allAccepted, Bool.not_eq_true]

theorem ensureStart_multi {H : Hier} {W : List Step} :
    ensureStart H W = .error .multiStart ↔
      ∃ c d, c ≠ d ∧ ((∃ s ∈ W, c ∈ s.accepted) ∧ isSub H c cStart = true) ∧
        ((∃ s ∈ W, d ∈ s.accepted) ∧ isSub H d cStart = true) := by
  have hmem : ∀ x, x ∈ startsFound H W ↔ (∃ s ∈ W, x ∈ s.accepted) ∧ isSub H x cStart = true := by
    intro x
    simp only [startsFound, mem_dedup, List.mem_filter, subAny_start, mem_allAccepted]
  have hnd : (startsFound H W).Nodup := nodup_dedup _
  unfold ensureStart
  split <;> rename_i h
  · constructor
    · intro hh; simp at hh
    · rintro ⟨c, d, _, hc, _⟩
      have := (hmem c).2 hc
      rw [h] at this; simp at this
  · constructor
    · intro hh; simp at hh
    · rintro ⟨c, d, hcd, hc, hd⟩
      have h1 := (hmem c).2 hc
      have h2 := (hmem d).2 hd
      rw [h] at h1 h2
      simp only [List.mem_singleton] at h1 h2
      exact absurd (h1.trans h2.symm) hcd
  · rename_i a b r
    simp only [true_iff]
    refine ⟨a, b, ?_, (hmem a).1 (by rw [h]; simp), (hmem b).1 (by rw [h]; simp)⟩
    rw [h, List.nodup_cons] at hnd
    intro hab
    exact hnd.1 (by simp [hab])

theorem ensureStart_cases (H : Hier) (W : List Step) :
    (∃ c, ensureStart H W = .ok c) ∨ ensureStart H W = .error .noStart ∨ ensureStart H W = .error .multiStart := by
  unfold ensureStart
  split
  · exact Or.inr (Or.inl rfl)
  · exact Or.inl ⟨_, rfl⟩
  · exact Or.inr (Or.inr rfl)

theorem ensureStop_ok {H : Hier} {W : List Step} {c : Cls} :
    ensureStop H W = .ok c ↔
      ((∃ s ∈ W, c ∈ s.returns) ∧ isSub H c cStop = true) ∧
        ∀ d, (∃ s ∈ W, d ∈ s.returns) → isSub H d cStop = true → d = c := by
  have key : ensureStop H W = .ok c ↔ stopsFound H W = [c] := by
    unfold ensureStop
    split <;> rename_i h <;> simp [h]
  rw [key, stopsFound, dedup_eq_singleton]
  simp only [List.mem_filter, subAny_stop, mem_allReturns, and_imp]

theorem ensureStop_noStop {H : Hier} {W : List Step} :
    ensureStop H W = .error .noStop ↔ ∀ d, (∃ s ∈ W, d ∈ s.returns) → isSub H d cStop = false := by
  have key : ensureStop H W = .error .noStop ↔ stopsFound H W = [] := by
    unfold ensureStop
    split <;> rename_i h <;> simp [h]
  rw [key, stopsFound, dedup_eq_nil, List.filter_eq_nil_iff]
  simp only [subAny_stop, mem_allReturns, Bool.not_eq_true]

theorem ensureStop_multi {H : Hier} {W : List Step} :
    ensureStop H W = .error .multiStop ↔
      ∃ c d, c ≠ d ∧ ((∃ s ∈ W, c ∈ s.returns) ∧ isSub H c cStop = true) ∧
        ((∃ s ∈ W, d ∈ s.returns) ∧ isSub H d cStop = true) := by
  have hmem : ∀ x, x ∈ stopsFound H W ↔ (∃ s ∈ W, x ∈ s.returns) ∧ isSub H x cStop = true := by
    intro x
    simp only [stopsFound, mem_dedup, List.mem_filter, subAny_stop, mem_allReturns]
  have hnd : (stopsFound H W).Nodup := nodup_dedup _
  unfold ensureStop
  split <;> rename_i h
  · constructor
    · intro hh; simp at hh
    · rintro ⟨c, d, _, hc, _⟩
      have := (hmem c).2 hc
      rw [h] at this; simp at this
  · constructor
    · intro hh; simp at hh
    · rintro ⟨c, d, hcd, hc, hd⟩
      have h1 := (hmem c).2 hc
      have h2 := (hmem d).2 hd
      rw [h] at h1 h2
      simp only [List.mem_singleton] at h1 h2
      exact absurd (h1.trans h2.symm) hcd
  · rename_i a b r
    simp only [true_iff]
    refine ⟨a, b, ?_, (hmem a).1 (by rw [h]; simp), (hmem b).1 (by rw [h]; simp)⟩
    rw [h, List.nodup_cons] at hnd
    intro hab
    exact hnd.1 (by simp [hab])

theorem ensureStop_cases (H : Hier) (W : List Step) :
    (∃ c, ensureStop H W = .ok c) ∨ ensureStop H W = .error .noStop ∨ ensureStop H W = .error .multiStop := by
  unfold ensureStop
  split
  · exact Or.inr (Or.inl rfl)
  · exact Or.inl ⟨_, rfl⟩
  · exact Or.inr (Or.inr rfl)

/-! ### event connectivity -/

theorem mem_acceptingStop {H : Hier} {W : List Step} {n : Nat} :
    n ∈ acceptingStop H W ↔ ∃ s ∈ W, s.name = n ∧ ∃ c ∈ s.accepted, isSub H c cStop = true := by
  simp only [acceptingStop, List.mem_map, List.mem_filter, List.any_eq_true, subAny_acceptStop]
  constructor
  · rintro ⟨s, ⟨hs, h⟩, rfl⟩; exact ⟨s, hs, rfl, h⟩
  · rintro ⟨s, hs, rfl, h⟩; exact ⟨s, ⟨hs, h⟩, rfl⟩

theorem acceptingStop_nil {H : Hier} {W : List Step} :
    acceptingStop H W = [] ↔ ∀ s ∈ W, ∀ c ∈ s.accepted, isSub H c cStop = false := by
  rw [List.eq_nil_iff_forall_not_mem]
  simp only [mem_acceptingStop, not_exists, not_and, Bool.not_eq_true]
  constructor
  · intro h s hs c hc; exact h s.name s hs rfl c hc
  · intro h n s hs _ c hc; exact h s hs c hc

theorem mem_unconsumed {H : Hier} {W : List Step} {start c : Cls} :
    c ∈ unconsumed H W start ↔
      (∃ s ∈ W, c ∈ s.accepted) ∧ c ∉ produced W start ∧ subAny H Gen.C23.consumedBoundary c = false := by
  simp [unconsumed, mem_dedup, consumed, mem_allAccepted]

theorem mem_unused {H : Hier} {W : List Step} {start c : Cls} :
    c ∈ unused H W start ↔
      c ∈ produced W start ∧ ¬(∃ s ∈ W, c ∈ s.accepted) ∧ subAny H Gen.C23.producedBoundary c = false := by
  simp [unused, mem_dedup, consumed, mem_allAccepted]

/-! ### the `@catch_error` table -/

/-- the concatenation of all `for_steps` lists, in declaration order -/
def claimTargets (W : List Step) : List Nat := (W.filter (·.handler)).flatMap fun h => h.forSteps.getD []

def wildcardCount (W : List Step) : Nat := (W.filter fun s => s.handler && s.forSteps.isNone).length

theorem wildcards_handlerDecls (W : List Step) :
    (Handlers.wildcards (handlerDecls W)).length = wildcardCount W := by
  induction W with
  | nil => rfl
  | cons a W ih =>
    simp only [handlerDecls, Handlers.wildcards, wildcardCount] at ih ⊢
    simp only [List.filter_cons]
    cases ha : a.handler <;> cases hf : a.forSteps <;> simp [hf, ih]

theorem claims_handlerDecls (W : List Step) :
    (Handlers.claims (handlerDecls W)).map (·.1) = claimTargets W := by
  induction W with
  | nil => rfl
  | cons a W ih =>
    simp only [handlerDecls, Handlers.claims, claimTargets] at ih ⊢
    simp only [List.filter_cons]
    cases ha : a.handler
    · simpa using ih
    · simp only [if_true, List.map_cons, List.flatMap_cons, List.map_append, List.map_map, ih]
      congr 1
      induction (a.forSteps.getD []) with
      | nil => rfl
      | cons x xs ihx => simp [ihx]

theorem names_handlerDecls (W : List Step) :
    Handlers.names (handlerDecls W) = (W.filter (·.handler)).map (·.name) := by
  simp [Handlers.names, handlerDecls, List.map_map, Function.comp_def]

theorem handlers_valid_iff (W : List Step) :
    Handlers.valid (names W) (handlerDecls W) = true ↔
      wildcardCount W ≤ 1 ∧
      (∀ t ∈ claimTargets W, t ∈ names W ∧ t ∉ (W.filter (·.handler)).map (·.name)) ∧
      (claimTargets W).Nodup ∧
      ∀ s ∈ W, s.handler = true → 1 ≤ s.maxRec := by
  have hall : ((Handlers.claims (handlerDecls W)).all fun c =>
        (names W).contains c.1 && !(Handlers.names (handlerDecls W)).contains c.1) = true ↔
      ∀ t ∈ claimTargets W, t ∈ names W ∧ t ∉ (W.filter (·.handler)).map (·.name) := by
    rw [← claims_handlerDecls, names_handlerDecls]
    simp only [List.all_eq_true, Bool.and_eq_true, List.contains_iff_mem, Bool.not_eq_true', List.mem_map]
    constructor
    · rintro h t ⟨c, hc, rfl⟩
      have := h c hc
      refine ⟨this.1, ?_⟩
      intro hm
      have h2 := this.2
      rw [← Bool.not_eq_true, List.contains_iff_mem] at h2
      exact h2 (List.mem_map.mpr hm)
    · intro h c hc
      have := h c.1 ⟨c, hc, rfl⟩
      refine ⟨this.1, ?_⟩
      rw [← Bool.not_eq_true, List.contains_iff_mem]
      intro hm
      exact this.2 (List.mem_map.mp hm)
  have hbud : ((handlerDecls W).all fun h => decide (1 ≤ h.maxRec)) = true ↔
      ∀ s ∈ W, s.handler = true → 1 ≤ s.maxRec := by
    simp only [handlerDecls, List.all_eq_true, List.mem_map, List.mem_filter, decide_eq_true_eq]
    constructor
    · intro h s hs hh; exact h _ ⟨s, ⟨hs, hh⟩, rfl⟩
    · rintro h d ⟨s, ⟨hs, hh⟩, rfl⟩; exact h s hs hh
  unfold Handlers.valid
  rw [Bool.and_eq_true, Bool.and_eq_true, Bool.and_eq_true, hall, hbud, decide_eq_true_eq, decide_eq_true_eq,
    wildcards_handlerDecls, claims_handlerDecls]
  constructor
  · rintro ⟨⟨⟨a, b⟩, c⟩, d⟩; exact ⟨a, b, c, d⟩
  · rintro ⟨a, b, c, d⟩; exact ⟨⟨⟨a, b⟩, c⟩, d⟩

theorem handlers_budgets_iff (W : List Step) :
    ((handlerDecls W).all fun h => decide (1 ≤ h.maxRec)) = true ↔ ∀ s ∈ W, s.handler = true → 1 ≤ s.maxRec := by
  simp only [handlerDecls, List.all_eq_true, List.mem_map, List.mem_filter, decide_eq_true_eq]
  constructor
  · intro h s hs hh; exact h _ ⟨s, ⟨hs, hh⟩, rfl⟩
  · rintro h d ⟨s, ⟨hs, hh⟩, rfl⟩; exact h s hs hh

/-- with distinct names: a claimed name belongs to a declared step that is not a handler -/
theorem target_ok_iff {W : List Step} (hnd : (names W).Nodup) (t : Nat) :
    (t ∈ names W ∧ t ∉ (W.filter (·.handler)).map (·.name)) ↔ ∃ s ∈ W, s.name = t ∧ s.handler = false := by
  constructor
  · rintro ⟨h1, h2⟩
    obtain ⟨s, hs, rfl⟩ := mem_names.mp h1
    refine ⟨s, hs, rfl, ?_⟩
    cases hh : s.handler
    · rfl
    · exact absurd (List.mem_map.mpr ⟨s, List.mem_filter.mpr ⟨hs, hh⟩, rfl⟩) h2
  · rintro ⟨s, hs, rfl, hh⟩
    refine ⟨mem_names.mpr ⟨s, hs, rfl⟩, ?_⟩
    intro hm
    obtain ⟨h, hh', hn⟩ := List.mem_map.mp hm
    have hmem := List.mem_filter.mp hh'
    have := step_of_name hnd hmem.1 hs hn
    subst this
    rw [hh] at hmem
    exact absurd hmem.2 (by simp)

/-! ### the step graph -/

theorem mem_edges {W : List Step} {a b : Node} :
    (a, b) ∈ edges W ↔
      (∃ s ∈ W, ∃ c ∈ s.accepted, a = Node.ev c ∧ b = Node.step s.name) ∨
      (∃ s ∈ W, ∃ c ∈ s.returns, c ≠ cNone ∧ a = Node.step s.name ∧ b = Node.ev c) := by
  simp only [edges, stepEdges, List.mem_flatMap, List.mem_append, List.mem_map, List.mem_filter, bne_iff_ne, ne_eq,
    Prod.mk.injEq]
  constructor
  · rintro ⟨s, hs, ⟨c, hc, h1, h2⟩ | ⟨c, ⟨hc, hn⟩, h1, h2⟩⟩
    · exact Or.inl ⟨s, hs, c, hc, h1.symm, h2.symm⟩
    · exact Or.inr ⟨s, hs, c, hc, hn, h1.symm, h2.symm⟩
  · rintro (⟨s, hs, c, hc, h1, h2⟩ | ⟨s, hs, c, hc, hn, h1, h2⟩)
    · exact ⟨s, hs, Or.inl ⟨c, hc, h1.symm, h2.symm⟩⟩
    · exact ⟨s, hs, Or.inr ⟨c, ⟨hc, hn⟩, h1.symm, h2.symm⟩⟩

theorem mem_skipNames {W : List Step} (hnd : (names W).Nodup) {s : Step} (hs : s ∈ W) (code : Nat) :
    s.name ∈ skipNames W code ↔ code ∈ s.skip := by
  simp only [skipNames, List.mem_map, List.mem_filter, List.contains_iff_mem]
  constructor
  · rintro ⟨t, ⟨ht, hc⟩, hn⟩
    have := step_of_name hnd ht hs hn
    subst this; exact hc
  · intro hc; exact ⟨s, ⟨hs, hc⟩, rfl⟩

theorem mem_fwdSeeds {H : Hier} {W : List Step} {start : Cls} {x : Node} :
    x ∈ fwdSeeds H W start ↔
      x = Node.ev start ∨ (∃ c ∈ eventTypes W, isSub H c cHumanResponse = true ∧ x = Node.ev c) ∨
        ∃ s ∈ W, s.handler = true ∧ x = Node.step s.name := by
  simp only [fwdSeeds, List.mem_cons, List.mem_append, List.mem_map, List.mem_filter, Bool.and_eq_true, subAny_seed,
    bne_iff_ne, ne_eq, handlerDecls]
  constructor
  · rintro (h | ⟨c, ⟨hc, hs, _⟩, rfl⟩ | ⟨d, ⟨s, ⟨hs, hh⟩, rfl⟩, rfl⟩)
    · exact Or.inl h
    · exact Or.inr (Or.inl ⟨c, hc, hs, rfl⟩)
    · exact Or.inr (Or.inr ⟨s, hs, hh, rfl⟩)
  · rintro (h | ⟨c, hc, hs, rfl⟩ | ⟨s, hs, hh, rfl⟩)
    · exact Or.inl h
    · by_cases hcs : c = start
      · exact Or.inl (by rw [hcs])
      · exact Or.inr (Or.inl ⟨c, ⟨hc, hs, hcs⟩, rfl⟩)
    · exact Or.inr (Or.inr ⟨_, ⟨s, ⟨hs, hh⟩, rfl⟩, rfl⟩)

theorem mem_outSeeds {H : Hier} {W : List Step} {x : Node} :
    x ∈ outSeeds H W ↔
      ∃ c ∈ eventTypes W, (isSub H c cStop = true ∨ isSub H c cInputRequired = true) ∧ x = Node.ev c := by
  simp only [outSeeds, List.mem_map, List.mem_filter, subAny_output]
  constructor
  · rintro ⟨c, ⟨hc, ho⟩, rfl⟩; exact ⟨c, hc, ho, rfl⟩
  · rintro ⟨c, hc, ho, rfl⟩; exact ⟨c, ⟨hc, ho⟩, rfl⟩

theorem unreachable_nil {H : Hier} {W : List Step} {start : Cls} (hnd : (names W).Nodup) :
    unreachable H W start = [] ↔
      ∀ s ∈ W, ckReach ∈ s.skip ∨ Node.step s.name ∈ fwdReach H W start := by
  simp only [unreachable, List.filter_eq_nil_iff, Bool.and_eq_true, Bool.not_eq_true', not_and, Bool.not_eq_false]
  constructor
  · intro h s hs
    by_cases hsk : ckReach ∈ s.skip
    · exact Or.inl hsk
    · right
      have := h s.name (mem_names.mpr ⟨s, hs, rfl⟩) (by
        rw [← Bool.not_eq_true, List.contains_iff_mem, mem_skipNames hnd hs]; exact hsk)
      exact List.contains_iff_mem.mp this
  · intro h n hn hsk
    obtain ⟨s, hs, rfl⟩ := mem_names.mp hn
    rw [← Bool.not_eq_true, List.contains_iff_mem, mem_skipNames hnd hs] at hsk
    rcases h s hs with h | h
    · exact absurd h hsk
    · exact List.contains_iff_mem.mpr h

theorem dangling_nil {H : Hier} {W : List Step} :
    dangling H W = [] ↔
      ∀ c ∈ eventTypes W, (∃ s ∈ W, c ∈ s.accepted) ∨ isSub H c cStop = true ∨ isSub H c cInputRequired = true := by
  have hany : ∀ c, ((succs (edges W) (Node.ev c)).any (Node.isStepIn (names W))) = true ↔ ∃ s ∈ W, c ∈ s.accepted := by
    intro c
    simp only [List.any_eq_true, mem_succs, mem_edges]
    constructor
    · rintro ⟨t, (⟨s, hs, c', hc', h1, _⟩ | ⟨s, _, c', _, _, h1, _⟩), _⟩
      · cases h1; exact ⟨s, hs, hc'⟩
      · cases h1
    · rintro ⟨s, hs, hc⟩
      refine ⟨Node.step s.name, Or.inl ⟨s, hs, c, hc, rfl, rfl⟩, ?_⟩
      simp only [Node.isStepIn, List.contains_iff_mem]
      exact mem_names.mpr ⟨s, hs, rfl⟩
  simp only [dangling, List.filter_eq_nil_iff, Bool.and_eq_true, Bool.not_eq_true', not_and, Bool.not_eq_false]
  constructor
  · intro h c hc
    by_cases hcons : ∃ s ∈ W, c ∈ s.accepted
    · exact Or.inl hcons
    · right
      have hf : ((succs (edges W) (Node.ev c)).any (Node.isStepIn (names W))) = false := by
        rw [← Bool.not_eq_true, hany]; exact hcons
      exact (subAny_terminal H c).mp (h c hc hf)
  · intro h c hc hf
    rw [← Bool.not_eq_true, hany] at hf
    rcases h c hc with h | h
    · exact absurd h hf
    · exact (subAny_terminal H c).mpr h

theorem mem_producing {W : List Step} (hnd : (names W).Nodup) {s : Step} (hs : s ∈ W) :
    s.name ∈ producing W ↔ ∃ c ∈ s.returns, c ≠ cNone := by
  simp only [producing, List.mem_filter, List.any_eq_true, mem_succs, mem_edges]
  constructor
  · rintro ⟨_, t, (⟨_, _, _, _, h1, _⟩ | ⟨s', hs', c, hc, hn, h1, _⟩), _⟩
    · cases h1
    · have heq := Node.step.inj h1
      have := step_of_name hnd hs hs' heq
      subst this
      exact ⟨c, hc, hn⟩
  · rintro ⟨c, hc, hn⟩
    exact ⟨mem_names.mpr ⟨s, hs, rfl⟩, Node.ev c, Or.inr ⟨s, hs, c, hc, hn, rfl, rfl⟩, rfl⟩

theorem producing_sub_names {W : List Step} {n : Nat} (h : n ∈ producing W) : n ∈ names W :=
  (List.mem_filter.mp h).1

theorem deadEnds_nil {H : Hier} {W : List Step} (hnd : (names W).Nodup) :
    deadEnds H W = [] ↔
      ∀ s ∈ W, (∃ c ∈ s.returns, c ≠ cNone) → ckDeadEnd ∈ s.skip ∨ Node.step s.name ∈ revReach H W := by
  simp only [deadEnds, List.filter_eq_nil_iff, Bool.and_eq_true, Bool.not_eq_true', not_and, Bool.not_eq_false]
  constructor
  · intro h s hs hp
    by_cases hsk : ckDeadEnd ∈ s.skip
    · exact Or.inl hsk
    · right
      have := h s.name ((mem_producing hnd hs).mpr hp) (by
        rw [← Bool.not_eq_true, List.contains_iff_mem, mem_skipNames hnd hs]; exact hsk)
      exact List.contains_iff_mem.mp this
  · intro h n hn hsk
    obtain ⟨s, hs, rfl⟩ := mem_names.mp (producing_sub_names hn)
    rw [← Bool.not_eq_true, List.contains_iff_mem, mem_skipNames hnd hs] at hsk
    rcases h s hs ((mem_producing hnd hs).mp hn) with h | h
    · exact absurd h hsk
    · exact List.contains_iff_mem.mpr h

theorem skip_ite_nil (skip : List Nat) (code : Nat) (l : List Nat) :
    (if skip.contains code = true then [] else l) = [] ↔ code ∈ skip ∨ l = [] := by
  by_cases hc : code ∈ skip
  · simp [hc]
  · simp [hc]

theorem validateGraph_unreach {H : Hier} {W : List Step} {start : Cls} {skip : List Nat} :
    (validateGraph H W start skip).unreach = [] ↔ (ckReach ∈ skip ∨ unreachable H W start = []) :=
  skip_ite_nil skip ckReach _

theorem validateGraph_dangling {H : Hier} {W : List Step} {start : Cls} {skip : List Nat} :
    (validateGraph H W start skip).dangling = [] ↔ (ckTerminal ∈ skip ∨ dangling H W = []) :=
  skip_ite_nil skip ckTerminal _

theorem validateGraph_deadEnd {H : Hier} {W : List Step} {start : Cls} {skip : List Nat} :
    (validateGraph H W start skip).deadEnd = [] ↔ (ckDeadEnd ∈ skip ∨ deadEnds H W = []) :=
  skip_ite_nil skip ckDeadEnd _

theorem validateGraph_none {H : Hier} {W : List Step} {start : Cls} {skip : List Nat} :
    (validateGraph H W start skip).none = true ↔
      (ckReach ∈ skip ∨ unreachable H W start = []) ∧ (ckTerminal ∈ skip ∨ dangling H W = []) ∧
        (ckDeadEnd ∈ skip ∨ deadEnds H W = []) := by
  simp only [GraphErrs.none, Bool.and_eq_true, List.isEmpty_iff]
  rw [validateGraph_unreach, validateGraph_dangling, validateGraph_deadEnd]
  exact and_assoc

/-! ### the pipeline -/

theorem validateWorkflow_ok_iff {H : Hier} {W : List Step} {skip : List Nat} {b : Bool} :
    validateWorkflow H W skip = .ok b ↔
      W ≠ [] ∧ ∃ start, ensureStart H W = .ok start ∧ (∃ stop, ensureStop H W = .ok stop) ∧
        acceptingStop H W = [] ∧ unconsumed H W start = [] ∧ unused H W start = [] ∧
        Handlers.valid (names W) (handlerDecls W) = true ∧ (validateGraph H W start skip).none = true ∧
        usesHitl H W start = b := by
  unfold validateWorkflow
  by_cases hW : W = []
  · simp [hW]
  · have hW' : W.isEmpty = false := by simpa [List.isEmpty_iff] using hW
    simp only [hW', Bool.false_eq_true, if_false]
    rcases ensureStart_cases H W with ⟨start, hs⟩ | hs | hs
    · rcases ensureStop_cases H W with ⟨stop, ht⟩ | ht | ht
      · simp only [hs, ht]
        by_cases h1 : acceptingStop H W = []
        · by_cases h2 : unconsumed H W start = []
          · by_cases h3 : unused H W start = []
            · by_cases h4 : Handlers.valid (names W) (handlerDecls W) = true
              · by_cases h5 : (validateGraph H W start skip).none = true
                · simp [hW, h1, h2, h3, h4, h5]
                · simp [hW, h1, h2, h3, h4, h5]
              · simp [hW, h1, h2, h3, h4]
            · simp [hW, h1, h2, h3]
          · simp [hW, h1, h2]
        · simp [hW, h1]
      · simp [hs, ht]
      · simp [hs, ht]
    · simp [hs]
    · simp [hs]

theorem validateWorkflow_error {H : Hier} {W : List Step} {skip : List Nat} {e : Err}
    (h : validateWorkflow H W skip = .error e) :
    (W = [] ∧ e = .noSteps) ∨
    (W ≠ [] ∧ ensureStart H W = .error e) ∨
    (W ≠ [] ∧ ∃ start, ensureStart H W = .ok start ∧
      (ensureStop H W = .error e ∨
       ∃ stop, ensureStop H W = .ok stop ∧
        ((acceptingStop H W ≠ [] ∧ e = .acceptsStop (acceptingStop H W)) ∨
         (acceptingStop H W = [] ∧
          ((unconsumed H W start ≠ [] ∧ e = .consumedNotProduced (unconsumed H W start)) ∨
           (unconsumed H W start = [] ∧
            ((unused H W start ≠ [] ∧ e = .producedNotConsumed (unused H W start)) ∨
             (unused H W start = [] ∧
              ((Handlers.valid (names W) (handlerDecls W) = false ∧
                  ((handlerDecls W).all fun h => decide (1 ≤ h.maxRec)) = false ∧ e = .handlerMaxRec) ∨
               (Handlers.valid (names W) (handlerDecls W) = false ∧
                  ((handlerDecls W).all fun h => decide (1 ≤ h.maxRec)) = true ∧ e = .handlerStructure) ∨
               (Handlers.valid (names W) (handlerDecls W) = true ∧
                  (validateGraph H W start skip).none = false ∧
                  e = .graph (validateGraph H W start skip))))))))))) := by
  unfold validateWorkflow at h
  by_cases hW : W = []
  · left
    simp [hW] at h
    exact ⟨hW, h.symm⟩
  · have hW' : W.isEmpty = false := by simpa [List.isEmpty_iff] using hW
    simp only [hW', Bool.false_eq_true, if_false] at h
    rcases ensureStart_cases H W with ⟨start, hs⟩ | hs | hs
    · right; right
      refine ⟨hW, start, hs, ?_⟩
      rcases ensureStop_cases H W with ⟨stop, ht⟩ | ht | ht
      · right
        refine ⟨stop, ht, ?_⟩
        simp only [hs, ht] at h
        by_cases h1 : acceptingStop H W = []
        · right
          refine ⟨h1, ?_⟩
          by_cases h2 : unconsumed H W start = []
          · right
            refine ⟨h2, ?_⟩
            by_cases h3 : unused H W start = []
            · right
              refine ⟨h3, ?_⟩
              cases h4 : Handlers.valid (names W) (handlerDecls W)
              · cases h5 : ((handlerDecls W).all fun h => decide (1 ≤ h.maxRec))
                · left
                  simp [h1, h2, h3, h4, h5] at h
                  exact ⟨rfl, rfl, h.symm⟩
                · right; left
                  simp [h1, h2, h3, h4, h5] at h
                  exact ⟨rfl, rfl, h.symm⟩
              · right; right
                cases h5 : (validateGraph H W start skip).none
                · simp [h1, h2, h3, h4, h5] at h
                  exact ⟨rfl, rfl, h.symm⟩
                · simp [h1, h2, h3, h4, h5] at h
            · left
              simp [h1, h2, h3] at h
              exact ⟨h3, h.symm⟩
          · left
            simp [h1, h2] at h
            exact ⟨h2, h.symm⟩
        · left
          simp [h1] at h
          exact ⟨h1, h.symm⟩
      · left; simp only [hs, ht] at h; rw [ht]; simp at h; rw [h]
      · left; simp only [hs, ht] at h; rw [ht]; simp at h; rw [h]
    · right; left; simp only [hs] at h; refine ⟨hW, ?_⟩; rw [hs]; simp at h; rw [h]
    · right; left; simp only [hs] at h; refine ⟨hW, ?_⟩; rw [hs]; simp at h; rw [h]

/-! ### the returned flag -/

theorem usesHitl_iff {H : Hier} {W : List Step} {start : Cls} :
    usesHitl H W start = true ↔
      (∃ c ∈ produced W start, isSub H c cInputRequired = true) ∨
        ∃ c ∈ consumed W, isSub H c cHumanResponse = true := by
  simp [usesHitl, Gen.C23.hitlTerms, cInputRequired, cHumanResponse]

/-! ### `issubclass` is the closure of the direct-base relation -/

inductive SubClass (H : Hier) : Nat → Nat → Prop
  | refl (c : Nat) : SubClass H c c
  | step {c b d : Nat} : b ∈ H.basesOf c → SubClass H b d → SubClass H c d

theorem subClass_of_isSubF {H : Hier} : ∀ (f : Nat) (c d : Cls), isSubF H f c d = true → SubClass H c d := by
  intro f
  induction f with
  | zero => intro c d h; simp only [isSubF, beq_iff_eq] at h; subst h; exact .refl _
  | succ f ih =>
    intro c d h
    simp only [isSubF, Bool.or_eq_true, beq_iff_eq, List.any_eq_true] at h
    rcases h with h | ⟨b, hb, h⟩
    · subst h; exact .refl _
    · exact .step hb (ih b d h)

theorem Hier.wf_bases_lt {H : Hier} (hwf : H.wf = true) {c b : Nat} (hb : b ∈ H.basesOf c) : b < c := by
  simp only [Hier.wf, Bool.and_eq_true, List.all_eq_true, List.mem_range, decide_eq_true_eq] at hwf
  by_cases hc : c < H.bases.length
  · exact hwf.2 c hc b hb
  · have hlen : H.bases.length ≤ c := by omega
    simp only [Hier.basesOf, List.getD_eq_getElem?_getD] at hb
    rw [List.getElem?_eq_none hlen] at hb
    simp at hb

theorem isSubF_of_subClass {H : Hier} (hwf : H.wf = true) {c d : Nat} (h : SubClass H c d) :
    ∀ f, c ≤ f → isSubF H f c d = true := by
  induction h with
  | refl c => intro f _; cases f <;> simp [isSubF]
  | @step c b d hb _ ih =>
    intro f hf
    have hlt := Hier.wf_bases_lt hwf hb
    cases f with
    | zero => omega
    | succ f =>
      simp only [isSubF, Bool.or_eq_true, beq_iff_eq, List.any_eq_true]
      exact Or.inr ⟨b, hb, ih f (by omega)⟩

theorem isSub_iff_subClass {H : Hier} (hwf : H.wf = true) (c d : Nat) :
    isSub H c d = true ↔ SubClass H c d := by
  constructor
  · exact subClass_of_isSubF _ c d
  · intro h
    by_cases hc : c ≤ H.bases.length
    · exact isSubF_of_subClass hwf h _ hc
    · cases h with
      | refl => unfold isSub; cases H.bases.length <;> simp [isSubF]
      | step hb _ =>
        have hlen : H.bases.length ≤ c := by omega
        simp only [Hier.basesOf, List.getD_eq_getElem?_getD] at hb
        rw [List.getElem?_eq_none hlen] at hb
        simp at hb

end Validate
