"""C20 — concurrent state updates are never lost."""
from __future__ import annotations

import asyncio
import copy
import itertools
import json
import os
from typing import Any

from ..boot import VERIF
from ..runner import Divergence, Driver, Env, Outcome, Violation
from ..sloop import SLoop

THEOREMS = [
    "C20_source_shape",
    "C20_serialisable_memory",
    "C20_serialisable_sqlite",
    "C20_serialisable",
    "C20_serial_is_sequential_run",
    "C20_final_state_is_spec_of_serial_order",
    "C20_no_write_inside_open_edit",
    "C20_unlocked_set_state_loses_update",
    "C20_source_shape_scoped_lock",
    "C20_serialisable_under_cancellation_general",
    "C20_aborted_block_effect",
    "C20_serialisable_under_cancellation",
    "C20_no_write_inside_open_edit_with_cancel",
    "C20_cancelled_waiter_releasing_lock_loses_update",
    "C20_source_shape_context_free",
    "C20_serialisable_with_spawned_tasks",
    "C20_spawned_task_waits_for_its_creation",
    "C20_spawned_writer_skipping_lock_loses_update",
    "C20_source_shape_timer_free",
    "C20_open_block_duration_is_invisible",
    "C20_serialisable_whatever_the_durations",
    "C20_lock_wait_timeout_loses_update",
]
EXPLANATION = (
    "Lean transition system over the shared state-store model (WfModel/StateStore.lean, section C20): any number of tasks, each "
    "one set / set_state / clear / edit_state on one store; `run t` executes the next await-free section of task t (lock fast "
    "path or FIFO enqueue, resume of the queue head when the lock is free, each chunk of an edit_state body between two awaits, "
    "the last one together with save+release); `cancel t` is Task.cancel() from outside, turned into a CancelledError by the "
    "task's next section: before it started, while queued on the lock (waiter future cancelled, or lock already handed over and "
    "only _must_cancel set: it leaves the FIFO, a free lock goes to the next waiter, undelivered cancelled waiters do not block "
    "the acquire fast path), or at an await inside an edit_state body (lock released, nothing saved; the finished chunks stay in "
    "memory where the body mutates self._state itself, vanish on SQLite where it mutates a deserialised copy). Which operations "
    "take the lock, and that the lock is only ever used as `async with self._lock`, is regenerated from the source. Theorems, by "
    "induction over arbitrary schedules with the invariant `store = serial fold of the log of the tasks that took effect, plus: "
    "finishing the holder's remaining chunks yields its sequential edit applied to that fold, and leaving the block now yields "
    "the edit of what it keeps`: every interleaving after which all tasks have ended (completed / cancelled / aborted inside the "
    "body) ends in the store of the serial run, in some order, of exactly the tasks that took effect (both backends, generic proof "
    "+ per-backend edit/publish/abort laws); without cancellations that is a permutation of all tasks, and the serial run is the "
    "C19 sequential machine and therefore the nested-dict spec; no section of another task and no cancellation request to it "
    "writes or takes the lock away while a block is open; the pre-repair SQLite discipline (set_state/clear unlocked) and a lock "
    "that a cancelled waiter gives back (explicit acquire/finally-release) provably lose an update on 3- and 6-action schedules. "
    "Tasks created by tasks (SpSys): `sp c = (p, k)` — task c is created (create_task) by chunk k of the edit_state body of "
    "task p, inside the open block, with a copy of p's context; it can neither run nor be cancelled before; from then on it is "
    "an ordinary task (the store modules hold no per-task/per-context state: C20_source_shape_context_free, from the source). "
    "C20_serialisable_with_spawned_tasks: every schedule after which all created tasks have ended ends in the serial run of the "
    "tasks that took effect, in an order that lists every creator's block before the tasks it created (any spawn shape, both "
    "backends, with cancellations); a store whose set() skips the lock for such a task provably loses the write. "
    "Time (TSys = SpSys + clock): the awaits inside edit_state bodies take `dur t k` seconds (a slow call inside the block: "
    "seconds to a day), `tick d` lets d seconds pass, a task asleep at such an await cannot run before it is over (a "
    "cancellation request wakes it at once); nothing else depends on the clock - the store modules use no timer primitive "
    "(C20_source_shape_timer_free, from the source: no wait_for / timeout / sleep / call_later), so a task queued on the "
    "lock waits for as long as the block is open. C20_open_block_duration_is_invisible: every timed run is the untimed run "
    "of the schedule without its ticks (same store, holder, FIFO, positions, log), a tick is always possible and changes "
    "the clock only, an enabled action stays enabled however much later; C20_serialisable_whatever_the_durations: hence the "
    "serial-order theorem for every assignment of durations; C20_lock_wait_timeout_loses_update: a store whose short "
    "operations give up waiting for the lock after 30 s and run anyway loses the set_state on both backends as soon as a "
    "block stays open longer (6 actions), and is indistinguishable from the real one with shorter blocks. "
    "Tie: lock flags from source (C20_source_shape, C20_source_shape_scoped_lock break when a writer leaves the lock or the lock "
    "is used other than through `async with`); real InMemoryStateStore and SqliteStateStore are driven by real asyncio Tasks "
    "under a scripted scheduler with virtual time (harness/sloop.py: a running loop, current_task and working timers exist "
    "for the code under test; set-up and read-back calls run as tasks on it too), one await-free section, one Task.cancel() "
    "or one tick (the clock jumps to the earliest pending timer when no section is ready) per action, over all interleavings of 2-3 "
    "operations with 0-2 cancellable tasks and 0-2 tasks that an edit_state body creates from inside its block (real "
    "loop.create_task in the creator's task context, so the child inherits its contextvars) (seeded random schedules for 4-5 "
    "and beyond the cap), and after every action store "
    "content, lock holder, waiter FIFO, per-task position (incl. pending cancellation: Ic / Wc / Wm / Bkc, ended: D / X / A), "
    "log, the clock after a tick, and the set of tasks that have a section ready (`cready`: both directions - a task the "
    "implementation makes runnable although it is asleep or queued behind a held lock diverges) are diffed against the "
    "model driver. Slow-block scenarios (gen2t/3t/45t/3tc/3ts): awaits inside blocks take 1 s .. 1 day of virtual time while "
    "the other tasks set / set_state / clear / edit the keys the block works on. Monitors (model-independent): final state is one of the serial outcomes, computed "
    "on the real store, of the operations that took effect (a created task's operation is one more operation and cannot "
    "precede the block that creates it); both backends reach the same set of final states; snapshots taken "
    "mid-schedule keep their top-level mapping; no task is left stuck (a cancelled waiter must not block the lock); "
    "no write operation returns, and no second block is entered, while another task is between entry and exit of an "
    "edit_state block (harness bookkeeping only); every final state of a slow-block scenario is also a final state of the "
    "same scenario with bare yields (the time a block stays open does not matter); the same with a reader (`get`) among "
    "the tasks (monitors only)."
)
LEVEL_TEXT = "proof (Lean 4) of the model + per-action correspondence with both real stores under a scripted scheduler + direct monitors"
ASSUMPTIONS = [
    "asyncio.Lock of CPython 3.12 (fast path only when unlocked and no live waiter, FIFO wake-up, cancelled waiter removes "
    "itself and wakes the next one when the lock is free) and Task stepping / Task.cancel() (future cancelled, or _must_cancel "
    "when the future already has its result) are modelled as holder + FIFO queue + per-task position; they are exercised on "
    "every run, not verified",
    "cancellation is a request from outside the tasks (step timeout, run cancellation), at most one per task, delivered at the "
    "task's next suspension point; asyncio.shield / Task.uncancel, cancellation of readers, and a CancelledError raised at a "
    "point other than the lock acquisition or an await of the edit_state body are not modelled (the store methods have no other "
    "await)",
    "a task cancelled inside its edit_state body counts in the serial order with what it left in the store: the finished chunks "
    "in memory (the body mutates the live object; the property does not ask cancelled blocks to be atomic), nothing on SQLite",
    "store methods contain no await other than the lock acquisition and the user's awaits inside an edit_state body (true of "
    "both stores: the SQLite store does blocking sqlite3 calls inside coroutines); the per-action correspondence would expose "
    "an additional suspension point as an extra section",
    "a task is created at the beginning of a chunk of the creator's edit_state body (after the await that ends the previous "
    "chunk), by create_task, i.e. with a copy of the creator's context; tasks created outside a block are the initial tasks; "
    "task groups / gather inside a block are create_task plus waiting, the waiting is not modelled (a block that awaits its "
    "own child's store operation dead-locks by design of the non re-entrant lock)",
    "one process, one store object per run: SqliteStateStore's lock is per object; two store objects (or processes) on the same "
    "run_id are outside the property as stated ('steps update the same run's state store')",
    "readers (get / get_state) take part as snapshot probes of the monitors and, in the gen3tr* scenarios, as tasks that queue "
    "on the lock with the writers (monitors only, no correspondence); C20 is about the final state",
    "time: sections take no time; virtual time passes only when no section is ready (the semantics of an idle event loop "
    "jumping to its next timer), by exactly the distance to the earliest pending timer; in the model a tick of any length is "
    "possible at any point (a superset). Durations are whole seconds",
    "edit_state bodies that raise are exercised in the correspondence only (memory keeps the partial edit, SQLite drops it; see C19)",
    "value/path semantics of the operations are those of C19 (same model, same assumptions)",
]
TRUSTED_EXTRA = [
    "harness/sloop.py: scripted scheduler with virtual time over asyncio.BaseEventLoop (CPython private attributes _ready, "
    "_scheduled, Handle._run, TimerHandle._when, Task._fut_waiter, Task._must_cancel, Lock._locked, Lock._waiters)",
    "harness/ss_common.py, harness/ss_models.py, harness/gen/statestore.py (shared with C19)",
]

MODEL = "statestore"
CORPUS = os.path.join(VERIF, "harness", "corpus", "c20_cases.json")


# --------------------------------------------------------------------------
# one run of a scenario on a real store under the scripted scheduler


class ConcRun:
    def __init__(self, S: Any, sqlenv: Any, backend: str, sc: dict):
        self.S = S
        self.backend = backend
        self.kind = sc["kind"]
        self.tasks_spec = sc["tasks"]
        self.sqlenv = sqlenv
        n = len(self.tasks_spec)
        self.loop = SLoop()
        self.store = S.make_mem(self.kind) if backend == "mem" else sqlenv.store(self.kind)
        if sc.get("init") is not None:
            S.drive(self.store.set_state(S.make_instance(self.kind, "same", sc["init"])), loop=self.loop)
        self.durs = durations(sc)
        self.got: dict[int, Any] = {}
        self.slow_block = False          # virtual time passed while an edit_state block was open
        self.intrusions: list[tuple[int, int]] = []  # (task whose write returned, task whose block was open)
        self.overlap: list[int] | None = None        # two blocks open at once
        self.started = [False] * n
        self.inbody = [False] * n
        self.chunk = [0] * n
        self.errors: list[str | None] = [None] * n
        self.creq = [False] * n                    # Task.cancel() has been called on the task
        self.ended: list[str | None] = [None] * n  # "A": CancelledError left an open edit body, "X": elsewhere
        self.log: list[int] = []
        self.snaps: list[tuple[Any, dict, int]] = []
        # tasks created by tasks: child -> (creator, chunk of the creator's edit_state body that creates it)
        self.spawn = spawn_map(sc)
        self.children: dict[tuple[int, int], list[int]] = {}
        for c in sorted(self.spawn):
            if c < n and self.spawn[c][0] != c:
                self.children.setdefault(self.spawn[c], []).append(c)
        self.tasks: list[Any] = [None if i in self.spawn else self.loop.create_task(self._task(i, op))
                                 for i, op in enumerate(self.tasks_spec)]
        self.steps = 0

    async def _task(self, i: int, op: list) -> None:
        S = self.S
        self.started[i] = True
        st = self.store
        try:
            k = op[0]
            if k == "set":
                await st.set(op[1], copy.deepcopy(op[2]))
            elif k == "setstate":
                await st.set_state(S.make_instance(self.kind, op[1], op[2]))
            elif k == "clear":
                await st.clear()
            elif k == "get":
                # a reader: no effect on the state, but it goes through the same lock (in memory) and queues with the writers
                self.got[i] = await st.get(op[1], None)
            elif k == "edit":
                chunks = op[1] or [[]]
                async with st.edit_state() as state:
                    self.inbody[i] = True
                    for j, ch in enumerate(chunks):
                        if j > 0:
                            # the body awaits between chunks: a bare yield, or a call that takes `d` (virtual) seconds
                            await asyncio.sleep(self.durs[i][j - 1] if j - 1 < len(self.durs[i]) else 0)
                        for c in self.children.get((i, j), ()):
                            # `asyncio.create_task(...)` inside the open block: the new task starts with a copy of
                            # this task's context, as any task created inside the `async with` does
                            self.tasks[c] = self.loop.create_task(self._task(c, self.tasks_spec[c]))
                        for m in ch:
                            S.apply_mut(state, m)
                        self.chunk[i] = j + 1
            else:
                raise RuntimeError(f"unknown op {op!r}")
        except asyncio.CancelledError:
            # the store's own `async with` / context manager exits have run by now
            self.ended[i] = "A" if self.inbody[i] else "X"
            raise
        except Exception as e:  # noqa: BLE001
            self.errors[i] = type(e).__name__
        finally:
            self.inbody[i] = False

    def enabled(self) -> list[int]:
        return [i for i, t in enumerate(self.tasks) if t is not None and not t.done() and self.loop.has_ready(t)]

    def can_cancel(self, i: int) -> bool:
        return self.tasks[i] is not None and not self.tasks[i].done() and not self.creq[i]

    def cancel(self, i: int) -> None:
        """`Task.cancel()` from outside (step timeout, run cancellation): a request only; the task sees the
        CancelledError in its next section"""
        self.tasks[i].cancel()
        self.creq[i] = True
        self.steps += 1

    def status(self, i: int) -> str:
        """D completed (also: raised), X cancelled before it touched the store, A cancelled inside its edit body,
        - unfinished, U not created (yet)"""
        t = self.tasks[i]
        if t is None:
            return "U"
        if not t.done():
            return "-"
        if t.cancelled():
            return "A" if self.ended[i] == "A" else "X"
        return "D"

    def all_done(self) -> bool:
        return all(t is None or t.done() for t in self.tasks)

    def unfinished(self) -> list[int]:
        return [i for i, t in enumerate(self.tasks) if t is not None and not t.done()]

    def step(self, i: int) -> None:
        was_done = self.tasks[i].done()
        self.loop.run_one(self.tasks[i])
        self.loop.run_internal()
        self.steps += 1
        if self.status(i) in ("D", "A") and i not in self.log:
            self.log.append(i)
        open_blocks = [j for j, b in enumerate(self.inbody) if b]
        if len(open_blocks) > 1 and self.overlap is None:
            self.overlap = open_blocks
        if not was_done and self.status(i) == "D" and self.errors[i] is None and self.tasks_spec[i][0] != "get":
            # the operation of task i has returned: no other task may be between the entry and the exit of an
            # edit_state block at that moment (the block is one operation)
            self.intrusions += [(i, j) for j in open_blocks if j != i]

    def can_tick(self) -> bool:
        return self.loop.next_timer() is not None

    def tick(self) -> float:
        """virtual time passes: up to the earliest pending timer (the end of a slow call inside a block, or
        whatever timer the code under test has set)"""
        if any(self.inbody):
            self.slow_block = True
        d = self.loop.advance_to_next_timer() or 0.0
        self.steps += 1
        return d

    def now(self) -> str:
        e = self.loop.elapsed()
        return str(int(e)) if e == int(e) else repr(e)

    # ---- observation
    def store_canon(self) -> str:
        S = self.S
        if self.backend == "mem":
            return S.canon_state(self.store._state)
        row = self.sqlenv.raw_row(self.store.run_id)
        if row is None:
            return "norow"
        try:
            data = json.loads(row[0])
            if self.kind == "dict":
                obj = {k: json.loads(v) for k, v in data["_data"].items()}
            else:
                obj = data["value"]
                if row[1] != S.model_of(self.kind).__name__:
                    return f"row-of-type:{row[1]} " + S.enc(obj)
        except Exception:  # noqa: BLE001
            return "row-unparsed " + str(row[0])[:200].replace("|", "/")
        return "row " + S.enc(obj)

    def final_canon(self) -> str:
        """what the store holds, backend-independent"""
        return safe_final(self.S, self.store, self.loop)

    def observe(self) -> str:
        lock = self.store._lock
        waiters = list(getattr(lock, "_waiters", None) or [])
        q = []
        for fut in waiters:
            owner = [i for i, t in enumerate(self.tasks) if t is not None and getattr(t, "_fut_waiter", None) is fut]
            q.append(str(owner[0]) if owner else "?")
        holder = "-"
        if lock.locked():
            inb = [i for i, b in enumerate(self.inbody) if b]
            holder = str(inb[0]) if len(inb) == 1 else "?"
        pcs = []
        for i, t in enumerate(self.tasks):
            c = "c" if self.creq[i] else ""
            if t is None:
                pcs.append("U")
            elif t.done():
                pcs.append(self.status(i))
            elif not self.started[i]:
                pcs.append("I" + c)
            elif self.inbody[i]:
                pcs.append(f"B{self.chunk[i]}" + c)
            elif any(getattr(t, "_fut_waiter", None) is f for f in waiters):
                if c:  # future cancelled, or already resolved (lock handed over) and the task marked instead
                    c = "c" if t._fut_waiter.cancelled() else ("m" if getattr(t, "_must_cancel", False) else "?")
                pcs.append("W" + c)
            else:
                pcs.append("?")
        return (f"ok {self.store_canon()} holder={holder} queue={','.join(q)} pcs={','.join(pcs)} "
                f"log={','.join(map(str, self.log))}")

    def take_snapshot(self) -> None:
        if self.backend == "sql" and self.sqlenv.raw_row(self.store.run_id) is None:
            return  # get_state would insert the default row and perturb the run
        try:
            st = self.S.drive(self.store.get_state(), loop=self.loop, allow_time=False)
        except Exception:  # noqa: BLE001 - reported through the final-state monitors
            return
        top = self.S.state_obj(st)
        self.snaps.append((st, {k: id(v) for k, v in top.items()}, self.steps))

    def snapshot_damage(self) -> str | None:
        for st, ids, at in self.snaps:
            now = self.S.state_obj(st)
            if set(now) != set(ids) or any(id(now[k]) != ids[k] for k in ids):
                return f"snapshot taken after action {at} changed its top level to {now!r}"
        return None

    def close(self) -> None:
        for _ in range(1000):
            for t in self.tasks:
                if t is not None and not t.done():
                    t.cancel()
            live = [t for t in self.tasks if t is not None and not t.done() and self.loop.has_ready(t)]
            if not live:
                if self.loop.run_internal():
                    continue
                break
            self.loop.run_one(live[0])
        for t in self.tasks:
            if t is not None and t.done() and not t.cancelled():
                t.exception()
        self.loop.discard_all()
        self.loop.close()


def spawn_map(sc: dict) -> dict[int, tuple[int, int]]:
    """`sc["spawn"]` = [[child, creator, chunk], ...]: task `child` does not exist at the start; it is created
    (`create_task`) at the beginning of chunk `chunk` of the edit_state body of task `creator`, inside the open
    block.  The first entry of a child counts."""
    res: dict[int, tuple[int, int]] = {}
    for e in sc.get("spawn") or []:
        if isinstance(e, (list, tuple)) and len(e) == 3 and all(isinstance(x, int) and not isinstance(x, bool) and x >= 0 for x in e):
            res.setdefault(e[0], (e[1], e[2]))
    return res


def durations(sc: dict) -> list[list[int]]:
    """`sc["dur"]` = per task the (virtual) seconds that the awaits inside its edit_state body take: entry k is the
    await between chunk k and chunk k+1; missing / malformed entries are 0 (a bare yield)"""
    raw = sc.get("dur")
    res: list[list[int]] = []
    for i in range(len(sc["tasks"])):
        d = raw[i] if isinstance(raw, list) and i < len(raw) and isinstance(raw[i], list) else []
        res.append([x if isinstance(x, int) and not isinstance(x, bool) and x >= 0 else 0 for x in d])
    return res


def is_timed(sc: dict) -> bool:
    return any(x > 0 for d in durations(sc) for x in d)


def driver_prefix(S: Any, backend: str, sc: dict) -> list[str]:
    ini = "-" if sc.get("init") is None else S.enc(sc["init"])
    return [f"cinit|{backend}|{sc['kind']}|{S.schema_enc()}|{ini}"] + [S.cop_line(op) for op in sc["tasks"]] \
        + [f"cspawn|{c}|{p}|{k}" for c, (p, k) in spawn_map(sc).items()] \
        + [f"cdur|{t}|{','.join(map(str, d))}" for t, d in enumerate(durations(sc)) if any(d)]


def serial_outcomes(S: Any, sqlenv: Any, backend: str, sc: dict, eff: dict[int, list] | None = None) -> dict[str, list[int]]:
    """final state of every serial order, on the real store; `eff`: the tasks that count and the operation each
    counts with (default: all tasks, their own operation).  A task that an edit_state block creates cannot come
    before that block in a serial execution (the block is one operation, and the task does not exist before it)"""
    res: dict[str, list[int]] = {}
    if eff is None:
        eff = dict(enumerate(sc["tasks"]))
    created_by = {c: p for c, (p, _k) in spawn_map(sc).items() if c in eff and p in eff and p != c}
    for order in itertools.permutations(sorted(eff)):
        if any(order.index(p) > order.index(c) for c, p in created_by.items()):
            continue
        store = S.make_mem(sc["kind"]) if backend == "mem" else sqlenv.store(sc["kind"])
        if sc.get("init") is not None:
            S.drive(store.set_state(S.make_instance(sc["kind"], "same", sc["init"])))
        real = S.Real(store, sc["kind"])
        for t in order:
            real.do(S.cop_to_op(eff[t]))
        res.setdefault(safe_final(S, store), list(order))
    return res


TICK = "tick"  # schedule entry: virtual time passes, up to the earliest pending timer


def is_run(a: Any) -> bool:
    return isinstance(a, int) and a >= 0


def is_cancel(a: Any) -> bool:
    return isinstance(a, int) and a < 0


def act_line(a: Any) -> str:
    """schedule entry -> driver op: t >= 0 runs the next section of task t, -(t+1) is Task.cancel() on task t
    (a tick's line carries the seconds that passed and is written where it happens)"""
    return f"crun|{a}" if a >= 0 else f"ccancel|{-a - 1}"


def line_act(line: str) -> Any:
    f = line.split("|")
    if len(f) != 2 or not f[1].isdigit():
        return None
    if f[0] == "crun":
        return int(f[1])
    if f[0] == "ccancel":
        return -int(f[1]) - 1
    if f[0] == "ctick":
        return TICK
    return None


def fmt_sched(sched: list) -> str:
    return "[" + ", ".join(TICK if a == TICK else str(a) if a >= 0 else f"cancel({-a - 1})" for a in sched) + "]"


def safe_final(S: Any, store: Any, loop: Any = None) -> str:
    try:
        return S.canon_state(S.drive(store.get_state(), loop=loop))
    except Exception as e:  # noqa: BLE001 - a store that cannot be read any more is an observation too
        return "unreadable:" + type(e).__name__


def dur_class(d: float) -> str:
    return "0" if d <= 0 else "<30" if d < 30 else "30-60" if d <= 60 else "1-10min" if d <= 600 else ">10min"


def op_kinds(sc: dict) -> str:
    return "+".join(sorted({op[0] for op in sc["tasks"]}))


def scenario_raises(sc: dict) -> bool:
    from .c19 import has_raise

    return has_raise({"kind": sc["kind"], "ops": [["edit", [m for ch in op[1] for m in ch]] for op in sc["tasks"] if op[0] == "edit"]})


class Explorer:
    """runs schedules of one scenario on one backend; collects correspondence lines and monitor findings"""

    def __init__(self, S: Any, sqlenv: Any, out: Outcome, sc: dict, backend: str, snapshots: bool):
        self.S, self.sqlenv, self.out, self.sc, self.backend = S, sqlenv, out, sc, backend
        self.snapshots = snapshots
        self.lines: list[str] = []       # driver input
        self.impl: list[str] = []        # what the implementation showed, aligned with self.lines
        self.finals: dict[str, list[int]] = {}
        self.viol: list[Violation] = []
        self.serial: dict[str, dict[str, list[int]]] = {}  # per set of operations that count
        self.n_sched = 0
        self.complete = False  # every interleaving has been run
        self.sampled = False  # schedules drawn at random on top of the depth-first ones
        n = len(sc["tasks"])
        self.cancellable = [t for t in sc.get("cancel") or [] if isinstance(t, int) and 0 <= t < n]
        self.raises = scenario_raises(sc)
        self.spawned = sorted(c for c in spawn_map(sc) if c < n)
        # readers are not part of the model (C20 is about the final state): scenarios with a `get` task run under the
        # monitors only
        self.model = not any(op[0] == "get" for op in sc["tasks"])

    def _flag(self, sig: str, what: str, schedule: list[int]) -> None:
        if any(v.signature == sig for v in self.viol):
            return
        case = dict(self.sc)
        case["schedule"] = schedule
        case["backend"] = self.backend
        self.viol.append(Violation(sig, what, case))

    def effective(self, run: ConcRun) -> dict[int, list]:
        """which tasks count in the serial order, and with what: completed tasks with their operation; a task
        cancelled inside its open edit body with the chunks it had finished where the body works on the store's own
        object (in-memory: `state = self._state`), with nothing where it works on a copy that is never saved (SQLite);
        tasks cancelled before they got the lock with nothing"""
        eff: dict[int, list] = {}
        for i, op in enumerate(self.sc["tasks"]):
            st = run.status(i)
            if op[0] == "get":
                continue  # a reader leaves nothing behind
            if st == "D":
                eff[i] = op
            elif st == "A" and self.backend == "mem":
                eff[i] = ["edit", [list(ch) for ch in (op[1] or [[]])[:run.chunk[i]]]]
        return eff

    def run_schedule(self, chooser: Any) -> list[int]:
        """one complete run; `chooser(depth, actions) -> action` picks the next action (t: next section of task t,
        -(t+1): cancel task t)"""
        S = self.S
        run = ConcRun(S, self.sqlenv, self.backend, self.sc)
        pre = driver_prefix(S, self.backend, self.sc) if self.model else []
        self.lines += pre
        self.impl += ["ok"] * len(pre)
        mark = len(self.lines)
        sched: list = []

        def ready_probe() -> None:
            # the tasks whose next section can run now: the model must agree in both directions (a task asleep at an
            # await of its body, or queued behind a held lock, has nothing ready, whatever the clock says)
            self.lines.append("cready")
            self.impl.append("ready " + ",".join(map(str, run.enabled())))

        try:
            depth = 0
            ready_probe()
            while True:
                en = run.enabled()
                if run.all_done() or (not en and not run.can_tick()):
                    break
                # time passes when the loop is idle (no section is ready): sections take no time, a ready task is not
                # kept waiting for seconds - the semantics of a virtual-time event loop
                acts = en + [-(t + 1) for t in self.cancellable if run.can_cancel(t)] + ([TICK] if not en and run.can_tick() else [])
                a = chooser(depth, acts)
                if self.snapshots and depth > 0:
                    run.take_snapshot()
                if a == TICK:
                    d = run.tick()
                    self.lines.append("ctick|" + (str(int(d)) if d == int(d) else repr(d)))
                    self.out.count("tick:" + ("block_open" if any(run.inbody) else "no_block_open")
                                   + (":writer_queued" if run.store._lock.locked() and getattr(run.store._lock, "_waiters", None) else ""))
                    self.out.count("tick_seconds:" + dur_class(d))
                elif a >= 0:
                    run.step(a)
                    self.lines.append(act_line(a))
                else:
                    run.cancel(-a - 1)
                    self.lines.append(act_line(a))
                sched.append(a)
                obs = run.observe() + (f" now={run.now()}" if a == TICK else "")
                self.impl.append(obs)
                ready_probe()
                if is_cancel(a):
                    pc = obs.split(" pcs=")[1].split(" ")[0].split(",")[-a - 1]
                    self.out.count("cancel_at:" + ("B" if pc.startswith("B") else "I" if pc.startswith("I") else pc))
                depth += 1
                if depth > 200:
                    break
            if not self.model:
                del self.lines[mark:], self.impl[mark:]
            self.n_sched += 1
            self.out.evaluations += len(sched)
            cls = "dict" if self.sc["kind"] == "dict" else "typed"
            after = "_after_cancel" if any(is_cancel(a) for a in sched) else ""
            if run.slow_block:
                # an edit_state block stayed open while (virtual) time passed
                after += "_with_slow_block"
            for c in self.spawned:
                self.out.count("spawned_task:" + {"U": "never_created", "D": "completed", "X": "cancelled", "A": "aborted"}
                               .get(run.status(c), "unfinished"))
            if any(run.status(c) in ("D", "A") for c in self.spawned):
                # the operation of a task created inside an open edit_state block is among those that took effect
                after += "_with_spawned_task"
            if not run.all_done():
                self._flag(f"C20/stuck{after}:{self.backend}:{op_kinds(self.sc)}",
                           f"no task can run but tasks {run.unfinished()} are unfinished "
                           f"after schedule {fmt_sched(sched)} (tasks {self.sc['tasks']!r})", sched)
                return sched
            final = run.final_canon()
            self.finals.setdefault(final, sched)
            eff = self.effective(run)
            key = json.dumps(sorted(eff.items()), sort_keys=True, default=str)
            if key not in self.serial:
                self.serial[key] = serial_outcomes(S, self.sqlenv, self.backend, self.sc, eff)
            serial = self.serial[key]
            if any(is_cancel(a) for a in sched):
                self.out.count("cancelled_runs:completed=%d/%d" % (sum(run.status(i) == "D" for i in range(len(run.tasks))), len(run.tasks)))
            if final not in serial:
                counted = {i: (run.status(i), eff.get(i)) for i in range(len(run.tasks))}
                self._flag(f"C20/no_serial_order{after}:{self.backend}:{op_kinds(self.sc)}",
                           f"{self.backend} store, tasks {self.sc['tasks']!r}, init {self.sc.get('init')!r}"
                           + (f", the awaits inside the blocks take {run.durs!r} s ({run.now()} s passed)" if is_timed(self.sc) else "")
                           + (f", created inside an open edit_state block [task, creator, chunk]: {self.sc.get('spawn')!r}"
                              if self.spawned else "") + ": schedule "
                           f"{fmt_sched(sched)} ends in {final!r}; the serial orders of the operations that took effect "
                           f"{counted!r} give {sorted(serial)!r}", sched)
            if run.intrusions:
                i, j = run.intrusions[0]
                self._flag(f"C20/write_inside_open_block{after}:{self.backend}:{self.sc['tasks'][i][0]}",
                           f"{self.backend} store, tasks {self.sc['tasks']!r}, durations of the awaits inside the blocks "
                           f"{run.durs!r}: the {self.sc['tasks'][i][0]} of task {i} returned while the edit_state block of "
                           f"task {j} was open (schedule {fmt_sched(sched)}, {run.now()} s after the start): a block is one "
                           f"operation, nothing is written between its read and its write-back", sched)
            if run.overlap is not None:
                self._flag(f"C20/two_blocks_open{after}:{self.backend}",
                           f"{self.backend} store, tasks {self.sc['tasks']!r}: the edit_state blocks of tasks {run.overlap} "
                           f"were open at the same time (schedule {fmt_sched(sched)})", sched)
            dmg = run.snapshot_damage()
            if dmg is not None:
                self._flag(f"C20/snapshot_changed:{self.backend}:{cls}", f"{dmg} (schedule {fmt_sched(sched)}, tasks {self.sc['tasks']!r})", sched)
        finally:
            run.close()
        return sched

    def exhaustive(self, cap: int) -> bool:
        """all interleavings by stateless depth-first search; False when the cap cut it short"""
        stack: list[list] = []  # [enabled, index]

        def chooser(depth: int, en: list[int]) -> int:
            if depth < len(stack):
                if stack[depth][0] != en:
                    raise RuntimeError(f"non-deterministic enabled set at depth {depth}: {stack[depth][0]} vs {en}")
                return en[stack[depth][1]]
            stack.append([en, 0])
            return en[0]

        while True:
            sched = self.run_schedule(chooser)
            del stack[len(sched):]
            while stack and stack[-1][1] + 1 >= len(stack[-1][0]):
                stack.pop()
            if not stack:
                return True
            if self.n_sched >= cap:
                return False
            stack[-1][1] += 1

    def fixed(self, schedule: list[int]) -> None:
        def chooser(depth: int, en: list[int]) -> int:
            if depth < len(schedule) and schedule[depth] in en:
                return schedule[depth]
            return en[0]

        self.run_schedule(chooser)

    def random(self, rng: Any, n: int) -> None:
        for _ in range(n):
            self.run_schedule(lambda depth, en: rng.choice(en))

    def random_cancels(self, rng: Any, n: int) -> None:
        """random schedules in which every cancellation falls at a uniformly chosen action index (a cancel
        action is offered at every point, so a uniform choice among the offered actions would fire it early)"""
        self.sampled = True
        for _ in range(n):
            when = {t: rng.randrange(0, 7) for t in self.cancellable}

            def chooser(depth: int, acts: list[int]) -> int:
                due = [a for a in acts if is_cancel(a) and when[-a - 1] <= depth]
                if due:
                    return due[0]
                rest = [a for a in acts if not is_cancel(a)]
                return rng.choice(rest) if rest else acts[0]

            self.run_schedule(chooser)


# --------------------------------------------------------------------------
# scenario generation


def gen_task(S: Any, rng: Any, kind: str) -> list:
    lv = S.kind_level(kind)
    x = rng.random()
    keys = ["x", "y", "l"] if lv is None else [f for f, _ in S.fields_of(lv)]

    def small() -> Any:
        return rng.choice([0, 1, 5, "s", None, [1], {"k": 1}, True, 2.5])

    def mut() -> list:
        y = rng.random()
        if lv is None:
            k = rng.choice(keys)
            if y < 0.4:
                return ["I", k, rng.randrange(1, 9)]
            if y < 0.65:
                return ["A", k, small()]
            if y < 0.9:
                return ["K", k, small()]
            return ["D", k]
        if y < 0.45:
            return ["I", rng.choice([f for f in keys if S.FIELD_TYPES.get(f) in (None, int)]), rng.randrange(1, 9)]
        if y < 0.7:
            return ["A", rng.choice([f for f in keys if S.FIELD_TYPES.get(f) in (None, list)]), small()]
        f = rng.choice(keys)
        return ["K", f, S.gen_field_value(rng, f, 1)]

    if x < 0.45:
        chunks = [[mut() for _ in range(rng.randrange(0, 3))] for _ in range(rng.choice([1, 2, 2, 3]))]
        return ["edit", chunks]
    if x < 0.65:
        if lv is None:
            path = rng.choice(["x", "y", "l", "x.a", "l.0", "y.b.c"])
            return ["set", path, small()]
        f = rng.choice(keys)
        if S.FIELD_TYPES.get(f) is None and rng.random() < 0.3:
            return ["set", f + ".k", small()]
        return ["set", f, S.gen_field_value(rng, f, 1)]
    if x < 0.9:
        op = S.gen_setstate(rng, kind)
        return op
    return ["clear"]


def add_spawns(S: Any, rng: Any, sc: dict) -> None:
    """turn 1-2 tasks into tasks that an edit_state body creates (`create_task` inside the open block, at the start
    of one of its chunks); creators have smaller numbers than what they create, so chains (a created task that
    itself creates one) occur and cycles do not.  Most created tasks are plain writers (`set` / `set_state` /
    `clear`) aimed at a key that a multi-chunk block works on: the conflict C20 is about"""
    tasks, kind = sc["tasks"], sc["kind"]
    n = len(tasks)
    lv = S.kind_level(kind)
    spawn: list[list[int]] = []
    for c in rng.sample(range(1, n), min(n - 1, 1 if rng.random() < 0.7 else 2)):
        creators = [p for p in range(c) if tasks[p][0] == "edit"]
        if not creators:
            continue
        p = rng.choice(creators)
        k = rng.randrange(len(tasks[p][1] or [[]]))
        spawn.append([c, p, k])
        x = rng.random()
        if x < 0.6:
            keys = [m[1] for t in tasks if t[0] == "edit" and len(t[1]) > 1 for ch in t[1] for m in ch if len(m) > 1]
            if keys:
                key = rng.choice(keys)
                val = rng.choice([0, 5, 10, "s", [7]]) if lv is None else S.gen_field_value(rng, key, 1)
                tasks[c] = ["set", key, val]
        elif x < 0.75 and tasks[c][0] == "edit":
            tasks[c] = gen_task(S, rng, kind)
    if spawn:
        sc["spawn"] = sorted(spawn)


# how long the slow calls inside a block take (virtual seconds): around and far beyond any bound somebody might put on
# a lock wait (half a minute, a minute, five, an hour, a day)
SLOW_CALLS = [1, 5, 10, 29, 30, 31, 45, 60, 61, 90, 120, 300, 301, 600, 900, 1800, 3600, 7200, 86400]


def add_durations(S: Any, rng: Any, sc: dict) -> None:
    """the awaits inside multi-chunk edit_state bodies become slow calls (the block stays open for seconds to a day of
    virtual time), and most of the other tasks become writers aimed at what such a block works on: `set` of one of its
    keys, `set_state` / `clear` of the whole state, or another edit of the same key"""
    tasks, kind = sc["tasks"], sc["kind"]
    lv = S.kind_level(kind)
    slow = [i for i, t in enumerate(tasks) if t[0] == "edit" and len(t[1]) > 1]
    dur: list[list[int]] = [[] for _ in tasks]
    for i in slow:
        dur[i] = [rng.choice(SLOW_CALLS) if rng.random() < 0.85 else 0 for _ in range(len(tasks[i][1]) - 1)]
    if slow and not any(x > 0 for d in dur for x in d):
        dur[slow[0]][0] = rng.choice(SLOW_CALLS)
    sc["dur"] = dur
    spawned = {c for c, _p, _k in sc.get("spawn") or []}
    keys = [m[1] for i in slow for ch in tasks[i][1] for m in ch if len(m) > 1]
    for c in range(len(tasks)):
        if c in slow[:1] or c in spawned or rng.random() < 0.35:
            continue
        x = rng.random()
        if x < 0.4 and keys:
            key = rng.choice(keys)
            val = rng.choice([0, 5, 10, "s", [7]]) if lv is None else S.gen_field_value(rng, key, 1)
            tasks[c] = ["set", key, val]
        elif x < 0.7:
            tasks[c] = ["setstate", "same", S.gen_state_data(rng, kind) if lv is not None
                        else {k: rng.choice([5, 7, "s", [1]]) for k in rng.sample(["x", "y", "l"], rng.randrange(1, 3))}]
        elif x < 0.8:
            tasks[c] = ["clear"]
        elif keys:
            key = rng.choice(keys)
            if lv is None or S.FIELD_TYPES.get(key) in (None, int):
                tasks[c] = ["edit", [[["I", key, rng.randrange(1, 9)]]]]


def add_reader(S: Any, rng: Any, sc: dict) -> None:
    """one task that is not a slow block becomes a reader (`get` of a key a block works on)"""
    tasks = sc["tasks"]
    slow = [i for i, t in enumerate(tasks) if t[0] == "edit" and len(t[1]) > 1]
    spawned = {c for c, _p, _k in sc.get("spawn") or []}
    cands = [c for c in range(len(tasks)) if c not in slow[:1] and c not in spawned]
    keys = [m[1] for i in slow for ch in tasks[i][1] for m in ch if len(m) > 1] or ["x" if sc["kind"] == "dict" else "cnt"]
    if cands:
        c = rng.choice(cands)
        tasks[c] = ["get", rng.choice(keys)]
        if sc.get("dur"):
            sc["dur"][c] = []


def gen_scenario(S: Any, rng: Any, n_tasks: int, cancels: bool = False, spawns: bool = False, timed: bool = False,
                 reader: bool = False) -> dict:
    kind = rng.choice(S.KINDS)
    init = None if rng.random() < 0.25 else S.gen_state_data(rng, kind)
    if kind == "dict" and init is not None:
        init = {k: v for k, v in zip(["x", "y", "l"], [rng.randrange(0, 5), rng.choice([0, "s", [1]]), [1, 2]]) if rng.random() < 0.8}
    tasks = [gen_task(S, rng, kind) for _ in range(n_tasks)]
    if not any(t[0] == "edit" and len(t[1]) > 1 for t in tasks):
        tasks[0] = ["edit", [[["I", "x" if kind == "dict" else "cnt", 1]], [["I", "x" if kind == "dict" else "a", 2]]]]
    sc = {"kind": kind, "init": init, "tasks": tasks}
    if spawns:
        add_spawns(S, rng, sc)
    if timed:
        add_durations(S, rng, sc)
    if reader:
        add_reader(S, rng, sc)
    if cancels:
        # 1-2 tasks that the scheduler may cancel at any point (not started / queued on the lock / inside the body)
        k = 1 if n_tasks < 3 or rng.random() < 0.6 else 2
        sc["cancel"] = sorted(rng.sample(range(n_tasks), k))
    return sc


# --------------------------------------------------------------------------


def run(env: Env) -> Outcome:
    from .. import ss_common as S

    out = Outcome()
    out.rule = ("per action (section of a task / Task.cancel() / tick of virtual time): driver(TSys mem/sql) == observed (store "
                "content, lock holder, waiter FIFO, task positions incl. pending cancellations and tasks not created yet, log, "
                "clock, set of ready tasks); monitors: final state of every "
                "interleaving is a serial outcome, on the real store, of the operations that took effect (all of them without "
                "cancellation; a task created inside an edit_state block after that block); both backends "
                "reach the same set of final states; mid-run snapshots keep their top level; nothing is stuck; no write returns "
                "while another task's edit_state block is open; blocks held open for 1 s .. 1 day of virtual time reach only final "
                "states that bare yields reach too")
    sqlenv = S.SqlEnv()
    explorers: list[tuple[str, Explorer]] = []
    try:
        scenarios: list[tuple[str, dict, str]] = []  # (tag, scenario, mode)
        if env.replay is not None:
            c = env.replay.get("payload", {}).get("case")
            if isinstance(c, dict) and "tasks" in c:
                scenarios.append(("replay", c, "fixed"))
        try:
            corpus = json.load(open(CORPUS))["cases"]
        except OSError:
            corpus = []
            out.notes.append("corpus file missing: " + CORPUS)
        for c in corpus:
            scenarios.append(("corpus:" + c.get("name", "?"), c, "fixed" if "schedule" in c else "exhaustive"))
            if "schedule" in c:
                c2 = {k: v for k, v in c.items() if k not in ("schedule", "backend")}
                scenarios.append(("corpus:" + c.get("name", "?"), c2, "exhaustive"))
        n2 = env.budget(6, 60)
        n3 = env.budget(3, 40)
        nbig = env.budget(1, 25)
        for _ in range(n2):
            scenarios.append(("gen2", gen_scenario(S, env.rng, 2), "exhaustive"))
        for _ in range(n3):
            scenarios.append(("gen3", gen_scenario(S, env.rng, 3), "exhaustive"))
        for _ in range(nbig):
            scenarios.append(("gen45", gen_scenario(S, env.rng, env.rng.choice([4, 5])), "random"))
        # the same with cancellations: 1-2 designated tasks may be cancelled at every point of every interleaving
        for _ in range(env.budget(3, 30)):
            scenarios.append(("gen2c", gen_scenario(S, env.rng, 2, cancels=True), "exhaustive"))
        for _ in range(env.budget(4, 40)):
            scenarios.append(("gen3c", gen_scenario(S, env.rng, 3, cancels=True), "exhaustive"))
        for _ in range(env.budget(1, 15)):
            scenarios.append(("gen45c", gen_scenario(S, env.rng, env.rng.choice([4, 5]), cancels=True), "random"))
        # the same with tasks created inside an open edit_state block (a creator is task 0 or a later edit)
        for _ in range(env.budget(4, 40)):
            scenarios.append(("gen2s", gen_scenario(S, env.rng, 2, spawns=True), "exhaustive"))
        for _ in range(env.budget(5, 50)):
            scenarios.append(("gen3s", gen_scenario(S, env.rng, 3, spawns=True), "exhaustive"))
        for _ in range(env.budget(1, 15)):
            scenarios.append(("gen45s", gen_scenario(S, env.rng, env.rng.choice([4, 5]), spawns=True), "random"))
        for _ in range(env.budget(2, 25)):
            scenarios.append(("gen3sc", gen_scenario(S, env.rng, 3, cancels=True, spawns=True), "exhaustive"))
        # blocks that stay open over (virtual) time: the awaits inside edit_state bodies take seconds to a day, the
        # scheduler may let time pass whenever a timer is pending, other tasks write meanwhile
        for _ in range(env.budget(6, 60)):
            scenarios.append(("gen2t", gen_scenario(S, env.rng, 2, timed=True), "exhaustive"))
        for _ in range(env.budget(4, 40)):
            scenarios.append(("gen3t", gen_scenario(S, env.rng, 3, timed=True), "exhaustive"))
        for _ in range(env.budget(1, 15)):
            scenarios.append(("gen45t", gen_scenario(S, env.rng, env.rng.choice([4, 5]), timed=True), "random"))
        for _ in range(env.budget(2, 25)):
            scenarios.append(("gen3tc", gen_scenario(S, env.rng, 3, cancels=True, timed=True), "exhaustive"))
        for _ in range(env.budget(2, 25)):
            scenarios.append(("gen3ts", gen_scenario(S, env.rng, 3, spawns=True, timed=True), "exhaustive"))
        # ... and with a reader among them (monitors only: readers are not part of the model)
        for _ in range(env.budget(2, 25)):
            scenarios.append(("gen3tr", gen_scenario(S, env.rng, 3, timed=True, reader=True), "exhaustive"))
        for _ in range(env.budget(1, 15)):
            scenarios.append(("gen3trc", gen_scenario(S, env.rng, 3, cancels=True, timed=True, reader=True), "exhaustive"))
        cap = 60 if env.tier == "quick" else 400

        for tag, sc, mode in scenarios:
            per_backend: dict[str, Explorer] = {}
            backends = [sc["backend"]] if (mode == "fixed" and sc.get("backend")) else ["mem", "sql"]
            for be in backends:
                ex = Explorer(S, sqlenv, out, sc, be, snapshots=True)
                if mode == "fixed":
                    ex.fixed(sc["schedule"])
                elif mode == "exhaustive":
                    complete = ex.exhaustive(cap if not ex.cancellable else (2 if env.tier == "quick" else 3) * cap)
                    ex.complete = complete
                    out.count("exhaustive_complete" if complete else "exhaustive_capped")
                    if not complete and ex.cancellable:  # the depth-first order reaches only late cancellations before the cap
                        ex.random_cancels(env.rng, 20 if env.tier == "quick" else 80)
                elif ex.cancellable:
                    ex.random_cancels(env.rng, 12 if env.tier == "quick" else 40)
                else:
                    ex.random(env.rng, 12 if env.tier == "quick" else 40)
                per_backend[be] = ex
                explorers.append((tag, ex))
                out.traces_validated += ex.n_sched
                out.count("schedules:" + be, ex.n_sched)
                out.violations += ex.viol
            # how long a block stays open must not matter: every final state of the scenario is also a final state of the
            # same scenario with bare yields instead of the slow calls (all interleavings of both)
            if is_timed(sc) and mode == "exhaustive" and len(per_backend) == 2 \
                    and not any(ex.viol or ex.sampled or ex.cancellable or not ex.complete for ex in per_backend.values()):
                sc0 = {k: v for k, v in sc.items() if k not in ("dur", "schedule", "backend")}
                for be in backends:
                    ex0 = Explorer(S, sqlenv, out, sc0, be, snapshots=False)
                    ex0.complete = ex0.exhaustive(cap)
                    explorers.append((tag + "/untimed", ex0))
                    out.traces_validated += ex0.n_sched
                    out.violations += ex0.viol
                    a, b = per_backend[be].finals, ex0.finals
                    out.count("durations_vs_bare_yields:" + ("compared" if ex0.complete else "capped"))
                    if ex0.complete and not ex0.viol and set(a) - set(b):
                        # (the other inclusion does not hold: time passes only when no section is ready, so a task that
                        # is ready while a block sleeps always queues before the block goes on - fewer interleavings)
                        only = sorted(set(a) - set(b))[0]
                        case = dict(sc)
                        case["schedule"], case["backend"] = a[only], be
                        out.violations.append(Violation(
                            f"C20/duration_changes_outcomes:{be}:{op_kinds(sc)}",
                            f"{be} store, tasks {sc['tasks']!r}, init {sc.get('init')!r}: final state {only!r} is reached only "
                            f"when the awaits inside the blocks take {durations(sc)!r} s (schedule {fmt_sched(a[only])}), by no "
                            f"interleaving when they are bare yields; the time a block stays open must not matter", case))
            out.count("scenario:" + tag.split(":")[0])
            if is_timed(sc):
                for d in durations(sc):
                    for x in d:
                        out.count("await_in_block_seconds:" + dur_class(x))
            out.count("kind:" + sc["kind"])
            for op in sc["tasks"]:
                out.count("task:" + op[0])
            for t in (sc.get("cancel") or []) if mode != "fixed" else []:
                out.count("cancellable:" + sc["tasks"][t][0])
            for c, (p, k) in spawn_map(sc).items():
                if c < len(sc["tasks"]) and p < len(sc["tasks"]):
                    out.count(f"created_in_block:{sc['tasks'][c][0]}@chunk{min(k, 3)}of{min(len(sc['tasks'][p][1] or [[]]), 3) if sc['tasks'][p][0] == 'edit' else 0}")
            out.nontrivial((sc["kind"], sc["tasks"], sc.get("init"), sc.get("spawn")))
            # (a multi-chunk edit cancelled inside its body leaves its finished chunks in memory, nothing in SQLite)
            abortable = any(sc["tasks"][t][0] == "edit" and len(sc["tasks"][t][1]) > 1 for t in per_backend["mem"].cancellable) \
                if "mem" in per_backend else False
            if mode == "exhaustive" and len(per_backend) == 2 and not per_backend["mem"].raises and not abortable \
                    and not any(ex.viol for ex in per_backend.values()) \
                    and not any(ex.sampled for ex in per_backend.values()):
                a, b = per_backend["mem"].finals, per_backend["sql"].finals
                if set(a) != set(b):
                    only = sorted(set(a) ^ set(b))[0]
                    who = "mem" if only in a else "sql"
                    sched = (a if only in a else b)[only]
                    case = dict(sc)
                    case["schedule"], case["backend"] = sched, who
                    out.violations.append(Violation(
                        f"C20/backends_disagree:{op_kinds(sc)}",
                        f"tasks {sc['tasks']!r}, init {sc.get('init')!r}: final state {only!r} is reached only by the {who} store "
                        f"(schedule {sched})", case))
            if tag.startswith("gen") and per_backend:
                any_ex = next(iter(per_backend.values()))
                out.sample({"scenario": sc, "schedules": any_ex.n_sched, "finals": sorted(any_ex.finals)[:3]}, cap=4)

        # ---- correspondence with the model driver (one batch)
        lines: list[str] = []
        impl: list[str] = []
        owner: list[int] = []
        for idx, (_tag, ex) in enumerate(explorers):
            lines += ex.lines
            impl += ex.impl
            owner += [idx] * len(ex.lines)
        # malformed and out-of-range actions: the driver answers them, it does not guess (a finished or already
        # cancelled task cannot be cancelled again: Task.cancel() returns False / changes nothing)
        extra = [(f"cinit|mem|dict|{S.schema_enc()}|-", "ok"), ("ctask|clear", "ok"), ("ccancel|", "bad-op"), ("ccancel|x", "bad-op"),
                 ("ccancel|0|1", "bad-op"), ("crun|-1", "bad-op"), ("ccancel|7", "disabled"), ("crun|7", "disabled"),
                 ("ccancel|0", "ok state dict o0 holder=- queue= pcs=Ic log="), ("ccancel|0", "disabled"),
                 ("crun|0", "ok state dict o0 holder=- queue= pcs=X log="), ("ccancel|0", "disabled"), ("crun|0", "disabled"),
                 # a task that has not been created cannot run or be cancelled; a second creator for it is refused
                 (f"cinit|mem|dict|{S.schema_enc()}|-", "ok"), ("ctask|edit|a1 a0", "ok"), ("ctask|clear", "ok"),
                 ("cspawn|1|0", "bad-op"), ("cspawn|1|x|0", "bad-op"), ("cspawn|1|0|0", "ok"), ("cspawn|1|0|1", "bad-op"),
                 ("crun|1", "disabled"), ("ccancel|1", "disabled"),
                 ("crun|0", "ok state dict o0 holder=- queue= pcs=D,I log=0"), ("ccancel|1", "ok state dict o0 holder=- queue= pcs=D,Ic log=0"),
                 # time: a task asleep at a slow call inside its block cannot run until the call is over, whatever else happens
                 (f"cinit|mem|dict|{S.schema_enc()}|-", "ok"), ("ctask|edit|a2 a0 a0", "ok"), ("ctask|clear", "ok"),
                 ("cdur|0", "bad-op"), ("cdur|0|x", "bad-op"), ("cdur|0|7", "ok"), ("cdur|0|8", "bad-op"), ("cready", "ready 0,1"),
                 ("crun|0", "ok state dict o0 holder=0 queue= pcs=B1,I log="), ("cready", "ready 1"), ("crun|0", "disabled"),
                 ("ctick|x", "bad-op"), ("ctick|", "bad-op"), ("ctick|6", "ok state dict o0 holder=0 queue= pcs=B1,I log= now=6"),
                 ("crun|0", "disabled"), ("crun|1", "ok state dict o0 holder=0 queue=1 pcs=B1,W log="), ("cready", "ready "),
                 ("ctick|1", "ok state dict o0 holder=0 queue=1 pcs=B1,W log= now=7"), ("cready", "ready 0"), ("crun|1", "disabled"),
                 ("crun|0", "ok state dict o0 holder=- queue=1 pcs=D,W log=0"), ("cready", "ready 1"), ("cready|1", "bad-op")]
        lines += [l for l, _ in extra]
        impl += [e for _, e in extra]
        owner += [-1] * len(extra)
        out.count("malformed_or_disabled_actions", sum(1 for _l, e in extra if e in ("bad-op", "disabled")))
        model_out = Driver(MODEL).run(lines) if lines else []
        seen_div = 0
        for i, (mo, io) in enumerate(zip(model_out, impl)):
            if line_act(lines[i]) is not None:
                out.disagreements_checked += 1
            if mo != io and owner[i] < 0:
                out.divergences.append(Divergence(f"{MODEL}/sys-malformed", i, lines[i], mo, io, None))
                continue
            if mo != io:
                tag, ex = explorers[owner[i]]
                # the schedule this line belongs to: back to the preceding cinit
                j = i
                while j > 0 and not lines[j].startswith("cinit|"):
                    j -= 1
                sched = [a for a in map(line_act, lines[j:i + 1]) if a is not None]
                case = dict(ex.sc)
                case["schedule"], case["backend"] = sched, ex.backend
                out.divergences.append(Divergence(f"{MODEL}/sys-{ex.backend}", len(sched) - 1, lines[i], mo, io,
                                                  {"case": case, "source": tag}))
                seen_div += 1
                if seen_div >= 3:
                    break
        if len(model_out) != len(lines):
            out.divergences.append(Divergence(MODEL, len(model_out), "<end>", "<missing>", f"{len(lines)} lines expected", None))
    finally:
        sqlenv.close()
        asyncio.set_event_loop(None)
    return out
