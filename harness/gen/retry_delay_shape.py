"""The path a granted retry takes from the reducer to its re-admission -> lean/WfModel/GenRetryDelayShape.lean.

Re-read from /repo's current `runtime/control_loop.py` and `runtime/types/step_function.py` on every run.  The hand-written
model has these pieces as `applyRes` (`.failed` arm: the record put into the `queueEvent`), `execCmd` (`.queueEvent`:
`delay > 0` parks on the heap for `now + delay`, else the buffer), `Runner.step .timer` (`at_ ≤ now`) and the environment
assumption of `C06_retry_never_before_its_delay` (a failure time is a reading of the clock the loop schedules with).
`C06_delay_source_shape` pins the strings below, so a change of any of these expressions stops the theorem from checking
(what the expressions compute is tied by the correspondence, not by this file).
"""
from __future__ import annotations

import ast

from ..boot import repo_path

LEAN_MODULE = "GenRetryDelayShape"
BASE = "packages/llama-index-workflows/src/workflows/runtime/"
MISSING = "<missing>"


def _lean_str(s: str) -> str:
    return '"' + s.replace("\\", "\\\\").replace('"', '\\"') + '"'


def _fn(tree: ast.AST, name: str) -> ast.AST | None:
    return next((n for n in ast.walk(tree) if isinstance(n, (ast.FunctionDef, ast.AsyncFunctionDef)) and n.name == name), None)


def _kwargs(call: ast.Call) -> str:
    return ", ".join(f"{k.arg}={ast.unparse(k.value)}" for k in call.keywords)


def _isinstance_branch(fn: ast.AST, var: str, cls: str) -> ast.If | None:
    for n in ast.walk(fn):
        if isinstance(n, ast.If):
            t = n.test
            if (isinstance(t, ast.Call) and isinstance(t.func, ast.Name) and t.func.id == "isinstance" and len(t.args) == 2
                    and isinstance(t.args[0], ast.Name) and t.args[0].id == var
                    and isinstance(t.args[1], ast.Name) and t.args[1].id == cls):
                return n
    return None


def generate(notes: list[str]) -> list[str]:
    vals: dict[str, str] = {k: MISSING for k in (
        "queueDelayTest", "queueDelayedBody", "queueUndelayedBody", "queueTickRecord", "popDueTest", "scheduleTickPush",
        "retryCommandRecord", "retryElapsed", "retryDelayGuard")}
    failed_at: list[str] = []
    try:
        tree = ast.parse(open(repo_path(BASE + "control_loop.py")).read())
        pc = _fn(tree, "process_command")
        br = _isinstance_branch(pc, "command", "CommandQueueEvent") if pc is not None else None
        if br is None:
            notes.append("retry_delay_shape: CommandQueueEvent branch of process_command not found")
        else:
            tick = next((c for c in ast.walk(br) if isinstance(c, ast.Call) and isinstance(c.func, ast.Name) and c.func.id == "TickAddEvent"), None)
            if tick is not None:
                vals["queueTickRecord"] = _kwargs(tick)
            inner = next((s for s in br.body if isinstance(s, ast.If)), None)
            if inner is None:
                notes.append("retry_delay_shape: delay test of the CommandQueueEvent branch not found")
            else:
                vals["queueDelayTest"] = ast.unparse(inner.test)
                vals["queueDelayedBody"] = " ; ".join(ast.unparse(s) for s in inner.body)
                vals["queueUndelayedBody"] = " ; ".join(ast.unparse(s) for s in inner.orelse)
        pop = _fn(tree, "pop_due_ticks")
        wh = next((n for n in ast.walk(pop) if isinstance(n, ast.While)), None) if pop is not None else None
        if wh is None:
            notes.append("retry_delay_shape: while loop of pop_due_ticks not found")
        else:
            vals["popDueTest"] = ast.unparse(wh.test)
        sch = _fn(tree, "schedule_tick")
        push = next((c for c in ast.walk(sch) if isinstance(c, ast.Call) and ast.unparse(c.func) in ("heapq.heappush", "heappush")), None) if sch is not None else None
        if push is None:
            notes.append("retry_delay_shape: heappush of schedule_tick not found")
        else:
            vals["scheduleTickPush"] = ast.unparse(push)
        red = _fn(tree, "_process_step_result_tick")
        fb = _isinstance_branch(red, "result", "StepWorkerFailed") if red is not None else None
        if fb is None:
            notes.append("retry_delay_shape: StepWorkerFailed branch of _process_step_result_tick not found")
        else:
            for n in ast.walk(fb):
                if isinstance(n, ast.Assign) and len(n.targets) == 1 and isinstance(n.targets[0], ast.Name) and n.targets[0].id == "elapsed_time":
                    vals["retryElapsed"] = ast.unparse(n.value)
                if isinstance(n, ast.If):
                    cq = [c for s in n.body for c in ast.walk(s) if isinstance(c, ast.Call) and isinstance(c.func, ast.Name)
                          and c.func.id == "CommandQueueEvent" and any(k.arg == "delay" for k in c.keywords)]
                    if cq:  # ast.walk is breadth-first: the innermost enclosing `if` wins
                        vals["retryDelayGuard"] = ast.unparse(n.test)
                        vals["retryCommandRecord"] = _kwargs(cq[0])
        for rel, t in (("control_loop.py", tree), ("types/step_function.py", None)):
            if t is None:
                t = ast.parse(open(repo_path(BASE + rel)).read())
            for c in ast.walk(t):
                if isinstance(c, ast.Call) and isinstance(c.func, ast.Name) and c.func.id == "StepWorkerFailed":
                    fa = next((ast.unparse(k.value) for k in c.keywords if k.arg == "failed_at"), MISSING)
                    failed_at.append(f"{fa}@{rel}")
    except (OSError, SyntaxError) as e:
        notes.append(f"retry_delay_shape: cannot parse: {e}")
    out = [
        "/-! Generated by harness/gen/retry_delay_shape.py from the current sources of run-llama/workflows-py. Do not edit. -/",
        "namespace GenRetryDelayShape",
    ]
    docs = {
        "queueDelayTest": "`process_command`, `CommandQueueEvent`: when the tick is parked instead of buffered",
        "queueDelayedBody": "... what parking does",
        "queueUndelayedBody": "... and the other branch",
        "queueTickRecord": "the `TickAddEvent` built from the command: the failure record travels with it",
        "popDueTest": "`pop_due_ticks`: when a parked tick is released",
        "scheduleTickPush": "`schedule_tick`",
        "retryCommandRecord": "`_process_step_result_tick`, `StepWorkerFailed`: the command of a granted retry",
        "retryElapsed": "... the elapsed time handed to `next()`",
        "retryDelayGuard": "... the test guarding it",
    }
    for k, v in vals.items():
        out.append(f"/-- {docs[k]} -/")
        out.append(f"def {k} : String := {_lean_str(v)}")
    out.append("/-- every construction of `StepWorkerFailed`: `<failed_at expression>@<file>` -/")
    out.append("def failedAtSources : List String := [" + ", ".join(_lean_str(x) for x in sorted(failed_at)) + "]")
    out.append("end GenRetryDelayShape")
    return out
