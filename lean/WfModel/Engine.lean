/-!
M1 — the workflow engine's pure reducer (`runtime/control_loop.py`:
`_reduce_tick`, `_process_*_tick`, `_add_or_enqueue_event`, `rewind_in_progress`,
`_check_idle_state`) over `runtime/types/internal_state.py`.

Conventions of the model (what is abstracted, all stated in DESIGN.md §3/§6):
* an event is `(ty, kind, uid, key, fail)`: its class id, the class' kind
  (`StartEvent`/`StopEvent`/`InputRequiredEvent` subclass or plain), an identity,
  the value of its single matchable field `k`, and the payload of a
  `StepFailedEvent`; exceptions, step names, waiter ids and buffer ids are `Nat`s;
* times are integers (the harness uses integral virtual seconds);
* the retry policy is an oracle `pol step elapsed failures exc : PolDecision`
  (a delay, give up, or raise); the policy itself is model M2;
* Python exceptions raised by the reducer (`IndexError` when no worker id is
  free, `ValueError`/`KeyError` for an unknown worker or step) appear as the
  explicit command `Cmd.crash`; theorems show it is unreachable.  An exception
  raised by the retry policy is caught by the reducer (no retry) and is not a crash.
Import-free so that `wfdriver` links.
-/
namespace Engine

inductive Kind | start | stop | inputRequired | plain
deriving DecidableEq, Repr, Inhabited

structure FailInfo where
  step : Nat
  inputUid : Nat
  exc : Nat
  attempts : Nat
  elapsed : Int
  failedAt : Int
deriving DecidableEq, Repr

structure Ev where
  ty : Nat
  kind : Kind
  uid : Nat
  key : Option Nat := none
  fail : Option FailInfo := none
deriving DecidableEq, Repr

/-- class id of `StepFailedEvent` -/
def tyStepFailed : Nat := 4

/-- recovery counts: handler step ↦ times entered on this lineage (a Python dict) -/
abbrev RC := List (Nat × Nat)

def RC.get (rc : RC) (h : Nat) : Nat :=
  match rc.find? (fun p => p.1 == h) with
  | some p => p.2
  | none => 0

/-- `{**rc, h: n}` -/
def RC.set (rc : RC) (h n : Nat) : RC :=
  if rc.any (fun p => p.1 == h) then rc.map (fun p => if p.1 == h then (h, n) else p)
  else rc ++ [(h, n)]

/-- `EventAttempt` -/
structure Attempt where
  ev : Ev
  attempts : Option Nat := none
  firstAt : Option Int := none
  lastExc : Option Nat := none
  lastFailedAt : Option Int := none
  rc : RC := []
deriving DecidableEq, Repr

/-- `StepWorkerWaiter` -/
structure Waiter where
  wid : Nat
  ev : Ev
  waitTy : Nat
  req : Option Nat
  hasReq : Bool
  resolved : Option Ev := none
  timedOut : Bool := false
  /-- attempt record of the invocation that suspended in the wait (its replay continues it) -/
  attempts : Nat := 0
  firstAt : Option Int := none
  lastExc : Option Nat := none
  lastFailedAt : Option Int := none
  rc : RC := []
deriving DecidableEq, Repr

/-- `_replay_attempt`: the attempt that replays a step suspended in `ctx.wait_for_event`;
it carries the retry counters and recovery counts the invocation had when it added the waiter -/
def Waiter.replay (w : Waiter) : Attempt :=
  { ev := w.ev, attempts := some w.attempts, firstAt := w.firstAt, lastExc := w.lastExc,
    lastFailedAt := w.lastFailedAt, rc := w.rc }

/-- a dict `buffer_id ↦ [events]` in insertion order -/
abbrev Collected := List (Nat × List Ev)

def Collected.get (c : Collected) (b : Nat) : List Ev :=
  match c.find? (fun p => p.1 == b) with
  | some p => p.2
  | none => []

def Collected.has (c : Collected) (b : Nat) : Bool := c.any (fun p => p.1 == b)

/-- `setdefault(b, [])` -/
def Collected.touch (c : Collected) (b : Nat) : Collected :=
  if c.has b then c else c ++ [(b, [])]

def Collected.append (c : Collected) (b : Nat) (e : Ev) : Collected :=
  (c.touch b).map (fun p => if p.1 == b then (b, p.2 ++ [e]) else p)

def Collected.pop (c : Collected) (b : Nat) : Collected := c.filter (fun p => !(p.1 == b))

/-- `InProgressState` -/
structure InProg where
  ev : Ev
  wid : Nat
  snapEvents : Collected
  snapWaiters : List Waiter
  attempts : Nat
  firstAt : Int
  lastExc : Option Nat := none
  lastFailedAt : Option Int := none
  rc : RC := []
deriving DecidableEq, Repr

/-- `InternalStepWorkerState` (minus the immutable config) -/
structure StepState where
  queue : List Attempt := []
  inProg : List InProg := []
  collected : Collected := []
  waiters : List Waiter := []
deriving DecidableEq, Repr

structure StepCfg where
  name : Nat
  accepted : List Nat
  numWorkers : Nat
  hasRetry : Bool
deriving DecidableEq, Repr

/-- `BrokerConfig`: steps in dict (registration) order; `handlerFor` maps a step to
its `@catch_error` handler step, `handlers` a handler step to `max_recoveries`. -/
structure Cfg where
  steps : List StepCfg
  handlerFor : List (Nat × Nat) := []
  handlers : List (Nat × Nat) := []
deriving Repr

def Cfg.find (cfg : Cfg) (s : Nat) : Option StepCfg := cfg.steps.find? (fun c => c.name == s)
def Cfg.nw (cfg : Cfg) (s : Nat) : Nat := match cfg.find s with | some c => c.numWorkers | none => 0
def Cfg.hasStep (cfg : Cfg) (s : Nat) : Bool := (cfg.find s).isSome
def Cfg.names (cfg : Cfg) : List Nat := cfg.steps.map (·.name)

def lookup (l : List (Nat × Nat)) (k : Nat) : Option Nat :=
  match l.find? (fun p => p.1 == k) with
  | some p => some p.2
  | none => none

/-- `BrokerState` (config kept separately; it is immutable) -/
structure State where
  isRunning : Bool
  workers : Nat → StepState

def State.set (st : State) (s : Nat) (ss : StepState) : State :=
  { st with workers := fun t => if t = s then ss else st.workers t }

inductive SS | preparing | running | notRunning
deriving DecidableEq, Repr

inductive OutName | unset | noneType | ty (n : Nat)
deriving DecidableEq, Repr

/-- events written to the published stream -/
inductive Pub
  | event (ev : Ev)
  | stepState (s : SS) (step : Nat) (inTy : Nat) (out : OutName) (worker : Option Nat)
  | idle
  | unhandled (ty : Nat) (step : Option Nat) (idle : Bool)
  | cancelled
  | failed (step : Nat) (exc : Nat) (attempts : Nat) (elapsed : Int)
  | timedOut (timeout : Nat) (active : List Nat)
  | idleReleased
deriving DecidableEq, Repr

inductive HaltKind | cancelledByUser | timeout
deriving DecidableEq, Repr

inductive Cmd
  | runWorker (step : Nat) (ev : Ev) (wid : Nat)
  | queueEvent (att : Attempt) (step : Option Nat) (delay : Option Nat)
  | halt (k : HaltKind)
  | completeRun (p : Pub)
  | failWorkflow (step : Nat) (exc : Nat)
  | publish (p : Pub)
  | scheduleIdleCheck
  | scheduleWaiterTimeout (step : Nat) (waiter : Nat) (timeout : Nat)
  | crash
deriving DecidableEq, Repr

def Cmd.isExit : Cmd → Bool
  | .halt _ => true
  | .completeRun _ => true
  | .failWorkflow _ _ => true
  | _ => false

/-- `StepFunctionResult` -/
inductive Res
  | result (r : Option Ev)
  | failed (exc : Nat) (failedAt : Int)
  | addCollected (buf : Nat) (ev : Ev)
  | deleteCollected (buf : Nat)
  | addWaiter (wid : Nat) (waiterEv : Option Ev) (req : Option Nat) (timeout : Option Nat) (ty : Nat)
  | deleteWaiter (wid : Nat)
deriving DecidableEq, Repr

inductive Tick
  | stepResult (step : Nat) (worker : Nat) (ev : Ev) (res : List Res)
  | addEvent (att : Attempt) (step : Option Nat)
  | cancelRun
  | idleRelease
  | publish (ev : Ev)
  | timeout (t : Nat)
  | waiterTimeout (step : Nat) (waiter : Nat)
  | idleCheck
deriving DecidableEq, Repr

/-- what `retry_policy.next(elapsed, failures, exception)` does: a delay, `None` (give up),
or — user-supplied policies are arbitrary code — an exception (which the reducer catches
and treats as `None`) -/
inductive PolDecision | retry (delay : Nat) | stop | raise
deriving DecidableEq, Repr

abbrev Policy := Nat → Int → Nat → Nat → PolDecision

def modifyFirst (p : α → Bool) (f : α → α) : List α → List α
  | [] => []
  | x :: xs => if p x then f x :: xs else x :: modifyFirst p f xs

/-! ### `_add_or_enqueue_event` -/

def usedIds (ss : StepState) : List Nat := ss.inProg.map (·.wid)

def freeIds (ss : StepState) (nw : Nat) : List Nat :=
  (List.range nw).filter (fun i => !(usedIds ss).contains i)

/-- `x or default` on an optional number (0 is falsy) -/
def orNat (x : Option Nat) (d : Nat) : Nat := match x with | some v => if v = 0 then d else v | none => d
def orInt (x : Option Int) (d : Int) : Int := match x with | some v => if v = 0 then d else v | none => d

def addOrEnqueue (att : Attempt) (step : Nat) (ss : StepState) (nw : Nat) (now : Int) :
    StepState × List Cmd :=
  if ss.inProg.length < nw then
    match freeIds ss nw with
    | id :: _ =>
      let ip : InProg :=
        { ev := att.ev, wid := id, snapEvents := ss.collected, snapWaiters := ss.waiters,
          attempts := orNat att.attempts 0, firstAt := orInt att.firstAt now,
          lastExc := att.lastExc, lastFailedAt := att.lastFailedAt, rc := att.rc }
      ({ ss with inProg := ss.inProg ++ [ip] },
        [.runWorker step att.ev id, .publish (.stepState .running step att.ev.ty .unset (some id))])
    | [] => (ss, [.crash])
  else
    ({ ss with queue := ss.queue ++ [att] },
      [.publish (.stepState .preparing step att.ev.ty .unset none)])

/-- `while queue and len(in_progress) < num_workers: add_or_enqueue(queue.pop(0))` -/
def drain (step nw : Nat) (now : Int) : Nat → StepState → StepState × List Cmd
  | 0, ss => (ss, [])
  | fuel + 1, ss =>
    match ss.queue with
    | [] => (ss, [])
    | a :: q =>
      if ss.inProg.length < nw then
        let r1 := addOrEnqueue a step { ss with queue := q } nw now
        let r2 := drain step nw now fuel r1.1
        (r2.1, r1.2 ++ r2.2)
      else (ss, [])

/-! ### `_check_idle_state` -/

def stepQuiet (ss : StepState) : Bool := ss.queue.isEmpty && ss.inProg.isEmpty

def checkIdle (cfg : Cfg) (st : State) : Bool :=
  st.isRunning && cfg.names.all (fun s => stepQuiet (st.workers s))

/-! ### `_process_add_event_tick` -/

def waiterMatches (w : Waiter) (ev : Ev) : Bool :=
  w.resolved.isNone && !w.timedOut && (ev.ty == w.waitTy) &&
    (match w.req with | none => true | some v => ev.key == some v)

/-- the inner `for wait_condition in wait_conditions` loop of one step -/
def resolveLoop (ev : Ev) (step nw : Nat) (now : Int) :
    List Waiter → List Waiter → StepState → List Cmd → Bool → StepState × List Cmd × Bool
  | done, [], ss, cmds, h => ({ ss with waiters := done }, cmds, h)
  | done, w :: rest, ss, cmds, h =>
    if waiterMatches w ev then
      let w' := { w with resolved := some ev }
      let r := addOrEnqueue w.replay step { ss with waiters := done ++ w' :: rest } nw now
      resolveLoop ev step nw now (done ++ [w']) rest r.1 (cmds ++ r.2) true
    else resolveLoop ev step nw now (done ++ [w]) rest ss cmds h

structure AddAcc where
  st : State
  cmds : List Cmd := []
  handled : Bool := false
  woken : List Nat := []

def addEventWaiters (cfg : Cfg) (ev : Ev) (target : Option Nat) (now : Int) :
    List StepCfg → AddAcc → AddAcc
  | [], acc => acc
  | c :: cs, acc =>
    if target.isSome && target != some c.name then addEventWaiters cfg ev target now cs acc
    else
      let ss := acc.st.workers c.name
      let r := resolveLoop ev c.name c.numWorkers now [] ss.waiters ss [] false
      let acc' : AddAcc :=
        if r.2.2 then
          { st := acc.st.set c.name r.1, cmds := acc.cmds ++ r.2.1, handled := true,
            woken := acc.woken ++ [c.name] }
        else acc
      addEventWaiters cfg ev target now cs acc'

def addEventRoute (att : Attempt) (target : Option Nat) (now : Int) :
    List StepCfg → AddAcc → AddAcc
  | [], acc => acc
  | c :: cs, acc =>
    if acc.woken.contains c.name then addEventRoute att target now cs acc
    else if c.accepted.contains att.ev.ty && (target.isNone || target == some c.name) then
      let r := addOrEnqueue att c.name (acc.st.workers c.name) c.numWorkers now
      addEventRoute att target now cs
        { acc with st := acc.st.set c.name r.1, cmds := acc.cmds ++ r.2, handled := true }
    else addEventRoute att target now cs acc

def addEventStart (att : Attempt) (st : State) : State :=
  if att.ev.kind = .start then { st with isRunning := true } else st

/-- the `if not handled:` tail: an `UnhandledEvent`, except for `InputRequiredEvent`s -/
def unhandledCmds (cfg : Cfg) (att : Attempt) (target : Option Nat) (a : AddAcc) : List Cmd :=
  if a.handled then []
  else if att.ev.kind = .inputRequired then []
  else [.publish (.unhandled att.ev.ty target (checkIdle cfg a.st))]

def processAddEvent (cfg : Cfg) (att : Attempt) (target : Option Nat) (st : State) (now : Int) :
    State × List Cmd :=
  let a1 := addEventWaiters cfg att.ev target now cfg.steps { st := addEventStart att st }
  let a2 := addEventRoute att target now cfg.steps a1
  (a2.st, a2.cmds ++ unhandledCmds cfg att target a2)

/-! ### `_process_step_result_tick` -/

/-- the waiter the `AddWaiter` branch records for the execution `x`: besides the replay event it
keeps the attempt record of `x` -/
def newWaiter (x : InProg) (wid ty : Nat) (req : Option Nat) : Waiter :=
  { wid := wid, ev := x.ev, waitTy := ty, req := req, hasReq := req.isSome,
    attempts := x.attempts, firstAt := some x.firstAt, lastExc := x.lastExc,
    lastFailedAt := x.lastFailedAt, rc := x.rc }

structure ResAcc where
  st : State
  cmds : List Cmd := []
  out : OutName := .unset
  stillInProgress : Bool := false
  exec : InProg

/-- `retries.next(elapsed, failures, exception)` when the step has a retry policy, else give up -/
def retryDecision (cfg : Cfg) (pol : Policy) (step : Nat) (elapsed : Int) (failures exc : Nat) : PolDecision :=
  match cfg.find step with
  | some c => if c.hasRetry then pol step elapsed failures exc else .stop
  | none => .stop

/-- the `@catch_error` handler that owns `step` and its `max_recoveries`
(`handler_for_step.get(step)` then `catch_error_handlers.get(...)`) -/
def handlerOwner (cfg : Cfg) (step : Nat) : Option (Nat × Nat) :=
  match lookup cfg.handlerFor step with
  | some h => (match lookup cfg.handlers h with | some m => some (h, m) | none => none)
  | none => none

def clearAll (st : State) : State :=
  { st with workers := fun s => { st.workers s with collected := [], waiters := [] } }

def applyRes (cfg : Cfg) (pol : Policy) (step : Nat) (tickEv : Ev) (didComplete : Bool) (acc : ResAcc) :
    Res → ResAcc
  | .result (some ev) =>
    if ev.kind = .stop then
      { acc with
        st := clearAll { acc.st with isRunning := false },
        cmds := acc.cmds ++ [.publish (.event ev), .completeRun (.event ev)],
        out := .ty ev.ty }
    else
      let pub := if ev.kind = .inputRequired then [Cmd.publish (.event ev)] else []
      { acc with
        cmds := acc.cmds ++ pub ++ [.queueEvent { ev := ev, rc := acc.exec.rc } none none],
        out := .ty ev.ty }
  | .result none => { acc with out := .noneType }
  | .failed exc failedAt =>
    -- already scheduled to run again with a refreshed snapshot (an earlier `AddCollectedEvent` of this list met a
    -- stale one): the failure of the stale execution is skipped (`if not step_no_longer_in_progress: continue`)
    if acc.stillInProgress then acc else
    let failures := acc.exec.attempts + 1
    let elapsed := failedAt - acc.exec.firstAt
    match retryDecision cfg pol step elapsed failures exc with
    | .retry d =>
      { acc with cmds := acc.cmds ++
          [.queueEvent { ev := tickEv, attempts := some failures, firstAt := some acc.exec.firstAt,
                         lastExc := some exc, lastFailedAt := some failedAt, rc := acc.exec.rc }
            (some step) (some d)] }
    -- `except Exception: delay = None`: a policy that raises grants no retry (it is logged);
    -- the step's own failure takes the exhausted path
    | .raise | .stop =>
      match handlerOwner cfg step with
      | some (h, maxRec) =>
        let newCount := acc.exec.rc.get h + 1
        if newCount ≤ maxRec then
          let sfe : Ev :=
            { ty := tyStepFailed, kind := .plain, uid := 0, key := none,
              fail := some { step := step, inputUid := tickEv.uid, exc := exc, attempts := failures,
                             elapsed := elapsed, failedAt := failedAt } }
          { acc with cmds := acc.cmds ++
              [.queueEvent { ev := sfe, rc := acc.exec.rc.set h newCount } (some h) none] }
        else
          { acc with
            st := { acc.st with isRunning := false },
            cmds := acc.cmds ++ [.publish (.failed step exc failures elapsed), .failWorkflow step exc] }
      | none =>
        { acc with
          st := { acc.st with isRunning := false },
          cmds := acc.cmds ++ [.publish (.failed step exc failures elapsed), .failWorkflow step exc] }
  | .addCollected buf ev =>
    -- already scheduled to run again with a refreshed snapshot: the remaining collect
    -- results of this tick are skipped (`if not step_no_longer_in_progress: continue`)
    if acc.stillInProgress then acc else
    let ss := acc.st.workers step
    let coll := ss.collected.touch buf
    let st1 := acc.st.set step { ss with collected := coll }
    if (coll.get buf).length > (acc.exec.snapEvents.get buf).length then
      { acc with
        st := st1, stillInProgress := true,
        exec := { acc.exec with snapEvents := coll },
        cmds := acc.cmds ++ [.runWorker step ev acc.exec.wid] }
    else
      { acc with st := acc.st.set step { ss with collected := coll.append buf ev } }
  | .deleteCollected buf =>
    if didComplete then
      let ss := acc.st.workers step
      { acc with st := acc.st.set step { ss with collected := ss.collected.pop buf } }
    else acc
  | .addWaiter wid waiterEv req timeout ty =>
    let ss := acc.st.workers step
    let w : Waiter := newWaiter acc.exec wid ty req
    if ss.waiters.any (fun x => x.wid == wid) then
      -- replace the first waiter with this id
      let ws := modifyFirst (fun x => x.wid == wid) (fun _ => w) ss.waiters
      { acc with st := acc.st.set step { ss with waiters := ws } }
    else
      let pub := match waiterEv with | some e => [Cmd.publish (.event e)] | none => []
      let tmo := match timeout with | some t => [Cmd.scheduleWaiterTimeout step wid t] | none => []
      { acc with
        st := acc.st.set step { ss with waiters := ss.waiters ++ [w] },
        cmds := acc.cmds ++ pub ++ tmo }
  | .deleteWaiter wid =>
    if didComplete then
      let ss := acc.st.workers step
      { acc with st := acc.st.set step { ss with waiters := ss.waiters.eraseP (fun x => x.wid == wid) } }
    else acc

def isResult : Res → Bool | .result _ => true | _ => false

/-- after the results: either the execution stays in progress (collect re-run: its
snapshot is rewritten in place) or it is removed and `NOT_RUNNING` is published first -/
def settle (acc : ResAcc) (step worker : Nat) (tickEv : Ev) : StepState × List Cmd :=
  let ss := acc.st.workers step
  if acc.stillInProgress then
    ({ ss with inProg := modifyFirst (fun w => w.wid == worker) (fun _ => acc.exec) ss.inProg },
      acc.cmds)
  else
    ({ ss with inProg := ss.inProg.eraseP (fun w => w.wid == worker) },
      Cmd.publish (.stepState .notRunning step tickEv.ty acc.out (some worker)) :: acc.cmds)

def processStepResult (cfg : Cfg) (pol : Policy) (step worker : Nat) (tickEv : Ev) (res : List Res)
    (st : State) (now : Int) : State × List Cmd :=
  if !cfg.hasStep step then (st, [.crash]) else
  match (st.workers step).inProg.find? (fun w => w.wid == worker) with
  | none => (st, [.crash])
  | some exec =>
    let acc := res.foldl (applyRes cfg pol step tickEv (res.any isResult)) { st := st, exec := exec }
    let r1 := settle acc step worker tickEv
    if acc.cmds.any Cmd.isExit then (acc.st.set step r1.1, r1.2)
    else
      let r := drain step (cfg.nw step) now r1.1.queue.length r1.1
      (acc.st.set step r.1, r1.2 ++ r.2)

/-! ### remaining ticks -/

def processWaiterTimeout (cfg : Cfg) (step waiter : Nat) (st : State) (now : Int) : State × List Cmd :=
  if !cfg.hasStep step then (st, []) else
  let ss := st.workers step
  match ss.waiters.find? (fun w => w.wid == waiter) with
  | none => (st, [])
  | some w =>
    if w.resolved.isSome then (st, [])
    else
      let ws := modifyFirst (fun x => x.wid == waiter) (fun x => { x with timedOut := true }) ss.waiters
      let r := addOrEnqueue w.replay step { ss with waiters := ws } (cfg.nw step) now
      (st.set step r.1, r.2)

def activeSteps (cfg : Cfg) (st : State) : List Nat :=
  cfg.names.filter (fun s => !(st.workers s).inProg.isEmpty)

/-- `_reduce_tick` -/
def reduce (cfg : Cfg) (pol : Policy) (tick : Tick) (st : State) (now : Int) : State × List Cmd :=
  let withIdle (r : State × List Cmd) : State × List Cmd :=
    if checkIdle cfg r.1 then (r.1, r.2 ++ [.scheduleIdleCheck]) else r
  match tick with
  | .stepResult step worker ev res => withIdle (processStepResult cfg pol step worker ev res st now)
  | .addEvent att target => withIdle (processAddEvent cfg att target st now)
  | .cancelRun => withIdle (st, [.publish .cancelled, .halt .cancelledByUser])
  | .idleRelease => (st, [.completeRun .idleReleased])
  | .publish ev => withIdle (st, [.publish (.event ev)])
  | .timeout t =>
    withIdle ({ st with isRunning := false },
      [.publish (.timedOut t (activeSteps cfg st)), .halt .timeout])
  | .waiterTimeout step waiter => withIdle (processWaiterTimeout cfg step waiter st now)
  | .idleCheck => if checkIdle cfg st then (st, [.publish .idle]) else (st, [])

/-! ### `rewind_in_progress` -/

def insertSorted (c : StepCfg) : List StepCfg → List StepCfg
  | [] => [c]
  | d :: ds => if c.name ≤ d.name then c :: d :: ds else d :: insertSorted c ds

def sortedSteps (cfg : Cfg) : List StepCfg := cfg.steps.foldr insertSorted []

def inProgToAttempt (ip : InProg) : Attempt :=
  { ev := ip.ev, attempts := some ip.attempts, firstAt := some ip.firstAt, lastExc := ip.lastExc,
    lastFailedAt := ip.lastFailedAt, rc := ip.rc }

/-- per step: every in-progress entry is `insert(0, …)`-ed (so they end up reversed),
`in_progress` is emptied and the queue is drained into free workers -/
def rewindStep (c : StepCfg) (ss : StepState) (now : Int) : StepState × List Cmd :=
  let q := (ss.inProg.map inProgToAttempt).reverse ++ ss.queue
  let ss1 := { ss with queue := q, inProg := [] }
  drain c.name c.numWorkers now q.length ss1

def rewindLoop (now : Int) : List StepCfg → State → List Cmd → State × List Cmd
  | [], st, cmds => (st, cmds)
  | c :: cs, st, cmds =>
    let r := rewindStep c (st.workers c.name) now
    rewindLoop now cs (st.set c.name r.1) (cmds ++ r.2)

def rewind (cfg : Cfg) (st : State) (now : Int) : State × List Cmd :=
  rewindLoop now (sortedSteps cfg) st []

/-- `BrokerState.from_workflow` -/
def initState : State := { isRunning := false, workers := fun _ => {} }

end Engine
